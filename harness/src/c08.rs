//! C08: compiled policies keep their meaning and are sane in the target context —
//! TRANSLATION VALIDATION.  The compiler is not modelled; every output of every public compile
//! entry point is converted back into the neutral AST (`from_ms`, by matching on the real
//! `Terminal` tree and mapping keys / hashes back to table ids) and handed, together with the
//! type / ext annotation the compiler attached to EVERY node, to the Lean-verified checker
//! (`Model/CompileCheck.lean`, soundness: `Thm/C08.lean`):
//!
//!   J compiled   <ctx[:descriptor kind]> <policy> <ast> <annotations>
//!   J compiledtr <entry> <policy> <internal key id | UNSPENDABLE> <leaf;leaf;…|-> <annotations>
//!   J reparse    <target> <policy> <printed output> <verdict>      (verdict computed here)
//!   J nopanic compile <entry> <policy> <digest of the panic message> PANIC
//!   J compiles   <segwitv0|tap> <policy> <Ok|Err:kind|PANIC>        (policies with <= 4 leaves: the Lean side
//!                                                                   decides whether the policy is in the class that MUST compile)
//!   J trlift     <entry> <policy> <unspendable key id|-> <lift of the compiled tr descriptor, internal key included>
//!   J lift       <target> <policy> - <the library's lift of a compiled miniscript / non-tr descriptor>
//!   J desckind   <requested DescriptorCtx> <policy> <DescriptorType returned>
//!   C sane       <ctx> <ast>                                       (model of validate(Ctx::SANE))
//!
//! Policies are built over the table keys (`full_key(i)`, `xonly_key(200+i)`), table hashes
//! and small lock values by direct enum construction.  Every compile call runs under
//! `catch_unwind`; compile errors are counted by kind (they are not violations), a panic is.
use std::collections::BTreeSet;
use std::panic::{catch_unwind, AssertUnwindSafe};
use std::str::FromStr;
use std::sync::Arc;
use std::time::Instant;

use miniscript::bitcoin::hashes::{hash160, ripemd160, sha256, Hash};
use miniscript::bitcoin::secp256k1::XOnlyPublicKey;
use miniscript::bitcoin::PublicKey;
use miniscript::descriptor::ShInner;
use miniscript::policy::concrete::DescriptorCtx;
use miniscript::policy::{Concrete, Liftable, Semantic};
use miniscript::{
    hash256, AbsLockTime, BareCtx, Descriptor, Legacy, Miniscript, RelLockTime, ScriptContext,
    Segwitv0, Tap, Terminal, Threshold,
};

use crate::ast::{self, CtxK, KeyOf, Node, HK};
use crate::c05::ts;
use crate::c18::{ca_wire, A, CA};
use crate::common::{Out, Rng};
use crate::msops::{self, hash_id, show_ext};
use crate::with_ctx;

/// key id handed to the tr entry points as "unspendable key" (never used inside a policy)
const UNSPENDABLE: u32 = 9;

/* ------------------------------------------------------------------ policies */

fn remap(c: &CA, base: u32) -> CA {
    match c {
        CA::Leaf(A::Key(i)) => CA::Leaf(A::Key(base + i)),
        CA::Leaf(l) => CA::Leaf(l.clone()),
        CA::And(s) => CA::And(s.iter().map(|x| remap(x, base)).collect()),
        CA::Or(s) => CA::Or(s.iter().map(|(w, x)| (*w, remap(x, base))).collect()),
        CA::Thresh(k, s) => CA::Thresh(*k, s.iter().map(|x| remap(x, base)).collect()),
    }
}

fn build<Pk: KeyOf>(c: &CA) -> Option<Concrete<Pk>> {
    Some(match c {
        CA::Leaf(A::Unsat) => Concrete::Unsatisfiable,
        CA::Leaf(A::Triv) => Concrete::Trivial,
        CA::Leaf(A::Key(i)) => Concrete::Key(Pk::of(*i)),
        CA::Leaf(A::After(n)) => Concrete::After(AbsLockTime::from_consensus(*n).ok()?),
        CA::Leaf(A::Older(n)) => Concrete::Older(RelLockTime::from_consensus(*n).ok()?),
        CA::Leaf(A::Hash(0, h)) => Concrete::Sha256(sha256::Hash::from_slice(&ast::hash_value(HK::Sha256, *h)).ok()?),
        CA::Leaf(A::Hash(1, h)) => Concrete::Hash256(hash256::Hash::from_slice(&ast::hash_value(HK::Hash256, *h)).ok()?),
        CA::Leaf(A::Hash(2, h)) => Concrete::Ripemd160(ripemd160::Hash::from_slice(&ast::hash_value(HK::Ripemd160, *h)).ok()?),
        CA::Leaf(A::Hash(_, h)) => Concrete::Hash160(hash160::Hash::from_slice(&ast::hash_value(HK::Hash160, *h)).ok()?),
        CA::Leaf(A::Thresh(..)) => return None,
        CA::And(subs) => {
            let v: Option<Vec<Arc<Concrete<Pk>>>> = subs.iter().map(|x| build(x).map(Arc::new)).collect();
            Concrete::And(v?)
        }
        CA::Or(subs) => {
            let v: Option<Vec<(usize, Arc<Concrete<Pk>>)>> =
                subs.iter().map(|(w, x)| build(x).map(|p| (*w, Arc::new(p)))).collect();
            Concrete::Or(v?)
        }
        CA::Thresh(k, subs) => {
            let v: Option<Vec<Arc<Concrete<Pk>>>> = subs.iter().map(|x| build(x).map(Arc::new)).collect();
            Concrete::Thresh(Threshold::new(*k, v?).ok()?)
        }
    })
}

/// or-odds the text form can express (`parse_num_nonzero`: 1 ..= u32::MAX)
fn odds_textual(c: &CA) -> bool {
    match c {
        CA::Leaf(_) => true,
        CA::And(s) | CA::Thresh(_, s) => s.iter().all(odds_textual),
        CA::Or(s) => s.iter().all(|(w, x)| *w >= 1 && *w <= u32::MAX as usize && odds_textual(x)),
    }
}

fn has_const(c: &CA) -> bool {
    match c {
        CA::Leaf(A::Triv) | CA::Leaf(A::Unsat) => true,
        CA::Leaf(_) => false,
        CA::And(s) | CA::Thresh(_, s) => s.iter().any(has_const),
        CA::Or(s) => s.iter().any(|(_, x)| has_const(x)),
    }
}

/// the spending policy a miniscript fragment stands for (wrappers are transparent): used to push
/// the SEMANTICS of `ast::dimension_corpus` through the compiler.  Key ids are reduced to the
/// compressed table (0..99); raw key hashes have no policy form.
fn policy_of_node(n: &Node) -> Option<CA> {
    use Node::*;
    let k = |i: &u32| CA::Leaf(A::Key(i % 100));
    let hk = |h: &HK| match h { HK::Sha256 => 0u8, HK::Hash256 => 1, HK::Ripemd160 => 2, HK::Hash160 => 3 };
    Some(match n {
        True => CA::Leaf(A::Triv), False => CA::Leaf(A::Unsat),
        PkK(i) | PkH(i) => k(i),
        RawPkH(_) => return None,
        After(t) => CA::Leaf(A::After(*t)), Older(t) => CA::Leaf(A::Older(*t)),
        Hash(h, i) => CA::Leaf(A::Hash(hk(h), *i)),
        Alt(x) | Swap(x) | Check(x) | DupIf(x) | Verify(x) | NonZero(x) | ZeroNotEqual(x) => policy_of_node(x)?,
        AndV(a, b) | AndB(a, b) => CA::And(vec![policy_of_node(a)?, policy_of_node(b)?]),
        OrB(a, b) | OrD(a, b) | OrC(a, b) | OrI(a, b) => CA::Or(vec![(1, policy_of_node(a)?), (1, policy_of_node(b)?)]),
        AndOr(a, b, c) => CA::Or(vec![(1, CA::And(vec![policy_of_node(a)?, policy_of_node(b)?])), (1, policy_of_node(c)?)]),
        Thresh(kk, xs) => CA::Thresh(*kk, xs.iter().map(policy_of_node).collect::<Option<Vec<_>>>()?),
        Multi(kk, ks) | SortedMulti(kk, ks) | MultiA(kk, ks) | SortedMultiA(kk, ks) => CA::Thresh(*kk, ks.iter().map(k).collect()),
    })
}

fn n_leaves(c: &CA) -> usize {
    match c {
        CA::Leaf(_) => 1,
        CA::And(s) | CA::Thresh(_, s) => s.iter().map(n_leaves).sum(),
        CA::Or(s) => s.iter().map(|(_, x)| n_leaves(x)).sum(),
    }
}

/* ------------------------------------------------------------------ key table of this property */

/// ids known to C08: 0..100 compressed, 100..104 uncompressed (same points as 0..4), 200..300
/// x-only (the resource-limit cases need up to 100 distinct keys)
pub trait Kid8 { fn kid(&self) -> Option<u32>; }
fn full_table() -> &'static Vec<(u32, PublicKey)> {
    static T: std::sync::OnceLock<Vec<(u32, PublicKey)>> = std::sync::OnceLock::new();
    T.get_or_init(|| (0..104).map(|i| (i, ast::full_key(i))).collect())
}
fn x_table() -> &'static Vec<(u32, XOnlyPublicKey)> {
    static T: std::sync::OnceLock<Vec<(u32, XOnlyPublicKey)>> = std::sync::OnceLock::new();
    T.get_or_init(|| (200..300).map(|i| (i, ast::xonly_key(i))).collect())
}
impl Kid8 for PublicKey { fn kid(&self) -> Option<u32> { full_table().iter().find(|(_, k)| k == self).map(|(i, _)| *i) } }
impl Kid8 for XOnlyPublicKey { fn kid(&self) -> Option<u32> { x_table().iter().find(|(_, k)| k == self).map(|(i, _)| *i) } }

/// `D key` lines for the ids beyond the shared table (ast::emit_defs: 0..10, 100..104, 200..210)
fn emit_more_keys(out: &mut Out) {
    for id in 10..100 {
        let k = ast::full_key(id);
        let ser = k.to_bytes();
        let pkh = hash160::Hash::hash(&ser);
        out.line(&format!("D key {} {} {} {}", id, ast::hex(&ser), ast::hex(&ast::bip67_sort(&k)), ast::hex(pkh.as_byte_array())), "ok");
    }
    for id in 210..300 {
        let ser = ast::xonly_key(id).serialize();
        let pkh = hash160::Hash::hash(&ser);
        out.line(&format!("D key {} {} {} {}", id, ast::hex(&ser), ast::hex(&ser), ast::hex(pkh.as_byte_array())), "ok");
    }
}

/* ------------------------------------------------------------------ Miniscript -> Node */

/// Reverse of `ast::to_ms`; also collects, in pre-order (node, then children left to right),
/// the `ty|ext` annotation the real value carries at every node.
fn from_ms<Pk: KeyOf + Kid8, Ctx: ScriptContext>(ms: &Miniscript<Pk, Ctx>, ann: &mut Vec<String>) -> Option<Node> {
    ann.push(format!("{}|{}", ts(&ms.ty), show_ext(&ms.ext).replace(' ', "_")));
    let mut sub = |x: &Arc<Miniscript<Pk, Ctx>>| -> Option<Box<Node>> { from_ms(x, ann).map(Box::new) };
    let keys = |v: &[Pk]| -> Option<Vec<u32>> { v.iter().map(|k| k.kid()).collect() };
    Some(match &ms.node {
        Terminal::True => Node::True,
        Terminal::False => Node::False,
        Terminal::PkK(k) => Node::PkK(k.kid()?),
        Terminal::PkH(k) => Node::PkH(k.kid()?),
        Terminal::RawPkH(h) => Node::RawPkH(msops::rawpkh_id(h)?),
        Terminal::After(n) => Node::After(n.to_consensus_u32()),
        Terminal::Older(n) => Node::Older(n.to_consensus_u32()),
        Terminal::Sha256(h) => Node::Hash(HK::Sha256, hash_id(HK::Sha256, h.as_ref())?),
        Terminal::Hash256(h) => Node::Hash(HK::Hash256, hash_id(HK::Hash256, h.as_ref())?),
        Terminal::Ripemd160(h) => Node::Hash(HK::Ripemd160, hash_id(HK::Ripemd160, h.as_ref())?),
        Terminal::Hash160(h) => Node::Hash(HK::Hash160, hash_id(HK::Hash160, h.as_ref())?),
        Terminal::Alt(x) => Node::Alt(sub(x)?),
        Terminal::Swap(x) => Node::Swap(sub(x)?),
        Terminal::Check(x) => Node::Check(sub(x)?),
        Terminal::DupIf(x) => Node::DupIf(sub(x)?),
        Terminal::Verify(x) => Node::Verify(sub(x)?),
        Terminal::NonZero(x) => Node::NonZero(sub(x)?),
        Terminal::ZeroNotEqual(x) => Node::ZeroNotEqual(sub(x)?),
        Terminal::AndV(a, b) => { let a = sub(a)?; let b = sub(b)?; Node::AndV(a, b) }
        Terminal::AndB(a, b) => { let a = sub(a)?; let b = sub(b)?; Node::AndB(a, b) }
        Terminal::AndOr(a, b, c) => { let a = sub(a)?; let b = sub(b)?; let c = sub(c)?; Node::AndOr(a, b, c) }
        Terminal::OrB(a, b) => { let a = sub(a)?; let b = sub(b)?; Node::OrB(a, b) }
        Terminal::OrD(a, b) => { let a = sub(a)?; let b = sub(b)?; Node::OrD(a, b) }
        Terminal::OrC(a, b) => { let a = sub(a)?; let b = sub(b)?; Node::OrC(a, b) }
        Terminal::OrI(a, b) => { let a = sub(a)?; let b = sub(b)?; Node::OrI(a, b) }
        Terminal::Thresh(t) => {
            let mut v = vec![];
            for x in t.iter() { v.push(*sub(x)?); }
            Node::Thresh(t.k(), v)
        }
        Terminal::Multi(t) => Node::Multi(t.k(), keys(t.data())?),
        Terminal::SortedMulti(t) => Node::SortedMulti(t.k(), keys(t.data())?),
        Terminal::MultiA(t) => Node::MultiA(t.k(), keys(t.data())?),
        Terminal::SortedMultiA(t) => Node::SortedMultiA(t.k(), keys(t.data())?),
    })
}

fn n_atoms_wire(pw: &str) -> usize {
    pw.matches("pk(").count() + pw.matches("older(").count() + pw.matches("after(").count()
        + pw.matches("sha256(").count() + pw.matches("hash256(").count() + pw.matches("hash160(").count() + pw.matches("ripemd160(").count()
}

fn sem_wire(p: &Semantic<PublicKey>) -> Option<String> { sem_wire_g(p) }

/// canonical wire form of the library's lift of a miniscript / descriptor over the table atoms
fn sem_wire_g<Pk: KeyOf + Kid8>(p: &Semantic<Pk>) -> Option<String> {
    Some(match p {
        Semantic::Unsatisfiable => "UNSATISFIABLE".into(),
        Semantic::Trivial => "TRIVIAL".into(),
        Semantic::Key(k) => format!("pk({})", k.kid()?),
        Semantic::After(t) => format!("after({})", t.to_consensus_u32()),
        Semantic::Older(t) => format!("older({})", t.to_consensus_u32()),
        Semantic::Sha256(h) => format!("sha256({})", hash_id(HK::Sha256, h.as_ref())?),
        Semantic::Hash256(h) => format!("hash256({})", hash_id(HK::Hash256, h.as_ref())?),
        Semantic::Ripemd160(h) => format!("ripemd160({})", hash_id(HK::Ripemd160, h.as_ref())?),
        Semantic::Hash160(h) => format!("hash160({})", hash_id(HK::Hash160, h.as_ref())?),
        Semantic::Thresh(t) => {
            let mut s = format!("thresh({}", t.k());
            for x in t.iter() { s.push(','); s.push_str(&sem_wire_g(x)?); }
            s.push(')');
            s
        }
    })
}

/// the wrapper chains of a compiled output in the library's own notation (`snl`, `ajc`, `t`, …):
/// `l:X` = or_i(0,X), `u:X` = or_i(X,0), `t:X` = and_v(X,1); a chain ends at the first
/// non-wrapper.  Used for the distribution only (which casts reach the judge in which context).
fn towers(n: &Node) -> Vec<String> {
    fn chain(n: &Node, acc: &mut String) -> Option<Node> {
        use Node::*;
        match n {
            Alt(x) => { acc.push('a'); chain(x, acc) }
            Swap(x) => { acc.push('s'); chain(x, acc) }
            Check(x) => { acc.push('c'); chain(x, acc) }
            DupIf(x) => { acc.push('d'); chain(x, acc) }
            Verify(x) => { acc.push('v'); chain(x, acc) }
            NonZero(x) => { acc.push('j'); chain(x, acc) }
            ZeroNotEqual(x) => { acc.push('n'); chain(x, acc) }
            OrI(a, b) if **a == False => { acc.push('l'); chain(b, acc) }
            OrI(a, b) if **b == False => { acc.push('u'); chain(a, acc) }
            AndV(a, b) if **b == True => { acc.push('t'); chain(a, acc) }
            other => Some(other.clone()),
        }
    }
    fn rec(n: &Node, out: &mut Vec<String>) {
        use Node::*;
        let mut acc = String::new();
        let inner = chain(n, &mut acc).unwrap();
        if !acc.is_empty() { out.push(acc); }
        match &inner {
            AndV(a, b) | AndB(a, b) | OrB(a, b) | OrD(a, b) | OrC(a, b) | OrI(a, b) => { rec(a, out); rec(b, out) }
            AndOr(a, b, c) => { rec(a, out); rec(b, out); rec(c, out) }
            Thresh(_, xs) => for x in xs { rec(x, out) },
            _ => {}
        }
    }
    let mut v = vec![];
    rec(n, &mut v);
    v
}

fn guard<T>(f: impl FnOnce() -> T) -> Option<T> { catch_unwind(AssertUnwindSafe(f)).ok() }

/// like `guard`, but keeps a one-token digest of the panic message
fn guard_msg<T>(f: impl FnOnce() -> T) -> Result<T, String> {
    catch_unwind(AssertUnwindSafe(f)).map_err(|e| {
        let m = if let Some(s) = e.downcast_ref::<String>() { s.clone() } else if let Some(s) = e.downcast_ref::<&str>() { s.to_string() } else { "?".into() };
        let t: String = m.chars().map(|c| if c.is_alphanumeric() { c } else { '-' }).collect();
        let mut o = String::new();
        for c in t.chars() { if !(c == '-' && o.ends_with('-')) { o.push(c); } }
        o.trim_matches('-').chars().take(80).collect()
    })
}

/// error kind without payload (`TooManyTapleaves { n: 3, max: 2 }` -> `TooManyTapleaves`)
fn err_kind<E: std::fmt::Debug>(e: &E) -> String {
    let s = format!("{:?}", e);
    let s: String = s.chars().take_while(|c| c.is_alphanumeric() || *c == '(').collect();
    // keep one level of nesting: CompilerError(LimitsExceeded)
    s.trim_end_matches('(').to_string()
}
fn err_kind2<E: std::fmt::Debug>(e: &E) -> String {
    let s = format!("{:?}", e);
    let mut depth = 0;
    let mut o = String::new();
    for c in s.chars() {
        if c == '(' { depth += 1; if depth > 2 { break; } o.push('/'); continue; }
        if !(c.is_alphanumeric()) { break; }
        o.push(c);
    }
    if o.is_empty() { err_kind(e) } else { o }
}

struct Run<'a> {
    out: &'a mut Out,
    programs: u64,
    slowest_ms: u128,
    slowest: String,
    /// only the taproot entry points (many-leaf policies: one miniscript for the whole policy
    /// takes seconds to compile and is not what these cases are about)
    tr_only: bool,
    /// input classes outside C08's statement in which the compiler is known to panic instead of
    /// returning (key kinds, odds that only the public enum can express): a panic is COUNTED as an
    /// observation with this label instead of being judged
    panic_obs: Option<&'static str>,
    /// large outputs: judge with `J compiledsane` (probe worlds) instead of `J compiled`
    big: bool,
    /// id of the key handed to the tr entry points as "unspendable key"
    unsp: u32,
    /// skip compile_tr_native (see the stack-overflow observation in `run`)
    no_native: bool,
    /// emit `J refuses` for every policy (dimension cells); otherwise only for policies with a
    /// constant or without any key, the ones that can be in the class at all besides key kinds
    all_refuses: bool,
    /// designated corpora: every tr output is observed a second time AFTER USE (spend_info(),
    /// script_pubkey(), clone) and judged again
    used_state: bool,
    /// skip the taproot entry points (cast family: about the miniscript compiler proper)
    no_tr: bool,
}

impl<'a> Run<'a> {
    /// `J refuses`: the outcome of one entry point, for the Lean side to compare with "no
    /// conforming output exists" (small policies only: the judge enumerates worlds)
    fn refuses_line<T, E: std::fmt::Debug>(&mut self, ctx: &str, entry: &str, c: &CA, pw: &str, r: &Option<Result<T, E>>) {
        if n_leaves(c) > 8 { return; }
        if !(self.all_refuses || has_const(c) || n_keys(c) == 0) { return; }
        let outcome = match r { None => "PANIC".to_string(), Some(Err(e)) => format!("Err:{}", err_kind2(e)), Some(Ok(_)) => "Ok".to_string() };
        self.out.line(&format!("J refuses {} {} {} {}", ctx, entry, pw, outcome), "ok");
    }

    fn timed<T>(&mut self, what: &str, pw: &str, f: impl FnOnce() -> T) -> Option<T> {
        if std::env::var("VERIF_C08_TRACE").is_ok() { eprintln!("compile {} {}", what, &pw[..pw.len().min(120)]); }
        let t0 = Instant::now();
        let r = guard_msg(f);
        let dt = t0.elapsed().as_millis();
        if dt > self.slowest_ms { self.slowest_ms = dt; self.slowest = format!("{} {}", what, pw); }
        if dt > 2000 { self.out.count("slow compile (>2s)"); }
        match r {
            Ok(x) => Some(x),
            Err(msg) => {
                if let Some(label) = self.panic_obs {
                    let entry = what.split('-').next().unwrap_or(what);
                    let key = format!("observation: {}: {} panics ({})", label, entry, msg);
                    self.out.count(&key);
                    if !self.out.notes.contains_key(&key) { self.out.note(&key, format!("{} {}", what, pw)); }
                    return None;
                }
                // the compiler did not return at all: reported through the generic no-panic judge
                self.out.line(&format!("J nopanic compile {} {} {} PANIC", what, pw, msg), "ok");
                None
            }
        }
    }

    /// one plain-miniscript output
    fn judge_ms<Pk: msops::HKey + Kid8, Ctx: ScriptContext>(&mut self, target: &str, ctx: CtxK, pw: &str, ms: &Miniscript<Pk, Ctx>,
        parse: &dyn Fn(&str) -> Result<Miniscript<Pk, Ctx>, miniscript::Error>) {
        let mut ann = vec![];
        let node = match from_ms(ms, &mut ann) {
            Some(n) => n,
            None => { self.out.line(&format!("J compiled {} {} UNMAPPABLE -", target, pw), "ok"); return; }
        };
        self.programs += 1;
        node.count_frags(self.out);
        for t in towers(&node) { self.out.count(&format!("cast {} {}", ctx.name(), t)); }
        let op = if self.big { "compiledsane" } else { "compiled" };
        self.out.line(&format!("J {} {} {} {} {}", op, target, pw, node.wire(), ann.join(";")), "ok");
        // second route to the semantic claim: the library's own lift of the output
        if !self.big && n_atoms_wire(pw) <= 12 {
            let lifted = match guard(|| ms.lift()) {
                None => "ERR:PANIC".to_string(),
                Some(Err(e)) => format!("ERR:{}", err_kind2(&e)),
                Some(Ok(q)) => sem_wire_g(&q).unwrap_or_else(|| "ERR:UNMAPPABLE".into()),
            };
            self.out.line(&format!("J lift {} {} - {}", target, pw, lifted), "ok");
        }
        // re-parse from the own string form under the default (sane) rules
        let s = ms.to_string();
        let verdict = match guard(|| parse(&s)) {
            None => "PANIC".to_string(),
            Some(Err(e)) => format!("rejected:{}", err_kind2(&e)),
            Some(Ok(back)) => {
                let mut ann2 = vec![];
                let n2 = from_ms(&back, &mut ann2);
                if n2.as_ref() != Some(&node) { "different-tree".into() }
                else if ann2 != ann { "different-annotations".into() }
                else if back.to_string() != s { "different-string".into() }
                else if back != *ms { "not-eq".into() }
                else { "same".into() }
            }
        };
        // independent of the textual route: the validation the descriptor constructors rely on
        let sane = if ms.validate(&Ctx::SANE).is_ok() { "sane" } else { "insane" };
        let _ = ctx;
        self.out.line(&format!("J reparse {} {} {} {}/{}", target, pw, s, verdict, sane), "ok");
    }

    fn judge_tr(&mut self, entry: &str, pw: &str, desc: &Descriptor<PublicKey>) {
        self.judge_tr_once(entry, pw, desc);
        if self.used_state && !entry.starts_with("used:") {
            // fill the lazily computed parts (Tr caches its spend info), then look again - at the
            // same object and at a clone of the used object
            let _ = guard(|| { let _ = desc.script_pubkey(); if let Descriptor::Tr(t) = desc { let _ = t.spend_info(); } });
            self.judge_tr_once(&format!("used:{}", entry), pw, desc);
            let cl = desc.clone();
            let same = if cl == *desc && cl.to_string() == desc.to_string() { "same" } else { "clone-differs" };
            self.out.line(&format!("J reparse used-clone:{} {} {} {}/sane", entry, pw, cl.to_string(), same), "ok");
        }
    }

    fn judge_tr_once(&mut self, entry: &str, pw: &str, desc: &Descriptor<PublicKey>) {
        let tr = match desc { Descriptor::Tr(t) => t, _ => { self.out.line(&format!("J compiledtr {} {} NOT-TR - -", entry, pw), "ok"); return; } };
        let ik = match tr.internal_key().kid() {
            Some(i) if i == self.unsp => "UNSPENDABLE".to_string(),
            Some(i) => i.to_string(),
            None => "?".to_string(),
        };
        let mut leaves = vec![];
        let mut anns = vec![];
        let mut depths = vec![];
        for l in tr.leaves() {
            let mut ann = vec![];
            match from_ms::<PublicKey, Tap>(l.miniscript(), &mut ann) {
                Some(n) => { n.count_frags(self.out); leaves.push(n.wire()); }
                None => leaves.push("UNMAPPABLE".into()),
            }
            anns.push(ann.join(";"));
            depths.push(l.depth());
        }
        self.programs += 1;
        self.out.count(&format!("tr leaves={}", leaves.len().min(9)));
        let lw = if leaves.is_empty() { "-".to_string() } else { leaves.join(";") };
        let aw = if anns.is_empty() { "-".to_string() } else { anns.join(";;") };
        self.out.line(&format!("J compiledtr {} {} {} {} {}", entry, pw, ik, lw, aw), "ok");
        // second route to the same claim: the library's own lift of the descriptor (key path
        // included), judged against the policy's truth table by the Lean specification
        let lifted = match guard(|| desc.lift()) {
            None => "ERR:PANIC".to_string(),
            Some(Err(e)) => format!("ERR:{}", err_kind2(&e)),
            Some(Ok(q)) => sem_wire(&q).unwrap_or_else(|| "ERR:UNMAPPABLE".into()),
        };
        let unsp = if ik == "UNSPENDABLE" { self.unsp.to_string() } else { "-".to_string() };
        // the lift judge enumerates all 2^atoms assignments: policies with more than 12 atom
        // occurrences are left to `compiledtr` (which enumerates key / hash subsets x lock gaps only)
        let n_atoms = pw.matches("pk(").count() + pw.matches("older(").count() + pw.matches("after(").count()
            + pw.matches("sha256(").count() + pw.matches("hash256(").count() + pw.matches("hash160(").count() + pw.matches("ripemd160(").count();
        if n_atoms <= 12 {
            self.out.line(&format!("J trlift {} {} {} {}", entry, pw, unsp, lifted), "ok");
        } else {
            self.out.count("trlift not emitted (> 12 atoms)");
        }
        // Kraft equality: the leaf depths describe a full binary tree (no dropped/duplicated slot)
        let kraft: u128 = depths.iter().map(|d| 1u128 << (64 - (*d as u32).min(64))).sum();
        let kraft_ok = depths.is_empty() || kraft == 1u128 << 64;
        let s = desc.to_string();
        let verdict = match guard(|| Descriptor::<PublicKey>::from_str(&s)) {
            None => "PANIC".to_string(),
            Some(Err(e)) => format!("rejected:{}", err_kind2(&e)),
            Some(Ok(back)) => {
                if back.to_string() != s { "different-string".into() }
                else if back != *desc { "not-eq".into() }
                else if !kraft_ok { "bad-depths".into() }
                else { "same".into() }
            }
        };
        let sane = if tr.leaves().all(|l| l.miniscript().validate(&Tap::SANE).is_ok()) { "sane" } else { "insane" };
        self.out.line(&format!("J reparse {} {} {} {}/{}", entry, pw, s, verdict, sane), "ok");
    }

    fn judge_desc(&mut self, kind: &str, pw: &str, desc: &Descriptor<PublicKey>) {
        match desc {
            Descriptor::Bare(b) => self.judge_ms(&format!("bare:{}", kind), CtxK::Bare, pw, b.as_inner(), &|s| Miniscript::<PublicKey, BareCtx>::from_str(s)),
            Descriptor::Wsh(w) => self.judge_ms(&format!("segwitv0:{}", kind), CtxK::Segwitv0, pw, w.as_inner(), &|s| Miniscript::<PublicKey, Segwitv0>::from_str(s)),
            Descriptor::Sh(sh) => match sh.as_inner() {
                ShInner::Ms(m) => self.judge_ms(&format!("legacy:{}", kind), CtxK::Legacy, pw, m, &|s| Miniscript::<PublicKey, Legacy>::from_str(s)),
                ShInner::Wsh(w) => self.judge_ms(&format!("segwitv0:{}", kind), CtxK::Segwitv0, pw, w.as_inner(), &|s| Miniscript::<PublicKey, Segwitv0>::from_str(s)),
                ShInner::Wpkh(_) => { self.out.line(&format!("J compiled unexpected:{} {} WPKH -", kind, pw), "ok"); }
            },
            Descriptor::Tr(_) => self.judge_tr(&format!("desc-{}", kind), pw, desc),
            _ => { self.out.line(&format!("J compiled unexpected:{} {} OTHER -", kind, pw), "ok"); }
        }
        self.out.line(&format!("J desckind {} {} {:?}", kind, pw, desc.desc_type()), "ok");
        // the descriptor wrapper itself must re-parse to an equal descriptor
        if !matches!(desc, Descriptor::Tr(_)) {
            // Descriptor::lift dispatches on the wrapper (Bare | Sh | Wsh | sh(wsh))
            if n_atoms_wire(pw) <= 12 {
                let lifted = match guard(|| desc.lift()) {
                    None => "ERR:PANIC".to_string(),
                    Some(Err(e)) => format!("ERR:{}", err_kind2(&e)),
                    Some(Ok(q)) => sem_wire(&q).unwrap_or_else(|| "ERR:UNMAPPABLE".into()),
                };
                self.out.line(&format!("J lift desc-{} {} - {}", kind, pw, lifted), "ok");
            }
            let s = desc.to_string();
            let verdict = match guard(|| Descriptor::<PublicKey>::from_str(&s)) {
                None => "PANIC".to_string(),
                Some(Err(e)) => format!("rejected:{}", err_kind2(&e)),
                Some(Ok(back)) => if back.to_string() != s { "different-string".into() } else if back != *desc { "not-eq".into() } else { "same".into() },
            };
            self.out.line(&format!("J reparse desc-{} {} {} {}/sane", kind, pw, s, verdict), "ok");
        }
    }

    fn compile_ms<Pk: msops::HKey + Kid8, Ctx: ScriptContext>(&mut self, ctx: CtxK, c: &CA,
        parse: &dyn Fn(&str) -> Result<Miniscript<Pk, Ctx>, miniscript::Error>) {
        let pw = ca_wire(c);
        let pol: Concrete<Pk> = match build(c) { Some(p) => p, None => { self.out.count("policy not constructible"); return; } };
        let what = format!("ms-{}", ctx.name());
        let r = self.timed(&what, &pw, || pol.compile::<Ctx>());
        self.refuses_line(ctx.name(), &what, c, &pw, &r);
        if matches!(ctx, CtxK::Segwitv0 | CtxK::Tap) && n_leaves(c) <= 4 && odds_textual(c) {
            let outcome = match &r { None => "PANIC".to_string(), Some(Err(e)) => format!("Err:{}", err_kind2(e)), Some(Ok(_)) => "Ok".to_string() };
            self.out.line(&format!("J compiles {} {} {}", ctx.name(), pw, outcome), "ok");
        }
        match r {
            None => {}
            Some(Err(e)) => self.out.count(&format!("err {} {}", what, err_kind2(&e))),
            Some(Ok(ms)) => {
                self.out.count(&format!("compiled {}", what));
                self.judge_ms(ctx.name(), ctx, &pw, &ms, parse);
            }
        }
    }

    /// a chosen subset of the targets (large policies, key-kind cases)
    fn some_targets(&mut self, c: &CA, which: &[&str]) {
        for w in which {
            match *w {
                "ms-segwitv0" => self.compile_ms::<PublicKey, Segwitv0>(CtxK::Segwitv0, c, &|s| Miniscript::from_str(s)),
                "ms-legacy" => self.compile_ms::<PublicKey, Legacy>(CtxK::Legacy, c, &|s| Miniscript::from_str(s)),
                "ms-bare" => self.compile_ms::<PublicKey, BareCtx>(CtxK::Bare, c, &|s| Miniscript::from_str(s)),
                "ms-tap" => self.compile_ms::<XOnlyPublicKey, Tap>(CtxK::Tap, &remap(c, 200), &|s| Miniscript::from_str(s)),
                // full (compressed / uncompressed) keys in the Tap context
                "ms-tap-full" => self.compile_ms::<PublicKey, Tap>(CtxK::Tap, c, &|s| Miniscript::from_str(s)),
                // x-only keys outside Tap
                "x-segwitv0" => self.compile_ms::<XOnlyPublicKey, Segwitv0>(CtxK::Segwitv0, &remap(c, 200), &|s| Miniscript::from_str(s)),
                "x-legacy" => self.compile_ms::<XOnlyPublicKey, Legacy>(CtxK::Legacy, &remap(c, 200), &|s| Miniscript::from_str(s)),
                "x-bare" => self.compile_ms::<XOnlyPublicKey, BareCtx>(CtxK::Bare, &remap(c, 200), &|s| Miniscript::from_str(s)),
                "desc-sh" | "desc-wsh" => {
                    let pw = ca_wire(c);
                    let pol: Concrete<PublicKey> = match build(c) { Some(p) => p, None => return };
                    let kind = &w[5..];
                    let r = self.timed(w, &pw, || pol.compile_to_descriptor::<Segwitv0>(if kind == "sh" { DescriptorCtx::Sh } else { DescriptorCtx::Wsh }));
                    self.refuses_line(if kind == "sh" { "legacy" } else { "segwitv0" }, w, c, &pw, &r);
                    match r {
                        None => {}
                        Some(Err(e)) => self.out.count(&format!("err {} {}", w, err_kind2(&e))),
                        Some(Ok(d)) => { self.out.count(&format!("compiled {}", w)); self.judge_desc(kind, &pw, &d); }
                    }
                }
                _ => unreachable!(),
            }
        }
    }

    fn all_targets(&mut self, c: &CA, light: bool) {
        // plain miniscripts in the four contexts
        if !self.tr_only {
        self.compile_ms::<PublicKey, Segwitv0>(CtxK::Segwitv0, c, &|s| Miniscript::from_str(s));
        self.compile_ms::<XOnlyPublicKey, Tap>(CtxK::Tap, &remap(c, 200), &|s| Miniscript::from_str(s));
        // every policy goes through all four contexts (`light` only drops the extra max_leaves
        // variants of compile_tr_native)
        self.compile_ms::<PublicKey, BareCtx>(CtxK::Bare, c, &|s| Miniscript::from_str(s));
        self.compile_ms::<PublicKey, Legacy>(CtxK::Legacy, c, &|s| Miniscript::from_str(s));
        }
        let pw = ca_wire(c);
        let pol: Concrete<PublicKey> = match build(c) { Some(p) => p, None => return };
        let unsp = ast::full_key(self.unsp);
        // descriptors
        let dctxs: Vec<(&str, Box<dyn Fn() -> DescriptorCtx<PublicKey>>)> = vec![
            ("bare", Box::new(|| DescriptorCtx::Bare)),
            ("sh", Box::new(|| DescriptorCtx::Sh)),
            ("wsh", Box::new(|| DescriptorCtx::Wsh)),
            ("shwsh", Box::new(|| DescriptorCtx::ShWsh)),
            ("tr-none", Box::new(|| DescriptorCtx::Tr(None))),
            ("tr-unsp", Box::new(move || DescriptorCtx::Tr(Some(unsp)))),
        ];
        for (kind, mk) in dctxs.iter() {
            if self.tr_only && !kind.starts_with("tr-") { continue; }
            if self.no_tr && kind.starts_with("tr-") { continue; }
            // sampled policies of the quick tier: bare (nearly always NonStandardBareScript) and wsh
            // (same compilation as sh(wsh)) are left to the exhaustive and designated corpora
            if light && matches!(*kind, "bare" | "wsh" | "tr-none") { continue; }
            let what = format!("desc-{}", kind);
            // the type parameter of compile_to_descriptor is a phantom (the descriptor kind fixes the context)
            let r = self.timed(&what, &pw, || pol.compile_to_descriptor::<Segwitv0>(mk()));
            let dctx = match *kind { "bare" => "bare", "sh" => "legacy", "wsh" | "shwsh" => "segwitv0", _ => "tap" };
            self.refuses_line(dctx, &what, c, &pw, &r);
            match r {
                None => {}
                Some(Err(e)) => self.out.count(&format!("err {} {}", what, err_kind2(&e))),
                Some(Ok(d)) => { self.out.count(&format!("compiled {}", what)); self.judge_desc(kind, &pw, &d); }
            }
        }
        // taproot entry points
        if self.no_tr { return; }
        for (uk, un) in [(None, "none"), (Some(unsp), "unsp")] {
            let what = format!("tr-{}", un);
            let r = self.timed(&what, &pw, || pol.compile_tr(uk));
            self.refuses_line("tap", &what, c, &pw, &r);
            match r {
                None => {}
                Some(Err(e)) => self.out.count(&format!("err {} {}", what, err_kind2(&e))),
                Some(Ok(d)) => { self.out.count(&format!("compiled {}", what)); self.judge_tr(&what, &pw, &d); }
            }
            let what = format!("trpriv-{}", un);
            let r = self.timed(&what, &pw, || pol.compile_tr_private_experimental(uk));
            self.refuses_line("tap", &what, c, &pw, &r);
            match r {
                None => {}
                Some(Err(e)) => self.out.count(&format!("err {} {}", what, err_kind2(&e))),
                Some(Ok(d)) => { self.out.count(&format!("compiled {}", what)); self.judge_tr(&what, &pw, &d); }
            }
            for max_leaves in [0usize, 1, 4, 1024] {
                if (light || self.tr_only) && max_leaves != 1024 && max_leaves != 0 { continue; }
                if self.no_native { continue; }
                let what = format!("trnative{}-{}", max_leaves, un);
                let r = self.timed(&what, &pw, || pol.compile_tr_native(uk, max_leaves));
                self.refuses_line("tap", &what, c, &pw, &r);
                if max_leaves == 0 {
                    // documented: max_leaves = 0 is refused
                    let oc = match &r { None => "PANIC".to_string(), Some(Err(e)) => format!("Err:{}", err_kind2(e)), Some(Ok(_)) => "Ok".to_string() };
                    self.out.count(&format!("trnative0 outcome {}", oc));
                }
                match r {
                    None => {}
                    Some(Err(e)) => self.out.count(&format!("err {} {}", what, err_kind2(&e))),
                    Some(Ok(d)) => { self.out.count(&format!("compiled {}", what)); self.judge_tr(&what, &pw, &d); }
                }
            }
        }
    }
}

/* ------------------------------------------------------------------ policy generation */

#[derive(Clone, Debug)]
enum Shape { L, And(Box<Shape>, Box<Shape>), Or(usize, usize, Box<Shape>, Box<Shape>), Th(usize, Vec<Shape>) }

fn slots(s: &Shape) -> usize {
    match s {
        Shape::L => 1,
        Shape::And(a, b) | Shape::Or(_, _, a, b) => slots(a) + slots(b),
        Shape::Th(_, v) => v.iter().map(slots).sum(),
    }
}

const ODDS: [(usize, usize); 5] = [(1, 1), (3, 1), (1, 3), (9, 1), (1, 9)];

/// every shape with exactly the given nesting depth budget and at most `max_slots` leaves
fn shapes(depth: usize, max_slots: usize) -> Vec<Shape> {
    let mut v = vec![Shape::L];
    if depth == 0 || max_slots < 1 { return v; }
    let subs = shapes(depth - 1, max_slots);
    for a in &subs {
        for b in &subs {
            if slots(a) + slots(b) > max_slots { continue; }
            v.push(Shape::And(Box::new(a.clone()), Box::new(b.clone())));
            for (wa, wb) in ODDS { v.push(Shape::Or(wa, wb, Box::new(a.clone()), Box::new(b.clone()))); }
        }
    }
    // thresholds: n children (1..=4), every k
    fn rec(subs: &[Shape], n: usize, budget: usize, cur: &mut Vec<Shape>, acc: &mut Vec<Vec<Shape>>) {
        if cur.len() == n { acc.push(cur.clone()); return; }
        for s in subs {
            let need = n - cur.len() - 1; // one slot at least for each remaining child
            if slots(s) + need > budget { continue; }
            cur.push(s.clone());
            rec(subs, n, budget - slots(s), cur, acc);
            cur.pop();
        }
    }
    for n in 1..=max_slots.min(4) {
        let mut acc = vec![];
        rec(&subs, n, max_slots, &mut vec![], &mut acc);
        for ch in acc { for k in 1..=n { v.push(Shape::Th(k, ch.clone())); } }
    }
    v
}

#[derive(Clone, Copy, PartialEq, Eq, Debug)]
enum Kind { Key, Hash, After, Older, AfterT, OlderT, Triv, Unsat }

struct Fill { nk: u32, nh: u32, na: u32, no: u32, /// rotation of the hash-kind cycle
    hrot: u32 }
impl Fill {
    fn atom(&mut self, k: Kind) -> A {
        match k {
            Kind::Key => { self.nk += 1; A::Key(self.nk - 1) }
            // sha256, hash160, hash256, ripemd160 in turn (ids < 4 per kind)
            Kind::Hash => { self.nh += 1; let i = self.nh - 1; A::Hash([0u8, 3, 1, 2][((i + self.hrot) % 4) as usize], (i / 4) + (i % 4) % 2) }
            Kind::After => { self.na += 1; A::After(100 * self.na) }
            Kind::Older => { self.no += 1; A::Older(10 * self.no) }
            Kind::AfterT => { self.na += 1; A::After(500_000_000 + self.na) }
            Kind::OlderT => { self.no += 1; A::Older(4_194_304 + self.no) }
            Kind::Triv => A::Triv,
            Kind::Unsat => A::Unsat,
        }
    }
}

fn fill(s: &Shape, kinds: &[Kind], pos: &mut usize, f: &mut Fill) -> CA {
    match s {
        Shape::L => { let k = kinds[*pos]; *pos += 1; CA::Leaf(f.atom(k)) }
        Shape::And(a, b) => { let x = fill(a, kinds, pos, f); let y = fill(b, kinds, pos, f); CA::And(vec![x, y]) }
        Shape::Or(wa, wb, a, b) => { let x = fill(a, kinds, pos, f); let y = fill(b, kinds, pos, f); CA::Or(vec![(*wa, x), (*wb, y)]) }
        Shape::Th(k, v) => CA::Thresh(*k, v.iter().map(|x| fill(x, kinds, pos, f)).collect()),
    }
}

fn kind_vectors(n: usize, pool: &[Kind]) -> Vec<Vec<Kind>> {
    let mut v: Vec<Vec<Kind>> = vec![vec![]];
    for _ in 0..n {
        let mut w = vec![];
        for p in &v { for k in pool { let mut q = p.clone(); q.push(*k); w.push(q); } }
        v = w;
    }
    v
}

fn rand_policy(rng: &mut Rng, depth: usize, budget: &mut usize, f: &mut Fill) -> CA {
    if depth == 0 || *budget <= 1 || rng.below(4) == 0 {
        if *budget > 0 { *budget -= 1; }
        let k = match rng.below(12) { 0 => Kind::Hash, 1 => Kind::After, 2 => Kind::Older, 3 => Kind::OlderT, 4 => Kind::AfterT, _ => Kind::Key };
        // at most 4 hash ids / keep lock values distinct
        let k = if k == Kind::Hash && f.nh >= 4 { Kind::Key } else { k };
        return CA::Leaf(f.atom(k));
    }
    match rng.below(3) {
        0 => { let a = rand_policy(rng, depth - 1, budget, f); let b = rand_policy(rng, depth - 1, budget, f); CA::And(vec![a, b]) }
        1 => {
            let (wa, wb) = *rng.pick(&ODDS);
            let a = rand_policy(rng, depth - 1, budget, f); let b = rand_policy(rng, depth - 1, budget, f);
            CA::Or(vec![(wa, a), (wb, b)])
        }
        _ => {
            let n = 1 + rng.below(4);
            let mut v = vec![];
            for _ in 0..n { v.push(rand_policy(rng, depth - 1, budget, f)); }
            let k = 1 + rng.below(n);
            CA::Thresh(k, v)
        }
    }
}

fn n_keys(c: &CA) -> usize {
    match c {
        CA::Leaf(A::Key(_)) => 1,
        CA::Leaf(_) => 0,
        CA::And(s) | CA::Thresh(_, s) => s.iter().map(n_keys).sum(),
        CA::Or(s) => s.iter().map(|(_, x)| n_keys(x)).sum(),
    }
}

/* ------------------------------------------------------------------ C sane */

fn sane_line<Pk: msops::HKey, Ctx: ScriptContext>(out: &mut Out, ctx: CtxK, node: &Node) {
    let ms: Miniscript<Pk, Ctx> = match ast::to_ms(node) { Ok(m) => m, Err(_) => return };
    let ans = match ms.validate(&Ctx::SANE) { Ok(()) => "ok", Err(_) => "err" };
    out.count(&format!("sane {} {}", ctx.name(), ans));
    out.line(&format!("C sane {} {}", ctx.name(), node.wire()), ans);
}

pub fn run(out: &mut Out, thorough: bool, seed: u64) {
    // panics are caught and reported as lines; keep stderr quiet
    std::panic::set_hook(Box::new(|_| {}));
    let mut rng = Rng(seed ^ 0xC08);
    ast::emit_defs(out);
    emit_more_keys(out);

    // correspondence of the context-restriction model (validate with Ctx::SANE)
    for ctx in CtxK::ALL {
        let atoms = ast::default_atoms(ctx, false);
        let nodes = ast::enumerate(ctx, &atoms, 2, if thorough { 30 } else { 8 }, &mut rng);
        for t in nodes { with_ctx!(ctx, sane_line(out, ctx, &t.node)); }
        // designated fragments (all hash kinds, both lock units, uncompressed / mixed key encodings,
        // raw key hashes, one-child thresholds …)
        for n in ast::dimension_corpus(ctx) { with_ctx!(ctx, sane_line(out, ctx, &n)); }
    }

    let mut run = Run { out, programs: 0, slowest_ms: 0, slowest: String::new(), tr_only: false, panic_obs: None, big: false, unsp: UNSPENDABLE, no_native: false, all_refuses: false, used_state: false, no_tr: false };
    let mut n_pol = 0u64;
    let mut seen: BTreeSet<String> = BTreeSet::new();
    let t_start = Instant::now();
    let budget_s: u64 = if thorough { 900 } else { 150 };   // a guard against pathological slowness, not a target

    // all designated corpora (everything before the bounded-exhaustive part): tr outputs are also
    // observed and judged in the USED state
    run.used_state = true;
    // hand-written corpus: the documented examples and the special cases of the compiler
    let key = |i: u32| CA::Leaf(A::Key(i));
    let corpus: Vec<CA> = vec![
        key(0),
        CA::Thresh(2, vec![key(0), key(1), key(2)]),                       // thresh -> multi / multi_a
        CA::Thresh(3, vec![key(0), key(1), key(2)]),                       // is_and
        CA::Thresh(1, vec![key(0), key(1), key(2)]),                       // is_or
        CA::Thresh(2, vec![key(0), key(1), CA::Leaf(A::Older(10))]),
        CA::Thresh(2, vec![key(0), CA::Leaf(A::Hash(0, 0)), CA::Leaf(A::After(100))]),
        CA::Or(vec![(1, key(0)), (1, CA::And(vec![key(1), CA::Leaf(A::Older(10))]))]),
        CA::Or(vec![(9, key(0)), (1, CA::And(vec![key(1), CA::Leaf(A::Hash(0, 0))]))]),
        CA::Or(vec![(1, CA::And(vec![key(0), CA::Leaf(A::After(100))])), (3, CA::And(vec![key(1), CA::Leaf(A::After(200))]))]),
        CA::And(vec![key(0), CA::Or(vec![(1, key(1)), (1, CA::Leaf(A::Older(4_194_305)))])]),
        CA::Thresh(1, vec![CA::Or(vec![(1, key(0)), (1, key(1))]), CA::And(vec![CA::Or(vec![(1, key(2)), (1, key(3))]), key(4)])]),
        CA::Or(vec![(1, key(0)), (1, CA::Leaf(A::Unsat))]),
        CA::And(vec![key(0), CA::Leaf(A::Triv)]),
        CA::Thresh(2, vec![key(0), key(1), key(2), key(3), key(4)]),
        CA::Or(vec![(1, CA::Thresh(2, vec![key(0), key(1), key(2)])), (1, CA::And(vec![key(3), CA::Leaf(A::After(500_000_001))]))]),
    ];
    for c in &corpus {
        if seen.insert(ca_wire(c)) { n_pol += 1; run.out.count("policy corpus"); run.all_targets(c, false); }
    }
    run.out.note("t_after policy corpus", t_start.elapsed().as_millis().to_string());

    // near-twin siblings: two branches at EQUAL odds that differ in one leaf only, the two leaves
    // being "close" (same lock kind in different units, same consensus-relevant bits, same hash
    // value under another hash function).  The compiler memoises sub-compilations in a map keyed
    // by (policy, sat_prob, dissat_prob) under the hand-written Ord of Policy, so such siblings
    // are where a key collision would hand one branch the other's compilation.
    let twins: Vec<(A, A)> = vec![
        (A::After(9), A::After(1_000_000_000)),
        (A::After(100), A::After(500_000_100)),
        (A::Older(10), A::Older(4_194_314)),
        (A::Older(5), A::Older(65_541)),
        (A::Older(5), A::Older(4_194_309)),
        (A::Older(1), A::Older(65_537)),
        (A::After(1), A::After(2)),
        (A::Hash(0, 0), A::Hash(1, 0)),
        (A::Hash(0, 0), A::Hash(0, 1)),
        (A::Hash(2, 0), A::Hash(3, 0)),
    ];
    let mut twin_pols: Vec<CA> = vec![];
    for (x, y) in &twins {
        let (x, y) = (CA::Leaf(x.clone()), CA::Leaf(y.clone()));
        let bx = CA::And(vec![x.clone(), key(1)]);
        let by = CA::And(vec![y.clone(), key(2)]);
        twin_pols.push(CA::Or(vec![(1, bx.clone()), (1, by.clone())]));
        twin_pols.push(CA::Or(vec![(1, by.clone()), (1, bx.clone())]));
        twin_pols.push(CA::And(vec![key(0), CA::Or(vec![(1, bx.clone()), (1, by.clone())])]));
        twin_pols.push(CA::Thresh(1, vec![bx.clone(), by.clone()]));
        twin_pols.push(CA::Or(vec![(1, CA::And(vec![key(1), x.clone()])), (1, CA::And(vec![key(2), y.clone()]))]));
        twin_pols.push(CA::Or(vec![(1, key(0)), (1, CA::Or(vec![(1, bx.clone()), (1, by.clone())]))]));
        twin_pols.push(CA::Thresh(2, vec![key(0), bx, by]));
    }
    // n-ary and / or built through the public enum (the parser insists on exactly two children):
    // today every compiler entry point refuses them; should one start accepting them, all
    // branches must survive in the output
    {
        let or3 = CA::Or(vec![(1, key(1)), (1, key(2)), (1, key(3))]);
        let or3w = CA::Or(vec![(3, key(1)), (1, key(2)), (2, CA::And(vec![key(3), CA::Leaf(A::Older(10))]))]);
        let and3 = CA::And(vec![key(1), key(2), key(3)]);
        for c in [
            or3.clone(), or3w.clone(), and3.clone(),
            CA::And(vec![CA::Leaf(A::Older(10)), or3.clone()]),
            CA::And(vec![key(0), or3w.clone()]),
            CA::Or(vec![(9, key(0)), (1, CA::And(vec![key(4), or3.clone()]))]),
            CA::Or(vec![(1, key(0)), (1, and3.clone())]),
            CA::Thresh(2, vec![key(0), or3.clone(), key(4)]),
            CA::Or(vec![(1, key(1))]),
            CA::And(vec![key(1)]),
        ] {
            twin_pols.push(c);
        }
    }
    for c in &twin_pols {
        if seen.insert(ca_wire(c)) { n_pol += 1; run.out.count("policy near-twin siblings"); run.all_targets(c, false); }
    }
    run.out.note("t_after policy near-twin siblings", t_start.elapsed().as_millis().to_string());

    // repeated material.  The compiler memoises by policy VALUE (cache key (policy, sat_prob,
    // dissat_prob)), so equal sub-policies in different positions / under different odds share
    // cache entries.  (a) repeated keyless sub-policies, hashes and locks: legal, must compile to an
    // equivalent sane output; (b) repeated KEYS: `is_valid` refuses them (DuplicatePubKeys) — a
    // returned output would be judged like any other (duplicate keys make it insane).
    let h0 = CA::Leaf(A::Hash(0, 0));
    let o10 = CA::Leaf(A::Older(10));
    let a100 = CA::Leaf(A::After(100));
    let subs: Vec<CA> = vec![
        h0.clone(), o10.clone(), a100.clone(),
        CA::And(vec![h0.clone(), o10.clone()]),
        CA::Thresh(2, vec![h0.clone(), o10.clone()]),
        CA::And(vec![h0.clone(), CA::And(vec![o10.clone(), a100.clone()])]),
        // keyless disjunctions have no non-malleable compilation: every entry point must refuse
        CA::Or(vec![(1, h0.clone()), (3, o10.clone())]),
    ];
    let odds_sets: Vec<(usize, usize)> = if thorough { vec![(1, 1), (3, 1), (1, 9)] } else { vec![(1, 1), (1, 9)] };
    let mut rep: Vec<CA> = vec![];
    for x in &subs {
        for &(wa, wb) in &odds_sets {
            // the same sub-policy in both branches, guarded by different keys
            rep.push(CA::Or(vec![(wa, CA::And(vec![key(0), x.clone()])), (wb, CA::And(vec![key(1), x.clone()]))]));
            rep.push(CA::Or(vec![(wa, CA::And(vec![x.clone(), key(0)])), (wb, CA::And(vec![key(1), x.clone()]))]));
            // as BOTH branches of one `or` with these odds, under a key
            rep.push(CA::And(vec![key(0), CA::Or(vec![(wa, x.clone()), (wb, x.clone())])]));
            // the same sub-policy at two depths (different sat / dissat probabilities)
            rep.push(CA::Or(vec![(wa, CA::And(vec![key(0), x.clone()])), (wb, CA::And(vec![key(1), CA::Or(vec![(1, key(2)), (1, x.clone())])]))]));
        }
        rep.push(CA::And(vec![key(0), CA::And(vec![x.clone(), x.clone()])]));
        rep.push(CA::Thresh(2, vec![key(0), x.clone(), x.clone()]));
        rep.push(CA::Thresh(3, vec![key(0), key(1), x.clone(), x.clone()]));
        rep.push(CA::Thresh(2, vec![CA::And(vec![key(0), x.clone()]), CA::And(vec![key(1), x.clone()]), CA::And(vec![key(2), x.clone()])]));
        rep.push(CA::Thresh(1, vec![CA::And(vec![key(0), x.clone()]), CA::And(vec![key(1), x.clone()]), CA::And(vec![key(2), x.clone()])]));
    }
    // repeated keys
    for (wa, wb) in [(1usize, 1usize), (3, 1)] {
        rep.push(CA::Or(vec![(wa, key(0)), (wb, key(0))]));
        rep.push(CA::Or(vec![(wa, CA::And(vec![key(0), o10.clone()])), (wb, CA::And(vec![key(0), h0.clone()]))]));
        rep.push(CA::Or(vec![(wa, key(0)), (wb, CA::And(vec![key(0), key(1)]))]));
        rep.push(CA::Or(vec![(wa, CA::Thresh(2, vec![key(0), key(1), key(2)])), (wb, CA::Thresh(2, vec![key(2), key(1), key(0)]))]));
    }
    rep.push(CA::And(vec![key(0), key(0)]));
    rep.push(CA::Thresh(2, vec![key(0), key(0), key(1)]));
    rep.push(CA::Thresh(2, vec![key(0), key(1), key(0)]));
    rep.push(CA::And(vec![key(1), CA::Or(vec![(1, key(0)), (1, CA::And(vec![key(0), o10.clone()]))])]));
    for (i, c) in rep.iter().enumerate() {
        // quick tier: the full target matrix for every third case, the light one (Segwitv0, Tap,
        // sh(wsh), tr entry points) for the others
        if seen.insert(ca_wire(c)) { n_pol += 1; run.out.count("policy repeated sub-policies / keys"); run.all_targets(c, !thorough && i % 3 != 0); }
    }
    run.out.note("t_after policy repeated sub-policies / keys", t_start.elapsed().as_millis().to_string());

    // cache-key sensitivity: sibling sub-policies that a sloppy comparison (of the hand-written
    // Ord of Policy / Threshold, which keys the compiler's cache) would identify, at equal and
    // unequal odds, each guarded by its own key so that the policy is legal.  A keyless
    // sub-policy is only compilable (non-malleably) when it is a conjunction, so the pairs are
    // conjunctions / n-of-n thresholds that share a prefix, a suffix, the length, the multiset of
    // children in another order or nesting, or `and` vs `thresh(n,…)`.
    let h1 = CA::Leaf(A::Hash(3, 1));
    let near: Vec<(CA, CA)> = vec![
        (CA::And(vec![h0.clone(), o10.clone()]), CA::And(vec![h0.clone(), a100.clone()])),
        (CA::And(vec![h0.clone(), o10.clone()]), CA::And(vec![a100.clone(), o10.clone()])),
        (CA::And(vec![h0.clone(), o10.clone()]), CA::And(vec![o10.clone(), h0.clone()])),
        (CA::And(vec![h0.clone(), o10.clone()]), CA::Thresh(2, vec![h0.clone(), o10.clone()])),
        (CA::And(vec![h0.clone(), o10.clone()]), CA::Thresh(2, vec![h0.clone(), a100.clone()])),
        (CA::Thresh(2, vec![h0.clone(), o10.clone()]), CA::Thresh(2, vec![h0.clone(), a100.clone()])),
        (CA::Thresh(2, vec![h0.clone(), o10.clone()]), CA::Thresh(2, vec![h1.clone(), o10.clone()])),
        (CA::Thresh(3, vec![h0.clone(), o10.clone(), a100.clone()]), CA::Thresh(2, vec![h0.clone(), o10.clone()])),
        (CA::Thresh(3, vec![h0.clone(), o10.clone(), a100.clone()]), CA::Thresh(3, vec![h0.clone(), o10.clone(), h1.clone()])),
        (CA::And(vec![h0.clone(), CA::And(vec![o10.clone(), a100.clone()])]), CA::And(vec![CA::And(vec![h0.clone(), o10.clone()]), a100.clone()])),
        (CA::And(vec![h0.clone(), CA::And(vec![o10.clone(), a100.clone()])]), CA::And(vec![h0.clone(), CA::And(vec![o10.clone(), h1.clone()])])),
        (CA::Thresh(1, vec![h0.clone()]), CA::Thresh(1, vec![o10.clone()])),
        (h0.clone(), CA::Thresh(1, vec![h0.clone()])),
    ];
    let mut near_pols: Vec<CA> = vec![];
    for (x, y) in &near {
        for &(wa, wb) in &odds_sets {
            near_pols.push(CA::Or(vec![(wa, CA::And(vec![key(0), x.clone()])), (wb, CA::And(vec![key(1), y.clone()]))]));
            if thorough || wa != wb { near_pols.push(CA::Or(vec![(wa, CA::And(vec![key(0), y.clone()])), (wb, CA::And(vec![key(1), x.clone()]))])); }
        }
        near_pols.push(CA::And(vec![key(0), CA::Or(vec![(1, x.clone()), (1, y.clone())])]));
        near_pols.push(CA::Thresh(2, vec![key(0), CA::And(vec![key(1), x.clone()]), CA::And(vec![key(2), y.clone()])]));
        near_pols.push(CA::Thresh(1, vec![CA::And(vec![key(1), x.clone()]), CA::And(vec![key(2), y.clone()])]));
        near_pols.push(CA::And(vec![CA::And(vec![key(0), x.clone()]), CA::And(vec![key(1), y.clone()])]));
    }
    // k differing / key order differing over KEYS: the siblings must use different keys
    near_pols.push(CA::Or(vec![(1, CA::Thresh(1, vec![key(0), key(1), key(2)])), (1, CA::Thresh(2, vec![key(3), key(4), key(5)]))]));
    for k in 1..=3usize {
        // same k and n, other keys: equal under a comparison that looks at the numbers only
        near_pols.push(CA::Or(vec![(1, CA::Thresh(k, vec![key(0), key(1), key(2)])), (1, CA::Thresh(k, vec![key(3), key(4), key(5)]))]));
        near_pols.push(CA::And(vec![CA::Thresh(k, vec![key(0), key(1), key(2)]), CA::Thresh(k, vec![key(3), key(4), key(5)])]));
    }
    near_pols.push(CA::Or(vec![(1, CA::And(vec![key(0), key(1)])), (1, CA::And(vec![key(2), key(3)]))]));
    near_pols.push(CA::And(vec![CA::Or(vec![(1, key(0)), (1, key(1))]), CA::Or(vec![(1, key(2)), (1, key(3))])]));
    near_pols.push(CA::Or(vec![(3, CA::Thresh(2, vec![key(0), key(1), key(2)])), (1, CA::Thresh(3, vec![key(3), key(4), key(5)]))]));
    near_pols.push(CA::Or(vec![(1, CA::And(vec![key(0), key(1)])), (1, CA::Thresh(2, vec![key(2), key(3)]))]));
    near_pols.push(CA::And(vec![CA::Or(vec![(3, key(0)), (1, key(1))]), CA::Or(vec![(1, key(2)), (3, key(3))])]));
    for (i, c) in near_pols.iter().enumerate() {
        if seen.insert(ca_wire(c)) { n_pol += 1; run.out.count("policy cache-key near-equal siblings"); run.all_targets(c, !thorough && i % 3 != 0); }
    }
    run.out.note("t_after policy cache-key near-equal siblings", t_start.elapsed().as_millis().to_string());

    // taproot trees with many leaves: odds that give Huffman trees of depth >= 3 (halving chain,
    // balanced, skewed), with a top-level key (extracted as internal key) and without one (the
    // caller's unspendable key / NoInternalKey), leaves that are keys and leaves that are scripts
    let guarded = |i: u32| CA::And(vec![key(i), CA::Leaf(A::Older(10 + i))]);
    let chain = |leaf: &dyn Fn(u32) -> CA, n: u32, wa: usize, wb: usize| -> CA {
        let mut acc = leaf(n - 1);
        for i in (0..n - 1).rev() { acc = CA::Or(vec![(wa, leaf(i)), (wb, acc)]); }
        acc
    };
    fn balanced(leaf: &dyn Fn(u32) -> CA, lo: u32, hi: u32, wa: usize, wb: usize) -> CA {
        if hi - lo == 1 { return leaf(lo); }
        let mid = (lo + hi) / 2;
        CA::Or(vec![(wa, balanced(leaf, lo, mid, wa, wb)), (wb, balanced(leaf, mid, hi, wa, wb))])
    }
    let kleaf = |i: u32| key(i);
    let mut trees: Vec<CA> = vec![];
    for n in [5u32, 8] {
        for (wa, wb) in [(1usize, 1usize), (3, 1), (1, 9)] {
            trees.push(chain(&kleaf, n, wa, wb));
            trees.push(chain(&guarded, n, wa, wb));
            trees.push(balanced(&kleaf, 0, n, wa, wb));
            trees.push(balanced(&guarded, 0, n, wa, wb));
        }
        trees.push(CA::Thresh(1, (0..n).map(kleaf).collect()));
        trees.push(CA::Thresh(1, (0..n).map(guarded).collect()));
        // one key among script leaves, in a likely and in an unlikely position
        trees.push(CA::Or(vec![(9, key(0)), (1, chain(&|i| guarded(i + 1), n - 1, 1, 1))]));
        trees.push(CA::Or(vec![(1, key(0)), (9, balanced(&|i| guarded(i + 1), 0, n - 1, 1, 1))]));
        // two top-level keys with different odds: the likelier one must become the internal key
        trees.push(CA::Or(vec![(1, key(0)), (1, CA::Or(vec![(9, key(1)), (1, balanced(&|i| guarded(i + 2), 0, n - 2, 1, 1))]))]));
    }
    // k-of-n at the top: compile_tr keeps it as one leaf, the private / native compilers expand it
    trees.push(CA::Thresh(2, (0..4).map(kleaf).collect()));
    trees.push(CA::Thresh(2, vec![key(0), key(1), guarded(2), guarded(3)]));
    trees.push(CA::Or(vec![(1, key(0)), (1, CA::Thresh(2, vec![guarded(1), guarded(2), guarded(3)]))]));
    run.tr_only = true;
    for c in &trees {
        if seen.insert(ca_wire(c)) { n_pol += 1; run.out.count("policy many-leaf taproot trees"); run.all_targets(c, false); }
    }
    run.out.note("t_after policy many-leaf taproot trees", t_start.elapsed().as_millis().to_string());
    run.tr_only = false;
    let t_gap = t_start.elapsed().as_millis();
    run.out.note("time_until_exhaustive_part_ms", t_gap.to_string());

    // ------------------------------------------------------------------ input-dimension cells
    let older10 = CA::Leaf(A::Older(10));
    run.all_refuses = true;
    // constants and mixed locks (deterministic, every tier)
    let det: Vec<CA> = vec![
        CA::Leaf(A::Triv), CA::Leaf(A::Unsat),
        CA::Or(vec![(1, key(0)), (1, CA::Leaf(A::Triv))]), CA::Or(vec![(9, CA::Leaf(A::Triv)), (1, key(0))]),
        CA::And(vec![key(0), CA::Leaf(A::Unsat)]), CA::And(vec![CA::Leaf(A::Triv), key(0)]),
        CA::Thresh(2, vec![key(0), CA::Leaf(A::Unsat), key(1)]), CA::Thresh(1, vec![key(0), CA::Leaf(A::Triv)]),
        CA::Thresh(2, vec![key(0), CA::Leaf(A::Triv), key(1)]),
        CA::Or(vec![(1, key(0)), (1, CA::And(vec![key(1), CA::Leaf(A::Unsat)]))]),
        CA::And(vec![key(0), CA::And(vec![CA::Leaf(A::After(100)), CA::Leaf(A::After(500_000_001))])]),
        CA::Thresh(2, vec![CA::Leaf(A::Older(10)), CA::Leaf(A::Older(4_194_314)), key(0)]),
        CA::Thresh(3, vec![CA::Leaf(A::Older(10)), CA::Leaf(A::Older(4_194_314)), key(0)]),
        CA::Or(vec![(1, CA::And(vec![key(0), CA::Leaf(A::After(100))])), (1, CA::And(vec![key(1), CA::Leaf(A::After(500_000_001))]))]),
    ];
    for c in &det {
        if seen.insert(ca_wire(c)) { n_pol += 1; run.out.count("policy constants / mixed locks"); run.all_targets(c, false); }
    }
    // uncompressed keys (ids 100..): Bare / Legacy accept them, Segwitv0 / Tap / tr must refuse; also
    // as the caller's unspendable key
    run.panic_obs = Some("uncompressed key in a taproot compilation");
    let unc: Vec<CA> = vec![
        key(100),
        CA::Or(vec![(1, key(100)), (1, CA::And(vec![key(1), older10.clone()]))]),
        CA::Or(vec![(9, key(1)), (1, key(100))]),
        CA::And(vec![key(100), older10.clone()]),
        CA::Thresh(2, vec![key(100), key(1), key(2)]),
        CA::Thresh(2, vec![key(100), key(101), key(102)]),
        CA::Or(vec![(1, key(1)), (1, CA::And(vec![key(100), key(101)]))]),
    ];
    for c in &unc {
        if seen.insert(ca_wire(c)) {
            n_pol += 1; run.out.count("policy uncompressed keys");
            run.some_targets(c, &["ms-bare", "ms-legacy", "ms-segwitv0", "ms-tap-full", "desc-sh", "desc-wsh"]);
            run.tr_only = true; run.all_targets(c, false); run.tr_only = false;
        }
    }
    run.unsp = 100;
    for c in [CA::And(vec![key(0), older10.clone()]), CA::Or(vec![(1, CA::And(vec![key(0), older10.clone()])), (1, CA::And(vec![key(1), CA::Leaf(A::Hash(0, 0))]))]), key(0)] {
        n_pol += 1; run.out.count("policy with an uncompressed unspendable key");
        run.tr_only = true; run.all_targets(&c, false); run.tr_only = false;
    }
    run.unsp = UNSPENDABLE;
    // x-only keys outside Tap: must be refused
    run.panic_obs = Some("x-only key outside Tap");
    for c in [key(0), CA::Or(vec![(1, key(0)), (1, CA::And(vec![key(1), older10.clone()]))]), CA::Thresh(2, vec![key(0), key(1), key(2)])] {
        n_pol += 1; run.out.count("policy x-only keys outside Tap");
        run.some_targets(&c, &["x-segwitv0", "x-legacy", "x-bare"]);
    }
    // odds that only the public enum can express (the parser insists on 1 <= odds <= u32::MAX)
    run.panic_obs = Some("or-odds 0 / usize::MAX (not expressible in text)");
    let b1 = CA::And(vec![key(1), older10.clone()]);
    let odd: Vec<CA> = vec![
        CA::Or(vec![(0, key(0)), (1, key(1))]), CA::Or(vec![(1, key(0)), (0, key(1))]),
        CA::Or(vec![(0, key(0)), (0, key(1))]), CA::Or(vec![(0, key(0)), (0, b1.clone())]),
        CA::Or(vec![(usize::MAX, key(0)), (1, key(1))]), CA::Or(vec![(usize::MAX, key(0)), (usize::MAX, b1.clone())]),
        CA::Or(vec![(usize::MAX / 2 + 1, key(0)), (usize::MAX / 2 + 1, key(1))]),
        CA::And(vec![key(2), CA::Or(vec![(0, key(0)), (1, b1.clone())])]),
        CA::Or(vec![(1, key(0)), (2, b1.clone())]), CA::Or(vec![(2, key(0)), (4, b1.clone())]),
        CA::Or(vec![(4_294_967_295, key(0)), (1, b1.clone())]), CA::Or(vec![(4_294_967_296, key(0)), (1, b1.clone())]),
    ];
    for c in &odd {
        // OBSERVATION (outside C08's statement, enum-only input): when the usize sum of the odds
        // wraps to 0, compile_tr_native overflows the native stack (process abort, cannot be
        // caught), e.g. compile_tr_native(None, 1) on or(18446744073709551615@pk(0),1@pk(1)):
        // those policies skip the native entry point
        let wraps = match c { CA::Or(v) => v.iter().map(|x| x.0).fold(0usize, |a, b| a.wrapping_add(b)) < v[0].0, CA::And(_) => false, _ => false };
        run.no_native = wraps;
        if wraps { run.out.count("observation: odds whose usize sum wraps: compile_tr_native not called (native stack overflow)"); }
        if seen.insert(ca_wire(c)) { n_pol += 1; run.out.count("policy enum-only odds"); run.all_targets(c, false); }
    }
    run.no_native = false;
    run.panic_obs = None;
    run.all_refuses = false;
    // resource limits on large outputs: whatever is returned must be within the context's limits
    run.big = true;
    let keys_n = |n: u32| -> Vec<CA> { (0..n).map(key).collect() };
    fn conj(v: &[CA]) -> CA {
        if v.len() == 1 { return v[0].clone(); }
        let m = v.len() / 2;
        CA::And(vec![conj(&v[..m]), conj(&v[m..])])
    }
    for n in [14u32, 15, 16] {
        // around the 520-byte redeem script limit (multi: 3 + 34 n, conjunction: 35 n)
        for c in [CA::Thresh(n as usize, keys_n(n)), CA::Thresh(1, keys_n(n)), conj(&keys_n(n))] {
            n_pol += 1; run.out.count("policy large: Legacy script size boundary");
            run.some_targets(&c, &["ms-legacy", "desc-sh", "ms-bare", "ms-segwitv0"]);
        }
    }
    for n in [20u32, 21] {
        // across MAX_PUBKEYS_PER_MULTISIG
        for k in [2usize, n as usize - 1] {
            let c = CA::Thresh(k, keys_n(n));
            n_pol += 1; run.out.count("policy large: multi / multi_a key-count boundary");
            run.some_targets(&c, &["ms-segwitv0", "desc-wsh", "ms-tap", "ms-legacy"]);
        }
    }
    for n in [98u32, 99, 100] {
        // around 100 witness items in Segwitv0
        let c = conj(&keys_n(n));
        n_pol += 1; run.out.count("policy large: Segwitv0 witness-item boundary");
        run.some_targets(&c, &["ms-segwitv0", "desc-wsh", "ms-tap"]);
    }
    run.big = false;
    run.out.note("t_after dimension cells", t_start.elapsed().as_millis().to_string());

    // ------------------------------------------------------------------ route-and-state round
    // (R2) refused TODAY, one reason each; judged like everything else the day one is accepted
    run.all_refuses = true;
    let h0l = CA::Leaf(A::Hash(0, 0));
    let refused: Vec<(CA, &str)> = vec![
        (CA::Or(vec![(1, key(0)), (1, older10.clone())]), "sigless branch (or)"),
        (CA::Thresh(1, vec![key(0), key(1), older10.clone()]), "sigless branch (thresh 1)"),
        (CA::Thresh(2, vec![key(0), h0l.clone(), older10.clone()]), "sigless branch (thresh 2 of 3, one key)"),
        (older10.clone(), "no key at all"), (h0l.clone(), "no key at all"),
        (CA::And(vec![key(0), CA::Or(vec![(1, h0l.clone()), (1, older10.clone())])]), "no non-malleable compilation (keyless or)"),
        (CA::And(vec![key(0), CA::Thresh(2, vec![h0l.clone(), older10.clone(), CA::Leaf(A::After(100))])]), "no non-malleable compilation (keyless 2 of 3)"),
        (CA::And(vec![key(0), CA::And(vec![CA::Leaf(A::Older(10)), CA::Leaf(A::Older(4_194_314))])]), "mixed relative locks"),
        (CA::And(vec![key(0), CA::And(vec![CA::Leaf(A::After(100)), CA::Leaf(A::After(500_000_100))])]), "mixed absolute locks"),
        (CA::Thresh(3, vec![key(0), CA::Leaf(A::Older(10)), CA::Leaf(A::Older(4_194_314))]), "mixed relative locks (thresh n of n)"),
        (CA::Thresh(2, vec![CA::Leaf(A::After(100)), CA::Leaf(A::After(500_000_100)), key(0)]), "mixed absolute locks (thresh path)"),
        (CA::And(vec![CA::And(vec![key(0), CA::Leaf(A::After(100))]), CA::And(vec![key(1), CA::Leaf(A::After(500_000_100))])]), "mixed absolute locks (two conjuncts)"),
        // NOT mixed: different lock families, or the same unit twice - these must compile
        (CA::And(vec![key(0), CA::And(vec![CA::Leaf(A::After(100)), CA::Leaf(A::Older(4_194_314))])]), "control: after-height with older-time"),
        (CA::And(vec![key(0), CA::And(vec![CA::Leaf(A::After(500_000_100)), CA::Leaf(A::Older(10))])]), "control: after-time with older-height"),
        (CA::And(vec![key(0), CA::And(vec![CA::Leaf(A::Older(10)), CA::Leaf(A::Older(20))])]), "control: two height locks"),
        (CA::Or(vec![(1, key(0)), (1, key(0))]), "duplicate key (or)"),
        (CA::And(vec![key(0), key(0)]), "duplicate key (and)"),
        (CA::Thresh(2, vec![key(0), key(1), key(0)]), "duplicate key (multi special case)"),
        (CA::Or(vec![(1, key(1)), (1, CA::And(vec![key(0), CA::Thresh(2, vec![key(2), key(0), key(3)])]))]), "duplicate key (pk and multi member)"),
        (CA::And(vec![key(0), key(1), key(2)]), "non-binary and"), (CA::Or(vec![(1, key(0)), (1, key(1)), (1, key(2))]), "non-binary or"),
        (CA::And(vec![key(0)]), "unary and"), (CA::Or(vec![(1, key(0))]), "unary or"),
    ];
    for (c, why) in &refused {
        if seen.insert(ca_wire(c)) { n_pol += 1; run.out.count(&format!("policy refused-today: {}", why)); run.all_targets(c, false); }
    }
    run.all_refuses = false;
    run.out.note("t_after refused-today", t_start.elapsed().as_millis().to_string());

    // (R5) casts.  Policies whose cheapest compilation needs each wrapper / cast (t: l: u: a: s: c:
    // d: v: j: n:) and casts over casts (snl:, sdv:, ajc:, jtv:, …), each at odds 1@9, 9@1 and 1@1 so
    // that the choice between the casts flips, in every context and every descriptor wrapper.
    // Which towers actually reach the judge in which context is recorded (`cast <ctx> <tower>`).
    let a100l = CA::Leaf(A::After(100));
    let kh = |i: u32| CA::And(vec![key(i), h0l.clone()]);
    let ko = |i: u32| CA::And(vec![key(i), older10.clone()]);
    let mut pairs: Vec<(CA, CA)> = vec![
        (key(0), ko(1)), (key(0), kh(1)), (ko(0), kh(1)), (kh(0), kh(1)),
        (CA::And(vec![key(0), key(1)]), CA::And(vec![key(2), key(3)])),
        (ko(0), CA::Thresh(2, vec![key(1), key(2), key(3)])),
    ];
    if thorough {
        pairs.extend(vec![
            (key(0), key(1)), (ko(0), ko(1)), (key(0), CA::And(vec![key(1), key(2)])),
            (key(0), CA::Thresh(2, vec![key(1), key(2), key(3)])),
            (key(0), CA::And(vec![key(1), CA::And(vec![h0l.clone(), a100l.clone()])])),
        ]);
    }
    let mut castp: Vec<CA> = vec![];
    for (x, y) in &pairs {
        for (wa, wb) in [(1usize, 9usize), (9, 1), (1, 1)] {
            let o = CA::Or(vec![(wa, x.clone()), (wb, y.clone())]);
            castp.push(o.clone());
            castp.push(CA::And(vec![key(5), o.clone()]));                                  // or under and: or_c / t:or_c / andor
            if thorough { castp.push(CA::And(vec![o.clone(), older10.clone()])); }
            castp.push(CA::Or(vec![(wa, key(6)), (wb, CA::And(vec![key(5), o.clone()]))]));  // cast over cast
        }
    }
    // thresholds force W-typed, dissatisfiable children: s:, a:, sdv:/snl: over locks, j: / n: over conjunctions
    for k in 1..=3usize {
        castp.push(CA::Thresh(k, vec![key(0), key(1), older10.clone()]));
        castp.push(CA::Thresh(k, vec![key(0), ko(1), kh(2)]));
        castp.push(CA::Thresh(k, vec![key(0), a100l.clone(), CA::And(vec![key(1), h0l.clone()])]));
        castp.push(CA::Thresh(k, vec![ko(0), ko(1), ko(2)]));
        castp.push(CA::Thresh(k, vec![key(0), CA::Or(vec![(1, key(1)), (1, key(2))]), CA::And(vec![key(3), key(4)])]));
        castp.push(CA::Or(vec![(9, key(5)), (1, CA::Thresh(k, vec![key(0), key(1), older10.clone()]))]));
        castp.push(CA::And(vec![key(5), CA::Thresh(k, vec![key(0), key(1), CA::And(vec![key(2), older10.clone()])])]));
    }
    for c in &castp {
        // the four miniscript contexts (the descriptor wrappers would repeat the same compilations;
        // they get every other corpus); the thorough tier adds them
        if seen.insert(ca_wire(c)) {
            n_pol += 1; run.out.count("policy cast family");
            if thorough { run.no_tr = true; run.all_targets(c, false); run.no_tr = false; }
            else { run.some_targets(c, &["ms-bare", "ms-legacy", "ms-segwitv0", "ms-tap"]); }
        }
    }
    run.out.note("t_after cast family", t_start.elapsed().as_millis().to_string());

    // (R1) the semantics of the designated fragment corpus (ast::dimension_corpus, wrapper towers
    // included) as policies: all hash kinds, both lock units, thresholds with lock children, …
    let mut n_dim = 0;
    for ctx in [CtxK::Segwitv0, CtxK::Tap] {
        for n in ast::dimension_corpus(ctx) {
            if let Some(c) = policy_of_node(&n) {
                if n_leaves(&c) > 8 { continue; }
                if seen.insert(ca_wire(&c)) { n_pol += 1; n_dim += 1; run.out.count("policy of a dimension-corpus fragment"); run.all_targets(&c, true); }
            }
        }
    }
    run.out.note("dimension_corpus_policies", n_dim.to_string());
    run.out.note("t_after route-and-state", t_start.elapsed().as_millis().to_string());

    // rare branches: with extreme odds the compiler trades witness size for script size, which
    // is where its special cases (thresh -> multi / multi_a, andor, or_i orderings) are actually
    // chosen.  Every k-of-n over keys (n <= 4) and every depth-1 shape over keys, as the 1-in-1000
    // branch and as the 999-in-1000 branch.
    let mut rare: Vec<CA> = vec![];
    for n in 1..=4u32 {
        for k in 1..=n as usize {
            let t = CA::Thresh(k, (1..=n).map(key).collect());
            rare.push(CA::Or(vec![(999, key(0)), (1, t.clone())]));
            rare.push(CA::Or(vec![(1, t.clone()), (999, key(0))]));
            rare.push(CA::Or(vec![(1, key(0)), (999, t.clone())]));
            rare.push(CA::Or(vec![(999, key(0)), (1, CA::And(vec![t.clone(), CA::Leaf(A::Older(10))]))]));
            rare.push(CA::And(vec![CA::Leaf(A::After(100)), CA::Or(vec![(999, key(0)), (1, t)])]));
        }
    }
    for s in shapes(1, 3) {
        let kv: Vec<Kind> = (0..slots(&s)).map(|_| Kind::Key).collect();
        let mut f = Fill { nk: 0, nh: 0, na: 0, no: 0, hrot: 0 };
        let body = fill(&s, &kv, &mut 0, &mut f);
        rare.push(CA::Or(vec![(999, key(7)), (1, body.clone())]));
        rare.push(CA::Or(vec![(1, body), (99, key(7))]));
    }
    for c in &rare {
        if seen.insert(ca_wire(c)) { n_pol += 1; run.out.count("policy rare-branch odds"); run.all_targets(c, !thorough); }
    }
    run.out.note("t_after policy rare-branch odds", t_start.elapsed().as_millis().to_string());

    run.used_state = false;
    // bounded-exhaustive: every shape of depth <= 1 over <= 4 leaves x every kind vector; depth 2
    // sampled (quick) / complete over the main kinds (thorough)
    let pool_main = [Kind::Key, Kind::Hash, Kind::After, Kind::Older];
    let pool_all = [Kind::Key, Kind::Hash, Kind::After, Kind::Older, Kind::AfterT, Kind::OlderT, Kind::Triv, Kind::Unsat];
    let d1 = shapes(1, 4);
    let d2: Vec<Shape> = shapes(2, 4).into_iter().skip(d1.len()).collect();
    run.out.note("shapes", format!("depth<=1: {}, depth 2: {}", d1.len(), d2.len()));
    let mut cases: Vec<(CA, &'static str)> = vec![];
    for s in &d1 {
        for (ci, kv) in kind_vectors(slots(s), &pool_main).into_iter().enumerate() {
            // all four hash functions take their turn as the first hash of a policy
            let mut f = Fill { nk: 0, nh: 0, na: 0, no: 0, hrot: ci as u32 % 4 };
            cases.push((fill(s, &kv, &mut 0, &mut f), "policy depth<=1 exhaustive"));
        }
        // the rarer kinds: one random vector per shape (three in the thorough tier)
        for _ in 0..(if thorough { 3 } else { 1 }) {
            let kv: Vec<Kind> = (0..slots(s)).map(|_| *rng.pick(&pool_all)).collect();
            let mut f = Fill { nk: 0, nh: 0, na: 0, no: 0, hrot: 0 };
            cases.push((fill(s, &kv, &mut 0, &mut f), "policy depth<=1 rare kinds"));
        }
    }
    let per_shape = if thorough { 6 } else { 1 };
    for s in &d2 {
        for j in 0..per_shape {
            // key-heavy kind vectors (sigless policies are refused early and teach nothing)
            let kv: Vec<Kind> = (0..slots(s)).map(|_| {
                if j == 0 && !thorough && rng.below(3) > 0 { return Kind::Key; }
                match rng.below(10) { 0 => Kind::Hash, 1 => Kind::After, 2 => Kind::Older, 3 => *rng.pick(&pool_all), _ => Kind::Key }
            }).collect();
            let mut f = Fill { nk: 0, nh: 0, na: 0, no: 0, hrot: 0 };
            cases.push((fill(s, &kv, &mut 0, &mut f), "policy depth 2 sampled"));
        }
    }
    // quick tier: thin the depth-2 sample deterministically
    let keep_d2 = if thorough { 1 } else { 3 };
    let mut idx = 0usize;
    for (c, label) in cases {
        idx += 1;
        if label == "policy depth 2 sampled" && idx % keep_d2 != 0 { continue; }
        if !seen.insert(ca_wire(&c)) { continue; }
        if t_start.elapsed().as_secs() > budget_s { run.out.count("skipped: time budget"); continue; }
        n_pol += 1;
        run.out.count(label);
        // policies without any key are refused by every entry point: keep a few, skip the compile matrix
        let light = n_keys(&c) == 0 || (!thorough && label != "policy depth<=1 exhaustive" && idx % 2 == 0);
        run.all_targets(&c, light);
    }

    // random deeper / wider policies
    let n_rand = if thorough { 1500 } else { 60 };
    for _ in 0..n_rand {
        if t_start.elapsed().as_secs() > budget_s + 15 { run.out.count("skipped: time budget"); break; }
        let mut f = Fill { nk: 0, nh: 0, na: 0, no: 0, hrot: 0 };
        let mut budget = if thorough { 8 } else { 6 };
        let depth = if thorough { 4 } else { 3 };
        let c = rand_policy(&mut rng, depth, &mut budget, &mut f);
        if n_leaves(&c) > 8 || f.nk > 8 { continue; }
        if !seen.insert(ca_wire(&c)) { continue; }
        n_pol += 1;
        run.out.count("policy random");
        run.all_targets(&c, !thorough);
    }

    let programs = run.programs;
    let slow = format!("{} ms: {}", run.slowest_ms, run.slowest);
    out.note("programs", programs.to_string());
    out.note("policies", n_pol.to_string());
    out.note("slowest_compile", slow);
    out.note("distinct_nontrivial", programs.to_string());
    out.note("domain", "concrete policies: all shapes of depth <= 1 over <= 4 leaves x all kind vectors {key, hash (4 functions rotating), after, older}; depth-2 shapes sampled; random depth <= 4 with <= 8 atoms; odds {1,3,9}, 99/999 on rare branches, enum-only odds (0, usize::MAX); designated corpora: documented examples, near-twin siblings, repeated sub-policies / keys, cache-key near-equal siblings, 5-8-leaf taproot trees, constants / mixed locks, uncompressed and x-only keys, resource-limit boundaries (Legacy 520 bytes, 20/21 keys, 100 witness items), refused-today (one reason each: sigless, no non-malleable compilation, each pair of mixed lock units + unmixed controls, duplicate key per occurrence kind, non-binary / unary and-or), cast family (or / and-over-or / or-over-and-over-or / k-of-n with lock, hash and conjunction children at odds 1@9, 9@1, 1@1), the policies of ast::dimension_corpus (wrapper towers included). ROUTES, every policy (quick: the sampled depth-2 / random / rare-branch slices skip only compile_to_descriptor(Bare|Wsh|Tr(None)) and compile_tr_native(1|4)): compile::<BareCtx|Legacy|Segwitv0|Tap>, compile_to_descriptor(Bare|Sh|Wsh|ShWsh|Tr(None)|Tr(Some)), compile_tr, compile_tr_private_experimental, compile_tr_native(0|1|4|1024), each with and without an unspendable key. Every output: J compiled / compiledtr (annotations of every node, sane in the TARGET context, semantics), J desckind (descriptor kind asked for), J lift / trlift (the library's lift), J reparse; tr outputs of the designated corpora again in the USED state (after script_pubkey / spend_info) and as a clone of the used object".into());
}

//! C02: satisfiable with the caller's assets ⇒ a satisfaction is found.
//! The specification's satisfaction table (Lean, `Spec/SatTable.lean`) decides
//! "satisfiable"; its witnesses are themselves executed (`C tablecheck`) so that the table is
//! validated on every case it judges.
//! Descriptor level (`run_desc`): `Descriptor::get_satisfaction{,_mall}` and
//! `Descriptor::into_plan{,_mall}` on real transactions, judged by the table applied per leaf /
//! key path (`J dcomplete`, `J dplan`); the taproot leaf loop is compared with its model
//! (`C trbest`).
use crate::ast::{self, CtxK, Node, HK};
use crate::common::{Out, Rng};
use crate::desc::{self, DAssets, Wrap};
use crate::msops::{self, rel_canon, Assets};
use crate::with_ctx;
use miniscript::bitcoin::PublicKey;
use miniscript::descriptor::TapTree;
use miniscript::miniscript::types::Base;
use miniscript::{Descriptor, Miniscript, ScriptContext, Tap};

/// BIP65: does a transaction with (nLockTime = lt, non-final sequence) satisfy `after(n)`?
fn after_ok(lt: u32, n: u32) -> bool { (lt < 500_000_000) == (n < 500_000_000) && n <= lt }
/// BIP112 (tx version 2): does nSequence = sq satisfy `older(n)`?
fn older_ok(sq: u32, n: u32) -> bool {
    sq & (1 << 31) == 0 && (sq & (1 << 22)) == (n & (1 << 22)) && (n & 0xffff) <= (sq & 0xffff)
}

/// the concrete (nLockTime, nSequence) values worth trying for a script: on both sides of
/// every lock, in both units
fn tx_values(node: &Node) -> Vec<(u32, u32)> {
    let (mut af, mut ol) = (vec![], vec![]);
    node.locks(&mut af, &mut ol);
    let mut lts = vec![0u32];
    for n in &af { lts.push(*n); if *n > 1 { lts.push(n - 1); } }
    let mut sqs = vec![0xffff_fffeu32];
    for n in &ol { let c = rel_canon(*n); sqs.push(c); if c & 0xffff > 1 { sqs.push(c - 1); } }
    lts.sort(); lts.dedup(); sqs.sort(); sqs.dedup();
    let mut v = vec![];
    for l in &lts { for s in &sqs { v.push((*l, *s)); } }
    v
}

/// `rawmask`: two bits per raw pkh atom (bit 0: public key known, bit 1: signature available)
fn assets_for(node: &Node, lt: u32, sq: u32, keymask: u32, premask: u32, rawmask: u32) -> Assets {
    let full = Assets::full(node);
    let mut a = Assets::default();
    for (i, k) in full.ecdsa.iter().enumerate() { if keymask >> i & 1 == 1 { a.ecdsa.insert(*k); } }
    for (i, (k, _)) in full.schnorr.iter().enumerate() {
        if keymask >> i & 1 == 1 { a.schnorr.insert(*k, if k % 2 == 0 { 64 } else { 65 }); }
    }
    for (i, p) in full.pre.iter().enumerate() { if premask >> i & 1 == 1 { a.pre.insert(*p); } }
    let (mut af, mut ol) = (vec![], vec![]);
    node.locks(&mut af, &mut ol);
    for n in af { if after_ok(lt, n) { a.after.insert(n); } }
    for n in ol { if older_ok(sq, n) { a.older.insert(rel_canon(n)); } }
    for (i, h) in full.rawpk.iter().enumerate() {
        if rawmask >> (2 * i) & 1 == 1 { a.rawpk.insert(*h); }
        if rawmask >> (2 * i + 1) & 1 == 1 { a.rawsig.insert(*h); }
    }
    a
}

fn one<Pk: msops::HKey, Ctx: ScriptContext>(out: &mut Out, ctx: CtxK, node: &Node, lt: u32, sq: u32, a: &Assets)
where Assets: miniscript::Satisfier<Pk>
{
    let ms: Miniscript<Pk, Ctx> = match ast::to_ms(node) { Ok(m) => m, Err(_) => return };
    let w = node.wire();
    let aw = a.wire();
    out.line(&format!("C tablecheck {} {} {} {} {}", ctx.name(), lt, sq, w, aw), "consistent");
    let r = std::panic::catch_unwind(std::panic::AssertUnwindSafe(|| {
        (ms.satisfy_malleable(a).is_ok(), ms.satisfy(a).is_ok())
    }));
    let (mall, nonmall) = match r {
        Ok(x) => x,
        Err(_) => { out.line(&format!("J nopanic satisfy {} {} {} PANIC", ctx.name(), w, aw), "ok"); return; }
    };
    let sane = ms.validate(&Ctx::SANE).is_ok();
    let full = Assets::full(node);
    let allpre = full.pre.iter().all(|p| a.pre.contains(p));
    let sn = |b: bool| if b { "some" } else { "none" };
    out.line(
        &format!("J complete {} {} {} {} {} {} {}", ctx.name(), w, aw, sane as u8, allpre as u8, sn(mall), sn(nonmall)),
        "ok",
    );
    out.line(&format!("J complete3 {} {} {} {}", ctx.name(), w, aw, sn(nonmall)), "ok");
    out.line(&format!("J tablecovers {} {} {} {}", ctx.name(), w, aw, sn(mall)), "ok");
    out.count(&format!("verdict mall={} nonmall={} sane={}", sn(mall), sn(nonmall), sane as u8));
}

fn twin_corpus(ctx: CtxK) -> Vec<Node> {
    use Node::*;
    let tap = ctx == CtxK::Tap;
    let k = |i: u32| if tap { 200 + i } else { i };
    let bx = |n: Node| Box::new(n);
    let pk = |i: u32| Check(bx(PkK(k(i))));
    let pkh = |i: u32| Check(bx(PkH(k(i))));
    let m = |t: usize, ks: &[u32]| { let v: Vec<u32> = ks.iter().map(|i| k(*i)).collect(); if tap { MultiA(t, v) } else { Multi(t, v) } };
    let sm = |t: usize, ks: &[u32]| { let v: Vec<u32> = ks.iter().map(|i| k(*i)).collect(); if tap { SortedMultiA(t, v) } else { SortedMulti(t, v) } };
    // (left, right, third) over disjoint keys
    let triples: Vec<(Node, Node, Node)> = vec![
        (pk(0), pk(1), pk(2)),
        (m(1, &[0, 1]), m(1, &[2, 3]), pk(4)),
        (m(2, &[0, 1, 2]), m(2, &[3, 4, 5]), pk(6)),
        (m(1, &[0, 1]), pk(2), pkh(3)),
        (pk(0), m(2, &[1, 2]), m(1, &[3, 4])),
        (sm(1, &[1, 0]), sm(2, &[9, 8, 2]), pkh(3)),
        (pkh(0), m(1, &[1, 2]), pk(3)),
    ];
    let mut v = vec![];
    for (x, y, z) in triples {
        v.push(OrI(bx(x.clone()), bx(y.clone())));
        v.push(OrD(bx(x.clone()), bx(y.clone())));
        v.push(OrB(bx(x.clone()), bx(Alt(bx(y.clone())))));
        v.push(AndV(bx(OrC(bx(x.clone()), bx(Verify(bx(y.clone()))))), bx(True)));
        v.push(AndOr(bx(x.clone()), bx(y.clone()), bx(z.clone())));
        v.push(Thresh(1, vec![x.clone(), Alt(bx(y.clone())), Alt(bx(z.clone()))]));
        v.push(Thresh(2, vec![x.clone(), Alt(bx(y.clone())), Alt(bx(z.clone()))]));
        v.push(OrI(bx(x.clone()), bx(AndV(bx(Verify(bx(y.clone()))), bx(Older(10))))));
        v.push(OrD(bx(x.clone()), bx(AndV(bx(Verify(bx(y.clone()))), bx(After(100))))));
        v.push(OrI(bx(AndV(bx(Verify(bx(x.clone()))), bx(z.clone()))), bx(y.clone())));
    }
    v
}


/// raw pkh fragments (only reachable by decoding a script; refused by the sanity rules, so only
/// the malleable-mode half of `J complete` applies), uncompressed keys, every hash kind
fn extra_corpus(ctx: CtxK) -> Vec<Node> {
    use Node::*;
    let tap = ctx == CtxK::Tap;
    let k = |i: u32| if tap { 200 + i } else { i };
    let bx = |n: Node| Box::new(n);
    let pk = |i: u32| Check(bx(PkK(k(i))));
    let raw = |i: u32| Check(bx(RawPkH(k(i))));
    let mut v = vec![
        raw(0),
        OrD(bx(raw(0)), bx(pk(1))),
        OrD(bx(pk(1)), bx(raw(0))),
        AndV(bx(Verify(bx(raw(0)))), bx(pk(1))),
        OrB(bx(raw(0)), bx(Alt(bx(raw(1))))),
        OrI(bx(raw(0)), bx(raw(1))),
        AndOr(bx(raw(0)), bx(pk(1)), bx(raw(2))),
        Thresh(1, vec![raw(0), Alt(bx(pk(1))), Alt(bx(raw(2)))]),
        Thresh(2, vec![raw(0), Alt(bx(pk(1))), Alt(bx(raw(2)))]),
        AndV(bx(Verify(bx(raw(0)))), bx(Older(10))),
        // every hash kind, alone and next to a signature
        AndV(bx(Verify(bx(pk(0)))), bx(Hash(HK::Hash256, 2))),
        OrD(bx(pk(0)), bx(AndV(bx(Verify(bx(pk(1)))), bx(Hash(HK::Ripemd160, 3))))),
        AndV(bx(Verify(bx(pk(0)))), bx(Hash(HK::Hash160, 1))),
        AndB(bx(Hash(HK::Hash256, 2)), bx(Alt(bx(Hash(HK::Ripemd160, 3))))),
        OrI(bx(AndV(bx(Verify(bx(pk(0)))), bx(Hash(HK::Sha256, 0)))), bx(AndV(bx(Verify(bx(pk(1)))), bx(Hash(HK::Hash256, 2))))),
    ];
    if matches!(ctx, CtxK::Bare | CtxK::Legacy) {
        // uncompressed keys (ids 100..): 66-byte pushes, 65-byte keys in pk_h
        let upk = |i: u32| Check(bx(PkK(100 + i)));
        let upkh = |i: u32| Check(bx(PkH(100 + i)));
        v.push(upk(0));
        v.push(upkh(1));
        v.push(OrD(bx(upk(0)), bx(pk(2))));
        v.push(OrI(bx(upkh(1)), bx(pk(2))));
        v.push(Multi(1, vec![100, 2]));
        v.push(SortedMulti(2, vec![3, 101, 2]));
        v.push(AndOr(bx(upk(0)), bx(upkh(1)), bx(pk(2))));
        v.push(Thresh(2, vec![upk(0), Swap(bx(pk(2))), Swap(bx(upk(3)))]));
    }
    v
}


/// COMPOSITE fragments whose DISSATISFACTION is only visible through a parent that takes its
/// other arm: each `F` (keys 0..3) under or_d / andor / or_b / thresh(1,..) next to key 5 (and 6)
fn dissat_corpus(ctx: CtxK) -> Vec<Node> {
    use Node::*;
    let tap = ctx == CtxK::Tap;
    let k = |i: u32| if tap { 200 + i } else { i };
    let bx = |n: Node| Box::new(n);
    let pk = |i: u32| Check(bx(PkK(k(i))));
    let v = |n: Node| Verify(bx(n));
    let fs: Vec<Node> = vec![
        AndB(bx(pk(0)), bx(Alt(bx(pk(1))))),
        AndB(bx(pk(0)), bx(Alt(bx(Hash(HK::Sha256, 0))))),
        AndB(bx(AndOr(bx(pk(0)), bx(pk(1)), bx(pk(2)))), bx(Alt(bx(pk(3))))),
        AndOr(bx(pk(0)), bx(pk(1)), bx(pk(2))),
        AndOr(bx(pk(0)), bx(AndV(bx(v(pk(1))), bx(Older(10)))), bx(pk(2))),
        OrB(bx(pk(0)), bx(Alt(bx(pk(1))))),
        OrD(bx(pk(0)), bx(pk(1))),
        OrD(bx(pk(0)), bx(OrB(bx(pk(1)), bx(Alt(bx(pk(2))))))),
        OrI(bx(pk(0)), bx(pk(1))),
        OrI(bx(pk(0)), bx(False)),
        OrI(bx(False), bx(pk(1))),
        Thresh(1, vec![pk(0), Swap(bx(pk(1))), Swap(bx(pk(2)))]),
        Thresh(2, vec![pk(0), Swap(bx(pk(1))), Swap(bx(pk(2)))]),
        Thresh(2, vec![pk(0), Swap(bx(pk(1)))]),
        Thresh(3, vec![pk(0), Swap(bx(pk(1))), Alt(bx(OrD(bx(pk(2)), bx(pk(3)))))]),
        DupIf(bx(v(pk(0)))),
        DupIf(bx(v(AndV(bx(v(pk(0))), bx(pk(1)))))),
        NonZero(bx(AndV(bx(v(pk(0))), bx(pk(1))))),
        NonZero(bx(AndB(bx(pk(0)), bx(Alt(bx(pk(1))))))),
        ZeroNotEqual(bx(AndB(bx(pk(0)), bx(Alt(bx(pk(1))))))),
        // combinators over the casts t: / l: / u: (and_v(X,1), or_i(0,X), or_i(X,0)) and towers of them
        OrI(bx(AndV(bx(v(pk(0))), bx(True))), bx(False)),                                   // u:t:v:pk
        OrI(bx(False), bx(AndV(bx(v(pk(0))), bx(True)))),                                   // l:t:v:pk
        OrI(bx(OrI(bx(False), bx(pk(0)))), bx(False)),                                      // u:l:pk
        AndB(bx(OrI(bx(pk(0)), bx(False))), bx(Alt(bx(OrI(bx(False), bx(pk(1))))))),          // and_b(u:pk, a:l:pk)
        AndOr(bx(OrI(bx(False), bx(pk(0)))), bx(AndV(bx(v(pk(1))), bx(True))), bx(OrI(bx(pk(2)), bx(False)))),
        OrD(bx(OrI(bx(pk(0)), bx(False))), bx(AndV(bx(v(pk(1))), bx(True)))),
        Thresh(2, vec![OrI(bx(False), bx(pk(0))), Swap(bx(OrI(bx(pk(1)), bx(False)))), Alt(bx(DupIf(bx(v(pk(2))))))]),
        NonZero(bx(AndV(bx(v(pk(0))), bx(OrI(bx(pk(1)), bx(False)))))),
    ];
    let mut out = vec![];
    for f in fs {
        out.push(OrD(bx(f.clone()), bx(pk(5))));
        out.push(AndOr(bx(f.clone()), bx(pk(6)), bx(pk(5))));
        out.push(OrB(bx(f.clone()), bx(Alt(bx(pk(5))))));
        out.push(Thresh(1, vec![f.clone(), Alt(bx(pk(5)))]));
        out.push(OrC(bx(f.clone()), bx(v(pk(5)))).clone());
        // the composite as the RIGHT arm's sibling: and_b(F', a:pk) dissatisfied through F
        out.push(OrD(bx(AndB(bx(f.clone()), bx(Alt(bx(pk(6)))))), bx(pk(5))));
    }
    // or_c is V: close it
    out.into_iter().map(|n| match n { OrC(..) => AndV(bx(n), bx(True)), other => other }).collect()
}

/// extra designated fragments: two distinct same-unit locks under a threshold, wide multisigs
fn lock_multi_corpus(ctx: CtxK) -> Vec<Node> {
    use Node::*;
    let tap = ctx == CtxK::Tap;
    let b = if tap { 200 } else { 0 };
    let bx = |n: Node| Box::new(n);
    let pk = |i: u32| Check(bx(PkK(b + i)));
    let sln = |n: Node| Swap(bx(OrI(bx(False), bx(ZeroNotEqual(bx(n))))));
    let mut c = vec![
        Thresh(2, vec![pk(0), sln(After(100)), sln(After(200))]),
        Thresh(3, vec![pk(0), sln(After(200)), sln(After(100))]),
        Thresh(2, vec![pk(0), sln(Older(10)), sln(Older(20))]),
        Thresh(3, vec![pk(0), Swap(bx(pk(1))), sln(Older(20)), sln(Older(10))]),
        // non-malleable threshold with signature-free AVAILABLE children and k < n
        Thresh(2, vec![pk(0), Swap(bx(pk(1))), sln(Older(10))]),
        Thresh(1, vec![pk(0), Swap(bx(pk(1))), sln(Older(10))]),
        Thresh(2, vec![pk(0), Swap(bx(pk(1))), Alt(bx(Hash(HK::Sha256, 0)))]),
        Thresh(2, vec![pk(0), Swap(bx(pk(1))), Swap(bx(NonZero(bx(AndV(bx(Verify(bx(Hash(HK::Sha256, 0)))), bx(True))))))]),
        Thresh(2, vec![pk(0), sln(Older(10)), Alt(bx(Hash(HK::Hash160, 1)))]),
    ];
    // wide multisigs: the signing keys (ids b..b+9) come LAST in a list of 20
    let wide: Vec<u32> = (10..20).chain(0..10).map(|i| b + i).collect();
    if tap {
        c.push(MultiA(1, wide.clone()));
        c.push(MultiA(3, wide.clone()));
        c.push(MultiA(2, (0..5).map(|i| b + i).collect()));
        c.push(MultiA(3, (0..5).map(|i| b + i).collect()));
    } else if ctx == CtxK::Segwitv0 {
        c.push(Multi(1, wide.clone()));
        c.push(Multi(3, wide.clone()));
        c.push(SortedMulti(2, wide.clone()));
        c.push(Multi(3, (0..5).map(|i| b + i).collect()));
    } else {
        c.push(Multi(3, (0..5).map(|i| b + i).collect()));
    }
    c
}

/// `D key` lines for the extra key atoms of the wide multisigs (ids 10..19 / 210..219; nobody
/// can sign for them: the `Assets` satisfier only knows ids 0..9 / 100..103 / 200..209)
fn emit_wide_key_defs(out: &mut Out) {
    use miniscript::bitcoin::hashes::{hash160, Hash};
    for id in 10..20u32 {
        let k = ast::full_key(id);
        let ser = k.to_bytes();
        out.line(&format!("D key {} {} {} {}", id, ast::hex(&ser), ast::hex(&ast::bip67_sort(&k)),
            ast::hex(hash160::Hash::hash(&ser).as_byte_array())), "ok");
    }
    for id in 210..220u32 {
        let ser = ast::xonly_key(id).serialize();
        out.line(&format!("D key {} {} {} {}", id, ast::hex(&ser), ast::hex(&ser),
            ast::hex(hash160::Hash::hash(&ser).as_byte_array())), "ok");
    }
}

/// designated corpora, judged in EVERY tier with designated assets: all transaction values on
/// both sides of every lock, every subset of up to 5 signing keys (capped per node), all
/// preimage subsets, all raw key / signature switches
fn run_designated(out: &mut Out, thorough: bool, rng: &mut Rng) -> u64 {
    let mut n = 0u64;
    for ctx in CtxK::ALL {
        // (a) composite dissatisfactions: only key 5 / keys 5+6 / everything / everything but 5
        for node in dissat_corpus(ctx) {
            let full = Assets::full(&node);
            let z = if ctx == CtxK::Tap { 205 } else { 5 };
            let mut sets: Vec<Assets> = vec![];
            let only = |ks: &[u32]| { let mut a = Assets { pre: full.pre.clone(), older: full.older.clone(), ..Default::default() };
                for k in ks { if *k >= 200 { a.schnorr.insert(*k, 64); } else { a.ecdsa.insert(*k); } } a };
            sets.push(only(&[z]));
            sets.push(only(&[z, z + 1]));
            sets.push(full.clone());
            let mut no_z = full.clone(); no_z.ecdsa.remove(&z); no_z.schnorr.remove(&z); sets.push(no_z);
            let mut no_pre = only(&[z]); no_pre.pre.clear(); no_pre.older.clear(); sets.push(no_pre);
            for a in sets {
                n += 1;
                let sq = a.older.iter().cloned().max().unwrap_or(0xffff_fffe);
                with_ctx!(ctx, one(out, ctx, &node, 0, sq, &a));
            }
        }
        // (b) the shared dimension corpus + locks under thresholds + wide multisigs
        let mut nodes = ast::dimension_corpus(ctx);
        nodes.extend(lock_multi_corpus(ctx));
        for node in nodes {
            node.count_frags(out);
            let full = Assets::full(&node);
            let all_keys: Vec<u32> = full.ecdsa.iter().cloned().chain(full.schnorr.keys().cloned()).collect();
            let nk = all_keys.len().min(10) as u32;
            let np = full.pre.len().min(2) as u32;
            let nr = full.rawpk.len().min(2) as u32;
            for (lt, sq) in tx_values(&node) {
                for km in 0..(1u32 << nk) {
                    let pc = km.count_ones();
                    // more than 5 keys: none, singletons, pairs at the ends, all-but-one, all, a random slice
                    if nk > 5 && !(pc <= 1 || pc + 1 >= nk || (thorough && rng.below(8) == 0) || rng.below(64) == 0) { continue; }
                    for pm in 0..(1u32 << np) {
                        for rm in 0..(1u32 << (2 * nr)) {
                            n += 1;
                            let a = assets_for(&node, lt, sq, km, pm, rm);
                            with_ctx!(ctx, one(out, ctx, &node, lt, sq, &a));
                        }
                    }
                }
            }
        }
    }
    n
}

/* ---------------------------------------------------------------- descriptor level */

#[derive(Clone, Debug)]
enum Shape { Leaf(usize), Br(Box<Shape>, Box<Shape>) }

/// `{0,{1,2}}` → tree; leaf indices are listed left to right
fn parse_shape(s: &str) -> Shape {
    fn go(c: &[u8], i: &mut usize) -> Shape {
        if c[*i] == b'{' {
            *i += 1;
            let l = go(c, i);
            assert_eq!(c[*i], b','); *i += 1;
            let r = go(c, i);
            assert_eq!(c[*i], b'}'); *i += 1;
            Shape::Br(Box::new(l), Box::new(r))
        } else {
            let st = *i;
            while *i < c.len() && c[*i].is_ascii_digit() { *i += 1; }
            Shape::Leaf(std::str::from_utf8(&c[st..*i]).unwrap().parse().unwrap())
        }
    }
    let mut i = 0;
    go(s.as_bytes(), &mut i)
}
fn shape_depths(s: &Shape, d: usize, acc: &mut Vec<usize>) {
    match s { Shape::Leaf(_) => acc.push(d), Shape::Br(l, r) => { shape_depths(l, d + 1, acc); shape_depths(r, d + 1, acc); } }
}
fn shape_leaves(s: &Shape) -> usize { match s { Shape::Leaf(_) => 1, Shape::Br(l, r) => shape_leaves(l) + shape_leaves(r) } }

fn build_tree(s: &Shape, leaves: &[Node]) -> Option<TapTree<PublicKey>> {
    match s {
        Shape::Leaf(i) => {
            let ms: Miniscript<PublicKey, Tap> = ast::to_ms(&leaves[*i]).ok()?;
            Some(TapTree::leaf(std::sync::Arc::new(ms)))
        }
        Shape::Br(l, r) => TapTree::combine(build_tree(l, leaves)?, build_tree(r, leaves)?).ok(),
    }
}

/// one descriptor under test, with what the Lean judge needs to know about it
struct DCase {
    desc: Descriptor<PublicKey>,
    /// construction route tag appended to the wrap token of the judge lines ("" = `new_*`)
    route: &'static str,
    /// every script passes `validate(&Ctx::SANE)`: judged by `J dcompleteS`
    strict: bool,
    wrap: &'static str,
    internal: Option<u32>,
    shape: String,
    /// the scripts the table is applied to (for pkh-like outputs: `c:pk_h(K)`)
    leaves: Vec<Node>,
}

/// does every script of the descriptor pass the library's default sanity rules
/// (`Miniscript::validate(&Ctx::SANE)`)?  Key-only outputs have no script to check.
fn sane_by_library(c: &DCase) -> bool {
    use miniscript::{BareCtx, Legacy, Segwitv0};
    fn ok<Ctx: ScriptContext>(n: &Node) -> bool { ast::to_ms::<PublicKey, Ctx>(n).map(|m| m.validate(&Ctx::SANE).is_ok()).unwrap_or(false) }
    match c.wrap {
        "wsh" | "shwsh" => c.leaves.iter().all(ok::<Segwitv0>),
        "sh" => c.leaves.iter().all(ok::<Legacy>),
        "bare" => c.leaves.iter().all(ok::<BareCtx>),
        "tr" => c.leaves.iter().all(ok::<Tap>),
        _ => true,
    }
}

fn wrap_name(w: Wrap) -> &'static str {
    match w { Wrap::Wsh => "wsh", Wrap::ShWsh => "shwsh", Wrap::Sh => "sh", Wrap::Bare => "bare", Wrap::Pkh => "pkh", Wrap::Wpkh => "wpkh", Wrap::ShWpkh => "shwpkh" }
}

fn dcase_ms(w: Wrap, node: &Node) -> Option<DCase> {
    Some(DCase { desc: desc::build_desc(w, node, 0)?, route: "", strict: false, wrap: wrap_name(w), internal: None, shape: "0".into(), leaves: vec![node.clone()] })
}
fn dcase_key(w: Wrap, key: u32) -> Option<DCase> {
    let leaf = Node::Check(Box::new(Node::PkH(key)));
    Some(DCase { desc: desc::build_desc(w, &leaf, key)?, route: "", strict: false, wrap: wrap_name(w), internal: None, shape: "0".into(), leaves: vec![leaf] })
}
fn dcase_tr(internal: u32, shape: &str, leaves: &[Node]) -> Option<DCase> {
    let tree = if shape == "-" { None } else {
        let sh = parse_shape(shape);
        assert_eq!(shape_leaves(&sh), leaves.len());
        Some(build_tree(&sh, leaves)?)
    };
    let desc = Descriptor::new_tr(ast::full_key(internal), tree).ok()?;
    Some(DCase { desc, route: "", strict: false, wrap: "tr", internal: Some(internal), shape: shape.into(), leaves: leaves.to_vec() })
}

/// the assets as the Lean table sees them: key atoms as they are written in the scripts
fn lean_assets(c: &DCase, da: &DAssets) -> Assets {
    let mut a = Assets::default();
    for n in &c.leaves {
        let mut ks = vec![];
        n.keys(&mut ks);
        for k in ks {
            if da.keys.contains(&(k % 100)) {
                if k >= 200 { a.schnorr.insert(k, if da.schnorr_all { 65 } else { 64 }); } else { a.ecdsa.insert(k); }
            }
        }
    }
    a.pre = da.pre.clone();
    a.after = da.after.clone();
    a.older = da.older.clone();
    a
}

fn catch<T>(f: impl FnOnce() -> T) -> Option<T> { std::panic::catch_unwind(std::panic::AssertUnwindSafe(f)).ok() }

/// all descriptor-level checks for one (descriptor, assets)
fn dcheck(out: &mut Out, c: &DCase, da: &DAssets, judge_spends: bool) {
    let sn = |b: bool| if b { "some" } else { "none" };
    let leaves_w = if c.leaves.is_empty() { "-".to_string() } else { c.leaves.iter().map(|n| n.wire()).collect::<Vec<_>>().join(";") };
    let tail = format!("{} {} {} {} {}", c.internal.map(|i| i.to_string()).unwrap_or("-".into()),
        c.shape, leaves_w, lean_assets(c, da).wire(), da.tapkey as u8);
    let head = format!("{}{} {}", c.wrap, c.route, tail);
    let leaf_scripts: Vec<Vec<u8>> = if c.wrap == "tr" {
        c.leaves.iter().map(|n| ast::to_ms::<PublicKey, Tap>(n).map(|m| m.encode().into_bytes()).unwrap_or_default()).collect()
    } else { vec![] };
    let mut res = [false, false];
    // one satisfier (real signatures over one transaction) serves all routes; only the judged
    // spends need their own (they record which signatures were handed out)
    let shared = desc::tx_sat_for(&c.desc, da);
    for (mi, mall) in [true, false].into_iter().enumerate() {
        let mode = if mall { "mall" } else { "nonmall" };
        let own;
        let sat = if judge_spends { own = desc::tx_sat_for(&c.desc, da); &own } else { &shared };
        let r = catch(|| if mall { c.desc.get_satisfaction_mall(sat) } else { c.desc.get_satisfaction(sat) });
        let r = match r {
            None => { out.line(&format!("J nopanic get_satisfaction {} {} PANIC", mode, head), "ok"); return; }
            Some(r) => r.ok(),
        };
        res[mi] = r.is_some();
        if c.wrap == "tr" {
            // which spend the leaf loop picked, read off the produced witness
            // (script AND depth from the control block length: the same leaf may sit at two depths;
            // exact duplicates at one depth have identical witnesses - the later one is named, as
            // the loop's tie rule does)
            let mut depths = vec![];
            if c.shape != "-" { shape_depths(&parse_shape(&c.shape), 0, &mut depths); }
            let choice = match &r {
                None => "none".to_string(),
                Some((w, _)) if w.len() == 1 => "key".to_string(),
                Some((w, _)) => {
                    let cb_depth = (w[w.len() - 1].len().saturating_sub(33)) / 32;
                    match (0..leaf_scripts.len()).rev().find(|i| leaf_scripts[*i] == w[w.len() - 2] && depths[*i] == cb_depth) {
                        Some(i) => format!("leaf:{}", i), None => "leaf:?".to_string() }
                }
            };
            out.line(&format!("C trbest {} {} {} {} {} {}", mode, c.internal.unwrap(), c.shape, leaves_w, lean_assets(c, da).wire(), da.tapkey as u8), &choice);
        }
        if let (Some((w, ss)), true) = (&r, judge_spends) {
            desc::judge_spend(out, &format!("{} {} {}", c.desc, mode, da.wire()), sat, ss, w);
        }
        // Descriptor::into_plan{,_mall}: Err(self) only when unsatisfiable, and Err carries the original
        let orig = c.desc.clone();
        let p = catch(|| if mall { orig.clone().into_plan_mall(&shared) } else { orig.clone().into_plan(&shared) });
        match p {
            None => { out.line(&format!("J nopanic into_plan {} {} PANIC", mode, head), "ok"); }
            Some(p) => {
                let v = match p { Ok(_) => "ok", Err(d) => if d == orig { "errsame" } else { "errdiff" } };
                out.line(&format!("J dplan {} {} {}", head, mode, v), "ok");
                out.count(&format!("dplan {} {} {}", c.wrap, mode, v));
            }
        }
    }
    let op = if c.strict { "dcompleteS" } else { "dcomplete" };
    out.line(&format!("J {} {} {} {}", op, head, sn(res[0]), sn(res[1])), "ok");
    out.count(&format!("dverdict {} mall={} nonmall={}", c.wrap, sn(res[0]), sn(res[1])));
    // ---- the other ROUTES to the same answer, each judged against the table
    // (1) the planner route: into_plan{,_mall} then Plan::satisfy with the same satisfier - TWICE
    //     on the same Plan object (a used plan must answer like a fresh one)
    let mut pres = [[false; 2]; 2];
    for (mi, mall) in [true, false].into_iter().enumerate() {
        let sat = &shared;
        let r = catch(|| {
            let p = if mall { c.desc.clone().into_plan_mall(sat) } else { c.desc.clone().into_plan(sat) };
            match p { Ok(p) => { let a = p.satisfy(sat).is_ok(); let b = p.satisfy(sat).is_ok(); [a, b] } Err(_) => [false, false] }
        });
        match r { Some(x) => pres[mi] = x, None => { out.line(&format!("J nopanic plan-satisfy {} PANIC", head), "ok"); return; } }
    }
    out.line(&format!("J {} {}{}@plan {} {} {}", op, c.wrap, c.route, tail, sn(pres[0][0]), sn(pres[1][0])), "ok");
    out.line(&format!("J {} {}{}@plan2 {} {} {}", op, c.wrap, c.route, tail, sn(pres[0][1]), sn(pres[1][1])), "ok");
    // (2) Descriptor::satisfy(&mut TxIn, ..) (non-malleable only; the malleable slot repeats the direct answer)
    {
        let sat = &shared;
        let mut txin = sat.tx.input[0].clone();
        match catch(|| c.desc.satisfy(&mut txin, sat).is_ok()) {
            Some(ok) => out.line(&format!("J {} {}{}@txin {} {} {}", op, c.wrap, c.route, tail, sn(res[0]), sn(ok)), "ok"),
            None => out.line(&format!("J nopanic descriptor-satisfy {} PANIC", head), "ok"),
        }
    }
    // (2b) the library's STOCK Satisfier impls as the carrier of the caller's assets: the tuple
    //      (key -> signature map, nSequence, nLockTime).  Only where that tuple can express the
    //      asset set exactly: ECDSA descriptors without hashes and raw key hashes, all locks of the
    //      script that the caller holds implied by the transaction's nSequence / nLockTime and no
    //      other.  Twice: with the transaction's own values, and with nSequence / nLockTime ONE
    //      LATER (same unit) when no lock of the script sits in between - a later transaction
    //      implies the same locks.
    if c.wrap != "tr" && da.pre.is_empty() && da.rawpk.is_empty() {
        let sat = &shared;
        let refs: Vec<&Node> = c.leaves.iter().collect();
        let full = DAssets::full(&refs);
        if full.pre.is_empty() {
            let mut m: std::collections::HashMap<PublicKey, miniscript::bitcoin::ecdsa::Signature> = std::collections::HashMap::new();
            for (id, sig) in &sat.ecdsa { for kid in [*id, *id + 100] { m.insert(ast::full_key(kid), *sig); } }
            let seq0 = sat.tx.input[0].sequence;
            let lt0 = sat.tx.lock_time;
            // what the tuple implies, computed with the SPEC's rules (same unit, value <=), must be `da`'s locks
            let implied_older = |sq: u32, n: u32| sq & (1 << 31) == 0 && (sq & (1 << 22)) == (n & (1 << 22)) && (n & 0xffff) <= (sq & 0xffff);
            let implied_after = |lt: u32, n: u32| (lt < 500_000_000) == (n < 500_000_000) && n <= lt;
            let exact = |sq: u32, lt: u32| full.older.iter().all(|n| implied_older(sq, *n) == da.older.contains(n))
                && full.after.iter().all(|n| implied_after(lt, *n) == da.after.contains(n)) && (full.after.is_empty() || sq != 0xffff_ffff);
            let mut variants: Vec<(&str, u32, u32)> = vec![("@stock", seq0.to_consensus_u32(), lt0.to_consensus_u32())];
            if !full.older.is_empty() && seq0.to_consensus_u32() & 0xffff < 0xffff { variants.push(("@stock-seq+1", seq0.to_consensus_u32() + 1, lt0.to_consensus_u32())); }
            if !full.after.is_empty() { variants.push(("@stock-lt+1", seq0.to_consensus_u32(), lt0.to_consensus_u32() + 1)); }
            for (tag, sq, lt) in variants {
                if !exact(sq, lt) { out.count("stock satisfier route: tuple cannot express the asset set"); continue; }
                let stock = (&m, miniscript::bitcoin::Sequence::from_consensus(sq), miniscript::bitcoin::absolute::LockTime::from_consensus(lt));
                match catch(|| (c.desc.get_satisfaction_mall(&stock).is_ok(), c.desc.get_satisfaction(&stock).is_ok(),
                                c.desc.clone().into_plan_mall(&stock).is_ok(), c.desc.clone().into_plan(&stock).is_ok())) {
                    Some((mm, nn, pm, pn)) => {
                        out.count(&format!("stock satisfier route {}", tag));
                        out.line(&format!("J {} {}{}{} {} {} {}", op, c.wrap, c.route, tag, tail, sn(mm), sn(nn)), "ok");
                        out.line(&format!("J {} {}{}{}-plan {} {} {}", op, c.wrap, c.route, tag, tail, sn(pm), sn(pn)), "ok");
                    }
                    None => out.line(&format!("J nopanic stock-satisfier-route {} {} PANIC", tag, head), "ok"),
                }
            }
        }
    }
    // (3) a FRESH object built by the string route (`to_string` / `from_str`): no cached spend
    //     info, nothing called on it before the satisfier
    {
        use std::str::FromStr;
        let sat = &shared;
        let txt = c.desc.to_string();
        match catch(|| Descriptor::<PublicKey>::from_str(&txt).ok().map(|d| {
            let m = d.get_satisfaction_mall(sat).is_ok();
            let d2 = Descriptor::<PublicKey>::from_str(&txt).unwrap();
            let n = d2.get_satisfaction(sat).is_ok();
            let d3 = Descriptor::<PublicKey>::from_str(&txt).unwrap();
            let pm = d3.into_plan_mall(sat).is_ok();
            let d4 = Descriptor::<PublicKey>::from_str(&txt).unwrap();
            let pn = d4.into_plan(sat).is_ok();
            (m, n, pm, pn)
        })) {
            Some(Some((m, n, pm, pn))) => {
                out.line(&format!("J {} {}{}@str {} {} {}", op, c.wrap, c.route, tail, sn(m), sn(n)), "ok");
                out.line(&format!("J {} {}{}@str-plan {} {} {}", op, c.wrap, c.route, tail, sn(pm), sn(pn)), "ok");
            }
            Some(None) => out.count("observation: descriptor text not re-parsed"),
            None => out.line(&format!("J nopanic from_str-route {} PANIC", head), "ok"),
        }
    }
}

/// asset sets for a descriptor: subsets of the keys x {all, no} preimages x {all, no} locks x
/// key-path signature
fn dassets_for(c: &DCase, thorough: bool, rng: &mut Rng) -> Vec<DAssets> {
    let refs: Vec<&Node> = c.leaves.iter().collect();
    let full = DAssets::full(&refs);
    let keys: Vec<u32> = full.keys.iter().cloned().collect();
    let nk = keys.len().min(7);
    let mut v = vec![];
    for km in 0..(1u32 << nk) {
        let pc = km.count_ones() as usize;
        // quick tier: none, singletons, all-but-one, all, and a random third of the rest
        if !thorough && !(pc <= 1 || pc + 1 >= nk || rng.below(3) == 0) { continue; }
        let mut a = DAssets { pre: full.pre.clone(), after: full.after.clone(), older: full.older.clone(), ..Default::default() };
        for (i, k) in keys.iter().enumerate() { if km >> i & 1 == 1 { a.keys.insert(*k); } }
        a.schnorr_all = km % 2 == 1;
        v.push(a.clone());
        if !full.pre.is_empty() && (thorough || pc + 1 >= nk || rng.below(4) == 0) { let mut b = a.clone(); b.pre.clear(); v.push(b); }
        if !(full.after.is_empty() && full.older.is_empty()) && (thorough || pc + 1 >= nk || rng.below(4) == 0) {
            let mut b = a.clone(); b.after.clear(); b.older.clear(); v.push(b);
        }
        if c.wrap == "tr" && (thorough || pc == 0 || rng.below(4) == 0) { let mut b = a.clone(); b.tapkey = true; v.push(b); }
    }
    v
}

const SHAPES: [&str; 11] = ["-", "0", "{0,1}", "{{0,1},2}", "{0,{1,2}}", "{{0,1},{2,3}}", "{0,{1,{2,3}}}",
    "{{{0,1},2},3}", "{{0,{1,2}},3}", "{0,{{1,2},3}}", "{{0,1},{2,{3,4}}}"];

fn run_desc(out: &mut Out, thorough: bool, rng: &mut Rng) {
    use Node::*;
    let bx = |n: Node| Box::new(n);
    // ---- miniscript-carrying outputs and key outputs
    let pk = |i: u32| Check(bx(PkK(i)));
    let pkh = |i: u32| Check(bx(PkH(i)));
    let scripts: Vec<Node> = vec![
        pk(0),
        pkh(1),
        OrD(bx(pk(0)), bx(pk(1))),
        AndV(bx(Verify(bx(pk(0)))), bx(Older(10))),
        Multi(2, vec![0, 1, 2]),
        SortedMulti(2, vec![9, 8, 1]),
        AndOr(bx(pk(0)), bx(Older(10)), bx(pk(1))),
        Thresh(2, vec![pk(0), Swap(bx(pk(1))), Swap(bx(pk(2)))]),
        OrI(bx(AndV(bx(Verify(bx(pk(0)))), bx(Hash(HK::Sha256, 0)))), bx(pk(1))),
        OrD(bx(Multi(1, vec![0, 1])), bx(AndV(bx(Verify(bx(pk(2)))), bx(Hash(HK::Hash256, 2))))),
        AndV(bx(Verify(bx(pk(0)))), bx(After(100))),
        OrD(bx(NonZero(bx(AndV(bx(Verify(bx(pk(0)))), bx(pk(2)))))), bx(pk(1))),
        AndV(bx(Verify(bx(Hash(HK::Ripemd160, 3)))), bx(Older(10))),
        // uncompressed keys (sh / bare only)
        pk(100),
        OrD(bx(pk(100)), bx(pkh(101))),
        Multi(1, vec![100, 2]),
        // ONE point in both encodings (ids 0 and 100 share the secret): signing for one signs for both
        OrD(bx(pk(0)), bx(pk(100))),
        OrD(bx(pk(100)), bx(pk(0))),
        OrB(bx(pkh(100)), bx(Alt(bx(pkh(0))))),
        Multi(2, vec![0, 100, 1]),
        SortedMulti(1, vec![100, 0]),
        // the two satisfier modes DISAGREE (signatures held, preimage not): every wrapper arm of
        // get_satisfaction_mall / into_plan_mall must reach the malleable satisfier
        AndV(bx(Verify(bx(pk(0)))), bx(OrD(bx(pk(1)), bx(Hash(HK::Sha256, 0))))),
        AndV(bx(OrC(bx(pk(1)), bx(Verify(bx(Hash(HK::Sha256, 0)))))), bx(pk(0))),
        Thresh(2, vec![pk(0), Swap(bx(pk(1))), Swap(bx(NonZero(bx(AndV(bx(Verify(bx(Hash(HK::Sha256, 0)))), bx(True))))))]),
    ];
    let mut cases: Vec<DCase> = vec![];
    // ---- the other CONSTRUCTORS of the same output types: sortedmulti constructors (keys whose
    // sorted order differs from the listing order), sh built from a Wsh / Wpkh value
    {
        use miniscript::descriptor::{Wpkh, Wsh};
        let ks = |v: &[u32]| v.iter().map(|i| ast::full_key(*i)).collect::<Vec<_>>();
        let thr = |k: usize, ids: &[u32]| miniscript::Threshold::<PublicKey, 20>::new(k, ks(ids)).map_err(|e| miniscript::Error::Unexpected(e.to_string()));
        for (k, ids) in [(2usize, vec![9u32, 8, 1]), (1, vec![1, 0]), (2, vec![8, 9, 1, 0])] {
            let leaf = SortedMulti(k, ids.clone());
            let mk = |d: Result<Descriptor<PublicKey>, miniscript::Error>, wrap: &'static str, route: &'static str| d.ok().map(|desc|
                DCase { desc, route, strict: false, wrap, internal: None, shape: "0".into(), leaves: vec![leaf.clone()] });
            for c in [mk(thr(k, &ids).and_then(|t| Descriptor::new_wsh_sortedmulti(t)), "wsh", "@new_sortedmulti"),
                      mk(thr(k, &ids).and_then(|t| Descriptor::new_sh_sortedmulti(t)), "sh", "@new_sortedmulti"),
                      mk(thr(k, &ids).and_then(|t| Descriptor::new_sh_wsh_sortedmulti(t)), "shwsh", "@new_sortedmulti")] {
                match c { Some(c) => cases.push(c), None => out.count("desc not built (sortedmulti constructor)") }
            }
        }
        for n in [&scripts[2], &scripts[7], &scripts[scripts.len() - 3]] {
            if let Ok(ms) = ast::to_ms::<PublicKey, miniscript::Segwitv0>(n) {
                if let Ok(w) = Wsh::new(ms) {
                    cases.push(DCase { desc: Descriptor::new_sh_with_wsh(w), route: "@new_sh_with_wsh", strict: false, wrap: "shwsh", internal: None, shape: "0".into(), leaves: vec![n.clone()] });
                }
            }
        }
        if let Ok(w) = Wpkh::new(ast::full_key(2)) {
            cases.push(DCase { desc: Descriptor::new_sh_with_wpkh(w), route: "@new_sh_with_wpkh", strict: false, wrap: "shwpkh", internal: None, shape: "0".into(), leaves: vec![pkh(2)] });
        }
    }
    for w in [Wrap::Wsh, Wrap::ShWsh, Wrap::Sh, Wrap::Bare] {
        for n in &scripts { match dcase_ms(w, n) { Some(c) => cases.push(c), None => out.count(&format!("desc not built {}", wrap_name(w))) } }
    }
    for (w, ks) in [(Wrap::Pkh, vec![0u32, 100]), (Wrap::Wpkh, vec![1]), (Wrap::ShWpkh, vec![2])] {
        for k in ks { match dcase_key(w, k) { Some(c) => cases.push(c), None => out.count(&format!("desc not built {}", wrap_name(w))) } }
    }
    // ---- taproot: every shape x several leaf assignments; leaf keys 200+k, internal key 9
    let tpk = |i: u32| Check(bx(PkK(200 + i)));
    let pool = |i: u32| -> Vec<Node> {
        // leaf kinds over keys starting at i (disjoint ranges keep exactly one leaf satisfiable per key)
        vec![
            tpk(i),
            AndV(bx(Verify(bx(tpk(i)))), bx(Older(10))),
            MultiA(2, vec![200 + i, 200 + (i + 1) % 8]),
            OrD(bx(tpk(i)), bx(AndV(bx(Verify(bx(tpk((i + 1) % 8)))), bx(Hash(HK::Sha256, 0))))),
            AndV(bx(Verify(bx(tpk(i)))), bx(After(100))),
            OrD(bx(NonZero(bx(AndV(bx(Verify(bx(tpk(i)))), bx(tpk((i + 1) % 8)))))), bx(tpk((i + 2) % 8))),
            Thresh(2, vec![tpk(i), Swap(bx(tpk((i + 1) % 8))), Swap(bx(tpk((i + 2) % 8)))]),
            AndV(bx(Verify(bx(tpk(i)))), bx(Hash(HK::Hash160, 1))),
            OrI(bx(tpk(i)), bx(AndV(bx(Verify(bx(tpk((i + 1) % 8)))), bx(Older(10))))),
            // the two satisfier modes differ when the preimage is not held: the hash child is a
            // signature-free alternative (non-malleable mode declines, malleable mode must spend)
            Thresh(2, vec![tpk(i), Swap(bx(tpk((i + 1) % 8))),
                Swap(bx(NonZero(bx(AndV(bx(Verify(bx(Hash(HK::Sha256, 0)))), bx(True))))))]),
        ]
    };
    for shape in SHAPES {
        let n = if shape == "-" { 0 } else { shape_leaves(&parse_shape(shape)) };
        // (a) one plain key per leaf: equal stacks, sizes differ by depth only (ties: later leaf)
        let plain: Vec<Node> = (0..n as u32).map(tpk).collect();
        // (b),(c) mixed leaf kinds, rotated through the pool
        let mut assigns = vec![plain];
        if n > 0 {
            for rot in 0..(if thorough { 4 } else { 2 }) {
                assigns.push((0..n).map(|j| { let p = pool((j as u32 * 2) % 8); p[(j * 2 + rot * 3 + 1) % p.len()].clone() }).collect());
            }
            // the satisfiable leaf is the LAST / FIRST one only: reversed pool order
            assigns.push((0..n).map(|j| { let p = pool(((n - 1 - j) as u32) % 8); p[(j + 3) % p.len()].clone() }).collect());
        }
        for leaves in assigns {
            // leaves must be pairwise distinct scripts (the produced witness identifies the leaf)
            let mut ws: Vec<String> = leaves.iter().map(|l| l.wire()).collect();
            ws.sort(); ws.dedup();
            if ws.len() != leaves.len() { out.count("tr assignment with repeated leaf skipped"); continue; }
            // internal keys of both parities (ids 0, 2, 4, 7, 8 are 03-prefixed)
            let internal = [9u32, 0, 2, 7, 4, 8][cases.len() % 6];
            match dcase_tr(internal, shape, &leaves) { Some(c) => cases.push(c), None => out.count("desc not built tr") }
            if n == 0 { break; }
        }
    }
    // designated: the two satisfier modes must differ (sigs for two thresh children, preimage
    // of the third not held; the other leaf's key not held either)
    {
        let mode_leaf = Thresh(2, vec![tpk(0), Swap(bx(tpk(1))),
            Swap(bx(NonZero(bx(AndV(bx(Verify(bx(Hash(HK::Sha256, 0)))), bx(True))))))]);
        for (shape, leaves) in [("0", vec![mode_leaf.clone()]), ("{0,1}", vec![tpk(5), mode_leaf.clone()]), ("{0,1}", vec![mode_leaf.clone(), tpk(5)])] {
            match dcase_tr(9, shape, &leaves) { Some(c) => cases.push(c), None => out.count("desc not built tr (designated)") }
        }
    }
    // designated: DUPLICATE leaves and the same leaf at two depths (the loop must neither skip
    // nor mis-rank them; the shallower copy is cheaper, equal copies tie)
    {
        let a = tpk(0);
        let b2 = AndV(bx(Verify(bx(tpk(1)))), bx(Older(10)));
        let m = MultiA(2, vec![202, 203]);
        let dup: Vec<(&str, Vec<Node>, u32)> = vec![
            ("{0,1}", vec![a.clone(), a.clone()], 9),
            ("{0,{1,2}}", vec![a.clone(), b2.clone(), a.clone()], 0),
            ("{0,{1,2}}", vec![b2.clone(), a.clone(), a.clone()], 2),
            ("{{0,1},2}", vec![a.clone(), b2.clone(), a.clone()], 7),
            ("{{0,1},2}", vec![m.clone(), m.clone(), a.clone()], 4),
            ("{{0,1},{2,3}}", vec![a.clone(), m.clone(), m.clone(), a.clone()], 8),
            ("{0,{1,{2,3}}}", vec![b2.clone(), a.clone(), b2.clone(), a.clone()], 9),
            ("{{{0,1},2},3}", vec![m.clone(), a.clone(), b2.clone(), m.clone()], 0),
        ];
        for (shape, leaves, ik) in dup {
            match dcase_tr(ik, shape, &leaves) { Some(c) => cases.push(c), None => out.count("desc not built tr (duplicates)") }
        }
    }
    // ---- the WHOLE designated miniscript corpus through every descriptor route (R1): each
    // fragment the constructors accept, under wsh / sh(wsh) / sh / bare and as a taproot leaf
    // (alone, and as the DEEP leaf of a three-leaf tree whose other leaves use keys nobody holds)
    let n_own = cases.len();
    for ctx in [CtxK::Segwitv0, CtxK::Legacy, CtxK::Bare, CtxK::Tap] {
        let mut nodes = dissat_corpus(ctx);
        nodes.extend(lock_multi_corpus(ctx));
        nodes.extend(ast::dimension_corpus(ctx));
        nodes.extend(twin_corpus(ctx));
        nodes.extend(extra_corpus(ctx));
        let mut seen = std::collections::BTreeSet::new();
        for n in nodes {
            if !seen.insert(n.wire()) { continue; }
            // the descriptor-level satisfier (`TxSat`) knows key atoms 0..9 / 100..103 only
            let mut ks = vec![]; n.keys(&mut ks);
            if ks.iter().any(|k| (10..100).contains(&(k % 200))) { continue; }
            let mut rp = vec![]; n.rawpkhs(&mut rp);
            if !rp.is_empty() { continue; }
            match ctx {
                CtxK::Segwitv0 => for w in [Wrap::Wsh, Wrap::ShWsh] { match dcase_ms(w, &n) { Some(c) => cases.push(c), None => out.count("corpus fragment not built as descriptor") } },
                CtxK::Legacy => match dcase_ms(Wrap::Sh, &n) { Some(c) => cases.push(c), None => out.count("corpus fragment not built as descriptor") },
                CtxK::Bare => match dcase_ms(Wrap::Bare, &n) { Some(c) => cases.push(c), None => out.count("corpus fragment not built as descriptor") },
                CtxK::Tap => {
                    match dcase_tr(9, "0", &[n.clone()]) { Some(c) => cases.push(c), None => out.count("corpus fragment not built as descriptor") }
                    if cases.len() % 3 == 0 {
                        // keys 208 / 209 are never held by the corpus asset sets below
                        if let Some(c) = dcase_tr(7, "{0,{1,2}}", &[tpk(8), AndV(bx(Verify(bx(tpk(9)))), bx(Older(10))), n.clone()]) { cases.push(c); }
                    }
                }
            }
        }
    }
    // ---- designated REFUSED-TODAY descriptors (R2): each is refused by the constructors for
    // exactly one reason; if a rule ever lets one through it is judged by `J dcompleteS`
    {
        let chain = |m: usize, last: Node| -> Node { let mut n = last; for _ in 0..m { n = AndV(bx(Verify(bx(Older(10)))), bx(n)); } n };
        let hchain = |m: usize| -> Node { let mut n = pk(0); for _ in 0..m { n = AndV(bx(Verify(bx(Hash(HK::Sha256, 0)))), bx(n)); } n };
        let refused: Vec<(&str, Vec<Wrap>, Node)> = vec![
            ("malleable: two signature-free alternatives", vec![Wrap::Wsh, Wrap::ShWsh, Wrap::Sh], AndV(bx(Verify(bx(pk(0)))), bx(OrI(bx(Hash(HK::Sha256, 0)), bx(Hash(HK::Hash160, 1)))))),
            ("malleable: or_d over a hash", vec![Wrap::Wsh, Wrap::Sh], OrD(bx(Hash(HK::Sha256, 0)), bx(pk(0)))),
            ("sigless branch", vec![Wrap::Wsh, Wrap::ShWsh, Wrap::Sh], OrD(bx(pk(0)), bx(AndV(bx(Verify(bx(Hash(HK::Sha256, 0)))), bx(Older(10)))))),
            ("repeated key pk/pk", vec![Wrap::Wsh, Wrap::Sh], OrD(bx(pk(0)), bx(AndV(bx(Verify(bx(pk(0)))), bx(Older(10)))))),
            ("repeated key pk/pkh", vec![Wrap::Wsh, Wrap::Sh], OrD(bx(pk(0)), bx(AndV(bx(Verify(bx(pkh(0)))), bx(Older(10)))))),
            ("repeated key pk/multi", vec![Wrap::Wsh], OrD(bx(pk(0)), bx(Multi(1, vec![0, 1])))),
            ("mixed lock units after", vec![Wrap::Wsh, Wrap::Sh], AndV(bx(Verify(bx(pk(0)))), bx(AndV(bx(Verify(bx(After(100)))), bx(After(500_000_001)))))),
            ("mixed lock units older", vec![Wrap::Wsh], AndV(bx(Verify(bx(pk(0)))), bx(AndV(bx(Verify(bx(Older(10)))), bx(Older(4_194_305)))))),
            ("uncompressed key under segwit", vec![Wrap::Wsh, Wrap::ShWsh], pk(100)),
            ("uncompressed key under segwit (pkh)", vec![Wrap::Wsh], OrD(bx(pk(0)), bx(pkh(101)))),
            ("opcode limit + 1", vec![Wrap::Wsh, Wrap::Sh], chain(101, pk(0))),
            ("p2sh script size 520 + 1", vec![Wrap::Sh], hchain(13)),
            ("top level not B", vec![Wrap::Wsh, Wrap::Sh, Wrap::Bare], Verify(bx(pk(0)))),
        ];
        // just inside the same limits: must be built and is judged like everything else
        for (w, n) in [(Wrap::Wsh, chain(99, pk(0))), (Wrap::Sh, chain(99, pk(0))), (Wrap::Sh, hchain(12))] {
            match dcase_ms(w, &n) { Some(c) => cases.push(c), None => out.count("observation: script just inside a limit refused") }
        }
        // (the `new_*` constructors apply the context rules only; the sanity rules are
        // `validate(&Ctx::SANE)`, which is what makes a case `strict` below)
        for (why, wraps, n) in refused {
            for w in wraps {
                match dcase_ms(w, &n) {
                    Some(c) => {
                        if sane_by_library(&c) { out.count(&format!("REFUSED-TODAY script now passes the sanity rules: {}", why)); }
                        else { out.count(&format!("refused today by the sanity rules: {}", why)); }
                        cases.push(c);
                    }
                    None => out.count(&format!("refused today by the constructor: {}", why)),
                }
            }
        }
        for (why, k) in [("uncompressed key in wpkh", 100u32), ("uncompressed key in sh(wpkh)", 101)] {
            for w in [Wrap::Wpkh, Wrap::ShWpkh] {
                match dcase_key(w, k) {
                    Some(c) => { out.count(&format!("REFUSED-TODAY descriptor now built: {}", why)); cases.push(c); }
                    None => out.count(&format!("refused today by the constructor: {}", why)),
                }
            }
        }
    }
    // the statement's second sentence, read literally: every descriptor whose scripts pass the
    // library's sanity rules is judged by `J dcompleteS` (non-malleable answer required whenever
    // some leaf is table-satisfiable with its preimages known), the others by `J dcomplete`
    for c in cases.iter_mut() { c.strict = sane_by_library(c); }
    let mut n_cases = 0u64;
    for (ci, c) in cases.iter().enumerate() {
        if ci >= n_own {
            // corpus cases: a thin designated asset slice - everything, nothing, each single key
            // missing, each single key alone, no preimages, no locks
            let refs: Vec<&Node> = c.leaves.iter().collect();
            let full = DAssets::full(&refs);
            let mut sets = vec![full.clone(), DAssets::default()];
            for k in full.keys.iter() {
                let mut a = full.clone(); a.keys.remove(k); sets.push(a);
                let mut b = full.clone(); b.keys = [*k].into_iter().collect(); sets.push(b);
            }
            if !full.pre.is_empty() { let mut a = full.clone(); a.pre.clear(); sets.push(a); }
            if !(full.after.is_empty() && full.older.is_empty()) { let mut a = full.clone(); a.after.clear(); a.older.clear(); sets.push(a); }
            // the deep-leaf trees: nobody holds keys 8 / 9
            for a in sets.iter_mut() { if c.leaves.len() == 3 { a.keys.remove(&8); a.keys.remove(&9); } }
            sets.sort(); sets.dedup();
            out.count(&format!("corpus descriptor {}", c.wrap));
            for da in &sets { n_cases += 1; dcheck(out, c, da, false); }
            continue;
        }
        out.count(&format!("descriptor {}", c.wrap));
        for (i, da) in dassets_for(c, thorough, rng).iter().enumerate() {
            n_cases += 1;
            // every produced spend of a taproot output or with an uncompressed key is also executed
            // by the Lean Script semantics; of the others every fourth (C01 covers them)
            let unc = c.leaves.iter().any(|n| { let mut ks = vec![]; n.keys(&mut ks); ks.iter().any(|k| (100..200).contains(k)) });
            dcheck(out, c, da, c.wrap == "tr" || unc || thorough || i % 4 == 0);
        }
    }
    out.note("descriptor_cases", n_cases.to_string());
}

/* ---------------------------------------------------------------- plan::Assets as the provider */

use crate::c17;

fn p_after_ok(lt: u32, n: u32) -> bool { (lt < 500_000_000) == (n < 500_000_000) && n <= lt }
fn p_older_ok(sq: u32, n: u32) -> bool { (sq & (1 << 22)) == (n & (1 << 22)) && (n & 0xffff) <= (sq & 0xffff) }

/// what the specification table may use, given the library's `plan::Assets` described by `pa`:
/// a key is available iff a key source COVERS it in the documented sense (same fingerprint, the
/// source's path or that path extended by exactly one child number - `Src::covers`, re-stated
/// in c17.rs from the documentation, not taken from plan.rs); a lock iff the assets' maximum of
/// that kind implies it
fn lean_assets_pa(dd: &c17::DD, leaves: &[Node], pa: &c17::PA, tap: bool) -> Assets {
    let mut a = Assets::default();
    for n in leaves {
        let mut ks = vec![];
        n.keys(&mut ks);
        for k in ks {
            let ent = c17::kent(k);
            if let Some(src) = pa.srcs.iter().find(|s| s.covers(ent) && (if tap { s.leaves != c17::Leaves::None } else { s.ecdsa })) {
                if tap { a.schnorr.insert(k, if src.sighash_default { 64 } else { 65 }); } else { a.ecdsa.insert(k); }
            }
        }
        let (mut af, mut ol) = (vec![], vec![]);
        n.locks(&mut af, &mut ol);
        for x in af { if pa.abs.map(|m| p_after_ok(m, x)).unwrap_or(false) { a.after.insert(x); } }
        for x in ol { if pa.rel.map(|m| p_older_ok(m, x)).unwrap_or(false) { a.older.insert(rel_canon(x)); } }
    }
    a.pre = pa.pre.clone();
    let _ = dd;
    a
}

/// `Descriptor::into_plan{,_mall}` driven by the library's own `plan::Assets` (key sources in
/// every relation to the descriptor's keys, lock maxima below / at / strictly above the script's
/// locks and in the other unit), judged against the specification table (`J dplan`)
fn run_plan_assets(out: &mut Out, thorough: bool) {
    use Node::*;
    use c17::{Rel, Src, PA};
    let bx = |n: Node| Box::new(n);
    let pk = |i: u32| Check(bx(PkK(i)));
    let tpk = |i: u32| Check(bx(PkK(200 + i)));
    let v = |n: Node| Verify(bx(n));
    // keys 0, 3, 6 have a depth-3 origin, 1, 4, 7 a depth-1 origin, 2, 5, 8 none (c17::ktable)
    let scripts: Vec<Node> = vec![
        pk(0),
        OrD(bx(pk(0)), bx(pk(1))),
        AndV(bx(v(pk(3))), bx(After(100))),
        AndV(bx(v(pk(4))), bx(Older(10))),
        AndV(bx(v(pk(0))), bx(AndV(bx(v(After(100))), bx(After(200))))),
        OrD(bx(pk(1)), bx(AndV(bx(v(pk(6))), bx(After(500_000_100))))),
        Multi(2, vec![0, 1, 3]),
        Thresh(2, vec![pk(0), Swap(bx(pk(1))), Swap(bx(pk(2)))]),
        AndOr(bx(pk(0)), bx(Older(4_194_305)), bx(pk(4))),
        OrI(bx(AndV(bx(v(pk(3))), bx(Hash(HK::Sha256, 0)))), bx(pk(7))),
    ];
    // scripts on which the two satisfier modes disagree for some asset subset (signatures held,
    // preimage not): every wrapper must route into_plan_mall to the malleable satisfier
    let mode_scripts: Vec<Node> = vec![
        AndV(bx(v(pk(0))), bx(OrD(bx(pk(1)), bx(Hash(HK::Sha256, 0))))),
        AndV(bx(OrC(bx(pk(1)), bx(v(Hash(HK::Sha256, 0))))), bx(pk(0))),
    ];
    let n_plain = scripts.len();
    let scripts: Vec<Node> = scripts.into_iter().chain(mode_scripts.into_iter()).collect();
    let mut dds: Vec<(c17::DD, &'static str, Option<u32>, String, Vec<Node>)> = vec![];
    for (w, name) in [(c17::Wrap::Wsh, "wsh"), (c17::Wrap::Sh, "sh"), (c17::Wrap::ShWsh, "shwsh")] {
        for (si, n) in scripts.iter().enumerate() {
            if si < n_plain && w != c17::Wrap::Wsh && !thorough && n.size() > 4 { continue; }
            if let Some(dd) = c17::dd_ms(w, n) { dds.push((dd, name, None, "0".into(), vec![n.clone()])); }
        }
    }
    for (w, name, k) in [(c17::Wrap::Pkh, "pkh", 0u32), (c17::Wrap::Wpkh, "wpkh", 1), (c17::Wrap::ShWpkh, "shwpkh", 3), (c17::Wrap::Pkh, "pkh", 100)] {
        if let Some(dd) = c17::dd_key(w, k) { dds.push((dd, name, None, "0".into(), vec![Check(bx(PkH(k)))])); }
    }
    // taproot (left combs, c17::dd_tr): internal keys 9 (no leaf uses it) and 6
    let tleaves: Vec<Vec<Node>> = vec![
        vec![tpk(0)],
        vec![tpk(0), AndV(bx(v(tpk(1))), bx(Older(10)))],
        vec![AndV(bx(v(tpk(3))), bx(After(100))), tpk(4), MultiA(2, vec![200, 201])],
    ];
    for (i, ls) in tleaves.iter().enumerate() {
        let ik = if i % 2 == 0 { 9 } else { 6 };
        let shape = match ls.len() { 1 => "0", 2 => "{0,1}", _ => "{{0,1},2}" };
        if let Some(dd) = c17::dd_tr(ik, ls) { dds.push((dd, "tr", Some(ik), shape.into(), ls.clone())); }
    }
    let mut n = 0u64;
    for (dd, wrap, ik, shape, leaves) in &dds {
        let tap = *wrap == "tr";
        let mut keys: Vec<u32> = vec![];
        for l in leaves { l.keys(&mut keys); }
        let mut keys: Vec<u32> = keys.into_iter().map(|k| if k >= 200 { k - 200 } else { k }).collect();
        keys.sort(); keys.dedup();
        let (mut af, mut ol) = (vec![], vec![]);
        for l in leaves { l.locks(&mut af, &mut ol); }
        // lock maxima: none, below, at, strictly above every lock, and the other unit
        let mut abs_opts: Vec<Option<u32>> = vec![None];
        for x in &af { abs_opts.extend([Some(x - 1), Some(*x), Some(x + 1), Some(x + 1000)]); }
        if !af.is_empty() { abs_opts.push(Some(if af[0] < 500_000_000 { 500_000_500 } else { 400_000_000 })); }
        let mut rel_opts: Vec<Option<u32>> = vec![None];
        for x in &ol { let c = rel_canon(*x); rel_opts.extend([Some(c - 1), Some(c), Some(c + 1), Some(c + 100)]); }
        if !ol.is_empty() { rel_opts.push(Some(rel_canon(ol[0]) ^ 0x0040_0000)); }
        abs_opts.dedup(); rel_opts.dedup();
        let pre_full: std::collections::BTreeSet<(HK, u32)> = { let mut hs = vec![]; for l in leaves { l.hashes(&mut hs); } hs.into_iter().collect() };
        // key sources: per key one relation; all combinations for <= 2 keys, else "all keys with
        // relation r" and "all exact but one with relation r"
        let rels = [Rel::Exact, Rel::Parent, Rel::Grand, Rel::Child, Rel::Sibling, Rel::OtherFp];
        let mut key_sets: Vec<Vec<(u32, Rel)>> = vec![vec![]];
        for r in rels { key_sets.push(keys.iter().map(|k| (*k, r)).collect()); }
        for (i, _) in keys.iter().enumerate() {
            for r in [Rel::Parent, Rel::Child, Rel::OtherFp] {
                key_sets.push(keys.iter().enumerate().map(|(j, k)| (*k, if i == j { r } else { Rel::Exact })).collect());
            }
            key_sets.push(keys.iter().enumerate().filter(|(j, _)| *j != i).map(|(_, k)| (*k, Rel::Exact)).collect());
        }
        for ks in &key_sets {
            for abs in &abs_opts {
                for rel in &rel_opts {
                    for (pi, pre) in [pre_full.clone(), Default::default()].into_iter().enumerate() {
                        if pi == 1 && pre_full.is_empty() { continue; }
                        for tk in [false, true] {
                            if tk && !tap { continue; }
                            let mut srcs: Vec<Src> = vec![];
                            for (k, r) in ks {
                                if let Some(mut s) = Src::of(c17::kent(*k), *r) { s.key_spend = false; s.sighash_default = k % 2 == 0; srcs.push(s); }
                            }
                            if let (true, Some(ik)) = (tk, ik) {
                                if let Some(mut s) = Src::of(c17::kent(*ik), Rel::Exact) { s.leaves = c17::Leaves::None; s.ecdsa = false; srcs.push(s); }
                            }
                            let pa = PA { srcs, pre: pre.clone(), abs: *abs, rel: *rel, ..Default::default() };
                            // the key path is signable iff a key_spend source covers the internal key
                            let tk_eff = ik.map(|ik| pa.srcs.iter().any(|s| s.key_spend && s.covers(c17::kent(ik)))).unwrap_or(false);
                            let la = lean_assets_pa(dd, leaves, &pa, tap);
                            let leaves_w = leaves.iter().map(|l| l.wire()).collect::<Vec<_>>().join(";");
                            let head = format!("{} {} {} {} {} {}", wrap, ik.map(|i| i.to_string()).unwrap_or("-".into()), shape, leaves_w, la.wire(), tk_eff as u8);
                            let assets = pa.to_assets(&dd.leaves);
                            for mall in [true, false] {
                                let mode = if mall { "mall" } else { "nonmall" };
                                let orig = dd.desc.clone();
                                let p = catch(|| if mall { orig.clone().into_plan_mall(&assets) } else { orig.clone().into_plan(&assets) });
                                match p {
                                    None => out.line(&format!("J nopanic into_plan-assets {} {} {} PANIC", mode, head, pa.wire()), "ok"),
                                    Some(p) => {
                                        let v = match p { Ok(_) => "ok", Err(d) => if d == orig { "errsame" } else { "errdiff" } };
                                        n += 1;
                                        out.line(&format!("J dplan {} {} {}", head, mode, v), "ok");
                                        out.count(&format!("dplan-assets {} {} {}", wrap, mode, v));
                                    }
                                }
                            }
                        }
                    }
                }
            }
        }
    }
    // ---- R4: `plan::Assets` built INCREMENTALLY through its public builder (`Assets::new().add(key)
    // .add(hash).after(..).older(..)`, locks first and locks last) vs filled at once, and one
    // Assets value USED for two descriptors in a row - same table verdict for all of them
    {
        use miniscript::bitcoin::hashes::{hash160, ripemd160, sha256, Hash};
        use miniscript::bitcoin::{absolute, relative};
        use miniscript::plan::Assets as PlanAssets;
        let mut prev: Option<c17::DD> = None;
        for (dd, wrap, ik, shape, leaves) in &dds {
            let tap = *wrap == "tr";
            let mut keys: Vec<u32> = vec![];
            for l in leaves { l.keys(&mut keys); }
            let mut keys: Vec<u32> = keys.into_iter().map(|k| if k >= 200 { k - 200 } else { k }).collect();
            keys.sort(); keys.dedup();
            let (mut af, mut ol) = (vec![], vec![]);
            for l in leaves { l.locks(&mut af, &mut ol); }
            let hs: Vec<(HK, u32)> = { let mut h = vec![]; for l in leaves { l.hashes(&mut h); } h };
            let abs = af.iter().cloned().max();
            let rel = ol.iter().map(|x| rel_canon(*x)).max();
            let mut subsets: Vec<Vec<u32>> = vec![keys.clone(), vec![]];
            for i in 0..keys.len() { subsets.push(keys.iter().enumerate().filter(|(j, _)| *j != i).map(|(_, k)| *k).collect()); }
            for ks in subsets {
                for with_ik in [false, true] {
                    if with_ik && ik.is_none() { continue; }
                    let mut held = ks.clone();
                    if let (true, Some(ik)) = (with_ik, ik) { if !held.contains(ik) { held.push(*ik); } }
                    // at once (CanSign::default(): ecdsa, key spend, any leaf, default sighash)
                    let srcs: Vec<c17::Src> = held.iter().filter_map(|k| c17::Src::of(c17::kent(*k), c17::Rel::Exact)).collect();
                    let pa = c17::PA { srcs, pre: hs.iter().cloned().collect(), abs, rel, ..Default::default() };
                    let tk_eff = ik.map(|ik| pa.srcs.iter().any(|s| s.key_spend && s.covers(c17::kent(ik)))).unwrap_or(false);
                    let la = lean_assets_pa(dd, leaves, &pa, tap);
                    let leaves_w = leaves.iter().map(|l| l.wire()).collect::<Vec<_>>().join(";");
                    let tail = format!("{} {} {} {} {}", ik.map(|i| i.to_string()).unwrap_or("-".into()), shape, leaves_w, la.wire(), tk_eff as u8);
                    let add_keys = |mut a: PlanAssets| { for k in &held { a = a.add(c17::kent(*k).def.clone().into_descriptor_public_key()); } a };
                    let add_hashes = |mut a: PlanAssets| {
                        for (kind, h) in &hs {
                            let v = ast::hash_value(*kind, *h);
                            a = match kind {
                                HK::Sha256 => a.add(sha256::Hash::from_slice(&v).unwrap()),
                                HK::Hash256 => a.add(miniscript::hash256::Hash::from_slice(&v).unwrap()),
                                HK::Ripemd160 => a.add(ripemd160::Hash::from_slice(&v).unwrap()),
                                HK::Hash160 => a.add(hash160::Hash::from_slice(&v).unwrap()),
                            };
                        }
                        a
                    };
                    let add_locks = |mut a: PlanAssets| {
                        if let Some(x) = abs { a = a.after(absolute::LockTime::from_consensus(x)); }
                        if let Some(x) = rel { if let Ok(l) = relative::LockTime::from_consensus(x) { a = a.older(l); } }
                        a
                    };
                    let variants: Vec<(&str, PlanAssets)> = vec![
                        ("@assets-once", pa.to_assets(&dd.leaves)),
                        ("@assets-locks-first", add_hashes(add_keys(add_locks(PlanAssets::new())))),
                        ("@assets-locks-last", add_locks(add_keys(add_hashes(PlanAssets::new())))),
                    ];
                    for (tag, assets) in variants {
                        for mall in [true, false] {
                            let mode = if mall { "mall" } else { "nonmall" };
                            // the same Assets value first serves ANOTHER descriptor (used state) …
                            if let Some(p) = &prev { let _ = catch(|| if mall { p.desc.clone().into_plan_mall(&assets).is_ok() } else { p.desc.clone().into_plan(&assets).is_ok() }); }
                            let orig = dd.desc.clone();
                            match catch(|| if mall { orig.clone().into_plan_mall(&assets) } else { orig.clone().into_plan(&assets) }) {
                                None => out.line(&format!("J nopanic into_plan-assets {} {}{} {} PANIC", mode, wrap, tag, tail), "ok"),
                                Some(p) => {
                                    let v = match p { Ok(_) => "ok", Err(d) => if d == orig { "errsame" } else { "errdiff" } };
                                    n += 1;
                                    out.line(&format!("J dplan {}{} {} {} {}", wrap, tag, tail, mode, v), "ok");
                                }
                            }
                        }
                    }
                }
            }
            prev = c17::dd_ms(c17::Wrap::Wsh, &Check(bx(PkK(0))));
            let _ = dd;
        }
    }
    out.note("plan_assets_cases", n.to_string());
}

pub fn run(out: &mut Out, thorough: bool, seed: u64) {
    let mut rng = Rng(seed ^ 0xC02);
    ast::emit_defs(out);
    msops::emit_sig_defs(out);
    emit_wide_key_defs(out);
    let mut n_frag = 0u64;
    for ctx in CtxK::ALL {
        let atoms = ast::default_atoms(ctx, !thorough);
        let mut nodes: Vec<Node> = ast::enumerate(ctx, &atoms, if thorough { 4 } else { 3 }, if thorough { 80 } else { 25 }, &mut rng)
            .into_iter().filter(|t| t.base == Base::B).map(|t| t.node).collect();
        for _ in 0..(if thorough { 300 } else { 40 }) {
            let sz = 10 + rng.below(30);
            if let Some(n) = ast::random_b(ctx, &mut rng, sz) { nodes.push(n); }
        }
        // hand-written corpus: fragments whose (dis)satisfaction rows are easy to get wrong
        // (one ECDSA and the Schnorr context: the satisfier code is context-generic)
        if ctx == CtxK::Segwitv0 || ctx == CtxK::Tap {
            let k = |i: u32| if ctx == CtxK::Tap { 200 + i } else { i };
            let pk = |i: u32| Node::Check(Box::new(Node::PkK(k(i))));
            let m1 = if ctx == CtxK::Tap { Node::MultiA(1, vec![k(0)]) } else { Node::Multi(1, vec![k(0)]) };
            nodes.push(Node::OrD(Box::new(Node::NonZero(Box::new(m1.clone()))), Box::new(pk(1))));
            nodes.push(Node::OrD(Box::new(Node::NonZero(Box::new(pk(0)))), Box::new(pk(1))));
            nodes.push(Node::OrB(Box::new(Node::NonZero(Box::new(pk(0)))), Box::new(Node::Alt(Box::new(pk(1))))));
            nodes.push(Node::AndOr(Box::new(Node::NonZero(Box::new(pk(0)))), Box::new(pk(1)), Box::new(pk(2))));
            nodes.push(Node::Thresh(1, vec![Node::NonZero(Box::new(pk(0))), Node::Alt(Box::new(pk(1)))]));
            // a script that passes the sanity rules (type Bdu/esm) and needs the dissatisfaction of j:
            // (regression cases for the fixed defect F3: `j:X` had the dissatisfaction IMPOSSIBLE)
            nodes.push(Node::OrD(
                Box::new(Node::NonZero(Box::new(Node::AndV(Box::new(Node::Verify(Box::new(pk(0)))), Box::new(pk(2)))))),
                Box::new(pk(1)),
            ));
        }
        // twin branches: two (or three) signed fragments over DISJOINT keys under every
        // alternative-forming combinator, with every subset of the signatures - the cases in
        // which the non-malleable chooser has two available candidates and must tell which of
        // them carry a signature
        // raw pkh fragments, uncompressed keys (Bare / Legacy), all four hash kinds
        nodes.extend(extra_corpus(ctx));
        let n_plain = nodes.len();
        nodes.extend(twin_corpus(ctx));
        for (idx, node) in nodes.into_iter().enumerate() {
            let twin = idx >= n_plain;
            n_frag += 1;
            node.count_frags(out);
            let full = Assets::full(&node);
            let nk = (full.ecdsa.len() + full.schnorr.len()).min(if twin { 7 } else { 4 }) as u32;
            let np = full.pre.len().min(3) as u32;
            let nr = full.rawpk.len().min(3) as u32;
            let mut txs = tx_values(&node);
            if txs.len() > 4 && !thorough { txs.truncate(4); }
            for (lt, sq) in txs {
                for km in 0..(1u32 << nk) {
                    for pm in 0..(1u32 << np) {
                        if !thorough && !twin && nr == 0 && (km.count_ones() + pm.count_ones()) + 2 < nk + np && rng.below(3) != 0 { continue; }
                        // raw pkh atoms: every combination of (key known, signature available)
                        for rm in 0..(1u32 << (2 * nr)) {
                            let a = assets_for(&node, lt, sq, km, pm, rm);
                            with_ctx!(ctx, one(out, ctx, &node, lt, sq, &a));
                        }
                    }
                }
            }
        }
    }
    let n_des = run_designated(out, thorough, &mut rng);
    out.note("designated_cases", n_des.to_string());
    run_desc(out, thorough, &mut rng);
    run_plan_assets(out, thorough);
    out.note("distinct_nontrivial", n_frag.to_string());
    out.note("domain", "MINISCRIPT routes satisfy / satisfy_malleable: B-typed fragments (enumerated depth 3/4, random, corpora: j: wrappers, twin branches, raw pkh, uncompressed keys, all hash kinds, composite dissatisfactions incl. cast towers, ast::dimension_corpus with wrapper towers, lock pairs under thresholds, wide multisigs) x concrete (nLockTime,nSequence) on both sides of every lock x subsets of keys, preimages, raw key/signature switches. DESCRIPTOR routes get_satisfaction{,_mall}, into_plan{,_mall}, into_plan + Plan::satisfy (twice on one plan), Descriptor::satisfy(TxIn), and the same on a fresh object re-parsed from its text: own descriptor list (all 8 output types, sortedmulti / sh-with-wsh / sh-with-wpkh constructors, mode-distinguishing scripts under every wrapper, 11 tree shapes, duplicate leaves, both key parities) x key subsets x preimages / locks / key path, AND the whole designated miniscript corpus under wsh / sh(wsh) / sh / bare / tr (alone and as the deep leaf) with a designated asset slice; designated refused-today descriptors (malleable, sigless branch, repeated keys, mixed lock units, uncompressed key under segwit, opcode limit + 1, p2sh size + 1, wrong top-level type) judged by J dcompleteS should a constructor accept them. PLANNER on plan::Assets: key sources in every relation, lock maxima around every lock, Assets filled at once / built incrementally (locks first, locks last) / used for another descriptor before".into());
}

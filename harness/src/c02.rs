//! C02: satisfiable with the caller's assets ⇒ a satisfaction is found.
//! The specification's satisfaction table (Lean, `Spec/SatTable.lean`) decides
//! "satisfiable"; its witnesses are themselves executed (`C tablecheck`) so that the table is
//! validated on every case it judges.
use crate::ast::{self, CtxK, Node};
use crate::common::{Out, Rng};
use crate::msops::{self, rel_canon, Assets};
use crate::with_ctx;
use miniscript::miniscript::types::Base;
use miniscript::{Miniscript, ScriptContext};

/// BIP65: does a transaction with (nLockTime = lt, non-final sequence) satisfy `after(n)`?
fn after_ok(lt: u32, n: u32) -> bool { (lt < 500_000_000) == (n < 500_000_000) && n <= lt }
/// BIP112 (tx version 2): does nSequence = sq satisfy `older(n)`?
fn older_ok(sq: u32, n: u32) -> bool {
    sq & (1 << 31) == 0 && (sq & (1 << 22)) == (n & (1 << 22)) && (n & 0xffff) <= (sq & 0xffff)
}

/// the concrete (nLockTime, nSequence) values worth trying for a script: on both sides of
/// every lock, in both units
fn tx_values(node: &Node) -> Vec<(u32, u32)> {
    let (mut af, mut ol) = (vec![], vec![]);
    node.locks(&mut af, &mut ol);
    let mut lts = vec![0u32];
    for n in &af { lts.push(*n); if *n > 1 { lts.push(n - 1); } }
    let mut sqs = vec![0xffff_fffeu32];
    for n in &ol { let c = rel_canon(*n); sqs.push(c); if c & 0xffff > 1 { sqs.push(c - 1); } }
    lts.sort(); lts.dedup(); sqs.sort(); sqs.dedup();
    let mut v = vec![];
    for l in &lts { for s in &sqs { v.push((*l, *s)); } }
    v
}

fn assets_for(node: &Node, lt: u32, sq: u32, keymask: u32, premask: u32) -> Assets {
    let full = Assets::full(node);
    let mut a = Assets::default();
    for (i, k) in full.ecdsa.iter().enumerate() { if keymask >> i & 1 == 1 { a.ecdsa.insert(*k); } }
    for (i, (k, _)) in full.schnorr.iter().enumerate() {
        if keymask >> i & 1 == 1 { a.schnorr.insert(*k, if k % 2 == 0 { 64 } else { 65 }); }
    }
    for (i, p) in full.pre.iter().enumerate() { if premask >> i & 1 == 1 { a.pre.insert(*p); } }
    let (mut af, mut ol) = (vec![], vec![]);
    node.locks(&mut af, &mut ol);
    for n in af { if after_ok(lt, n) { a.after.insert(n); } }
    for n in ol { if older_ok(sq, n) { a.older.insert(rel_canon(n)); } }
    a
}

fn one<Pk: msops::HKey, Ctx: ScriptContext>(out: &mut Out, ctx: CtxK, node: &Node, lt: u32, sq: u32, a: &Assets)
where Assets: miniscript::Satisfier<Pk>
{
    let ms: Miniscript<Pk, Ctx> = match ast::to_ms(node) { Ok(m) => m, Err(_) => return };
    let w = node.wire();
    let aw = a.wire();
    out.line(&format!("C tablecheck {} {} {} {} {}", ctx.name(), lt, sq, w, aw), "consistent");
    let r = std::panic::catch_unwind(std::panic::AssertUnwindSafe(|| {
        (ms.satisfy_malleable(a).is_ok(), ms.satisfy(a).is_ok())
    }));
    let (mall, nonmall) = match r {
        Ok(x) => x,
        Err(_) => { out.line(&format!("J nopanic satisfy {} {} {} PANIC", ctx.name(), w, aw), "ok"); return; }
    };
    let sane = ms.validate(&Ctx::SANE).is_ok();
    let full = Assets::full(node);
    let allpre = full.pre.iter().all(|p| a.pre.contains(p));
    let sn = |b: bool| if b { "some" } else { "none" };
    out.line(
        &format!("J complete {} {} {} {} {} {} {}", ctx.name(), w, aw, sane as u8, allpre as u8, sn(mall), sn(nonmall)),
        "ok",
    );
    out.line(&format!("J tablecovers {} {} {} {}", ctx.name(), w, aw, sn(mall)), "ok");
    out.count(&format!("verdict mall={} nonmall={} sane={}", sn(mall), sn(nonmall), sane as u8));
}

fn twin_corpus(ctx: CtxK) -> Vec<Node> {
    use Node::*;
    let tap = ctx == CtxK::Tap;
    let k = |i: u32| if tap { 200 + i } else { i };
    let bx = |n: Node| Box::new(n);
    let pk = |i: u32| Check(bx(PkK(k(i))));
    let pkh = |i: u32| Check(bx(PkH(k(i))));
    let m = |t: usize, ks: &[u32]| { let v: Vec<u32> = ks.iter().map(|i| k(*i)).collect(); if tap { MultiA(t, v) } else { Multi(t, v) } };
    let sm = |t: usize, ks: &[u32]| { let v: Vec<u32> = ks.iter().map(|i| k(*i)).collect(); if tap { SortedMultiA(t, v) } else { SortedMulti(t, v) } };
    // (left, right, third) over disjoint keys
    let triples: Vec<(Node, Node, Node)> = vec![
        (pk(0), pk(1), pk(2)),
        (m(1, &[0, 1]), m(1, &[2, 3]), pk(4)),
        (m(2, &[0, 1, 2]), m(2, &[3, 4, 5]), pk(6)),
        (m(1, &[0, 1]), pk(2), pkh(3)),
        (pk(0), m(2, &[1, 2]), m(1, &[3, 4])),
        (sm(1, &[1, 0]), sm(2, &[9, 8, 2]), pkh(3)),
        (pkh(0), m(1, &[1, 2]), pk(3)),
    ];
    let mut v = vec![];
    for (x, y, z) in triples {
        v.push(OrI(bx(x.clone()), bx(y.clone())));
        v.push(OrD(bx(x.clone()), bx(y.clone())));
        v.push(OrB(bx(x.clone()), bx(Alt(bx(y.clone())))));
        v.push(AndV(bx(OrC(bx(x.clone()), bx(Verify(bx(y.clone()))))), bx(True)));
        v.push(AndOr(bx(x.clone()), bx(y.clone()), bx(z.clone())));
        v.push(Thresh(1, vec![x.clone(), Alt(bx(y.clone())), Alt(bx(z.clone()))]));
        v.push(Thresh(2, vec![x.clone(), Alt(bx(y.clone())), Alt(bx(z.clone()))]));
        v.push(OrI(bx(x.clone()), bx(AndV(bx(Verify(bx(y.clone()))), bx(Older(10))))));
        v.push(OrD(bx(x.clone()), bx(AndV(bx(Verify(bx(y.clone()))), bx(After(100))))));
        v.push(OrI(bx(AndV(bx(Verify(bx(x.clone()))), bx(z.clone()))), bx(y.clone())));
    }
    v
}

pub fn run(out: &mut Out, thorough: bool, seed: u64) {
    let mut rng = Rng(seed ^ 0xC02);
    ast::emit_defs(out);
    msops::emit_sig_defs(out);
    let mut n_frag = 0u64;
    for ctx in CtxK::ALL {
        let atoms = ast::default_atoms(ctx, !thorough);
        let mut nodes: Vec<Node> = ast::enumerate(ctx, &atoms, if thorough { 4 } else { 3 }, if thorough { 80 } else { 25 }, &mut rng)
            .into_iter().filter(|t| t.base == Base::B).map(|t| t.node).collect();
        for _ in 0..(if thorough { 300 } else { 40 }) {
            let sz = 10 + rng.below(30);
            if let Some(n) = ast::random_b(ctx, &mut rng, sz) { nodes.push(n); }
        }
        // hand-written corpus: fragments whose (dis)satisfaction rows are easy to get wrong
        // (one ECDSA and the Schnorr context: the satisfier code is context-generic)
        if ctx == CtxK::Segwitv0 || ctx == CtxK::Tap {
            let k = |i: u32| if ctx == CtxK::Tap { 200 + i } else { i };
            let pk = |i: u32| Node::Check(Box::new(Node::PkK(k(i))));
            let m1 = if ctx == CtxK::Tap { Node::MultiA(1, vec![k(0)]) } else { Node::Multi(1, vec![k(0)]) };
            nodes.push(Node::OrD(Box::new(Node::NonZero(Box::new(m1.clone()))), Box::new(pk(1))));
            nodes.push(Node::OrD(Box::new(Node::NonZero(Box::new(pk(0)))), Box::new(pk(1))));
            nodes.push(Node::OrB(Box::new(Node::NonZero(Box::new(pk(0)))), Box::new(Node::Alt(Box::new(pk(1))))));
            nodes.push(Node::AndOr(Box::new(Node::NonZero(Box::new(pk(0)))), Box::new(pk(1)), Box::new(pk(2))));
            nodes.push(Node::Thresh(1, vec![Node::NonZero(Box::new(pk(0))), Node::Alt(Box::new(pk(1)))]));
            // a script that passes the sanity rules (type Bdu/esm) and needs the dissatisfaction of j:
            // (regression cases for the fixed defect F3: `j:X` had the dissatisfaction IMPOSSIBLE)
            nodes.push(Node::OrD(
                Box::new(Node::NonZero(Box::new(Node::AndV(Box::new(Node::Verify(Box::new(pk(0)))), Box::new(pk(2)))))),
                Box::new(pk(1)),
            ));
        }
        // twin branches: two (or three) signed fragments over DISJOINT keys under every
        // alternative-forming combinator, with every subset of the signatures - the cases in
        // which the non-malleable chooser has two available candidates and must tell which of
        // them carry a signature
        let n_plain = nodes.len();
        nodes.extend(twin_corpus(ctx));
        for (idx, node) in nodes.into_iter().enumerate() {
            let twin = idx >= n_plain;
            n_frag += 1;
            node.count_frags(out);
            let full = Assets::full(&node);
            let nk = (full.ecdsa.len() + full.schnorr.len()).min(if twin { 7 } else { 4 }) as u32;
            let np = full.pre.len().min(3) as u32;
            let mut txs = tx_values(&node);
            if txs.len() > 4 && !thorough { txs.truncate(4); }
            for (lt, sq) in txs {
                for km in 0..(1u32 << nk) {
                    for pm in 0..(1u32 << np) {
                        if !thorough && !twin && (km.count_ones() + pm.count_ones()) + 2 < nk + np && rng.below(3) != 0 { continue; }
                        let a = assets_for(&node, lt, sq, km, pm);
                        with_ctx!(ctx, one(out, ctx, &node, lt, sq, &a));
                    }
                }
            }
        }
    }
    out.note("distinct_nontrivial", n_frag.to_string());
    out.note("domain", "B-typed fragments (enumerated depth 3/4, random, corpus with j: wrappers) x concrete (nLockTime,nSequence) on both sides of every lock x subsets of keys and preimages".into());
}

//! C09: static size and resource figures are true upper bounds.
//!
//! (a) `C ext` / `C scriptsize`: the model's `ExtData` / `script_size` equals the library's for
//!     every generated node of every base type.
//! (b) `J bound`: for every satisfaction the library produces (B-typed fragments x asset subsets
//!     x both satisfier modes x {library-signed, maximal-length} ECDSA signatures) the line
//!     carries the script, the witness and the library's own figures; the DRIVER measures
//!     (element count, serialized witness size, scriptSig push size, executed opcodes and peak
//!     stack+altstack depth by running the Lean Script semantics) and answers `ok` iff every
//!     measured value is <= the figure the library claims (script size: ==), and iff a script
//!     the library declares within the limits of its context really stays within them.
//!     The line also carries what the PUBLIC API says: `max_satisfaction_size()`,
//!     `max_satisfaction_witness_elements()`, `within_resource_limits()` and `validate()` under
//!     the resource limits of `Ctx::CONSENSUS` / `Ctx::SANE`; `C maxsat` / `C wrl` / `C rescheck`
//!     compare the same calls with the model on every node.
//! (c) `J descw` / `J planw`: descriptor-level `max_weight_to_satisfy` (tr() trees up to depth 4,
//!     every leaf and the key path) and the sizes a `Plan` announces versus the
//!     (scriptSig, witness) the library really produces.
//! Panics of the library and "no figure / no plan although a satisfaction exists" are judged
//! lines (`J nopanic … PANIC`, `sat=none`, `claimed=none`), not counters.
use std::collections::{BTreeSet, HashMap};
use std::sync::Arc;

use miniscript::bitcoin::hashes::{hash160, ripemd160, sha256, Hash};
use miniscript::bitcoin::secp256k1::{self, Message, Secp256k1, XOnlyPublicKey};
use miniscript::bitcoin::taproot::TapLeafHash;
use miniscript::bitcoin::{absolute, ecdsa, relative, taproot, PublicKey, ScriptBuf};
use miniscript::descriptor::TapTree;
use miniscript::miniscript::satisfy::Witness;
use miniscript::miniscript::types::Base;
use miniscript::{
    hash256, BareCtx, Descriptor, Legacy, Miniscript, MiniscriptKey, Satisfier, ScriptContext,
    Segwitv0, Tap, ToPublicKey, ValidationError, ValidationParams,
};

use crate::ast::{self, hex, CtxK, KeyOf, Node, HK};
use crate::common::{Out, Rng};
use crate::msops::{self, show_satdata, wit_wire, Assets};

/* ------------------------------------------------------------------ keys and signatures */

/// key ids known to this property: 0..40 compressed, 100..104 uncompressed, 200..240 x-only
fn full_ids() -> impl Iterator<Item = u32> { (0..40).chain(100..104) }
fn x_ids() -> impl Iterator<Item = u32> { 200..240 }

fn full_table() -> &'static HashMap<Vec<u8>, u32> {
    static T: std::sync::OnceLock<HashMap<Vec<u8>, u32>> = std::sync::OnceLock::new();
    T.get_or_init(|| full_ids().map(|id| (ast::full_key(id).to_bytes(), id)).collect())
}
fn x_table() -> &'static HashMap<Vec<u8>, u32> {
    static T: std::sync::OnceLock<HashMap<Vec<u8>, u32>> = std::sync::OnceLock::new();
    T.get_or_init(|| x_ids().map(|id| (ast::xonly_key(id).serialize().to_vec(), id)).collect())
}
fn rawpkh_table() -> &'static HashMap<hash160::Hash, u32> {
    static T: std::sync::OnceLock<HashMap<hash160::Hash, u32>> = std::sync::OnceLock::new();
    T.get_or_init(|| (0..40).chain(100..104).chain(200..240).map(|id| (ast::raw_pkh(id), id)).collect())
}

pub trait KeyId9 { fn id9(&self) -> Option<u32>; }
impl KeyId9 for PublicKey { fn id9(&self) -> Option<u32> { full_table().get(&self.to_bytes()).cloned() } }
impl KeyId9 for XOnlyPublicKey { fn id9(&self) -> Option<u32> { x_table().get(&self.serialize().to_vec()).cloned() } }

pub trait HKey9: KeyOf + KeyId9 {
    /// `Miniscript::from_str_with_validation_params(.., MAX)` (needs the concrete key type's `FromStr`)
    fn ms_from_str<Ctx: ScriptContext>(s: &str) -> Result<Miniscript<Self, Ctx>, miniscript::Error>;
}
impl HKey9 for PublicKey {
    fn ms_from_str<Ctx: ScriptContext>(s: &str) -> Result<Miniscript<Self, Ctx>, miniscript::Error> { Miniscript::from_str_with_validation_params(s, &ValidationParams::MAX) }
}
impl HKey9 for XOnlyPublicKey {
    fn ms_from_str<Ctx: ScriptContext>(s: &str) -> Result<Miniscript<Self, Ctx>, miniscript::Error> { Miniscript::from_str_with_validation_params(s, &ValidationParams::MAX) }
}

/// genuine ECDSA signatures of the MAXIMAL standard length: 71-byte DER (33-byte r, 32-byte
/// low s) + sighash byte = 72 bytes, i.e. 73 bytes with the length prefix / push opcode.
/// Found by varying the nonce data until the encoding has that length.
fn padded_table() -> &'static Vec<secp256k1::ecdsa::Signature> {
    static T: std::sync::OnceLock<Vec<secp256k1::ecdsa::Signature>> = std::sync::OnceLock::new();
    T.get_or_init(|| {
        let secp = Secp256k1::new();
        let msg = Message::from_digest(msops::MSG);
        (0..100u32).map(|i| {
            let sk = ast::secret(i);
            let mut n = 0u8;
            loop {
                let sig = secp.sign_ecdsa_with_noncedata(&msg, &sk, &[n; 32]);
                if sig.serialize_der().len() == 71 { return sig; }
                n = n.wrapping_add(1);
            }
        }).collect()
    })
}
pub fn ecdsa_sig9(id: u32, pad: bool) -> ecdsa::Signature {
    if pad {
        ecdsa::Signature { signature: padded_table()[(id % 100) as usize], sighash_type: miniscript::bitcoin::EcdsaSighashType::All }
    } else { msops::ecdsa_sig(id) }
}

/// additional `D` lines (keys beyond the shared tables, signatures incl. the maximal-length ones)
fn emit_defs9(out: &mut Out) {
    for id in 10..40 {
        let k = ast::full_key(id);
        let ser = k.to_bytes();
        let pkh = hash160::Hash::hash(&ser);
        out.line(&format!("D key {} {} {} {}", id, hex(&ser), hex(&ast::bip67_sort(&k)), hex(pkh.as_byte_array())), "ok");
    }
    for id in 210..240 {
        let ser = ast::xonly_key(id).serialize();
        let pkh = hash160::Hash::hash(&ser);
        out.line(&format!("D key {} {} {} {}", id, hex(&ser), hex(&ser), hex(pkh.as_byte_array())), "ok");
    }
    for h in 100..104 {
        out.line(&format!("D rawpkh {} {}", h, hex(ast::raw_pkh(h).as_byte_array())), "ok");
    }
    for id in full_ids() {
        let pk = ast::full_key(id);
        if id >= 10 && id < 100 {
            out.line(&format!("D sig {} {}", hex(&pk.to_bytes()), hex(&ecdsa_sig9(id, false).to_vec())), "ok");
        }
        out.line(&format!("D sig {} {}", hex(&pk.to_bytes()), hex(&ecdsa_sig9(id, true).to_vec())), "ok");
    }
    for id in 210..240 {
        let pk = ast::xonly_key(id);
        for size in [64usize, 65] {
            out.line(&format!("D sig {} {}", hex(&pk.serialize()), hex(&msops::schnorr_sig(id, size).to_vec())), "ok");
        }
    }
}

/// The caller's assets as a `Satisfier`, with a switch for maximal-length ECDSA signatures.
pub struct Sat9<'a> { pub a: &'a Assets, pub pad: bool, pub keyspend: bool }

impl<'a, Pk> Satisfier<Pk> for Sat9<'a>
where
    Pk: MiniscriptKey<Sha256 = sha256::Hash, Hash256 = hash256::Hash, Ripemd160 = ripemd160::Hash, Hash160 = hash160::Hash>
        + ToPublicKey + KeyId9,
{
    fn lookup_ecdsa_sig(&self, pk: &Pk) -> Option<ecdsa::Signature> {
        let id = pk.id9()?;
        if self.a.ecdsa.contains(&id) { Some(ecdsa_sig9(id, self.pad)) } else { None }
    }
    fn lookup_tap_key_spend_sig(&self, pk: &Pk) -> Option<taproot::Signature> {
        if !self.keyspend { return None; }
        let id = pk.id9()?;
        self.a.schnorr.get(&id).map(|sz| msops::schnorr_sig(id, *sz))
    }
    fn lookup_tap_leaf_script_sig(&self, pk: &Pk, _: &TapLeafHash) -> Option<taproot::Signature> {
        let id = pk.id9()?;
        self.a.schnorr.get(&id).map(|sz| msops::schnorr_sig(id, *sz))
    }
    fn lookup_raw_pkh_pk(&self, h: &hash160::Hash) -> Option<PublicKey> {
        let id = *rawpkh_table().get(h)?;
        if id < 200 && self.a.rawpk.contains(&id) { Some(ast::full_key(id)) } else { None }
    }
    fn lookup_raw_pkh_x_only_pk(&self, h: &hash160::Hash) -> Option<XOnlyPublicKey> {
        let id = *rawpkh_table().get(h)?;
        if id >= 200 && self.a.rawpk.contains(&id) { Some(ast::xonly_key(id)) } else { None }
    }
    fn lookup_raw_pkh_ecdsa_sig(&self, h: &hash160::Hash) -> Option<(PublicKey, ecdsa::Signature)> {
        let id = *rawpkh_table().get(h)?;
        if id < 200 && self.a.rawsig.contains(&id) { Some((ast::full_key(id), ecdsa_sig9(id, self.pad))) } else { None }
    }
    fn lookup_raw_pkh_tap_leaf_script_sig(&self, h: &(hash160::Hash, TapLeafHash)) -> Option<(XOnlyPublicKey, taproot::Signature)> {
        let id = *rawpkh_table().get(&h.0)?;
        if id >= 200 && self.a.rawsig.contains(&id) {
            Some((ast::xonly_key(id), msops::schnorr_sig(id, self.a.schnorr.get(&id).cloned().unwrap_or(64))))
        } else { None }
    }
    fn lookup_sha256(&self, h: &sha256::Hash) -> Option<[u8; 32]> {
        let id = msops::hash_id(HK::Sha256, h.as_byte_array())?;
        if self.a.pre.contains(&(HK::Sha256, id)) { Some(ast::preimage(id)) } else { None }
    }
    fn lookup_hash256(&self, h: &hash256::Hash) -> Option<[u8; 32]> {
        let id = msops::hash_id(HK::Hash256, h.as_byte_array())?;
        if self.a.pre.contains(&(HK::Hash256, id)) { Some(ast::preimage(id)) } else { None }
    }
    fn lookup_ripemd160(&self, h: &ripemd160::Hash) -> Option<[u8; 32]> {
        let id = msops::hash_id(HK::Ripemd160, h.as_byte_array())?;
        if self.a.pre.contains(&(HK::Ripemd160, id)) { Some(ast::preimage(id)) } else { None }
    }
    fn lookup_hash160(&self, h: &hash160::Hash) -> Option<[u8; 32]> {
        let id = msops::hash_id(HK::Hash160, h.as_byte_array())?;
        if self.a.pre.contains(&(HK::Hash160, id)) { Some(ast::preimage(id)) } else { None }
    }
    fn check_older(&self, n: relative::LockTime) -> bool { self.a.older.contains(&n.to_consensus_u32()) }
    fn check_after(&self, n: absolute::LockTime) -> bool { self.a.after.contains(&n.to_consensus_u32()) }
}

/* ------------------------------------------------------------------ wire-format parser */

fn parse_node(s: &str) -> Node {
    let cs: Vec<char> = s.chars().collect();
    let mut i = 0;
    let n = parse_at(&cs, &mut i);
    assert!(i == cs.len(), "trailing input in corpus entry {}", s);
    n
}
fn ident(cs: &[char], i: &mut usize) -> String {
    let st = *i;
    while *i < cs.len() && (cs[*i].is_alphanumeric() || cs[*i] == '_') { *i += 1; }
    cs[st..*i].iter().collect()
}
fn expect(cs: &[char], i: &mut usize, c: char) { assert!(cs[*i] == c, "expected {} at {}", c, *i); *i += 1; }
fn parse_at(cs: &[char], i: &mut usize) -> Node {
    let name = ident(cs, i);
    if *i >= cs.len() || cs[*i] != '(' {
        return match name.as_str() { "1" => Node::True, "0" => Node::False, _ => panic!("bad leaf {}", name) };
    }
    expect(cs, i, '(');
    let num = |cs: &[char], i: &mut usize| -> u32 { ident(cs, i).parse().unwrap() };
    let nums = |cs: &[char], i: &mut usize| -> Vec<u32> {
        let mut v = vec![num(cs, i)];
        while cs[*i] == ',' { *i += 1; v.push(num(cs, i)); }
        v
    };
    let node = match name.as_str() {
        "pk_k" => Node::PkK(num(cs, i)), "pk_h" => Node::PkH(num(cs, i)), "raw_pkh" => Node::RawPkH(num(cs, i)),
        "after" => Node::After(num(cs, i)), "older" => Node::Older(num(cs, i)),
        "sha256" => Node::Hash(HK::Sha256, num(cs, i)), "hash256" => Node::Hash(HK::Hash256, num(cs, i)),
        "ripemd160" => Node::Hash(HK::Ripemd160, num(cs, i)), "hash160" => Node::Hash(HK::Hash160, num(cs, i)),
        "multi" | "sortedmulti" | "multi_a" | "sortedmulti_a" => {
            let v = nums(cs, i);
            let (k, ks) = (v[0] as usize, v[1..].to_vec());
            match name.as_str() {
                "multi" => Node::Multi(k, ks), "sortedmulti" => Node::SortedMulti(k, ks),
                "multi_a" => Node::MultiA(k, ks), _ => Node::SortedMultiA(k, ks),
            }
        }
        "thresh" => {
            let k = num(cs, i) as usize;
            let mut xs = vec![];
            while cs[*i] == ',' { *i += 1; xs.push(parse_at(cs, i)); }
            Node::Thresh(k, xs)
        }
        _ => {
            let mut xs = vec![parse_at(cs, i)];
            while cs[*i] == ',' { *i += 1; xs.push(parse_at(cs, i)); }
            let mut it = xs.into_iter().map(Box::new);
            let mut nx = || it.next().expect("arity");
            match name.as_str() {
                "a" => Node::Alt(nx()), "s" => Node::Swap(nx()), "c" => Node::Check(nx()), "d" => Node::DupIf(nx()),
                "v" => Node::Verify(nx()), "j" => Node::NonZero(nx()), "n" => Node::ZeroNotEqual(nx()),
                "and_v" => { let a = nx(); Node::AndV(a, nx()) } "and_b" => { let a = nx(); Node::AndB(a, nx()) }
                "or_b" => { let a = nx(); Node::OrB(a, nx()) } "or_d" => { let a = nx(); Node::OrD(a, nx()) }
                "or_c" => { let a = nx(); Node::OrC(a, nx()) } "or_i" => { let a = nx(); Node::OrI(a, nx()) }
                "andor" => { let a = nx(); let b = nx(); Node::AndOr(a, b, nx()) }
                _ => panic!("bad fragment {}", name),
            }
        }
    };
    expect(cs, i, ')');
    node
}

/* ------------------------------------------------------------------ (b) J bound */

/// one (fragment, assets, mode, signature length) case
fn emit_bound<Pk: HKey9, Ctx: ScriptContext>(out: &mut Out, ctx: CtxK, node: &Node, assets: &Assets, mall: bool, pad: bool)
where for<'a> Sat9<'a>: Satisfier<Pk>
{
    let ms: Miniscript<Pk, Ctx> = match ast::to_ms(node) { Ok(m) => m, Err(_) => return };
    emit_bound_ms(out, ctx, &node.wire(), &ms, assets, mall, pad)
}

/// the judged line for an OBJECT (whatever route built it): its own stored figures against the
/// satisfaction it produces; `label` only names the case
fn emit_bound_ms<Pk: HKey9, Ctx: ScriptContext>(out: &mut Out, ctx: CtxK, label: &str, ms: &Miniscript<Pk, Ctx>, assets: &Assets, mall: bool, pad: bool)
where for<'a> Sat9<'a>: Satisfier<Pk>
{
    let sat = Sat9 { a: assets, pad, keyspend: false };
    let mode = if mall { "mall" } else { "nonmall" };
    let res = std::panic::catch_unwind(std::panic::AssertUnwindSafe(|| {
        let t = if mall { ms.build_template_mall(&sat) } else { ms.build_template(&sat) };
        let w = if mall { ms.satisfy_malleable(&sat) } else { ms.satisfy(&sat) };
        (t, w)
    }));
    let (tmpl, wit) = match res {
        Ok(x) => x,
        Err(_) => {
            out.line(&format!("J nopanic bound/satisfy {} {} {} {} PANIC", ctx.name(), label, assets.wire(), mode), "ok");
            return;
        }
    };
    let wit = match (&tmpl.stack, wit) { (Witness::Stack(_), Ok(w)) => w, _ => { out.count("bound: no satisfaction"); return; } };
    let script = ms.encode();
    // what the public API declares
    let api = std::panic::catch_unwind(std::panic::AssertUnwindSafe(|| {
        (ms.within_resource_limits(),
         ms.validate(&resource_only(&Ctx::CONSENSUS)).is_ok(),
         ms.validate(&resource_only(&Ctx::SANE)).is_ok(),
         ms.max_satisfaction_size().ok(),
         ms.max_satisfaction_witness_elements().ok())
    }));
    let (lim, vc, vs, mss, mwe) = match api {
        Ok(x) => x,
        Err(_) => {
            out.line(&format!("J nopanic bound/api {} {} PANIC", ctx.name(), label), "ok");
            return;
        }
    };
    let on = |x: Option<usize>| x.map(|v| v.to_string()).unwrap_or("none".into());
    let (lt, sq) = msops::tx_fields(
        tmpl.absolute_timelock.map(|t| t.to_consensus_u32()),
        tmpl.relative_timelock.map(|t| t.to_consensus_u32()),
    );
    out.line(
        &format!("J bound {} {} {} {} {} | {} {} {} {} lim={} st={} ssz={} pkc={} sat={} vc={} vs={} mss={} mwe={}",
            ctx.name(), label, assets.wire(), mode, if pad { "pad" } else { "std" },
            lt, sq, hex(script.as_bytes()), wit_wire(&wit),
            lim as u8, ms.ext.static_ops, ms.script_size(), ms.ext.pk_cost, show_satdata(&ms.ext.sat_data),
            vc as u8, vs as u8, on(mss), on(mwe)),
        "ok",
    );
}

/// `ValidationParams::MAX` with the four resource limits of `base`: `validate` then only reports
/// resource errors
fn resource_only(base: &ValidationParams) -> ValidationParams {
    let mut p = ValidationParams::MAX;
    p.max_opcode_count = base.max_opcode_count;
    p.max_script_size = base.max_script_size;
    p.max_witness_items = base.max_witness_items;
    p.max_exec_stack_size = base.max_exec_stack_size;
    p
}

fn show_vres(r: &Result<(), ValidationError>) -> &'static str {
    match r {
        Ok(()) => "ok",
        Err(ValidationError::MaxScriptSizeExceeded { .. }) => "err:script-size",
        Err(ValidationError::MaxWitnessItemsExceeded { .. }) => "err:witness-items",
        Err(ValidationError::MaxOpCountExceeded { .. }) => "err:op-count",
        Err(ValidationError::MaxExecStackSizeExceeded { .. }) => "err:exec-stack",
        Err(_) => "err:other",
    }
}

fn bound_all<Pk: HKey9, Ctx: ScriptContext>(out: &mut Out, ctx: CtxK, node: &Node, cap: usize)
where for<'a> Sat9<'a>: Satisfier<Pk>
{
    for a in asset_subsets9(node, cap) {
        for mall in [false, true] {
            emit_bound::<Pk, Ctx>(out, ctx, node, &a, mall, false);
            if ctx != CtxK::Tap && (!a.ecdsa.is_empty() || !a.rawsig.is_empty()) { emit_bound::<Pk, Ctx>(out, ctx, node, &a, mall, true); }
        }
    }
}

/// asset subsets: the shared enumeration (all subsets up to the cap, largest first) when the
/// script has few atoms; otherwise the full set, every "all but one", and seeded random halves
fn asset_subsets9(node: &Node, cap: usize) -> Vec<Assets> {
    let full = Assets::full(node);
    let natoms = full.ecdsa.len() + full.schnorr.len() + full.pre.len() + full.older.len() + full.after.len();
    if natoms <= 10 { return msops::asset_subsets(node, cap); }
    let mut res = vec![full.clone()];
    let mut rng = Rng(natoms as u64 * 7919 + 13);
    for _ in 0..cap.saturating_sub(1) {
        let mut a = Assets::default();
        let p = 1 + rng.below(4);   // keep probability p/4
        for k in &full.ecdsa { if rng.below(4) < p { a.ecdsa.insert(*k); } }
        for (k, _) in &full.schnorr { if rng.below(4) < p { a.schnorr.insert(*k, if k % 2 == 0 { 64 } else { 65 }); } }
        for h in &full.pre { if rng.below(4) < p { a.pre.insert(*h); } }
        for n in &full.older { if rng.below(4) < p { a.older.insert(*n); } }
        for n in &full.after { if rng.below(4) < p { a.after.insert(*n); } }
        res.push(a);
    }
    res
}

fn static_lines<Pk: HKey9, Ctx: ScriptContext>(out: &mut Out, ctx: CtxK, node: &Node) {
    let w = node.wire();
    let built = std::panic::catch_unwind(std::panic::AssertUnwindSafe(|| ast::to_ms::<Pk, Ctx>(node)));
    // whether `from_ast` (bottom-up) accepts the script is compared with the model of the
    // context rules (typing, key kinds, script-size limits on pk_cost, recursion depth)
    out.line(&format!("C accept fromast {} {}", ctx.name(), w),
        match &built { Ok(Ok(_)) => "ok", Ok(Err(_)) => "ERR", Err(_) => "PANIC" });
    let ms: Miniscript<Pk, Ctx> = match built { Ok(Ok(m)) => m, _ => return };
    out.line(&format!("C ext {} {}", ctx.name(), w), &msops::show_ext(&ms.ext));
    out.line(&format!("C scriptsize {} {}", ctx.name(), w), &ms.script_size().to_string());
    let on = |x: Option<usize>| x.map(|v| v.to_string()).unwrap_or("none".into());
    let api = std::panic::catch_unwind(std::panic::AssertUnwindSafe(|| {
        (format!("{} {}", on(ms.max_satisfaction_size().ok()), on(ms.max_satisfaction_witness_elements().ok())),
         ms.within_resource_limits(),
         show_vres(&ms.validate(&resource_only(&Ctx::CONSENSUS))),
         show_vres(&ms.validate(&resource_only(&Ctx::SANE))))
    }));
    match api {
        Ok((m, wrl, c, sn)) => {
            out.line(&format!("C maxsat {} {}", ctx.name(), w), &m);
            out.line(&format!("C wrl {} {}", ctx.name(), w), if wrl { "1" } else { "0" });
            out.line(&format!("C rescheck {} consensus {}", ctx.name(), w), c);
            out.line(&format!("C rescheck {} sane {}", ctx.name(), w), sn);
            // what the library DECLARES within the limits of the context has figures within them
            // (with "figure >= measured" this is the compliance claim; judged without a model)
            if wrl {
                let mut f = m.split(' ');
                out.line(&format!("J declared {} {} | pkc={} st={} sat={} mss={} mwe={} ssz={}", ctx.name(), w,
                    ms.ext.pk_cost, ms.ext.static_ops, show_satdata(&ms.ext.sat_data),
                    f.next().unwrap_or("none"), f.next().unwrap_or("none"), ms.script_size()), "ok");
            }
        }
        Err(_) => out.line(&format!("J nopanic static/api {} {} PANIC", ctx.name(), w), "ok"),
    }
}

/// R1: the figures are stored at construction; every construction route has to store the same
/// ones.  `from_ast` is the route of `static_lines`; here the same script comes back from its text
/// form (`from_str_with_validation_params`), from its Script encoding (`decode_with_validation_params`, both with `ValidationParams::MAX`), from the leaf constructors, from `translate_pk` and from `Clone`, and the figures of THAT
/// object are compared with the model (`C extvia <route>`: ExtData, script_size, accessors).
fn route_lines<Pk: HKey9, Ctx: ScriptContext<Key = Pk>>(out: &mut Out, ctx: CtxK, node: &Node)
where for<'a> Sat9<'a>: Satisfier<Pk>
{
    let ms0: Miniscript<Pk, Ctx> = match ast::to_ms(node) { Ok(m) => m, Err(_) => return };
    let w = node.wire();
    let on = |x: Option<usize>| x.map(|v| v.to_string()).unwrap_or("none".into());
    let show = |m: &Miniscript<Pk, Ctx>| format!("{} {} {} {}", msops::show_ext(&m.ext), m.script_size(),
        on(m.max_satisfaction_size().ok()), on(m.max_satisfaction_witness_elements().ok()));
    let text = ms0.to_string();
    match std::panic::catch_unwind(std::panic::AssertUnwindSafe(|| Pk::ms_from_str::<Ctx>(&text))) {
        Ok(Ok(m)) if m == ms0 => out.line(&format!("C extvia fromstr {} {}", ctx.name(), w), &show(&m)),
        Ok(Ok(_)) => out.count("route: text round trip gives another script (C10's matter)"),
        Ok(Err(_)) => out.count("route: from_str refuses the printed script (C10's matter)"),
        Err(_) => out.line(&format!("J nopanic route/from_str {} {} PANIC", ctx.name(), w), "ok"),
    }
    // leaves through the public leaf constructors (`Miniscript::TRUE`, `pk_k`, `pk`, `pkh`, `after`,
    // `sha256`, `multi`, ...: they compute their ExtData themselves), the rest by from_ast over them
    match std::panic::catch_unwind(std::panic::AssertUnwindSafe(|| to_ms_ctor::<Pk, Ctx>(node))) {
        Ok(Some(m)) => {
            out.line(&format!("C extvia ctor {} {}", ctx.name(), w), &show(&m));
            // ... and that object's own figures against the satisfaction it produces (full assets)
            let a = Assets::full(node);
            emit_bound_ms::<Pk, Ctx>(out, ctx, &format!("ctor:{}", w), &m, &a, false, ctx != CtxK::Tap);
        }
        Ok(None) => out.count("route: constructor route refused"),
        Err(_) => out.line(&format!("J nopanic route/ctor {} {} PANIC", ctx.name(), w), "ok"),
    }
    // translate_pk with the identity translator (rebuilds every node)
    {
        struct Id;
        impl<Pk: MiniscriptKey> miniscript::Translator<Pk> for Id {
            type TargetPk = Pk;
            type Error = ();
            fn pk(&mut self, pk: &Pk) -> Result<Pk, ()> { Ok(pk.clone()) }
            fn sha256(&mut self, h: &Pk::Sha256) -> Result<Pk::Sha256, ()> { Ok(h.clone()) }
            fn hash256(&mut self, h: &Pk::Hash256) -> Result<Pk::Hash256, ()> { Ok(h.clone()) }
            fn ripemd160(&mut self, h: &Pk::Ripemd160) -> Result<Pk::Ripemd160, ()> { Ok(h.clone()) }
            fn hash160(&mut self, h: &Pk::Hash160) -> Result<Pk::Hash160, ()> { Ok(h.clone()) }
        }
        match std::panic::catch_unwind(std::panic::AssertUnwindSafe(|| ms0.translate_pk(&mut Id))) {
            Ok(Ok(m)) => out.line(&format!("C extvia translate {} {}", ctx.name(), w), &show(&m)),
            Ok(Err(_)) => out.count("route: identity translate_pk refused"),
            Err(_) => out.line(&format!("J nopanic route/translate_pk {} {} PANIC", ctx.name(), w), "ok"),
        }
    }
    // Clone copies the stored figures
    out.line(&format!("C extvia clone {} {}", ctx.name(), w), &show(&ms0.clone()));
    let script = ms0.encode();
    match std::panic::catch_unwind(std::panic::AssertUnwindSafe(|| Miniscript::<Pk, Ctx>::decode_with_validation_params(&script, &ValidationParams::MAX))) {
        Ok(Ok(m)) if m == ms0 => out.line(&format!("C extvia decode {} {}", ctx.name(), w), &show(&m)),
        // a decoded pk_h is a raw key hash: another script, with its own (worst-case) figures; that
        // OBJECT is judged on the satisfactions it produces once the keys behind the hashes are known
        Ok(Ok(m)) => {
            out.count("route: decoded object (pk_h -> raw pkh) judged");
            let mut a = Assets::full(node);
            let mut ks = vec![];
            node.keys(&mut ks);
            for k in ks { a.rawpk.insert(k); a.rawsig.insert(k); }
            let label = format!("decoded:{}", w);
            for mall in [false, true] {
                emit_bound_ms::<Pk, Ctx>(out, ctx, &label, &m, &a, mall, ctx != CtxK::Tap);
            }
        }
        Ok(Err(_)) => out.count("route: decode refuses the encoded script (C04's matter)"),
        Err(_) => out.line(&format!("J nopanic route/decode {} {} PANIC", ctx.name(), w), "ok"),
    }
}

/// R1, compiler route: the policy compiler builds its nodes with `from_components_unchecked` and
/// its own cast table (`ExtData::cast_*`), i.e. the stored figures of a COMPILED object come from
/// code no other route runs.  Every compiled miniscript is compared with the model (`C extvia
/// compile`, the model computes the figures of the same tree) and judged as an object on the
/// satisfactions it produces (`J bound compiled:…`, all-but-one asset subsets, both modes).
fn compile_route<Pk: HKey9 + crate::c10b::Atom, Ctx: ScriptContext>(out: &mut Out, ctx: CtxK)
where for<'a> Sat9<'a>: Satisfier<Pk>
{
    use miniscript::bitcoin::hashes::Hash as _;
    use miniscript::policy::Concrete as C;
    use std::sync::Arc;
    let base = if ctx == CtxK::Tap { 200 } else { 0 };
    let k = |i: u32| Arc::new(C::<Pk>::Key(Pk::of(base + i)));
    let older = |n: u32| Arc::new(C::<Pk>::Older(miniscript::RelLockTime::from_consensus(n).unwrap()));
    let after = |n: u32| Arc::new(C::<Pk>::After(miniscript::AbsLockTime::from_consensus(n).unwrap()));
    let sha = |i: u32| Arc::new(C::<Pk>::Sha256(miniscript::bitcoin::hashes::sha256::Hash::from_slice(&ast::hash_value(ast::HK::Sha256, i)).unwrap()));
    let and = |a: Arc<C<Pk>>, b: Arc<C<Pk>>| Arc::new(C::And(vec![a, b]));
    let or = |wa: usize, a: Arc<C<Pk>>, wb: usize, b: Arc<C<Pk>>| Arc::new(C::Or(vec![(wa, a), (wb, b)]));
    let thr = |kk: usize, v: Vec<Arc<C<Pk>>>| Arc::new(C::Thresh(miniscript::Threshold::new(kk, v).unwrap()));
    let pols: Vec<Arc<C<Pk>>> = vec![
        // thresholds with lock / hash children: s:n:l: / s:l:n: / a:… casts
        thr(2, vec![k(0), k(1), older(10)]), thr(2, vec![k(0), k(1), after(100)]), thr(1, vec![k(0), older(10)]),
        thr(2, vec![k(0), k(1), k(2), older(10)]), thr(3, vec![k(0), k(1), older(10), after(100)]), thr(2, vec![k(0), older(10), sha(0)]),
        thr(2, vec![k(0), and(k(1), older(10)), sha(0)]), thr(2, vec![k(0), or(1, k(1), 1, older(10)), k(2)]),
        // disjunctions at every odds: or_d / or_i / or_b / andor with u: l: t: casts
        or(1, k(0), 1, older(10)), or(9, k(0), 1, older(10)), or(1, k(0), 9, older(10)), or(1, k(0), 1, and(k(1), older(10))),
        or(9, k(0), 1, and(k(1), after(100))), or(1, k(0), 9, and(k(1), after(100))), or(1, and(k(0), older(10)), 1, and(k(1), sha(0))),
        or(1, k(0), 1, or(1, and(k(1), sha(0)), 1, and(k(2), older(10)))), or(1, sha(0), 1, k(0)), or(1, and(k(0), sha(0)), 9, k(1)),
        and(k(0), or(1, k(1), 1, older(10))), and(k(0), or(9, k(1), 1, sha(0))), and(k(0), or(1, k(1), 9, after(100))),
        and(or(1, k(0), 1, k(1)), or(1, k(2), 1, older(10))), and(k(0), and(k(1), older(10))), and(older(10), k(0)), and(sha(0), k(0)),
        and(or(1, k(0), 1, older(10)), or(1, k(1), 1, after(100))), or(1, thr(2, vec![k(0), k(1), k(2)]), 1, and(k(3), older(10))),
    ];
    for (i, pol) in pols.iter().enumerate() {
        let ms: Miniscript<Pk, Ctx> = match std::panic::catch_unwind(std::panic::AssertUnwindSafe(|| pol.compile::<Ctx>())) {
            Ok(Ok(m)) => m,
            Ok(Err(_)) => { out.count(&format!("compile route: no compilation in {}", ctx.name())); continue }
            Err(_) => { out.count("observation: compiler panicked (compile route)"); continue }
        };
        let node = match crate::c10b::from_ms(&ms) { Some(n) => n, None => { out.count("compile route: atoms outside the table"); continue } };
        let w = node.wire();
        out.count(&format!("compile route: compiled {}", ctx.name()));
        let on = |x: Option<usize>| x.map(|v| v.to_string()).unwrap_or("none".into());
        out.line(&format!("C extvia compile {} {}", ctx.name(), w), &format!("{} {} {} {}", msops::show_ext(&ms.ext), ms.script_size(),
            on(ms.max_satisfaction_size().ok()), on(ms.max_satisfaction_witness_elements().ok())));
        // the compiled OBJECT judged on its own satisfactions: full assets, each key / preimage / lock
        // removed in turn (forces the dissatisfaction of every cast on some path), both modes
        let full = Assets::full(&node);
        let mut sets = vec![full.clone()];
        for x in full.ecdsa.iter() { let mut a = full.clone(); a.ecdsa.remove(x); sets.push(a); }
        for x in full.schnorr.keys() { let mut a = full.clone(); a.schnorr.remove(x); sets.push(a); }
        for x in full.pre.iter() { let mut a = full.clone(); a.pre.remove(x); sets.push(a); }
        { let mut a = full.clone(); a.older.clear(); a.after.clear(); sets.push(a); }
        let label = format!("compiled:{}:{}", i, w);
        for a in &sets { for mall in [false, true] { emit_bound_ms::<Pk, Ctx>(out, ctx, &label, &ms, a, mall, ctx != CtxK::Tap); } }
    }
}

/// `ast::to_ms` with the leaves built by the library's public leaf constructors
fn to_ms_ctor<Pk: HKey9, Ctx: ScriptContext>(n: &Node) -> Option<Miniscript<Pk, Ctx>> {
    use miniscript::{AbsLockTime, RelLockTime, Terminal, Threshold};
    use Node::*;
    let sub = |x: &Node| -> Option<Arc<Miniscript<Pk, Ctx>>> { Some(Arc::new(to_ms_ctor::<Pk, Ctx>(x)?)) };
    let keys = |v: &Vec<u32>| -> Vec<Pk> { v.iter().map(|i| Pk::of(*i)).collect() };
    let hv = |k: HK, h: u32| ast::hash_value(k, h);
    let t: Terminal<Pk, Ctx> = match n {
        True => return Some(Miniscript::TRUE),
        False => return Some(Miniscript::FALSE),
        PkK(k) => return Some(Miniscript::pk_k(Pk::of(*k))),
        PkH(k) => return Some(Miniscript::pk_h(Pk::of(*k))),
        RawPkH(h) => return Some(Miniscript::expr_raw_pkh(ast::raw_pkh(*h))),
        After(n) => return Some(Miniscript::after(AbsLockTime::from_consensus(*n).ok()?)),
        Older(n) => return Some(Miniscript::older(RelLockTime::from_consensus(*n).ok()?)),
        Hash(HK::Sha256, h) => return Some(Miniscript::sha256(sha256::Hash::from_slice(&hv(HK::Sha256, *h)).unwrap())),
        Hash(HK::Hash256, h) => return Some(Miniscript::hash256(miniscript::hash256::Hash::from_slice(&hv(HK::Hash256, *h)).unwrap())),
        Hash(HK::Ripemd160, h) => return Some(Miniscript::ripemd160(ripemd160::Hash::from_slice(&hv(HK::Ripemd160, *h)).unwrap())),
        Hash(HK::Hash160, h) => return Some(Miniscript::hash160(hash160::Hash::from_slice(&hv(HK::Hash160, *h)).unwrap())),
        Multi(k, v) => return Some(Miniscript::multi(Threshold::new(*k, keys(v)).ok()?)),
        SortedMulti(k, v) => return Some(Miniscript::sortedmulti(Threshold::new(*k, keys(v)).ok()?)),
        MultiA(k, v) => return Some(Miniscript::multi_a(Threshold::new(*k, keys(v)).ok()?)),
        SortedMultiA(k, v) => return Some(Miniscript::sortedmulti_a(Threshold::new(*k, keys(v)).ok()?)),
        // the `pk(K)` / `pkh(K)` sugar constructors
        Check(x) => match &**x {
            PkK(k) => return Some(Miniscript::pk(Pk::of(*k))),
            PkH(k) => return Some(Miniscript::pkh(Pk::of(*k))),
            _ => Terminal::Check(sub(x)?),
        },
        Alt(x) => Terminal::Alt(sub(x)?), Swap(x) => Terminal::Swap(sub(x)?), DupIf(x) => Terminal::DupIf(sub(x)?),
        Verify(x) => Terminal::Verify(sub(x)?), NonZero(x) => Terminal::NonZero(sub(x)?), ZeroNotEqual(x) => Terminal::ZeroNotEqual(sub(x)?),
        AndV(a, b) => Terminal::AndV(sub(a)?, sub(b)?), AndB(a, b) => Terminal::AndB(sub(a)?, sub(b)?),
        AndOr(a, b, c) => Terminal::AndOr(sub(a)?, sub(b)?, sub(c)?),
        OrB(a, b) => Terminal::OrB(sub(a)?, sub(b)?), OrD(a, b) => Terminal::OrD(sub(a)?, sub(b)?),
        OrC(a, b) => Terminal::OrC(sub(a)?, sub(b)?), OrI(a, b) => Terminal::OrI(sub(a)?, sub(b)?),
        Thresh(k, xs) => {
            let mut v = Vec::with_capacity(xs.len());
            for x in xs { v.push(sub(x)?); }
            Terminal::Thresh(Threshold::new(*k, v).ok()?)
        }
    };
    Miniscript::from_ast(t).ok()
}

macro_rules! with_ctx9 {
    ($ctx:expr, $f:ident ( $($arg:expr),* )) => {
        match $ctx {
            CtxK::Bare => $f::<PublicKey, BareCtx>($($arg),*),
            CtxK::Legacy => $f::<PublicKey, Legacy>($($arg),*),
            CtxK::Segwitv0 => $f::<PublicKey, Segwitv0>($($arg),*),
            CtxK::Tap => $f::<XOnlyPublicKey, Tap>($($arg),*),
        }
    };
}

fn base_of<Pk: HKey9, Ctx: ScriptContext>(node: &Node) -> Option<Base> {
    ast::to_ms::<Pk, Ctx>(node).ok().map(|m| m.ty.corr.base)
}

/* ------------------------------------------------------------------ explicit corpus */

/// (contexts, script).  Tags: E = bare+legacy+segwitv0, T = tap.
fn corpus() -> Vec<(&'static str, String)> {
    let mut v: Vec<(&'static str, String)> = vec![];
    // lock values around every script_num_size boundary
    for n in [1u32, 16, 17, 127, 128, 32767, 32768, 8388607, 8388608, 499_999_999, 500_000_000, 2147483647] {
        v.push(("ET", format!("after({})", n)));
        v.push(("ET", format!("and_v(v(c(pk_k(K0))),after({}))", n)));
    }
    for n in [1u32, 16, 17, 127, 128, 32767, 32768, 65535, 4194304, 4194305, 4194304 + 65535, 8388607] {
        v.push(("ET", format!("older({})", n)));
        v.push(("ET", format!("and_v(v(c(pk_k(K0))),older({}))", n)));
    }
    // or_i and friends
    for s in ["or_i(c(pk_k(K0)),c(pk_k(K1)))", "or_i(0,c(pk_k(K0)))", "or_i(c(pk_h(K0)),0)", "or_i(sha256(0),and_v(v(c(pk_k(K0))),older(10)))",
              "or_i(or_i(c(pk_k(K0)),c(pk_k(K1))),or_i(c(pk_k(K2)),sha256(0)))",
              "andor(c(pk_k(K0)),or_i(and_v(v(c(pk_h(K1))),hash160(1)),older(10)),c(pk_k(K2)))",
              "or_d(c(pk_k(K0)),and_v(v(c(pk_h(K1))),older(10)))", "or_b(c(pk_k(K0)),a(c(pk_h(K1))))",
              "and_b(sha256(0),a(hash160(1)))", "or_b(ripemd160(1),a(hash256(0)))",
              "j(and_v(v(c(pk_k(K0))),c(pk_k(K1))))", "n(c(pk_k(K0)))",
              "or_c(c(pk_k(K0)),v(c(pk_h(K1))))", "and_v(or_c(c(pk_k(K0)),v(sha256(0))),c(pk_k(K1)))",
              "c(raw_pkh(R0))", "and_v(v(c(raw_pkh(R0))),c(pk_k(K1)))"] {
        v.push(("ET", s.to_string()));
    }
    // thresholds: many children, unsatisfiable children
    v.push(("ET", "thresh(1,c(pk_k(K0)),a(0))".into()));
    v.push(("ET", "thresh(1,c(pk_k(K0)),a(0),a(0))".into()));
    v.push(("ET", "thresh(2,c(pk_k(K0)),a(0),s(c(pk_k(K1))))".into()));
    v.push(("ET", "thresh(2,c(pk_k(K0)),s(c(pk_k(K1))),a(0),a(sha256(0)))".into()));
    v.push(("ET", "thresh(1,c(pk_k(K0)),a(sha256(0)),a(sha256(1)))".into()));
    v.push(("ET", "thresh(2,sha256(0),a(hash160(1)),a(c(pk_h(K0))),s(c(pk_k(K1))))".into()));
    for (k, n) in [(1usize, 10usize), (5, 10), (10, 10), (3, 20), (19, 20), (20, 20)] {
        let mut s = format!("thresh({},c(pk_k(K0))", k);
        for i in 1..n { s.push_str(&format!(",s(c(pk_k(K{})))", i)); }
        s.push(')');
        v.push(("ET", s));
    }
    {   // mixed children
        let mut s = "thresh(4,c(pk_k(K0))".to_string();
        for i in 1..8 {
            s.push_str(&match i % 4 { 0 => format!(",s(c(pk_k(K{})))", i), 1 => format!(",a(c(pk_h(K{})))", i),
                2 => ",a(sha256(0))".to_string(), _ => format!(",a(or_i(c(pk_k(K{})),0))", i) });
        }
        s.push(')');
        v.push(("ET", s));
    }
    // deep and_v chains
    for depth in [5usize, 20] {
        let mut s = "c(pk_k(K0))".to_string();
        for i in 1..=depth { s = format!("and_v(v(c(pk_k(K{}))),{})", i % 10, s); }
        v.push(("ET", s));
        let mut s = "1".to_string();
        for i in 1..=depth { s = format!("and_v(v({}),{})", if i % 2 == 0 { "sha256(0)".to_string() } else { format!("c(pk_h(K{}))", i % 10) }, s); }
        v.push(("ET", s));
    }
    // multi with k, n around 16 / 17 / 20
    for (k, n) in [(1usize, 1usize), (1, 3), (3, 3), (15, 16), (16, 16), (1, 17), (16, 17), (17, 17), (16, 20), (17, 20), (20, 20)] {
        let ks: Vec<String> = (0..n).map(|i| format!("K{}", i)).collect();
        v.push(("E", format!("multi({},{})", k, ks.join(","))));
        if n == 20 || n == 3 { v.push(("E", format!("sortedmulti({},{})", k, ks.join(",")))); }
        if n >= 16 { v.push(("E", format!("and_v(v(multi({},{})),c(pk_k(K0)))", k, ks.join(",")))); }
    }
    // multi_a with n up to 40
    for (k, n) in [(1usize, 1usize), (2, 3), (16, 16), (1, 17), (16, 17), (17, 17), (17, 20), (1, 40), (20, 40), (40, 40)] {
        let ks: Vec<String> = (0..n).map(|i| format!("K{}", i)).collect();
        v.push(("T", format!("multi_a({},{})", k, ks.join(","))));
        if n == 40 || n == 3 { v.push(("T", format!("sortedmulti_a({},{})", k, ks.join(",")))); }
    }
    v
}

/// Inputs on which the figures used to undershoot before the `fix:` commits in /repo (`d:`
/// wrapper, uncompressed keys, `thresh` taking k+1 satisfactions); kept as ordinary judged inputs.
/// Tags: B bare, L legacy, S segwitv0, T tap.
fn regression_corpus() -> Vec<(&'static str, String)> {
    vec![
        ("BLST", "d(v(older(1)))".into()),
        ("ET", "and_v(v(c(pk_k(K0))),d(v(older(1))))".into()),
        ("ET", "or_i(d(v(after(10))),c(pk_k(K0)))".into()),
        ("BL", "c(pk_h(100))".into()),
        ("BL", "c(pk_k(100))".into()),
        ("BL", "multi(1,100,K0)".into()),
        ("BL", "and_v(v(c(pk_h(100))),multi(2,100,101,K0))".into()),
        ("ET", "thresh(1,c(pk_k(K1)),a(or_i(0,n(after(1)))),a(or_i(0,n(after(1)))))".into()),
        ("ET", "thresh(2,c(pk_k(K1)),a(or_i(0,n(after(1)))),a(or_i(0,n(after(1)))),s(c(pk_k(K0))))".into()),
        ("ET", "or_d(thresh(1,and_b(c(pk_k(K0)),s(c(pk_k(K1)))),a(0)),c(pk_k(K2)))".into()),
        ("ET", "or_d(thresh(2,and_b(c(pk_k(K0)),s(c(pk_k(K1)))),a(0),a(sha256(0))),c(pk_k(K2)))".into()),
        ("ET", "or_b(j(c(pk_k(K0))),a(c(pk_k(K1))))".into()),
        ("ET", "or_d(j(c(pk_k(K0))),c(pk_k(K1)))".into()),
        // raw pkh of an UNCOMPRESSED key (the satisfier reveals the 65-byte key)
        ("BL", "c(raw_pkh(100))".into()),
        ("BL", "and_v(v(c(raw_pkh(100))),c(pk_k(K0)))".into()),
        ("BL", "or_d(c(raw_pkh(100)),c(pk_k(K1)))".into()),
    ]
}

/// Scripts around the limits the library checks (`check_local_validity`): executed opcodes
/// (201), standard witness items (100), stack + altstack depth (1000).  Judged with the full
/// asset set only; `lim=1` lines are executed with all limits enabled.
fn limit_corpus() -> Vec<(CtxK, String)> {
    let mut v = vec![];
    // opcode count: each v:sha256 costs 4 executed opcodes; 50 of them = 200
    let hash_chain = |m: usize, last: &str| {
        let mut s = last.to_string();
        for _ in 0..m { s = format!("and_v(v(sha256(0)),{})", s); }
        s
    };
    v.push((CtxK::Segwitv0, hash_chain(49, "sha256(0)")));                       // 200
    v.push((CtxK::Segwitv0, format!("n({})", hash_chain(49, "sha256(0)"))));     // 201
    v.push((CtxK::Segwitv0, hash_chain(49, "and_v(v(older(1)),sha256(0))")));    // 202
    v.push((CtxK::Segwitv0, hash_chain(50, "c(pk_k(0))")));                      // 201
    v.push((CtxK::Segwitv0, hash_chain(50, "and_v(v(c(pk_k(1))),c(pk_k(0)))"))); // 202
    v.push((CtxK::Segwitv0, hash_chain(51, "sha256(0)")));                       // 208
    // witness items: n signatures + the script
    for n in [98usize, 99, 100, 101, 102] {
        let mut s = "c(pk_k(0))".to_string();
        for i in 1..n { s = format!("and_v(v(c(pk_k({}))),{})", i % 40, s); }
        v.push((CtxK::Segwitv0, s));
    }
    // stack depth: multi_a(1, n keys) needs n initial elements (+1 while a key is pushed)
    let ma = |n: usize| { let ks: Vec<String> = (0..n).map(|i| (200 + i).to_string()).collect(); format!("multi_a(1,{})", ks.join(",")) };
    v.push((CtxK::Tap, ma(997)));
    v.push((CtxK::Tap, ma(998)));
    v.push((CtxK::Tap, ma(999)));
    v.push((CtxK::Tap, format!("and_v(v({}),sha256(0))", ma(996))));
    v.push((CtxK::Tap, format!("and_v(v({}),sha256(0))", ma(997))));
    v.push((CtxK::Tap, format!("and_v(v({}),and_v(v(sha256(0)),and_v(v(sha256(1)),sha256(0))))", ma(999))));
    // thresh whose first executed child is unsatisfiable: the second child runs on top of its result
    v.push((CtxK::Tap, format!("and_v(v(thresh(1,andor(0,1,0),s(sha256(0)))),{})", ma(996))));
    v.push((CtxK::Tap, format!("and_v(v(thresh(1,andor(0,1,0),s(sha256(0)))),{})", ma(997))));
    v.push((CtxK::Tap, format!("and_v(v(thresh(1,andor(0,1,0),s(sha256(0)))),{})", ma(998))));
    // a leaf with 251 / 252 / 253 witness items (CompactSize of the item count changes at 253)
    for n in [250usize, 251, 252, 253] { v.push((CtxK::Tap, ma(n))); }
    // Legacy scriptSig limit 1650.  The scriptSig of the sh() spend is the satisfaction (107 bytes
    // per link) PLUS the redeem script push (25 bytes per link + 3): 12 links = 1587, 13 = 1719.
    // REGRESSION (fixed in 8350e9ca): the library compared the satisfaction alone with 1650 and
    // declared the 13- and 15-link chains within the limits; they must now be REFUSED by
    // within_resource_limits (C wrl = 0; if they are declared again, J declared / J bound /
    // J desclim fail on them).  16 links were refused before as well (1712 > 1650).
    for n in [12usize, 13, 15, 16] {
        let mut s = format!("c(pk_h({}))", n - 1);
        for i in (0..n - 1).rev() { s = format!("and_v(v(c(pk_h({}))),{})", i, s); }
        v.push((CtxK::Legacy, s));
    }
    // ... and the exact boundary: 12 links + 63 / 64 bytes of v:older padding = 1650 / 1651
    for (a, b) in [(21usize, 0usize), (20, 1)] {
        let mut s = "c(pk_h(11))".to_string();
        for _ in 0..a { s = format!("and_v(v(older(1)),{})", s); }
        for _ in 0..b { s = format!("and_v(v(older(17)),{})", s); }
        for i in (0..11).rev() { s = format!("and_v(v(c(pk_h({}))),{})", i, s); }
        v.push((CtxK::Legacy, s));
    }
    // opcode limit 201 in Legacy and Bare (separate implementations): CHECKSIG + n x 0NOTEQUAL
    for ctx in [CtxK::Legacy, CtxK::Bare] {
        for n in [199usize, 200, 201] {
            let mut s = "c(pk_k(0))".to_string();
            for _ in 0..n { s = format!("n({})", s); }
            v.push((ctx, s));
        }
    }
    // ... and crossed by the keys of an executed CHECKMULTISIG: 1 + n keys + 1 + w wrappers
    {
        let keys = |n: usize| (0..n).map(|i| i.to_string()).collect::<Vec<_>>().join(",");
        for w in [178usize, 179, 180] {          // Bare, 20 keys: 21 + 1 + w = 200 / 201 / 202
            let mut s = "c(pk_k(0))".to_string();
            for _ in 0..w { s = format!("n({})", s); }
            v.push((CtxK::Bare, format!("and_v(v(multi(1,{})),{})", keys(20), s)));
        }
        for w in [190usize, 191, 192] {          // Legacy, 8 keys (<= 520 bytes): 9 + 1 + w = 200 / 201 / 202
            let mut s = "c(pk_k(0))".to_string();
            for _ in 0..w { s = format!("n({})", s); }
            v.push((CtxK::Legacy, format!("and_v(v(multi(1,{})),{})", keys(8), s)));
        }
    }
    // Segwitv0 standard script size 3600: five v:multi(1,<20 keys>) (684 bytes each) + padding
    for target in [3599usize, 3600, 3601] { v.push((CtxK::Segwitv0, sized_script(target, 5))); }
    v
}

/// a script of exactly `target` bytes: `nmulti` copies of v:multi(1,<20 keys>) (684 bytes each),
/// then v:pk (35 bytes), v:older(1) (3), v:older(17) (4) and a final pk (35)
fn sized_script(target: usize, nmulti: usize) -> String {
    let base = 684 * nmulti + 35;
    assert!(target >= base);
    let rest = target - base;
    // rest = 35 p + 3 a + 4 b with few timelock wrappers
    let mut best: Option<(usize, usize, usize)> = None;
    for p in (0..=rest / 35).rev() {
        let r = rest - 35 * p;
        for b in 0..=r / 4 {
            if (r - 4 * b) % 3 == 0 { let a = (r - 4 * b) / 3; if best.map(|(_, x, y)| a + b < x + y).unwrap_or(true) { best = Some((p, a, b)); } }
        }
        if best.is_some() { break; }
    }
    let (p, a, b) = best.expect("representable");
    let mut s = "c(pk_k(0))".to_string();
    for _ in 0..a { s = format!("and_v(v(older(1)),{})", s); }
    for _ in 0..b { s = format!("and_v(v(older(17)),{})", s); }
    for i in 0..p { s = format!("and_v(v(c(pk_k({}))),{})", 1 + i % 30, s); }
    let keys = (0..20).map(|i| i.to_string()).collect::<Vec<_>>().join(",");
    for _ in 0..nmulti { s = format!("and_v(v(multi(1,{})),{})", keys, s); }
    s
}

fn subst(s: &str, ctx: CtxK) -> String {
    // K<i> -> key id usable in the context, R<i> -> raw pkh atom
    let base = if ctx == CtxK::Tap { 200 } else { 0 };
    let cs: Vec<char> = s.chars().collect();
    let mut out = String::new();
    let mut i = 0;
    while i < cs.len() {
        if (cs[i] == 'K' || cs[i] == 'R') && i + 1 < cs.len() && cs[i + 1].is_ascii_digit() {
            let mut j = i + 1;
            while j < cs.len() && cs[j].is_ascii_digit() { j += 1; }
            let n: u32 = cs[i + 1..j].iter().collect::<String>().parse().unwrap();
            out.push_str(&(base + n).to_string());
            i = j;
        } else { out.push(cs[i]); i += 1; }
    }
    out
}
fn ctxs_of(tag: &str) -> Vec<CtxK> {
    let mut v = vec![];
    if tag.contains('E') { v.extend([CtxK::Bare, CtxK::Legacy, CtxK::Segwitv0]); }
    if tag.contains('B') { v.push(CtxK::Bare); }
    if tag.contains('L') { v.push(CtxK::Legacy); }
    if tag.contains('S') { v.push(CtxK::Segwitv0); }
    if tag.contains('T') { v.push(CtxK::Tap); }
    v
}

/// R1: `substitute_raw_pkh` copies the stored figures of the raw-hash script onto a script with
/// real keys (possibly longer ones): the resulting OBJECT's figures are judged on its satisfactions
fn subst_route<Pk: HKey9, Ctx: ScriptContext>(out: &mut Out, ctx: CtxK, node: &Node)
where for<'a> Sat9<'a>: Satisfier<Pk>
{
    let mut hs = vec![];
    node.rawpkhs(&mut hs);
    if hs.is_empty() { return; }
    let ms0: Miniscript<Pk, Ctx> = match ast::to_ms(node) { Ok(m) => m, Err(_) => return };
    let map: std::collections::BTreeMap<hash160::Hash, Pk> = hs.iter().map(|h| (ast::raw_pkh(*h), Pk::of(*h))).collect();
    let ms1 = match std::panic::catch_unwind(std::panic::AssertUnwindSafe(|| ms0.substitute_raw_pkh(&map))) {
        Ok(m) => m,
        Err(_) => { out.line(&format!("J nopanic route/substitute_raw_pkh {} {} PANIC", ctx.name(), node.wire()), "ok"); return; }
    };
    let mut a = Assets::full(node);
    for h in &hs { if *h >= 200 { a.schnorr.insert(*h, 65); } else { a.ecdsa.insert(*h); } }
    let label = format!("subst:{}", node.wire());
    out.count("route: substitute_raw_pkh object judged");
    for mall in [false, true] { for pad in [false, true] {
        if pad && ctx == CtxK::Tap { continue; }
        emit_bound_ms::<Pk, Ctx>(out, ctx, &label, &ms1, &a, mall, pad);
    } }
}

/// R2: scripts the library REFUSES today, each for one reason that matters for the figures (the
/// figure rules assume the refusal): an uncompressed key in Segwitv0 (key push counted as 34),
/// CHECKMULTISIG in tapscript / CHECKSIGADD outside, x-only key sizes.  They go through the same
/// judges as everything else AS SOON AS the library accepts them; today they end in the judged
/// `C accept ... ERR` line.
fn refused_today() -> Vec<(CtxK, &'static str)> {
    vec![
        (CtxK::Segwitv0, "c(pk_k(100))"), (CtxK::Segwitv0, "c(pk_h(100))"), (CtxK::Segwitv0, "multi(1,0,100)"),
        (CtxK::Segwitv0, "and_v(v(c(pk_k(100))),c(pk_k(0)))"), (CtxK::Segwitv0, "or_d(c(pk_k(0)),c(pk_h(101)))"),
        (CtxK::Tap, "multi(1,200,201)"), (CtxK::Tap, "sortedmulti(1,200,201)"), (CtxK::Tap, "and_v(v(multi(1,200,201)),c(pk_k(202)))"),
        (CtxK::Segwitv0, "multi_a(1,0,1)"), (CtxK::Legacy, "multi_a(1,0,1)"), (CtxK::Bare, "sortedmulti_a(1,0,1)"),
        (CtxK::Segwitv0, "and_v(v(multi_a(2,0,1,2)),c(pk_k(3)))"),
    ]
}

/* ---- R5: combinators over the RESULTS of casts ---------------------------------------------- */

/// Every `ExtData` rule reads figures a child rule produced (`has_free_verify`, `pk_cost`,
/// `static_ops`, satisfaction / dissatisfaction data).  `ast::wrapper_towers` stacks wrappers;
/// this corpus puts the result of a cast (`l:` `u:` `t:` `n:` `j:` `dv:` over every atom kind, and
/// two casts over a key) into EVERY child position of EVERY combinator, once with plain keys in
/// the other positions and once with towers everywhere, and `v:` over every fragment with and
/// without a free verify.  Returned: (script, judge-the-dissatisfaction-as-well).
///   * the script itself is judged on its satisfactions (full assets, all-but-one, all-but-two:
///     every tower is satisfied on some path and dissatisfied on another);
///   * `or_d(S, <4 signatures>)` makes the DISSATISFACTION of S the largest path, so that an
///     undershoot of `dissat_data` cannot hide behind a larger satisfaction (see `dis_embed`).
/// `thin`: one tower per position instead of all (Bare / Legacy, whose rules are the generic ones
/// already run in full for Segwitv0).
fn cast_towers(ctx: CtxK, thin: bool) -> Vec<Node> {
    use Node::*;
    let tap = ctx == CtxK::Tap;
    let b: u32 = if tap { 200 } else { 0 };
    fn bx(n: Node) -> Box<Node> { Box::new(n) }
    let pk = |k: u32| Check(bx(PkK(b + k)));
    let typed_b = |n: &Node| with_ctx9!(ctx, base_of(n)) == Some(Base::B);
    // towers over the keys k, k+1 (hash / lock atoms vary with k so that assets are independent)
    let towers = |k: u32| -> Vec<Node> {
        let atoms: Vec<Node> = vec![
            pk(k), Check(bx(PkH(b + k))),
            if tap { MultiA(1, vec![b + k, b + k + 1]) } else { Multi(1, vec![b + k, b + k + 1]) },
            Hash(HK::Sha256, (k / 2) % 4), Older(10 + k), After(100 + k),
        ];
        let casts: [fn(Node) -> Node; 6] = [
            |x| OrI(bx(False), bx(x)), |x| OrI(bx(x), bx(False)), |x| AndV(bx(Verify(bx(x))), bx(True)),
            |x| ZeroNotEqual(bx(x)), |x| NonZero(bx(x)), |x| DupIf(bx(Verify(bx(x)))),
        ];
        let mut v = atoms.clone();
        for a in &atoms { for c in casts { let t = c(a.clone()); if typed_b(&t) { v.push(t); } } }
        // two casts over a key: the outer one reads what the inner one produced
        for c1 in casts { for c2 in casts {
            let t = c2(c1(pk(k)));
            if typed_b(&c1(pk(k))) && typed_b(&t) { v.push(t); }
        } }
        v
    };
    let n_t = towers(10).len();
    let mut out: Vec<Node> = vec![];
    let mut seen = BTreeSet::new();
    let mut push = |n: Node, out: &mut Vec<Node>| { if typed_b(&n) && seen.insert(n.wire()) { out.push(n); } };
    let s_ = |x: Node| Swap(bx(x));
    let a_ = |x: Node| Alt(bx(x));
    let v_ = |x: Node| Verify(bx(x));
    // (1) a tower in one child position, plain keys in the others
    for i in 0..n_t {
        if thin && i % 5 != 0 { continue; }
        let t = towers(10)[i].clone();
        let cands: Vec<Node> = vec![
            AndV(bx(v_(t.clone())), bx(pk(1))), AndV(bx(v_(pk(1))), bx(t.clone())),
            AndB(bx(t.clone()), bx(s_(pk(1)))), AndB(bx(pk(1)), bx(a_(t.clone()))), AndB(bx(pk(1)), bx(s_(t.clone()))),
            OrB(bx(t.clone()), bx(s_(pk(1)))), OrB(bx(pk(1)), bx(a_(t.clone()))), OrB(bx(pk(1)), bx(s_(t.clone()))),
            OrD(bx(t.clone()), bx(pk(1))), OrD(bx(pk(1)), bx(t.clone())),
            AndV(bx(OrC(bx(t.clone()), bx(v_(pk(1))))), bx(True)), AndV(bx(OrC(bx(pk(1)), bx(v_(t.clone())))), bx(True)),
            OrI(bx(t.clone()), bx(pk(1))), OrI(bx(pk(1)), bx(t.clone())),
            AndOr(bx(t.clone()), bx(pk(1)), bx(pk(2))), AndOr(bx(pk(1)), bx(t.clone()), bx(pk(2))), AndOr(bx(pk(1)), bx(pk(2)), bx(t.clone())),
            Thresh(1, vec![t.clone(), s_(pk(1)), s_(pk(2))]), Thresh(2, vec![pk(1), a_(t.clone()), s_(pk(2))]),
            Thresh(2, vec![pk(1), s_(pk(2)), a_(t.clone())]), Thresh(3, vec![t.clone(), s_(pk(1)), a_(pk(2))]),
        ];
        for c in cands { push(c, &mut out); }
    }
    // (2) towers in every position at once (three different ones, rotating)
    for i in 0..n_t {
        if thin && i % 5 != 1 { continue; }
        let (t1, t2, t3) = (towers(10)[i].clone(), towers(12)[(i + 7) % n_t].clone(), towers(14)[(i + 13) % n_t].clone());
        let cands: Vec<Node> = vec![
            AndV(bx(v_(t1.clone())), bx(t2.clone())), AndB(bx(t1.clone()), bx(a_(t2.clone()))), OrB(bx(t1.clone()), bx(a_(t2.clone()))),
            OrD(bx(t1.clone()), bx(t2.clone())), OrI(bx(t1.clone()), bx(t2.clone())),
            AndV(bx(OrC(bx(t1.clone()), bx(v_(t2.clone())))), bx(True)),
            AndOr(bx(t1.clone()), bx(t2.clone()), bx(t3.clone())),
            Thresh(2, vec![t1.clone(), a_(t2.clone()), a_(t3.clone())]), Thresh(1, vec![t1.clone(), a_(t2.clone()), a_(t3.clone())]),
        ];
        for c in cands { push(c, &mut out); }
    }
    // (3) v: over every fragment, with and without a free verify below it: the towers themselves
    //     and every combinator whose last-executed child is / is not a free-verify fragment
    let ys: Vec<Node> = vec![pk(3), ZeroNotEqual(bx(pk(3))), Older(13),
        if tap { MultiA(1, vec![b + 3, b + 4]) } else { Multi(1, vec![b + 3, b + 4]) },
        OrI(bx(False), bx(pk(3))), AndV(bx(v_(pk(3))), bx(True)), Hash(HK::Hash160, 1)];
    let mut vs: Vec<Node> = towers(10);
    for y in &ys {
        vs.extend([
            AndV(bx(v_(pk(1))), bx(y.clone())), AndB(bx(pk(1)), bx(s_(y.clone()))), AndB(bx(pk(1)), bx(a_(y.clone()))),
            OrB(bx(pk(1)), bx(a_(y.clone()))), OrD(bx(pk(1)), bx(y.clone())), OrI(bx(pk(1)), bx(y.clone())), OrI(bx(y.clone()), bx(pk(1))),
            AndOr(bx(pk(1)), bx(y.clone()), bx(pk(2))), AndOr(bx(pk(1)), bx(pk(2)), bx(y.clone())),
            Thresh(1, vec![pk(1), s_(y.clone())]), Thresh(2, vec![pk(1), a_(y.clone())]),
            NonZero(bx(y.clone())), DupIf(bx(v_(y.clone()))),
        ]);
    }
    for (i, x) in vs.into_iter().enumerate() {
        if thin && i % 3 != 0 { continue; }
        push(AndV(bx(v_(x.clone())), bx(pk(7))), &mut out);
        // the verified fragment as the LAST child of and_v: its free verify is inherited upwards
        push(AndV(bx(v_(AndV(bx(v_(pk(8))), bx(x)))), bx(pk(7))), &mut out);
    }
    out
}

/// `or_d(S, and_v(v:pk,and_v(v:pk,and_v(v:pk,pk))))` with all four signatures available and at most
/// one asset of S: S is dissatisfied and the path "dissatisfaction of S + 4 signatures" is (with
/// maximal-length signatures) exactly `S.dissat + 292`, larger than any satisfaction of S in the corpus
fn dis_embed(ctx: CtxK, s: &Node) -> Option<(Node, Vec<Assets>)> {
    use Node::*;
    let b: u32 = if ctx == CtxK::Tap { 200 } else { 0 };
    fn bx(n: Node) -> Box<Node> { Box::new(n) }
    let pk = |k: u32| Check(bx(PkK(b + k)));
    let chain = AndV(bx(Verify(bx(pk(30)))), bx(AndV(bx(Verify(bx(pk(31)))), bx(AndV(bx(Verify(bx(pk(32)))), bx(pk(33)))))));
    let e = OrD(bx(s.clone()), bx(chain.clone()));
    if with_ctx9!(ctx, base_of(&e)) != Some(Base::B) { return None; }
    let chain_assets = Assets::full(&chain);
    let mut res = vec![];
    for a in msops::asset_subsets(s, 1024) {
        let n = a.ecdsa.len() + a.schnorr.len() + a.pre.len() + a.older.len() + a.after.len();
        if n > 1 { continue; }
        let mut a = a;
        a.ecdsa.extend(chain_assets.ecdsa.iter().cloned());
        for (k, _) in &chain_assets.schnorr { a.schnorr.insert(*k, 65); }
        res.push(a);
    }
    Some((e, res))
}

/// a Legacy script with 7 uncompressed keys whose size is 506 + 3 * n3 + 4 * n4 bytes
fn near_520_legacy(n3: usize, n4: usize) -> String {
    let mut s = "older(1)".to_string();
    for _ in 0..n3 { s = format!("and_v(v(older(1)),{})", s); }
    for _ in 0..n4 { s = format!("and_v(v(older(17)),{})", s); }
    s = format!("and_v(v(c(pk_k(0))),{})", s);
    for i in 0..7 { s = format!("and_v(v(c(pk_k({}))),{})", 100 + i % 4, s); }
    s
}

/* ------------------------------------------------------------------ (c) descriptors and plans */

/// what to judge for one produced spend
#[derive(Clone, Copy, PartialEq)]
enum DMode {
    /// `max_weight_to_satisfy`
    Weight,
    /// all three plan sizes, against get_satisfaction's and Plan::satisfy's output
    PlanFull,
    /// only the witness items the plan's template stands for (wsh / sh-wsh outside the keyed
    /// corpus: that the witness script is missing from `witness_size` is a known finding)
    PlanItems,
}

/// R1: the same two figures asked from the INNER descriptor type's own public method
/// (`Wsh::`, `Sh::`, `Bare::`, `Pkh::`, `Wpkh::`, `Tr::max_weight_to_satisfy` / `max_satisfaction_weight`)
#[allow(deprecated)]
fn inner_figures<Pk: HKey9>(desc: &Descriptor<Pk>) -> (String, String) {
    let on = |x: Option<u64>| x.map(|v| v.to_string()).unwrap_or("none".into());
    let r = std::panic::catch_unwind(std::panic::AssertUnwindSafe(|| match desc {
        Descriptor::Bare(d) => (d.max_weight_to_satisfy().ok().map(|w| w.to_wu()), d.max_satisfaction_weight().ok().map(|w| w as u64)),
        Descriptor::Pkh(d) => (Some(d.max_weight_to_satisfy().to_wu()), Some(d.max_satisfaction_weight() as u64)),
        Descriptor::Wpkh(d) => (Some(d.max_weight_to_satisfy().to_wu()), Some(d.max_satisfaction_weight() as u64)),
        Descriptor::Wsh(d) => (d.max_weight_to_satisfy().ok().map(|w| w.to_wu()), d.max_satisfaction_weight().ok().map(|w| w as u64)),
        Descriptor::Sh(d) => (d.max_weight_to_satisfy().ok().map(|w| w.to_wu()), d.max_satisfaction_weight().ok().map(|w| w as u64)),
        Descriptor::Tr(d) => (d.max_weight_to_satisfy().ok().map(|w| w.to_wu()), d.max_satisfaction_weight().ok().map(|w| w as u64)),
    }));
    match r { Ok((a, b)) => (on(a), on(b)), Err(_) => ("PANIC".into(), "PANIC".into()) }
}

/// sh(ms) / wsh(ms) / sh(wsh(ms)) whose miniscript the library declares `within_resource_limits`
fn declared_within<Pk: HKey9>(desc: &Descriptor<Pk>) -> bool {
    use miniscript::descriptor::ShInner;
    match desc {
        Descriptor::Wsh(w) => w.as_inner().within_resource_limits(),
        Descriptor::Sh(sh) => match sh.as_inner() {
            ShInner::Ms(ms) => ms.within_resource_limits(),
            ShInner::Wsh(w) => w.as_inner().within_resource_limits(),
            ShInner::Wpkh(_) => false,
        },
        _ => false,
    }
}

fn finish_desc<Pk: HKey9>(out: &mut Out, kind: &str, input: &str, desc: &Descriptor<Pk>, assets: &Assets, mall: bool, pad: bool, keyspend: bool, dm: DMode)
where for<'a> Sat9<'a>: Satisfier<Pk>
{
    let sat = Sat9 { a: assets, pad, keyspend };
    let mode = if mall { "mall" } else { "nonmall" };
    let head = format!("{} {} {} {} {}", kind, input, assets.wire(), mode, if pad { "pad" } else { "std" });
    // R4: the figure BEFORE the object is used (on the first call for a descriptor it is fresh: no
    // spend-info cache in `Tr`), and again after `get_satisfaction` has run on it
    let fresh = if dm == DMode::Weight {
        match std::panic::catch_unwind(std::panic::AssertUnwindSafe(|| desc.max_weight_to_satisfy())) {
            Ok(Ok(w)) => w.to_wu().to_string(), Ok(Err(_)) => "none".into(), Err(_) => "PANIC".into(),
        }
    } else { String::new() };
    let res = std::panic::catch_unwind(std::panic::AssertUnwindSafe(|| {
        if mall { desc.get_satisfaction_mall(&sat) } else { desc.get_satisfaction(&sat) }
    }));
    let (wit, ss): (Vec<Vec<u8>>, ScriptBuf) = match res {
        Ok(Ok(x)) => x,
        Ok(Err(_)) => { out.count("desc: no satisfaction"); return; }
        Err(_) => { out.line(&format!("J nopanic desc/get_satisfaction {} PANIC", head), "ok"); return; }
    };
    if dm == DMode::Weight {
        let claimed = match std::panic::catch_unwind(std::panic::AssertUnwindSafe(|| desc.max_weight_to_satisfy())) {
            Ok(Ok(w)) => w.to_wu().to_string(),
            Ok(Err(_)) => "none".into(),     // judged: a produced spend without a weight figure is a failure
            Err(_) => { out.line(&format!("J nopanic desc/max_weight_to_satisfy {} PANIC", head), "ok"); return; }
        };
        // independent oracle for the definition in the doc comment: TxIn::segwit_weight difference
        let txin = miniscript::bitcoin::TxIn { script_sig: ss.clone(), witness: miniscript::bitcoin::Witness::from_slice(&wit), ..Default::default() };
        let delta = txin.segwit_weight().to_wu() - miniscript::bitcoin::TxIn::default().segwit_weight().to_wu();
        let (inner_w, inner_old) = inner_figures(desc);
        out.line(&format!("J descw {} | {} {} claimed={} txin_delta={} fresh={} inner={}", head, hex(ss.as_bytes()), wit_wire(&wit), claimed, delta, fresh, inner_w), "ok");
        // a descriptor that passes `sanity_check` is declared within the standardness limits of
        // its kind: the real spend is measured against them
        if declared_within(desc) {
            out.line(&format!("J desclim {} | {} {}", head, hex(ss.as_bytes()), wit_wire(&wit)), "ok");
        }
        // the deprecated figure ("upper bound on the weight of a satisfying witness ... includes the
        // weight of the VarInts encoding the scriptSig and witness stack length")
        #[allow(deprecated)]
        let old = std::panic::catch_unwind(std::panic::AssertUnwindSafe(|| desc.max_satisfaction_weight()));
        match old {
            Ok(Ok(wgt)) => out.line(&format!("J descwold {} | {} {} claimed={} inner={}", head, hex(ss.as_bytes()), wit_wire(&wit), wgt, inner_old), "ok"),
            Ok(Err(_)) => out.line(&format!("J descwold {} | {} {} claimed=none inner={}", head, hex(ss.as_bytes()), wit_wire(&wit), inner_old), "ok"),
            Err(_) => out.line(&format!("J nopanic desc/max_satisfaction_weight {} PANIC", head), "ok"),
        }
    } else {
        // R1: `into_plan(_mall)` and the deprecated `plan(_mall)` twins alternate over the corpus
        static TWIN: std::sync::atomic::AtomicUsize = std::sync::atomic::AtomicUsize::new(0);
        let twin = TWIN.fetch_add(1, std::sync::atomic::Ordering::Relaxed) % 2 == 1;
        #[allow(deprecated)]
        let p = std::panic::catch_unwind(std::panic::AssertUnwindSafe(|| {
            match (mall, twin) {
                (true, false) => desc.clone().into_plan_mall(&sat), (false, false) => desc.clone().into_plan(&sat),
                (true, true) => desc.clone().plan_mall(&sat), (false, true) => desc.clone().plan(&sat),
            }
        }));
        let p = match p {
            Ok(Ok(p)) => p,
            Ok(Err(_)) => {
                // a spend exists but no plan (hence no announced size): judged
                out.line(&format!("J planw {} getsat | {} {} claimed=none", head, hex(ss.as_bytes()), wit_wire(&wit)), "ok");
                return;
            }
            Err(_) => { out.line(&format!("J nopanic desc/into_plan {} PANIC", head), "ok"); return; }
        };
        let claimed = format!("{},{},{}", p.witness_size(), p.scriptsig_size(), p.satisfaction_weight());
        if dm == DMode::PlanItems {
            out.line(&format!("J planw {} items | {} {} claimed={}", head, hex(ss.as_bytes()), wit_wire(&wit), claimed), "ok");
            return;
        }
        // versus what Descriptor::get_satisfaction produced ...
        out.line(&format!("J planw {} getsat | {} {} claimed={}", head, hex(ss.as_bytes()), wit_wire(&wit), claimed), "ok");
        // ... and versus what Plan::satisfy itself produces
        match std::panic::catch_unwind(std::panic::AssertUnwindSafe(|| p.satisfy(&sat))) {
            Ok(Ok((pw, pss))) => {
                // R4: the sizes the plan announces AFTER it has been used
                let claimed = format!("{},{},{}", p.witness_size(), p.scriptsig_size(), p.satisfaction_weight());
                out.line(&format!("J planw {} plansat | {} {} claimed={}", head, hex(pss.as_bytes()), wit_wire(&pw), claimed), "ok")
            }
            Ok(Err(_)) => out.count("plan: Plan::satisfy failed"),
            Err(_) => out.line(&format!("J nopanic desc/Plan::satisfy {} PANIC", head), "ok"),
        }
    }
}

/// `plan`: None = weight; Some(true) = plan sizes, full comparison for every kind (keyed corpus);
/// Some(false) = plan sizes, wsh / sh-wsh restricted to the witness items
fn desc_ms_cases(out: &mut Out, ctx: CtxK, node: &Node, cap: usize, plan: Option<bool>) { desc_ms_cases_p(out, ctx, node, cap, plan, &[false, true]) }

/// `pads`: which signature lengths (library-length / maximal-length) to run
fn desc_ms_cases_p(out: &mut Out, ctx: CtxK, node: &Node, cap: usize, plan: Option<bool>, pads: &[bool]) {
    let w = node.wire();
    let subsets = asset_subsets9(node, cap);
    let full = match plan { None => DMode::Weight, Some(_) => DMode::PlanFull };
    let wsh_mode = match plan { None => DMode::Weight, Some(true) => DMode::PlanFull, Some(false) => DMode::PlanItems };
    match ctx {
        CtxK::Segwitv0 => {
            let ms: Miniscript<PublicKey, Segwitv0> = match ast::to_ms(node) { Ok(m) => m, Err(_) => return };
            let d1 = Descriptor::new_wsh(ms.clone());
            let d2 = Descriptor::new_sh_wsh(ms);
            for (kind, d) in [("wsh", d1), ("sh-wsh", d2)] {
                let d = match d { Ok(d) => d, Err(e) => { out.count(&format!("desc: constructor rejected ({})", e.to_string().chars().take(40).collect::<String>())); continue } };
                for a in &subsets { for mall in [false, true] { for &pad in pads {
                    finish_desc(out, kind, &w, &d, a, mall, pad, false, wsh_mode);
                } } }
            }
        }
        CtxK::Legacy => {
            let ms: Miniscript<PublicKey, Legacy> = match ast::to_ms(node) { Ok(m) => m, Err(_) => return };
            let d = match Descriptor::new_sh(ms) { Ok(d) => d, Err(e) => { out.count(&format!("desc: constructor rejected ({})", e.to_string().chars().take(40).collect::<String>())); return } };
            for a in &subsets { for mall in [false, true] { for &pad in pads {
                finish_desc(out, "sh", &w, &d, a, mall, pad, false, full);
            } } }
        }
        CtxK::Bare => {
            let ms: Miniscript<PublicKey, BareCtx> = match ast::to_ms(node) { Ok(m) => m, Err(_) => return };
            let d = match Descriptor::new_bare(ms) { Ok(d) => d, Err(e) => { out.count(&format!("desc: constructor rejected ({})", e.to_string().chars().take(40).collect::<String>())); return } };
            for a in &subsets { for mall in [false, true] { for &pad in pads {
                finish_desc(out, "bare", &w, &d, a, mall, pad, false, full);
            } } }
        }
        CtxK::Tap => {
            let ms: Miniscript<XOnlyPublicKey, Tap> = match ast::to_ms(node) { Ok(m) => m, Err(_) => return };
            let other: Miniscript<XOnlyPublicKey, Tap> = ast::to_ms(&parse_node("c(pk_k(209))")).unwrap();
            let ik = ast::xonly_key(239);
            // single leaf, and the script as the right leaf at depth 1
            let t1 = TapTree::leaf(Arc::new(ms.clone()));
            let t2 = TapTree::combine(TapTree::leaf(Arc::new(other)), TapTree::leaf(Arc::new(ms))).unwrap();
            for (kind, t) in [("tr-leaf", t1), ("tr-2leaves", t2)] {
                let d = match Descriptor::new_tr(ik, Some(t)) { Ok(d) => d, Err(e) => { out.count(&format!("desc: constructor rejected ({})", e.to_string().chars().take(40).collect::<String>())); continue } };
                for a in &subsets { for mall in [false, true] {
                    finish_desc(out, kind, &w, &d, a, mall, false, false, full);
                } }
            }
        }
    }
}

/* ---- tr() with deeper and unbalanced trees ---- */

/// tree shapes as the list of leaf depths in left-to-right order
const TR_SHAPES: [(&str, &[u8]); 8] = [
    ("comb-r4", &[1, 2, 3, 4, 4]),
    ("comb-l4", &[4, 4, 3, 2, 1]),
    ("bal2", &[2, 2, 2, 2]),
    ("bal3", &[3, 3, 3, 3, 3, 3, 3, 3]),
    ("mix-a", &[2, 3, 3, 1]),
    ("mix-b", &[1, 3, 3, 2]),
    ("mix-c", &[3, 4, 4, 2, 1]),
    // control block 33 + 32 x 8 = 289 bytes (> 252: three-byte CompactSize)
    ("comb-r8", &[1, 2, 3, 4, 5, 6, 7, 8, 8]),
];

fn build_tree(depths: &[u8], idx: &mut usize, d: u8, leaves: &[Arc<Miniscript<XOnlyPublicKey, Tap>>]) -> TapTree<XOnlyPublicKey> {
    if depths[*idx] == d {
        let t = TapTree::leaf(leaves[*idx].clone());
        *idx += 1;
        t
    } else {
        let l = build_tree(depths, idx, d + 1, leaves);
        let r = build_tree(depths, idx, d + 1, leaves);
        TapTree::combine(l, r).expect("depth <= 128")
    }
}

/// `node` as leaf number `pos` of the shape, every other leaf `pk(<own key>)`; spends through
/// the script under test, through EVERY filler leaf (its key only) and through the key path
fn tr_tree_cases(out: &mut Out, node: &Node, shape: usize, pos: usize, cap: usize, plan: bool) {
    let (name, depths) = TR_SHAPES[shape];
    let pos = pos % depths.len();
    let ms: Miniscript<XOnlyPublicKey, Tap> = match ast::to_ms(node) { Ok(m) => m, Err(_) => return };
    let filler_key = |i: usize| 220 + i as u32;
    let leaves: Vec<Arc<Miniscript<XOnlyPublicKey, Tap>>> = (0..depths.len()).map(|i| {
        if i == pos { Arc::new(ms.clone()) }
        else { Arc::new(ast::to_ms(&Node::Check(Box::new(Node::PkK(filler_key(i))))).unwrap()) }
    }).collect();
    let tree = build_tree(depths, &mut 0, 0, &leaves);
    let ik = 239u32;
    let d = match Descriptor::new_tr(ast::xonly_key(ik), Some(tree)) { Ok(d) => d, Err(e) => { out.count(&format!("desc: constructor rejected ({})", e.to_string().chars().take(40).collect::<String>())); return } };
    let kind = format!("tr-{}@{}", name, pos);
    let w = node.wire();
    let dm = if plan { DMode::PlanFull } else { DMode::Weight };
    for a in asset_subsets9(node, cap) {
        for mall in [false, true] { finish_desc(out, &kind, &w, &d, &a, mall, false, false, dm); }
    }
    for i in 0..depths.len() {
        if i == pos { continue; }
        let mut a = Assets::default();
        a.schnorr.insert(filler_key(i), if i % 2 == 0 { 64 } else { 65 });
        finish_desc(out, &kind, &format!("{}/leaf{}", w, i), &d, &a, false, false, false, dm);
    }
    let mut a = Assets::default();
    a.schnorr.insert(ik, 65);
    finish_desc(out, &kind, &format!("{}/keypath", w), &d, &a, false, false, true, dm);
}

fn desc_key_cases(out: &mut Out, plan: bool) {
    let dm = if plan { DMode::PlanFull } else { DMode::Weight };
    for id in [0u32, 2, 100] {
        let pk = ast::full_key(id);
        let mut a = Assets::default();
        a.ecdsa.insert(id);
        let mut ds: Vec<(&str, Descriptor<PublicKey>)> = vec![];
        if let Ok(d) = Descriptor::new_pkh(pk) { ds.push(("pkh", d)); }
        if let Ok(d) = Descriptor::new_wpkh(pk) { ds.push(("wpkh", d)); }
        // Plan::scriptsig_size is one byte short for sh(wpkh) (known finding): one representative
        if !plan || id == 0 { if let Ok(d) = Descriptor::new_sh_wpkh(pk) { ds.push(("sh-wpkh", d)); } }
        for (kind, d) in ds {
            for pad in [false, true] { finish_desc(out, kind, &id.to_string(), &d, &a, false, pad, false, dm); }
        }
    }
    for id in [200u32, 201] {
        let d = Descriptor::new_tr(ast::xonly_key(id), None).unwrap();
        let mut a = Assets::default();
        a.schnorr.insert(id, if id % 2 == 0 { 64 } else { 65 });
        finish_desc(out, "tr-key", &id.to_string(), &d, &a, false, false, true, dm);
    }
}

/* ------------------------------------------------------------------ run */

pub fn run(out: &mut Out, thorough: bool, seed: u64) {
    let mut rng = Rng(seed ^ 0xC09);
    ast::emit_defs(out);
    msops::emit_sig_defs(out);
    emit_defs9(out);
    let mut n_static = 0u64;
    let mut n_judged_scripts = 0u64;
    // (context, script, 0 = sampled enumeration pool | n = DESIGNATED corpus, always run, n asset subsets)
    let mut desc_pool: Vec<(CtxK, Node, usize)> = vec![];

    // ---- enumerated + random scripts ------------------------------------------------------
    for ctx in CtxK::ALL {
        let atoms = ast::default_atoms(ctx, !thorough);
        let mut atoms = atoms;
        if matches!(ctx, CtxK::Bare | CtxK::Legacy) && atoms.unc_keys.is_empty() { atoms.unc_keys = vec![100]; }
        let frags = ast::enumerate(ctx, &atoms, if thorough { 4 } else { 3 }, if thorough { 100 } else { 40 }, &mut rng);
        for t in &frags {
            n_static += 1;
            t.node.count_frags(out);
            with_ctx9!(ctx, static_lines(out, ctx, &t.node));
            if t.base == Base::B {
                n_judged_scripts += 1;
                with_ctx9!(ctx, bound_all(out, ctx, &t.node, if thorough { 64 } else { 12 }));
                if t.node.size() <= 6 && desc_pool.len() < 4000 { desc_pool.push((ctx, t.node.clone(), 0)); }
            }
        }
        let n_rand = if thorough { 600 } else { 150 };
        for _ in 0..n_rand {
            let sz = 12 + rng.below(30);
            if let Some(node) = ast::random_b(ctx, &mut rng, sz) {
                n_static += 1;
                n_judged_scripts += 1;
                node.count_frags(out);
                with_ctx9!(ctx, static_lines(out, ctx, &node));
                with_ctx9!(ctx, bound_all(out, ctx, &node, if thorough { 12 } else { 6 }));
            }
        }
    }

    // ---- explicit corpus (judged; no defect expected) ---------------------------------------
    for (tag, s) in corpus() {
        for ctx in ctxs_of(tag) {
            let node = parse_node(&subst(&s, ctx));
            n_static += 1;
            out.count("corpus script");
            with_ctx9!(ctx, static_lines(out, ctx, &node));
            if with_ctx9!(ctx, base_of(&node)) == Some(Base::B) {
                n_judged_scripts += 1;
                with_ctx9!(ctx, bound_all(out, ctx, &node, if thorough { 48 } else { 16 }));
                with_ctx9!(ctx, route_lines(out, ctx, &node));
                with_ctx9!(ctx, subst_route(out, ctx, &node));
                desc_pool.push((ctx, node.clone(), 3));
            }
        }
    }
    // ---- the shared dimension corpus (hash kinds, lock units, uncompressed keys in every key
    //      position, raw pkh of an uncompressed key, one-child thresholds, ...) in every tier
    for ctx in CtxK::ALL {
        for node in ast::dimension_corpus(ctx) {
            n_static += 1;
            out.count("dimension-corpus script");
            with_ctx9!(ctx, static_lines(out, ctx, &node));
            if with_ctx9!(ctx, base_of(&node)) == Some(Base::B) {
                n_judged_scripts += 1;
                with_ctx9!(ctx, bound_all(out, ctx, &node, if thorough { 24 } else { 8 }));
                with_ctx9!(ctx, route_lines(out, ctx, &node));
                with_ctx9!(ctx, subst_route(out, ctx, &node));
                desc_pool.push((ctx, node.clone(), 2));
            }
        }
    }
    // ---- the FULL set of wrapper towers (dimension_corpus carries a thin slice only): every tower of
    //      2-3 wrappers over every atom kind, embedded in B scripts - static figures against the model
    //      and every produced satisfaction against the figures (not through the descriptor routes)
    for ctx in CtxK::ALL {
        let thin: BTreeSet<String> = ast::dimension_corpus(ctx).iter().map(|n| n.wire()).collect();
        for node in ast::wrapper_towers(ctx) {
            if thin.contains(&node.wire()) { continue; }
            n_static += 1;
            out.count("wrapper-tower script (full set)");
            with_ctx9!(ctx, static_lines(out, ctx, &node));
            if with_ctx9!(ctx, base_of(&node)) == Some(Base::B) {
                n_judged_scripts += 1;
                with_ctx9!(ctx, bound_all(out, ctx, &node, if thorough { 24 } else { 8 }));
            }
        }
    }
    // ---- Legacy scripts whose size sits on a push-opcode boundary (sh: direct push / PUSHDATA1 /
    //      PUSHDATA2 of the redeem script) ----------------------------------------------------------
    for target in [74usize, 75, 76, 77, 254, 255, 256, 257] {
        let node = parse_node(&sized_script(target, 0));
        n_static += 1;
        n_judged_scripts += 1;
        out.count("push-boundary script");
        static_lines::<PublicKey, Legacy>(out, CtxK::Legacy, &node);
        bound_all::<PublicKey, Legacy>(out, CtxK::Legacy, &node, 2);
        desc_pool.push((CtxK::Legacy, node, 2));
    }
    // ---- scripts around the declared limits ---------------------------------------------------
    for (ctx, sc) in limit_corpus() {
        let node = parse_node(&sc);
        desc_pool.push((ctx, node.clone(), 1));
        n_static += 1;
        n_judged_scripts += 1;
        out.count("limit-corpus script");
        with_ctx9!(ctx, static_lines(out, ctx, &node));
        let a = Assets::full(&node);
        for mall in [false, true] {
            with_ctx9!(ctx, emit_bound(out, ctx, &node, &a, mall, ctx != CtxK::Tap));
        }
    }
    // ---- inputs that failed before the fixes ---------------------------------------------------
    for (tag, s) in regression_corpus() {
        for ctx in ctxs_of(tag) {
            let node = parse_node(&subst(&s, ctx));
            n_static += 1;
            out.count("regression-corpus script");
            with_ctx9!(ctx, static_lines(out, ctx, &node));
            if with_ctx9!(ctx, base_of(&node)) == Some(Base::B) {
                n_judged_scripts += 1;
                with_ctx9!(ctx, bound_all(out, ctx, &node, 32));
                with_ctx9!(ctx, route_lines(out, ctx, &node));
                with_ctx9!(ctx, subst_route(out, ctx, &node));
                desc_pool.push((ctx, node.clone(), 3));
            }
        }
    }
    {
        // Legacy scripts of 520 / 521 bytes with uncompressed keys (the 520-byte redeem script limit
        // is checked against pk_cost)
        for (n3, n4) in [(3usize, 1usize), (2, 2), (5, 0)] {   // 519, 520, 521 bytes
            let node = parse_node(&near_520_legacy(n3, n4));
            static_lines::<PublicKey, Legacy>(out, CtxK::Legacy, &node);
            let a = Assets::full(&node);
            emit_bound::<PublicKey, Legacy>(out, CtxK::Legacy, &node, &a, false, true);
        }
    }

    // ---- R5: combinators over the results of casts; v: over every free / non-free verify --------
    for ctx in CtxK::ALL {
        let thin = matches!(ctx, CtxK::Bare | CtxK::Legacy);
        for node in cast_towers(ctx, thin) {
            n_static += 1;
            n_judged_scripts += 1;
            out.count("cast-tower script");
            with_ctx9!(ctx, static_lines(out, ctx, &node));
            with_ctx9!(ctx, bound_all(out, ctx, &node, if thorough { 32 } else { 11 }));
            with_ctx9!(ctx, route_lines(out, ctx, &node));
            if let Some((e, assets)) = dis_embed(ctx, &node) {
                out.count("cast-tower script, dissatisfaction made the largest path");
                for a in &assets { for mall in [false, true] {
                    with_ctx9!(ctx, emit_bound(out, ctx, &e, a, mall, ctx != CtxK::Tap));
                } }
            }
            desc_pool.push((ctx, node, 1));
        }
    }
    // ---- R1: compiler-built objects (their figures come from the compiler's own cast table) ---------
    for ctx in CtxK::ALL { with_ctx9!(ctx, compile_route(out, ctx)); }
    // ---- R2: refused today; judged like everything else the day the library accepts them --------
    for (ctx, sc) in refused_today() {
        let node = parse_node(sc);
        n_static += 1;
        out.count("refused-today script");
        with_ctx9!(ctx, static_lines(out, ctx, &node));
        if with_ctx9!(ctx, base_of(&node)) == Some(Base::B) {
            out.count("refused-today script ACCEPTED");
            with_ctx9!(ctx, bound_all(out, ctx, &node, 16));
            desc_pool.push((ctx, node.clone(), 3));
        }
    }
    // ---- descriptors: max_weight_to_satisfy, and the plan sizes on the same pool -----------------
    let n_desc = if thorough { 3000 } else { 500 };
    let step = (desc_pool.iter().filter(|x| x.2 == 0).count() / n_desc).max(1);
    let mut n_tap = 0usize;
    for (i, (ctx, node, des)) in desc_pool.iter().enumerate() {
        // R1: the designated corpora go through every descriptor / plan route in full; only the
        // enumeration pool is sampled
        if *des == 0 && i % step != 0 { continue; }
        let cap = if *des == 0 { 3 } else { *des };
        desc_ms_cases(out, *ctx, node, if thorough { 2 * cap } else { cap }, None);
        // plan sizes: every kind; for wsh / sh-wsh only the witness items (known finding otherwise)
        if *des == 1 { desc_ms_cases_p(out, *ctx, node, 1, Some(false), &[true]); }
        else if *des > 0 || i % (2 * step) == 0 { desc_ms_cases(out, *ctx, node, cap.min(2), Some(false)); }
        if *ctx == CtxK::Tap {
            // deeper / unbalanced trees: shape and position cycle through all combinations
            let shape = n_tap % TR_SHAPES.len();
            let pos = n_tap / TR_SHAPES.len();
            n_tap += 1;
            tr_tree_cases(out, node, shape, pos, if thorough { 4 } else { 2 }, false);
            if n_tap % 4 == 0 { tr_tree_cases(out, node, shape, pos + 1, 2, true); }
        }
    }
    // every shape x every position once with a fixed script
    for shape in 0..TR_SHAPES.len() {
        for pos in 0..TR_SHAPES[shape].1.len() {
            let node = parse_node(if pos % 2 == 0 { "and_v(v(c(pk_k(200))),sha256(0))" } else { "multi_a(2,200,201,202)" });
            tr_tree_cases(out, &node, shape, pos, 4, false);
            tr_tree_cases(out, &node, shape, pos, 2, true);
        }
    }
    desc_key_cases(out, false);
    desc_ms_cases(out, CtxK::Tap, &parse_node("thresh(1,c(pk_k(200)),a(0),a(0))"), 4, None);
    // a tap leaf with 251..253 witness items: weight and plan sizes
    for n in [251usize, 252, 253] {
        let ks: Vec<String> = (0..n).map(|i| (200 + i).to_string()).collect();
        let node = parse_node(&format!("multi_a(1,{})", ks.join(",")));
        desc_ms_cases(out, CtxK::Tap, &node, 1, None);
        desc_ms_cases(out, CtxK::Tap, &node, 1, Some(true));
    }

    // ---- plans: keyed corpus (wsh / sh-wsh / sh-wpkh plan sizes are known findings) -------------
    desc_key_cases(out, true);
    for (ctx, s) in [
        (CtxK::Bare, "c(pk_k(0))"), (CtxK::Bare, "c(pk_h(0))"), (CtxK::Bare, "multi(2,0,1,2)"),
        (CtxK::Tap, "c(pk_k(200))"), (CtxK::Tap, "and_v(v(c(pk_k(200))),sha256(0))"), (CtxK::Tap, "multi_a(2,200,201,202)"),
        // known findings: the plan omits the witness script (wsh, sh-wsh); sh-wsh / sh-wpkh scriptSig one byte short
        (CtxK::Segwitv0, "c(pk_k(0))"),
        (CtxK::Legacy, "c(pk_k(0))"), (CtxK::Legacy, "multi(2,0,1,2)"),
        (CtxK::Bare, "multi(3,0,1,2)"),
    ] {
        desc_ms_cases(out, ctx, &parse_node(s), 1, Some(true));
    }

    out.note("distinct_nontrivial", (n_static + n_judged_scripts).to_string());
    out.note("domain", format!(
        "{} nodes of all base types (C ext, C scriptsize): every context, quota-enumerated to depth {} + random larger + hand-written corpus (lock values at every script_num_size boundary, multi k,n around 16/17/20, multi_a n<=40, thresh n<=20 incl. unsatisfiable children, and_v chains to depth 20); {} B-typed scripts judged on every satisfaction the library produces for asset subsets x {{nonmall,mall}} x {{library-length, maximal-length (71-byte DER + sighash)}} ECDSA signatures; descriptors wsh/sh-wsh/sh/bare/tr (1 leaf, 2 leaves, 8 shapes of depth 2..8 with the script at every position, spent through every leaf and the key path)/pkh/wpkh/sh-wpkh for max_weight_to_satisfy, the deprecated max_satisfaction_weight and (sh/wsh/sh-wsh) the standardness limits of the produced spend; plan sizes on the same pool (wsh/sh-wsh: witness items only) plus the keyed corpus; public accessors max_satisfaction_size / max_satisfaction_witness_elements / within_resource_limits / validate(resource limits of CONSENSUS, SANE) on every node (C) and every satisfaction (J). Routes (quick tier, whole designated corpus = hand corpus + dimension corpus + regression + limit + cast towers): the figures stored in the object built by from_ast, by from_str, by Script decoding (a decoded pk_h is a raw hash: that object is judged on its satisfactions), by the public leaf constructors (incl. pk()/pkh() sugar; object also judged on a satisfaction), by translate_pk, by Clone and by substitute_raw_pkh (object judged); Descriptor::max_weight_to_satisfy / max_satisfaction_weight asked before the first use of the object (fresh), after get_satisfaction (used) and from the inner type's own method (Wsh/Sh/Bare/Pkh/Wpkh/Tr); plans through into_plan(_mall) and the deprecated plan(_mall) twins, sizes read before and after Plan::satisfy; designated scripts are never sampled or size-filtered on the descriptor / plan routes. Interacting neighbours: the full ast::wrapper_towers set, and cast towers - the result of every cast (l: u: t: n: j: dv: over every atom kind, two casts over a key) in every child position of every combinator (plain keys elsewhere, and towers everywhere), v: over every fragment with / without a free verify incl. as the last child of and_v - each judged on full / all-but-one / all-but-two assets and, wrapped as or_d(S, 4 signatures) with at most one asset of S, with the DISSATISFACTION of S as the largest path. Refused-today corpus (uncompressed key in Segwitv0, CHECKMULTISIG in tapscript, CHECKSIGADD outside): C accept today, all judges the day they are accepted. Boundary classes in every tier: ast::dimension_corpus per context; raw pkh of an uncompressed key; Legacy pk_h chains around the 1650-byte scriptSig limit; 200/201/202 opcodes in Legacy and Bare (wrapper towers and executed CHECKMULTISIG keys); Legacy scripts of 74..77 / 254..257 bytes in sh(); tap leaves with 250..253 witness items; Segwitv0 scripts of 3599/3600/3601 bytes; from_ast acceptance of every node is compared with the model (C accept). Every generated script is judged (no class is skipped); the plan-size corpus contains the three known unfixed Plan findings (wsh, sh-wsh, sh-wpkh).",
        n_static, if thorough { 4 } else { 3 }, n_judged_scripts));
}

#[allow(dead_code)]
fn _unused(_: BTreeSet<u32>, _: absolute::LockTime) {}

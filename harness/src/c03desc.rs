//! C03 at DESCRIPTOR level: the spend the library hands out as non-malleable for a descriptor that
//! passes the default sanity rules must be the only (scriptSig, witness) pair a third party can
//! get accepted for that output.
//!
//! ROUTES (every one ends in `judge_spend`; identical spends are judged once): `Descriptor::
//! get_satisfaction`, `Descriptor::into_plan` + `Plan::satisfy`, the deprecated `Descriptor::plan`,
//! `Descriptor::satisfy(&mut TxIn)`, the inner type's own `get_satisfaction` (`Wsh`, `Sh`, `Bare`,
//! `Pkh`, `Wpkh`, `Tr`), the PSBT finalizer (`update_with_descriptor_unchecked` + everything the
//! caller holds + `finalize_mut`), and the object STATES: a freshly parsed descriptor (nothing
//! cached), a used clone (after script_pubkey / address / spend_info), a `Plan` reused after a
//! failed `satisfy`, a `Psbt` finalized after a failed `finalize_mut`.
//!
//! SANITY is the library's decision (`sane_desc`): `validate(&Ctx::SANE)` of every miniscript +
//! `Descriptor::from_str`.  Descriptors refused today go through the same gate on every run and
//! are judged the day a rule lets them through.
//!
//! What the third party may use (stated once, the Lean judge builds exactly this): every stack
//! element of the library's spend (scriptSig pushes and witness items), the empty string, 01, 02,
//! 32 zero bytes, 32 / 33 junk bytes, EVERY preimage of a hash in the descriptor, EVERY public
//! key of the descriptor in the encoding its output type uses, every leaf script and control
//! block of a taproot output (the whole descriptor is public).  Signatures: only those visible
//! in the library's spend — for each (public key of the descriptor, visible signature) pair the
//! harness asks libsecp256k1 whether it verifies for the digest of the envelope being judged
//! (legacy / BIP143 / tapscript leaf / taproot key path) and registers the valid ones (`D dsig`);
//! nothing else verifies.  The judge is `Spec/Spend.verifySpend` (Lean), not the library.
//!
//! `J dnonmall`  same envelope (same witness script / redeem script / tap leaf + control block)
//! `J dnoalt`    every OTHER tap leaf / control block of the tree, and the key path
//! `C dadvfinds` / `C dadvalt`  positive controls of the two searches
use std::collections::BTreeSet;
use std::str::FromStr;

use miniscript::bitcoin::hashes::Hash;
use miniscript::bitcoin::key::XOnlyPublicKey;
use miniscript::bitcoin::script::Instruction;
use miniscript::bitcoin::secp256k1::{Message, Secp256k1};
use miniscript::bitcoin::sighash::{Prevouts, SighashCache};
use miniscript::bitcoin::taproot::{self, ControlBlock, TaprootBuilder};
use miniscript::bitcoin::ScriptBuf;
use miniscript::bitcoin::psbt::Psbt;
use miniscript::bitcoin::sighash::TapSighashType;
use miniscript::bitcoin::{Network, TxIn};
use miniscript::descriptor::{ShInner, TapTree};
use miniscript::psbt::{PsbtExt, PsbtInputExt};
use miniscript::{BareCtx, DefiniteDescriptorKey, Descriptor, Legacy, Miniscript, Satisfier, ScriptContext, Segwitv0, Tap};

use crate::ast::{self, hex, Node, HK};
use crate::c17::{dd_key, dd_ms, dd_tr, kent, PSat, Rel, Src, Wrap, DD, PA};
use crate::common::{Out, Rng};
use crate::desc::{self, wit_wire, DOM_TAPKEY};

fn catch<T>(f: impl FnOnce() -> T) -> Option<T> { std::panic::catch_unwind(std::panic::AssertUnwindSafe(f)).ok() }

fn pushed_items(s: &ScriptBuf) -> Vec<Vec<u8>> {
    let mut v = vec![];
    for ins in s.instructions() {
        match ins {
            Ok(Instruction::PushBytes(b)) => v.push(b.as_bytes().to_vec()),
            Ok(Instruction::Op(op)) => {
                let c = op.to_u8();
                if (0x51..=0x60).contains(&c) { v.push(vec![c - 0x50]) } else { v.push(vec![c]) }
            }
            Err(_) => {}
        }
    }
    v
}

fn is_tr(dd: &DD) -> bool { matches!(dd.desc, Descriptor::Tr(_)) }

/// public keys of the descriptor, in the encoding(s) its scripts use
fn key_bytes(dd: &DD) -> Vec<Vec<u8>> {
    let mut v = vec![];
    for k in &dd.keys {
        let pk = kent(*k).pk;
        let b = if is_tr(dd) { pk.inner.x_only_public_key().0.serialize().to_vec() } else { pk.to_bytes() };
        if !v.contains(&b) { v.push(b); }
    }
    v
}

fn looks_like_sig(e: &[u8]) -> bool { (64..=73).contains(&e.len()) }

/// what the adversary knows besides the elements of the spend: preimages and public keys
fn extras(dd: &DD) -> Vec<Vec<u8>> {
    let mut v: Vec<Vec<u8>> = vec![];
    for (_, h) in &dd.hashes { let p = ast::preimage(*h).to_vec(); if !v.contains(&p) { v.push(p); } }
    v.extend(key_bytes(dd));
    v
}

/// (key, visible signature) pairs to be verified by libsecp for an envelope
fn candidates(dd: &DD, visible: &[Vec<u8>]) -> Vec<(Vec<u8>, Vec<u8>)> {
    let mut c = vec![];
    for k in key_bytes(dd) { for s in visible { if looks_like_sig(s) { c.push((k.clone(), s.clone())); } } }
    c
}

/// is `sig` a valid taproot KEY-PATH signature of this transaction? (libsecp, not the library)
fn keypath_valid(ps: &PSat, sig: &[u8]) -> bool {
    let spk = &ps.prevout.script_pubkey;
    if !spk.is_p2tr() { return false; }
    let (ok, s) = match (XOnlyPublicKey::from_slice(&spk.as_bytes()[2..34]), taproot::Signature::from_slice(sig)) {
        (Ok(k), Ok(s)) => (k, s), _ => return false,
    };
    let mut cache = SighashCache::new(&ps.tx);
    match cache.taproot_key_spend_signature_hash(0, &Prevouts::All(&[ps.prevout.clone()]), s.sighash_type) {
        Ok(d) => Secp256k1::verification_only().verify_schnorr(&s.signature, &Message::from_digest(d.to_byte_array()), &ok).is_ok(),
        Err(_) => false,
    }
}

/// shape of a tap tree over leaf indices
#[derive(Clone, Debug)]
pub enum Shape { L(usize), B(Box<Shape>, Box<Shape>) }

impl Shape {
    /// left-leaning comb over n leaves, as `c17::dd_tr` builds it
    pub fn comb(n: usize) -> Shape {
        let mut t = Shape::L(0);
        for i in 1..n { t = Shape::B(Box::new(t), Box::new(Shape::L(i))); }
        t
    }
    pub fn right(n: usize) -> Shape {
        let mut t = Shape::L(n - 1);
        for i in (0..n - 1).rev() { t = Shape::B(Box::new(Shape::L(i)), Box::new(t)); }
        t
    }
    pub fn balanced(lo: usize, hi: usize) -> Shape {
        if hi - lo == 1 { Shape::L(lo) } else { let m = (lo + hi) / 2; Shape::B(Box::new(Shape::balanced(lo, m)), Box::new(Shape::balanced(m, hi))) }
    }
    /// (leaf index, depth) in depth-first order
    fn depths(&self, d: usize, acc: &mut Vec<(usize, usize)>) {
        match self { Shape::L(i) => acc.push((*i, d)), Shape::B(a, b) => { a.depths(d + 1, acc); b.depths(d + 1, acc); } }
    }
}

/// every (leaf script, control block) of the tree, computed with rust-bitcoin's TaprootBuilder
/// from the leaf scripts and the tree shape — NOT from the library's `TrSpendInfo`
fn tree_leaves(tc: &TrCase) -> Vec<(Vec<u8>, Vec<u8>)> {
    let n = tc.leaves.len();
    if n == 0 { return vec![]; }
    let shape = tc.shape.clone().unwrap_or_else(|| Shape::comb(n));
    let mut order = vec![];
    shape.depths(0, &mut order);
    let secp = Secp256k1::new();
    let mut b = TaprootBuilder::new();
    for (i, depth) in order {
        let ms: Miniscript<DefiniteDescriptorKey, Tap> = match ast::to_ms(&tc.leaves[i]) { Ok(m) => m, Err(_) => return vec![] };
        b = match b.add_leaf(depth as u8, ms.encode()) { Ok(b) => b, Err(_) => return vec![] };
    }
    let ik = kent(tc.internal).pk.inner.x_only_public_key().0;
    let info = match b.finalize(&secp, ik) { Ok(i) => i, Err(_) => return vec![] };
    let mut v = vec![];
    for ((script, ver), branches) in info.script_map() {
        for br in branches {
            let cb = ControlBlock { leaf_version: *ver, output_key_parity: info.output_key_parity(), internal_key: info.internal_key(), merkle_branch: br.clone() };
            v.push((script.as_bytes().to_vec(), cb.serialize()));
        }
    }
    v
}

/// `leaves`: the leaf scripts as the INDEPENDENT tree computation sees them (x-only keys);
/// `shape`: None = left-leaning comb; `desc_text`: the descriptor is parsed from this text
/// instead of being built from `leaves` (full keys of chosen parity)
pub struct TrCase { pub internal: u32, pub leaves: Vec<Node>, pub shape: Option<Shape>, pub desc_text: Option<String> }

fn tc(internal: u32, leaves: Vec<Node>) -> TrCase { TrCase { internal, leaves, shape: None, desc_text: None } }

fn collect_atoms(nodes: &[Node]) -> (Vec<u32>, Vec<(HK, u32)>, Vec<u32>, Vec<u32>) {
    let (mut ks, mut hs, mut af, mut ol) = (vec![], vec![], vec![], vec![]);
    for n in nodes { n.keys(&mut ks); n.hashes(&mut hs); n.locks(&mut af, &mut ol); }
    let mut ks: Vec<u32> = ks.into_iter().map(|k| if (200..300).contains(&k) { k - 200 } else { k }).collect();
    ks.sort(); ks.dedup(); hs.sort(); hs.dedup(); af.sort(); af.dedup(); ol.sort(); ol.dedup();
    (ks, hs, af, ol)
}

/// the descriptor of a case: comb shapes through `c17::dd_tr`, every other shape / text here
fn build_tr(tcase: &TrCase) -> Option<DD> {
    if tcase.shape.is_none() && tcase.desc_text.is_none() { return dd_tr(tcase.internal, &tcase.leaves); }
    type K = DefiniteDescriptorKey;
    let mut lhs = vec![];
    let mut mss: Vec<std::sync::Arc<Miniscript<K, Tap>>> = vec![];
    for n in &tcase.leaves {
        let ms: Miniscript<K, Tap> = ast::to_ms(n).ok()?;
        lhs.push(miniscript::bitcoin::taproot::TapLeafHash::from_script(&ms.encode(), miniscript::bitcoin::taproot::LeafVersion::TapScript));
        mss.push(std::sync::Arc::new(ms));
    }
    fn tree(s: &Shape, mss: &[std::sync::Arc<Miniscript<DefiniteDescriptorKey, Tap>>]) -> Option<TapTree<DefiniteDescriptorKey>> {
        match s {
            Shape::L(i) => Some(TapTree::leaf(mss.get(*i)?.clone())),
            Shape::B(a, b) => TapTree::combine(tree(a, mss)?, tree(b, mss)?).ok(),
        }
    }
    let desc = match &tcase.desc_text {
        Some(t) => Descriptor::<K>::from_str(t).ok()?,
        None => Descriptor::new_tr(kent(tcase.internal).def.clone(), Some(tree(tcase.shape.as_ref()?, &mss)?)).ok()?,
    };
    let (mut keys, hashes, afters, olders) = collect_atoms(&tcase.leaves);
    let leaf_keys = tcase.leaves.iter().map(|n| collect_atoms(std::slice::from_ref(n)).0).collect();
    if !keys.contains(&tcase.internal) { keys.push(tcase.internal); }
    Some(DD { name: desc.to_string().split('#').next().unwrap().to_string(), desc, keys, hashes, afters, olders,
        leaves: lhs, internal: Some(tcase.internal), leaf_keys,
        rawpkhs: { let mut r = vec![]; for n in &tcase.leaves { n.rawpkhs(&mut r); } r.sort(); r.dedup(); r }, sane: true })
}

/// does one miniscript of the descriptor hold the same curve point (x-only in tap) under two key
/// occurrences?  (in a descriptor that passed the sanity gate these are different `Pk` values)
fn one_point_twice(dd: &DD) -> bool {
    use miniscript::ToPublicKey;
    fn dup<I: Iterator<Item = DefiniteDescriptorKey>>(it: I, xonly: bool) -> bool {
        let mut seen: BTreeSet<Vec<u8>> = BTreeSet::new();
        for k in it {
            let p = k.to_public_key();
            let b = if xonly { p.inner.x_only_public_key().0.serialize().to_vec() } else { p.inner.serialize().to_vec() };
            if !seen.insert(b) { return true; }
        }
        false
    }
    catch(|| match &dd.desc {
        Descriptor::Wsh(w) => dup(w.as_inner().iter_pk(), false),
        Descriptor::Sh(s) => match s.as_inner() { ShInner::Wsh(w) => dup(w.as_inner().iter_pk(), false), ShInner::Ms(ms) => dup(ms.iter_pk(), false), _ => false },
        Descriptor::Bare(b) => dup(b.as_inner().iter_pk(), false),
        Descriptor::Tr(t) => t.leaves().any(|l| dup(l.miniscript().iter_pk(), true)),
        _ => false,
    }).unwrap_or(false)
}

/// judge one spend the library produced (entry = which API produced it)
fn judge_spend(out: &mut Out, dd: &DD, tr: Option<&TrCase>, ps: &PSat, wit: &[Vec<u8>], ss: &ScriptBuf, info: &str) {
    let (lt, sq) = (ps.tx.lock_time.to_consensus_u32(), ps.tx.input[0].sequence.to_consensus_u32());
    let spk = hex(ps.prevout.script_pubkey.as_bytes());
    let mut visible: Vec<Vec<u8>> = wit.to_vec();
    visible.extend(pushed_items(ss));
    let cands = candidates(dd, &visible);
    // ---- same envelope
    desc::register_valid(out, &ps.tx, &ps.prevout, ss, wit, &cands);
    if is_tr(dd) {
        let okey = hex(&ps.prevout.script_pubkey.as_bytes()[2..34]);
        for s in visible.iter().filter(|s| looks_like_sig(s)) {
            if keypath_valid(ps, s) { out.line(&format!("D dsig {} {} {}", DOM_TAPKEY, okey, hex(s)), "ok"); }
        }
    }
    let ex = extras(dd);
    // one curve point as two different `Pk` values in one script (two encodings, or the same key
    // with and without origin / parity): its own op name (same judge), see c03::two_encodings
    let two = dd.keys.iter().chain(dd.rawpkhs.iter()).any(|k| *k < 100 && (dd.keys.contains(&(k + 100)) || dd.rawpkhs.contains(&(k + 100))))
        || one_point_twice(dd);
    out.line(&format!("J {} {} {} {} {} {} {} | {}", if two { "dnonmall2e" } else { "dnonmall" }, lt, sq, spk, hex(ss.as_bytes()), wit_wire(wit), wit_wire(&ex), info), "ok");
    out.count(&format!("desc judged: {:?}", dd.desc.desc_type()));
    // ---- other envelopes of a taproot output
    if let Some(tc) = tr {
        let key_path = wit.len() == 1;
        let chosen: Option<(Vec<u8>, Vec<u8>)> = if key_path || wit.len() < 2 { None } else { Some((wit[wit.len() - 2].clone(), wit[wit.len() - 1].clone())) };
        let stack_items: Vec<Vec<u8>> = if key_path { wit.to_vec() } else { wit[..wit.len().saturating_sub(2)].to_vec() };
        let mut items = stack_items.clone();
        items.extend(ex.iter().cloned());
        let all = tree_leaves(tc);
        if let Some(c) = &chosen {
            if !all.contains(c) { out.line(&format!("J consistent chosen-leaf-in-independent-tree {}", info), "bad:leaf-or-control-block-unknown-to-rust-bitcoin"); }
        }
        for (script, cb) in all {
            if Some((script.clone(), cb.clone())) == chosen { continue; }
            let tail = vec![script, cb];
            desc::register_valid(out, &ps.tx, &ps.prevout, &ScriptBuf::new(), &tail, &cands);
            out.line(&format!("J dnoalt {} {} {} - {} {} | other-leaf {}", lt, sq, spk, wit_wire(&tail), wit_wire(&items), info), "ok");
            out.count("desc judged: other tap leaf / control block");
        }
    }
}

fn pa_of(dd: &DD, keymask: u32, premask: u32, lt: u32, sq: u32, key_spend: bool) -> PA { pa_of2(dd, keymask, premask, lt, sq, key_spend, true) }

fn pa_of2(dd: &DD, keymask: u32, premask: u32, lt: u32, sq: u32, key_spend: bool, sighash_default: bool) -> PA {
    let mut pa = PA::default();
    for (i, k) in dd.keys.iter().enumerate() {
        if keymask >> i & 1 == 1 {
            let mut s = Src::of(kent(*k), Rel::Exact).unwrap();
            if Some(*k) == dd.internal { s.key_spend = key_spend; }
            pa.srcs.push(s);
        } else if Some(*k) == dd.internal && key_spend {
            // the internal key only for the key path, not in leaves
            let mut s = Src::of(kent(*k), Rel::Exact).unwrap();
            s.leaves = crate::c17::Leaves::None; s.ecdsa = false;
            pa.srcs.push(s);
        }
    }
    for (i, h) in dd.hashes.iter().enumerate() { if premask >> i & 1 == 1 { pa.pre.insert(*h); } }
    for src in pa.srcs.iter_mut() { src.sighash_default = sighash_default; }
    pa.abs = if lt > 0 { Some(lt) } else { None };
    pa.rel = if sq != 0xffff_fffe { Some(sq) } else { None };
    pa
}

/// the default sanity rules at descriptor level, decided by the LIBRARY: every miniscript of the
/// descriptor passes `validate(&Ctx::SANE)` (the only sanity API there is; `Descriptor::from_str`
/// applies it to tap leaves only) and the descriptor's text is accepted by `Descriptor::from_str`
fn sane_desc(dd: &DD) -> bool {
    catch(|| {
        let by_type = match &dd.desc {
            Descriptor::Wsh(w) => w.as_inner().validate(&Segwitv0::SANE).is_ok(),
            Descriptor::Sh(s) => match s.as_inner() {
                ShInner::Wsh(w) => w.as_inner().validate(&Segwitv0::SANE).is_ok(),
                ShInner::Wpkh(_) => true,
                ShInner::Ms(ms) => ms.validate(&Legacy::SANE).is_ok(),
            },
            Descriptor::Bare(b) => b.as_inner().validate(&BareCtx::SANE).is_ok(),
            Descriptor::Tr(t) => t.leaves().all(|l| l.miniscript().validate(&Tap::SANE).is_ok()),
            _ => true,
        };
        by_type && Descriptor::<DefiniteDescriptorKey>::from_str(&dd.desc.to_string()).is_ok()
    }).unwrap_or(false)
}

type Spend = (Vec<Vec<u8>>, ScriptBuf);

/// the PSBT route: the input is described by the library (`update_with_descriptor_unchecked`),
/// receives EVERYTHING the caller holds (every signature the caller's keys can make for this
/// transaction, the caller's preimages) and is finalized in non-malleable mode.
/// `fail_first`: a `finalize_mut` on the still unsigned input comes first (used object).
fn psbt_route(dd: &DD, pa: &PA, lt: u32, sq: u32, shd: bool, fail_first: bool) -> Option<Option<Spend>> {
    use miniscript::bitcoin::hashes::{hash160, ripemd160, sha256, sha256d};
    let ps = PSat::new(dd, pa, lt, sq);
    catch(|| {
        let secp = Secp256k1::verification_only();
        let mut psbt = Psbt::from_unsigned_tx(ps.tx.clone()).ok()?;
        psbt.inputs[0].witness_utxo = Some(ps.prevout.clone());
        psbt.inputs[0].update_with_descriptor_unchecked(&dd.desc).ok()?;
        if fail_first { let _ = psbt.finalize_mut(&secp); }
        let tr = is_tr(dd);
        for k in &dd.keys {
            let e = kent(*k);
            if tr {
                for lh in &dd.leaves {
                    if let Some(sg) = ps.lookup_tap_leaf_script_sig(&e.def, lh) { psbt.inputs[0].tap_script_sigs.insert((e.pk.inner.x_only_public_key().0, *lh), sg); }
                }
            } else if let Some(sg) = ps.lookup_ecdsa_sig(&e.def) { psbt.inputs[0].partial_sigs.insert(e.pk, sg); }
        }
        if let Some(ik) = dd.internal {
            if let Some(sg) = ps.lookup_tap_key_spend_sig(&kent(ik).def) { psbt.inputs[0].tap_key_sig = Some(sg); }
        }
        for (kind, id) in &dd.hashes {
            if !pa.pre.contains(&(*kind, *id)) { continue; }
            let (v, pre) = (ast::hash_value(*kind, *id), ast::preimage(*id).to_vec());
            match kind {
                HK::Sha256 => { psbt.inputs[0].sha256_preimages.insert(sha256::Hash::from_slice(&v).ok()?, pre); }
                HK::Hash256 => { psbt.inputs[0].hash256_preimages.insert(sha256d::Hash::from_slice(&v).ok()?, pre); }
                HK::Ripemd160 => { psbt.inputs[0].ripemd160_preimages.insert(ripemd160::Hash::from_slice(&v).ok()?, pre); }
                HK::Hash160 => { psbt.inputs[0].hash160_preimages.insert(hash160::Hash::from_slice(&v).ok()?, pre); }
            }
        }
        if tr && !shd { psbt.inputs[0].sighash_type = Some(TapSighashType::All.into()); }
        psbt.finalize_mut(&secp).ok()?;
        let w: Vec<Vec<u8>> = psbt.inputs[0].final_script_witness.as_ref().map(|w| w.to_vec()).unwrap_or_default();
        let ss = psbt.inputs[0].final_script_sig.clone().unwrap_or_default();
        Some((w, ss))
    })
}

/// every further route / object state for one (assets, transaction)
#[allow(deprecated)]
fn more_routes(dd: &DD, pa: &PA, ps: &PSat, lt: u32, sq: u32, shd: bool) -> Vec<(&'static str, Option<Option<Spend>>)> {
    let assets = pa.to_assets(&dd.leaves);
    let mut v: Vec<(&'static str, Option<Option<Spend>>)> = vec![];
    // Descriptor::satisfy writes the spend into a TxIn
    v.push(("Descriptor::satisfy(TxIn)", catch(|| {
        let mut txin: TxIn = ps.tx.input[0].clone();
        dd.desc.satisfy(&mut txin, ps).ok().map(|_| (txin.witness.to_vec(), txin.script_sig.clone()))
    })));
    // the inner type's own method (one arm each)
    v.push(("inner::get_satisfaction", catch(|| match &dd.desc {
        Descriptor::Bare(x) => x.get_satisfaction(ps).ok(),
        Descriptor::Pkh(x) => x.get_satisfaction(ps).ok(),
        Descriptor::Wpkh(x) => x.get_satisfaction(ps).ok(),
        Descriptor::Wsh(x) => x.get_satisfaction(ps).ok(),
        Descriptor::Sh(x) => x.get_satisfaction(ps).ok(),
        Descriptor::Tr(x) => x.get_satisfaction(&ps).ok(),
    })));
    v.push(("plan(deprecated)+satisfy", catch(|| dd.desc.clone().plan(&assets).ok().and_then(|p| p.satisfy(ps).ok()))));
    v.push(("psbt finalize_mut", psbt_route(dd, pa, lt, sq, shd, false)));
    // ---- object states
    let text = dd.desc.to_string();
    v.push(("fresh:get_satisfaction", catch(|| Descriptor::<DefiniteDescriptorKey>::from_str(&text).ok().and_then(|d| d.get_satisfaction(ps).ok()))));
    v.push(("fresh:into_plan+satisfy", catch(|| Descriptor::<DefiniteDescriptorKey>::from_str(&text).ok().and_then(|d| d.into_plan(&assets).ok()).and_then(|p| p.satisfy(ps).ok()))));
    v.push(("used-clone:get_satisfaction", catch(|| {
        let d = dd.desc.clone();
        let _ = d.script_pubkey(); let _ = d.address(Network::Bitcoin); let _ = d.explicit_script();
        if let Descriptor::Tr(t) = &d { let _ = t.spend_info(); }
        let d2 = d.clone();
        d2.get_satisfaction(ps).ok()
    })));
    v.push(("plan-after-failed-satisfy", catch(|| {
        let plan = dd.desc.clone().into_plan(&assets).ok()?;
        let nothing = PA::default();
        let ps0 = PSat::new(dd, &nothing, lt, sq);
        let _ = plan.satisfy(&ps0);
        let _ = plan.satisfy(ps);
        plan.satisfy(ps).ok()
    })));
    v.push(("psbt finalize_mut after a failed finalize", psbt_route(dd, pa, lt, sq, shd, true)));
    v
}


fn tx_values(dd: &DD) -> Vec<(u32, u32)> {
    let mut lts = vec![0u32];
    for n in &dd.afters { lts.push(*n); }
    let mut sqs = vec![0xffff_fffeu32];
    for n in &dd.olders { sqs.push((n & 0x0040_0000) | (n & 0xffff)); }
    lts.sort(); lts.dedup(); lts.reverse(); sqs.sort(); sqs.dedup();
    let mut v = vec![];
    for l in &lts { for s in &sqs { v.push((*l, *s)); } }
    v
}

/// `Full`: the asset lattice (full, single removals, random, empty, no preimages) with the two
/// main routes everywhere and every further route / object state on a thin slice of the lattice.
/// `Thin`: the whole-corpus sweep - few asset sets, EVERY route on each.
#[derive(Clone, Copy, PartialEq)]
pub enum Mode { Full, Thin }

/// all checks for one descriptor
fn one_desc(out: &mut Out, dd: &DD, tr: Option<&TrCase>, thorough: bool, rng: &mut Rng, mode: Mode) -> u64 {
    if !sane_desc(dd) { out.count(&format!("desc refused today by the library's sanity rules: {:?}", dd.desc.desc_type())); return 0; }
    let nk = dd.keys.len().min(6) as u32;
    let np = dd.hashes.len().min(3) as u32;
    let fullk = (1u32 << nk) - 1;
    let fullp = (1u32 << np) - 1;
    let mut masks: Vec<(u32, u32)> = vec![(fullk, fullp)];
    if mode == Mode::Full {
        for i in 0..nk { masks.push((fullk & !(1 << i), fullp)); }
        for i in 0..np { masks.push((fullk, fullp & !(1 << i))); }
        for _ in 0..(if thorough { 6 } else { 2 }) { masks.push((rng.below(1usize << nk) as u32, rng.below(1usize << np) as u32)); }
    }
    // nothing at all; every key but no preimage
    masks.push((0, 0));
    if np > 0 { masks.push((fullk, 0)); }
    let mut txs = tx_values(dd);
    txs.truncate(if mode == Mode::Thin { 1 } else if thorough { 4 } else { 2 });
    // every key and preimage but NO lock met
    if !txs.contains(&(0, 0xffff_fffe)) { txs.push((0, 0xffff_fffe)); }
    let mut done: BTreeSet<(Vec<Vec<u8>>, Vec<u8>, u32, u32)> = BTreeSet::new();
    let mut n = 0u64;
    for (lt, sq) in txs {
        for (mi, (km, pm)) in masks.iter().enumerate() {
            // taproot: key path available or not; 64-byte (default sighash) or 65-byte signatures
            for (key_spend, shd) in if is_tr(dd) { vec![(true, true), (false, true), (false, false)] } else { vec![(false, true)] } {
                let pa = pa_of2(dd, *km, *pm, lt, sq, key_spend, shd);
                let ps = PSat::new(dd, &pa, lt, sq);
                // entry point 1: Descriptor::get_satisfaction
                let r1 = catch(|| dd.desc.get_satisfaction(&ps).ok());
                // entry point 2: Descriptor::into_plan + Plan::satisfy
                let assets = pa.to_assets(&dd.leaves);
                let r2 = catch(|| dd.desc.clone().into_plan(&assets).ok().and_then(|p| p.satisfy(&ps).ok()));
                let mut entries: Vec<(&'static str, Option<Option<Spend>>)> = vec![("get_satisfaction", r1), ("into_plan+satisfy", r2)];
                // every further route and object state
                let slice = if mode == Mode::Thin { mi == 0 } else { mi <= 1 || (*km, *pm) == (0, 0) || (*km == fullk && *pm == 0) };
                if slice { entries.extend(more_routes(dd, &pa, &ps, lt, sq, shd)); }
                for (entry, r) in entries {
                    match r {
                        None => out.line(&format!("J nopanic {} {} {} PANIC", entry.replace(' ', "_"), dd.name, pa.wire()), "ok"),
                        Some(None) => out.count(&format!("desc {}: no spend", entry)),
                        Some(Some((wit, ss))) => {
                            out.count(&format!("desc route produced a spend: {} / {:?}", entry, dd.desc.desc_type()));
                            if !done.insert((wit.clone(), ss.as_bytes().to_vec(), lt, sq)) { out.count(&format!("desc {}: same spend as already judged", entry)); continue; }
                            judge_spend(out, dd, tr, &ps, &wit, &ss, &format!("{} {} {}", entry.replace(' ', "_"), dd.name, pa.wire()));
                            n += 1;
                        }
                    }
                }
            }
        }
    }
    n
}

fn pk(i: u32) -> Node { Node::Check(Box::new(Node::PkK(i))) }
fn bx(n: Node) -> Box<Node> { Box::new(n) }

/// positive controls: the searches must find what is known to exist
fn controls(out: &mut Out) {
    let sha = |h: u32| Node::Hash(HK::Sha256, h);
    // (1) a tap tree with a signature-free leaf: spending through pk(201), the third party can
    //     switch to the hash leaf (NOT a sane descriptor; control only)
    let leaves = vec![pk(201), sha(0)];
    if let Some(dd) = dd_tr(5, &leaves) {
        // the caller does not know the preimage (the third party does)
        let pa = pa_of(&dd, u32::MAX, 0, 0, 0xffff_fffe, false);
        let ps = PSat::new(&dd, &pa, 0, 0xffff_fffe);
        if let Some(Some((wit, _ss))) = catch(|| dd.desc.get_satisfaction_mall(&ps).ok()) {
            let spk = hex(ps.prevout.script_pubkey.as_bytes());
            let chosen = if wit.len() >= 2 { Some((wit[wit.len() - 2].clone(), wit[wit.len() - 1].clone())) } else { None };
            let mut items: Vec<Vec<u8>> = wit[..wit.len().saturating_sub(2)].to_vec();
            items.extend(extras(&dd));
            for (script, cb) in tree_leaves(&tc(5, leaves.clone())) {
                if Some((script.clone(), cb.clone())) == chosen { continue; }
                let tail = vec![script, cb];
                desc::register_valid(out, &ps.tx, &ps.prevout, &ScriptBuf::new(), &tail, &candidates(&dd, &wit));
                out.line(&format!("C dadvfinds 0 4294967294 {} - {} {} | control sigless-leaf {}", spk, wit_wire(&tail), wit_wire(&items), dd.name), "found");
                out.count("desc control: other-leaf search must find the signature-free leaf");
            }
        }
    }
    // (2) the same leaf twice at different depths is covered by the corpus (judged, not control)
    // (3) wsh of a type-malleable script, malleable satisfier: the same-envelope search must
    //     find the other branch
    let mal = Node::AndV(bx(Node::Verify(bx(pk(0)))), bx(Node::OrI(bx(sha(0)), bx(sha(1)))));
    for w in [Wrap::Wsh, Wrap::ShWsh] {
        if let Some(dd) = dd_ms(w, &mal) {
            let pa = pa_of(&dd, u32::MAX, u32::MAX, 0, 0xffff_fffe, false);
            let ps = PSat::new(&dd, &pa, 0, 0xffff_fffe);
            if let Some(Some((wit, ss))) = catch(|| dd.desc.get_satisfaction_mall(&ps).ok()) {
                let mut visible = wit.clone(); visible.extend(pushed_items(&ss));
                desc::register_valid(out, &ps.tx, &ps.prevout, &ss, &wit, &candidates(&dd, &visible));
                out.line(&format!("C dadvalt 0 4294967294 {} {} {} {} | control malleable {}", hex(ps.prevout.script_pubkey.as_bytes()),
                    hex(ss.as_bytes()), wit_wire(&wit), wit_wire(&extras(&dd)), dd.name), "found");
                out.count("desc control: same-envelope search must find the other or_i branch");
            }
        }
    }
    // legacy P2SH without MINIMALIF: or_i is refused by the Legacy context, so use andor over
    // hashes: andor(sha(0),pk,pk) with only the second key: z32 can be replaced by other junk
    let mal2 = Node::AndOr(bx(sha(0)), bx(pk(0)), bx(pk(1)));
    if let Some(dd) = dd_ms(Wrap::Sh, &mal2) {
        let mut pa = pa_of(&dd, u32::MAX, u32::MAX, 0, 0xffff_fffe, false);
        pa.srcs.retain(|s| s.fp != kent(0).fp || s.path != kent(0).path);
        let ps = PSat::new(&dd, &pa, 0, 0xffff_fffe);
        if let Some(Some((wit, ss))) = catch(|| dd.desc.get_satisfaction_mall(&ps).ok()) {
            let visible = pushed_items(&ss);
            desc::register_valid(out, &ps.tx, &ps.prevout, &ss, &wit, &candidates(&dd, &visible));
            out.line(&format!("C dadvalt 0 4294967294 {} {} {} {} | control malleable-hash-dissat {}", hex(ps.prevout.script_pubkey.as_bytes()),
                hex(ss.as_bytes()), wit_wire(&wit), wit_wire(&extras(&dd)), dd.name), "found");
            out.count("desc control: P2SH scriptSig search must find another hash dissatisfaction");
        }
    }
}

/// scripts where the malleable satisfier would pick a different (cheaper, signed) branch than
/// the non-malleable one: a descriptor-level entry point that forgot the mode shows up here
fn mode_sensitive(tap: bool) -> Vec<Node> {
    let k = |i: u32| if tap { 200 + i } else { i };
    let sha = |h: u32| Node::Hash(HK::Sha256, h);
    let v = |n: Node| Node::Verify(bx(n));
    let inner = Node::AndV(bx(v(Node::Hash(HK::Hash256, 1))), bx(Node::Hash(HK::Ripemd160, 2)));
    let h3 = Node::AndV(bx(v(sha(0))), bx(inner));
    vec![
        Node::AndV(bx(v(pk(k(0)))), bx(Node::OrD(bx(pk(k(1))), bx(h3.clone())))),
        Node::AndV(bx(v(pk(k(0)))), bx(Node::AndOr(bx(pk(k(1))), bx(pk(k(2))), bx(h3.clone())))),
        Node::AndV(bx(v(pk(k(0)))), bx(Node::OrD(bx(if tap { Node::MultiA(2, vec![k(1), k(2), k(3)]) } else { Node::Multi(2, vec![k(1), k(2), k(3)]) }), bx(h3)))),
    ]
}

pub struct Pools<'a> {
    pub segwit: &'a [Node], pub legacy: &'a [Node], pub bare: &'a [Node], pub tap: &'a [Node],
    /// EVERY designated script of the context, sane today or not (the library decides per wrapper)
    pub des_segwit: &'a [Node], pub des_legacy: &'a [Node], pub des_bare: &'a [Node], pub des_tap: &'a [Node],
    /// the rule-by-rule part of `des_tap` (hand, dissatisfaction classes, repeated keys, refused today,
    /// type-malleable): also swept as the SECOND leaf of a two-leaf tree
    pub des_tap_rules: &'a [Node],
}

fn pick<'a>(pool: &'a [Node], n: usize, keep_first: usize, rng: &mut Rng) -> Vec<&'a Node> {
    let mut v: Vec<&Node> = pool.iter().take(keep_first).collect();
    let rest: Vec<&Node> = pool.iter().skip(keep_first).collect();
    if !rest.is_empty() { for _ in 0..n.saturating_sub(v.len()) { v.push(rest[rng.below(rest.len())]); } }
    v
}

fn tap_keys_of(n: &Node) -> Vec<u32> { let mut k = vec![]; n.keys(&mut k); k.into_iter().map(|x| x % 100).collect() }

pub fn run(out: &mut Out, thorough: bool, rng: &mut Rng, pools: &Pools, n_hand: usize) {
    let mut n_desc = 0u64;
    let mut n_spends = 0u64;
    let m = if thorough { 4 } else { 1 };
    let ms_corpus = mode_sensitive(false);
    // uncompressed keys under P2SH: one point in both encodings; a 65-byte key pushed by a pk_h
    // dissatisfaction; mixed encodings in a multisig
    let sh_corpus = vec![
        Node::OrD(bx(pk(100)), bx(pk(0))),
        Node::OrB(bx(Node::Check(bx(Node::PkH(100)))), bx(Node::Alt(bx(pk(1))))),
        Node::AndV(bx(Node::Verify(bx(pk(1)))), bx(Node::Check(bx(Node::PkH(102))))),
        Node::Multi(2, vec![100, 1, 102]),
    ];
    let bare_corpus = vec![pk(0), Node::Multi(1, vec![0, 1]), Node::Multi(2, vec![0, 1, 2]), Node::SortedMulti(2, vec![2, 1, 0])];
    for (wrap, pool, cnt) in [(Wrap::Wsh, pools.segwit, 80 * m), (Wrap::ShWsh, pools.segwit, 40 * m), (Wrap::Sh, pools.legacy, 50 * m), (Wrap::Bare, &bare_corpus[..], 4)] {
        let mut nodes: Vec<&Node> = if wrap == Wrap::Bare { vec![] } else { ms_corpus.iter().collect() };
        if wrap == Wrap::Sh { nodes.extend(sh_corpus.iter()); }
        nodes.extend(pick(pool, cnt, n_hand.min(cnt / 2), rng));
        for node in nodes {
            // Bare accepts only a few shapes; `dd_ms` returns None otherwise
            match dd_ms(wrap, node) {
                Some(dd) => { n_desc += 1; n_spends += one_desc(out, &dd, None, thorough, rng, Mode::Full); }
                None => out.count(&format!("desc not constructible: {:?}", wrap)),
            }
        }
    }
    for (wrap, key) in [(Wrap::Pkh, 0u32), (Wrap::Wpkh, 1), (Wrap::ShWpkh, 2)] {
        if let Some(dd) = dd_key(wrap, key) { n_desc += 1; n_spends += one_desc(out, &dd, None, thorough, rng, Mode::Full); }
    }
    // ---- taproot: 1..3 leaves with pairwise distinct keys between leaves, fresh internal key;
    //      plus the corpus of leaf-level special cases
    let mut tr_cases: Vec<TrCase> = vec![];
    let sha = |h: u32| Node::Hash(HK::Sha256, h);
    let v = |n: Node| Node::Verify(bx(n));
    // hand corpus: a cheaper signature-free alternative INSIDE a leaf, leaves sharing a key,
    // the same leaf at two depths (control blocks of different length), key-only
    tr_cases.push(tc(9, vec![]));
    tr_cases.push(tc(9, vec![pk(200)]));
    tr_cases.push(tc(9, vec![Node::AndV(bx(v(pk(200))), bx(Node::OrD(bx(pk(201)), bx(sha(0))))), pk(202)]));
    tr_cases.push(tc(9, vec![pk(200), Node::AndV(bx(v(pk(200))), bx(Node::Older(10)))]));
    tr_cases.push(tc(9, vec![Node::MultiA(2, vec![200, 201, 202]), Node::AndV(bx(v(pk(203))), bx(sha(1)))]));
    tr_cases.push(tc(0, vec![pk(200), pk(201)]));   // internal key also a leaf key
    for n in mode_sensitive(true) { tr_cases.push(tc(9, vec![n.clone()])); tr_cases.push(tc(9, vec![pk(205), n])); }
    tr_cases.push(tc(9, vec![pk(200), pk(201), pk(200)]));   // one leaf at two depths
    // deep / non-comb shapes; equal-size leaves (ties in the size comparison of `best_tap_spend`)
    let pks = |n: u32| (0..n).map(|i| pk(200 + i)).collect::<Vec<Node>>();
    tr_cases.push(TrCase { internal: 9, leaves: pks(4), shape: Some(Shape::balanced(0, 4)), desc_text: None });
    tr_cases.push(TrCase { internal: 9, leaves: pks(4), shape: Some(Shape::right(4)), desc_text: None });
    tr_cases.push(TrCase { internal: 9, leaves: pks(5), shape: Some(Shape::right(5)), desc_text: None });
    tr_cases.push(TrCase { internal: 9, leaves: pks(5), shape: Some(Shape::balanced(0, 5)), desc_text: None });
    tr_cases.push(TrCase { internal: 9, leaves: pks(5), shape: None, desc_text: None });
    {
        let l1 = Node::AndV(bx(v(pk(201))), bx(Node::Older(10)));
        let l2 = Node::AndV(bx(v(pk(202))), bx(sha(0)));
        let l3 = Node::MultiA(2, vec![203, 204, 205]);
        let l4inner = Node::AndV(bx(v(pk(207))), bx(Node::After(100)));
        let l4 = Node::OrD(bx(pk(206)), bx(l4inner));
        let right = Shape::B(Box::new(Shape::balanced(1, 3)), Box::new(Shape::balanced(3, 5)));
        tr_cases.push(TrCase { internal: 9, leaves: vec![pk(200), l1, l2, l3, l4],
            shape: Some(Shape::B(Box::new(Shape::L(0)), Box::new(right))), desc_text: None });
    }
    // ONE POINT, TWO FULL KEYS: 02X and 03X are different `Pk` values with the same x-only key
    {
        let k = kent(2).pk;
        let h = hex(&k.inner.serialize());
        let flipped = format!("{}{}", if &h[..2] == "02" { "03" } else { "02" }, &h[2..]);
        let ik = kent(9).def.to_string();
        tr_cases.push(TrCase { internal: 9, leaves: vec![Node::OrD(bx(pk(202)), bx(pk(202)))], shape: None,
            desc_text: Some(format!("tr({},or_d(pk({}),pk({})))", ik, h, flipped)) });
        tr_cases.push(TrCase { internal: 9, leaves: vec![pk(202), pk(202)], shape: None,
            desc_text: Some(format!("tr({},{{pk({}),pk({})}})", ik, h, flipped)) });
    }
    let n_rand = if thorough { 300 } else { 80 };
    if !pools.tap.is_empty() {
        for _ in 0..n_rand {
            let nl = 1 + rng.below(3);
            let mut leaves: Vec<Node> = vec![];
            let mut used: BTreeSet<u32> = BTreeSet::new();
            for _ in 0..nl {
                let cand = &pools.tap[rng.below(pools.tap.len())];
                let ks = tap_keys_of(cand);
                if ks.iter().any(|k| used.contains(k)) && rng.below(4) != 0 { continue; }
                used.extend(ks);
                leaves.push(cand.clone());
            }
            if leaves.is_empty() { continue; }
            let internal = match (0..10u32).rev().find(|k| !used.contains(k)) { Some(k) => k, None => continue };
            // every third random tree gets a non-comb shape
            let shape = match (leaves.len(), tr_cases.len() % 3) { (n, 1) if n >= 3 => Some(Shape::right(n)), (n, 2) if n >= 3 => Some(Shape::balanced(0, n)), _ => None };
            tr_cases.push(TrCase { internal, leaves, shape, desc_text: None });
        }
    }
    for tcase in &tr_cases {
        match build_tr(tcase) {
            Some(dd) => { n_desc += 1; n_spends += one_desc(out, &dd, Some(tcase), thorough, rng, Mode::Full); }
            None => out.count("desc not constructible: tr case"),
        }
    }
    // ---- ONE POINT, TWO DESCRIPTOR KEYS: the same single key with and without its origin are
    //      different `Pk` values (the repeated-key check compares `Pk`s); signatures come from the
    //      key-table entry (with origin) only, the other occurrence is satisfiable by the SAME
    //      signature
    {
        let k = kent(1);     // a single key WITH origin in the key table
        let plain = hex(&k.pk.inner.serialize());
        let other = kent(2).def.to_string();
        for text in [
            format!("wsh(or_d(pk({}),pk({})))", k.def, plain),
            format!("wsh(or_d(pk({}),and_v(v:pk({}),pk({}))))", plain, other, k.def),
            format!("sh(wsh(or_d(pk({}),pk({}))))", k.def, plain),
            format!("sh(or_d(pk({}),pk({})))", k.def, plain),
            format!("tr({},or_d(pk({}),pk({})))", kent(9).def, k.def, plain),
        ] {
            match catch(|| Descriptor::<DefiniteDescriptorKey>::from_str(&text).ok()).flatten() {
                Some(desc) => {
                    if std::env::var("C03_DEBUG").is_ok() { if let Descriptor::Wsh(w) = &desc { eprintln!("2pk {} -> {:?}", text, w.as_inner().validate(&Segwitv0::SANE)); } }
                    let tr = matches!(desc, Descriptor::Tr(_));
                    let leaves = if let Descriptor::Tr(t) = &desc {
                        t.leaves().map(|l| miniscript::bitcoin::taproot::TapLeafHash::from_script(&l.miniscript().encode(), miniscript::bitcoin::taproot::LeafVersion::TapScript)).collect()
                    } else { vec![] };
                    let mut keys = vec![1u32]; if text.contains(&other) { keys.push(2); } if tr { keys.push(9); }
                    let dd = DD { name: text.clone(), desc, keys, hashes: vec![], afters: vec![], olders: vec![], leaves,
                        internal: if tr { Some(9) } else { None }, leaf_keys: if tr { vec![vec![1]] } else { vec![] }, rawpkhs: vec![], sane: true };
                    let tcase = TrCase { internal: 9, leaves: vec![Node::OrD(bx(pk(201)), bx(pk(201)))], shape: None, desc_text: Some(text.clone()) };
                    n_desc += 1;
                    n_spends += one_desc(out, &dd, if tr { Some(&tcase) } else { None }, thorough, rng, Mode::Full);
                }
                None => { if std::env::var("C03_DEBUG").is_ok() { eprintln!("2pk refused {} {:?}", text, Descriptor::<DefiniteDescriptorKey>::from_str(&text).err()); } out.count("desc refused today: one point as two descriptor keys") }
            }
        }
    }
    // ---- R1 / R2: the WHOLE designated corpus of each context through every wrapper and every
    //      route (thin asset sets), sane today or not: `one_desc` asks the library
    for (wrap, des) in [(Wrap::Wsh, pools.des_segwit), (Wrap::ShWsh, pools.des_segwit), (Wrap::Sh, pools.des_legacy), (Wrap::Bare, pools.des_bare)] {
        for node in des {
            match dd_ms(wrap, node) {
                Some(dd) => { n_desc += 1; n_spends += one_desc(out, &dd, None, thorough, rng, Mode::Thin); }
                None => out.count(&format!("desc sweep, not constructible: {:?}", wrap)),
            }
        }
    }
    for node in pools.des_tap {
        let used = tap_keys_of(node);
        let internal = (0..10u32).rev().find(|k| !used.contains(k)).unwrap_or(9);
        let tcase = tc(internal, vec![node.clone()]);
        match build_tr(&tcase) {
            Some(dd) => { n_desc += 1; n_spends += one_desc(out, &dd, Some(&tcase), thorough, rng, Mode::Thin); }
            None => out.count("desc sweep, not constructible: tr leaf"),
        }
    }
    // a leaf that a sanity rule refuses today next to an ordinary leaf: the other-leaf search
    // (J dnoalt) is what a rule that lets it through must face
    for node in pools.des_tap_rules {
        let used = tap_keys_of(node);
        let (other, internal) = match ((0..10u32).find(|k| !used.contains(k)), (0..10u32).rev().find(|k| !used.contains(k))) {
            (Some(a), Some(b)) if a != b => (a, b), _ => continue,
        };
        let tcase = tc(internal, vec![pk(200 + other), node.clone()]);
        match build_tr(&tcase) {
            Some(dd) => { n_desc += 1; n_spends += one_desc(out, &dd, Some(&tcase), thorough, rng, Mode::Thin); }
            None => out.count("desc sweep, not constructible: tr two leaves"),
        }
    }
    controls(out);
    out.note("descriptors", n_desc.to_string());
    out.note("descriptor_spends_judged", n_spends.to_string());
}

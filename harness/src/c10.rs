//! C10 (string level): the descriptor checksum.
//!
//! * `C checksum` / `C verifycs`: the Lean model of `Engine` / `verify_checksum` must agree with
//!   the implementation (valid strings of every length 0..=600 over the full INPUT_CHARSET,
//!   BIP-380 vectors, corrupted strings, malformed checksum syntax).
//! * `J cscreate` / `J csprint`: the implementation's checksum is judged against the BIP-380
//!   reference transcription (Spec/Bch.lean) and must be accepted by the implementation.
//! * `J csdetect` / `J csdetectall` / `J csdetectagg` / `J csdetectd`: corrupted checksummed
//!   strings must be rejected (all single substitutions exhaustively; random double substitutions
//!   and <= 4 first-group substitutions).
use std::panic::{catch_unwind, AssertUnwindSafe};
use std::str::FromStr;

use miniscript::descriptor::checksum::{verify_checksum, Engine, Error as CsError};
use miniscript::expression::INPUT_CHARSET;
use miniscript::{Descriptor, DescriptorPublicKey};

use crate::common::{Out, Rng};

pub fn hex(s: &str) -> String {
    if s.is_empty() {
        return "-".into();
    }
    let mut h = String::with_capacity(s.len() * 2);
    for b in s.bytes() {
        h.push_str(&format!("{:02x}", b));
    }
    h
}

pub fn quiet_panics() {
    std::panic::set_hook(Box::new(|_| {}));
}

fn cs_err(e: &CsError) -> &'static str {
    match e {
        CsError::InvalidCharacter { .. } => "InvalidCharacter",
        CsError::InvalidChecksumLength { .. } => "InvalidChecksumLength",
        CsError::InvalidChecksum { .. } => "InvalidChecksum",
    }
}

/// `Engine::new().input(s)`, `checksum()`
pub fn impl_checksum(s: &str) -> String {
    let r = catch_unwind(AssertUnwindSafe(|| {
        let mut eng = Engine::new();
        match eng.input(s) {
            Ok(()) => eng.checksum(),
            Err(e) => format!("ERR:{}", cs_err(&e)),
        }
    }));
    r.unwrap_or_else(|_| "PANIC".into())
}

pub fn impl_verify(s: &str) -> String {
    let r = catch_unwind(AssertUnwindSafe(|| match verify_checksum(s) {
        Ok(body) => format!("ok:{}", body.len()),
        Err(e) => format!("ERR:{}", cs_err(&e)),
    }));
    r.unwrap_or_else(|_| "PANIC".into())
}

/// verdict of `verify_checksum` on a (corrupted) string
fn verdict_verify(s: &str) -> &'static str {
    match catch_unwind(AssertUnwindSafe(|| verify_checksum(s).is_ok())) {
        Ok(true) => "accepted",
        Ok(false) => "rejected",
        Err(_) => "PANIC",
    }
}

fn verdict_desc(s: &str) -> &'static str {
    match catch_unwind(AssertUnwindSafe(|| Descriptor::<DescriptorPublicKey>::from_str(s).is_ok())) {
        Ok(true) => "accepted",
        Ok(false) => "rejected",
        Err(_) => "PANIC",
    }
}

fn charset() -> Vec<char> { INPUT_CHARSET.chars().collect() }

/// random string over the full INPUT_CHARSET; `style` biases the group mix
fn rand_body(rng: &mut Rng, len: usize, style: usize) -> String {
    let cs = charset();
    let mut s = String::with_capacity(len);
    for _ in 0..len {
        let c = match style {
            0 => cs[rng.below(95)],                           // uniform over all three groups
            1 => cs[rng.below(32)],                           // first group only
            2 => cs[32 + rng.below(32)],                      // second group
            3 => cs[64 + rng.below(31)],                      // third group
            _ => {
                // descriptor-like mix: mostly base58/hex/punctuation, no '#'
                let c = cs[rng.below(95)];
                if c == '#' || c == ' ' || c == '"' || c == '\\' { cs[rng.below(32)] } else { c }
            }
        };
        s.push(c);
    }
    s
}

const XPUB1: &str = "xpub6ERApfZwUNrhLCkDtcHTcxd75RbzS1ed54G1LkBUHQVHQKqhMkhgbmJbZRkrgZw4koxb5JaHWkY4ALHY2grBGRjaDMzQLcgJvLJuZZvRcEL";
const XPUB2: &str = "xpub68NZiKmJWnxxS6aaHmn81bvJeTESw724CRDs6HbuccFQN9Ku14VQrADWgqbhhTHBaohPX4CjNLf9fq9MYo6oDaPPLPxSb7gwQN3ih19Zm4Y";
const K1: &str = "02c2fd50ceae468857bb7eb32ae9cd4083e6c7e42fbbec179d81134b3e3830586c";
const K2: &str = "0257f4a2816338436cccabc43aa724cf6e69e43e84c3c8a305212761389dd73a8a";
const K3: &str = "03cdabb7f2dce7bfbd8a0b9570c6fd1e712e5d64045e9d6b517b3d5072251dc204";
const X1: &str = "c2fd50ceae468857bb7eb32ae9cd4083e6c7e42fbbec179d81134b3e3830586c";
const X2: &str = "57f4a2816338436cccabc43aa724cf6e69e43e84c3c8a305212761389dd73a8a";

/// real descriptors (bodies without checksum)
fn descriptor_bodies() -> Vec<String> {
    vec![
        format!("pk({})", K1),
        format!("pkh({})", K2),
        format!("wpkh({})", K1),
        format!("sh(wpkh({}))", K3),
        format!("wsh(multi(2,{},{},{}))", K1, K2, K3),
        format!("sh(wsh(or_d(pk({}),and_v(v:pkh({}),older(144)))))", K1, K2),
        format!("wsh(thresh(2,pk({}),s:pk({}),sln:after(500000)))", K1, K3),
        format!("sh(multi(2,[00000000/111'/222]{},{}/0))", XPUB1, XPUB2),
        format!("wpkh([d34db33f/84h/0h/0h]{}/0/*)", XPUB1),
        format!("wsh(sortedmulti(1,{}/1/*,{}/<0;1>/*))", XPUB1, XPUB2),
        format!("tr({})", X1),
        format!("tr({},{{pk({}),and_v(v:pk({}),older(10))}})", X1, X2, X1),
        format!("tr({}/*,{{{{pk({}),pk({})}},multi_a(1,{},{})}})", XPUB1, X1, X2, X1, X2),
    ]
}

/// the test vectors of /repo/src/descriptor/checksum.rs (BIP-380 and Bitcoin Core)
const VECTORS: &[(&str, &str)] = &[
    ("wpkh(tprv8ZgxMBicQKsPdpkqS7Eair4YxjcuuvDPNYmKX3sCniCf16tHEVrjjiSXEkFRnUH77yXc6ZcwHHcLNfjdi5qUvw3VDfgYiH5mNsj5izuiu2N/1/2/*)", "tqz0nc62"),
    ("pkh(tpubD6NzVbkrYhZ4XHndKkuB8FifXm8r5FQHwrN6oZuWCz13qb93rtgKvD4PQsqC4HP4yhV3tA2fqr2RbY5mNXfM7RxXUoeABoDtsFUq2zJq6YK/44'/1'/0'/0/*)", "lasegmfs"),
    ("sh(multi(2,[00000000/111'/222]xprvA1RpRA33e1JQ7ifknakTFpgNXPmW2YvmhqLQYMmrj4xJXXWYpDPS3xz7iAxn8L39njGVyuoseXzU6rcxFLJ8HFsTjSyQbLYnMpCqE2VbFWc,xprv9uPDJpEQgRQfDcW7BkF7eTya6RPxXeJCqCJGHuCJ4GiRVLzkTXBAJMu2qaMWPrS7AANYqdq6vcBcBUdJCVVFceUvJFjaPdGZ2y9WACViL4L/0))", "ggrsrxfy"),
    ("sh(multi(2,[00000000/111'/222]xpub6ERApfZwUNrhLCkDtcHTcxd75RbzS1ed54G1LkBUHQVHQKqhMkhgbmJbZRkrgZw4koxb5JaHWkY4ALHY2grBGRjaDMzQLcgJvLJuZZvRcEL,xpub68NZiKmJWnxxS6aaHmn81bvJeTESw724CRDs6HbuccFQN9Ku14VQrADWgqbhhTHBaohPX4CjNLf9fq9MYo6oDaPPLPxSb7gwQN3ih19Zm4Y/0))", "tjg09x5t"),
    ("raw(deadbeef)", "89f8spxm"),
];

const BIP380_STRINGS: &[&str] = &[
    "raw(deadbeef)#89f8spxm",
    "raw(deadbeef)",
    "raw(deadbeef)#",
    "raw(deadbeef)#89f8spxmx",
    "raw(deadbeef)#89f8spx",
    "raw(dedbeef)#89f8spxm",
    "raw(deadbeef)##9f8spxm",
    "raw(Ü)#00000000",
];

fn emit_basic(out: &mut Out, body: &str) -> Option<String> {
    let cs = impl_checksum(body);
    out.line(&format!("C checksum {}", hex(body)), &cs);
    out.line(&format!("J cscreate {} {}", hex(body), cs), "ok");
    if cs.len() != 8 || cs.starts_with("ERR") {
        return None;
    }
    let printed = format!("{}#{}", body, cs);
    let v = impl_verify(&printed);
    out.line(&format!("C verifycs {}", hex(&printed)), &v);
    let verdict = if v.starts_with("ok:") { format!("accepted:{}", &v[3..]) } else { "rejected".to_string() };
    out.line(&format!("J csprint {} {} {}", hex(body), hex(&printed), verdict), "ok");
    Some(printed)
}

fn subst(s: &[char], edits: &[(usize, char)]) -> String {
    let mut v = s.to_vec();
    for &(p, c) in edits {
        v[p] = c;
    }
    v.into_iter().collect()
}

/// all single substitutions of `printed` (position x replacement character)
fn exhaustive_single(out: &mut Out, printed: &str, use_desc: bool, sample_every: usize) {
    let cs = charset();
    let chars: Vec<char> = printed.chars().collect();
    let (mut total, mut rejected, mut exempt) = (0u64, 0u64, 0u64);
    let op = if use_desc { "csdetectd" } else { "csdetect" };
    for p in 0..chars.len() {
        for &c in &cs {
            if c == chars[p] {
                continue;
            }
            let t = subst(&chars, &[(p, c)]);
            let v = if use_desc { verdict_desc(&t) } else { verdict_verify(&t) };
            total += 1;
            let is_exempt = !use_desc && !t.contains('#');
            if v == "rejected" {
                rejected += 1;
            } else if is_exempt {
                exempt += 1;
            }
            if (v != "rejected" && !is_exempt) || (total as usize) % sample_every == 0 {
                out.line(&format!("J {} 1 {} {} {}", op, hex(printed), hex(&t), v), "ok");
                if !use_desc && (total as usize) % sample_every == 0 {
                    out.line(&format!("C verifycs {}", hex(&t)), &impl_verify(&t));
                }
            }
        }
    }
    out.line(
        &format!("J csdetectall {} 1 {} {} {} {}", op, hex(printed), total, rejected, exempt),
        "ok",
    );
    out.count("single-substitutions-tried");
    *out.hist.entry("n single substitutions (exhaustive)".into()).or_insert(0) += total;
}

/// k random substitutions at distinct positions; `group0`: both old and new characters in the first group
fn random_subst(rng: &mut Rng, chars: &[char], k: usize, group0: bool) -> Option<String> {
    let cs = charset();
    let candidates: Vec<usize> = (0..chars.len())
        .filter(|&p| !group0 || cs[..32].contains(&chars[p]))
        .collect();
    if candidates.len() < k {
        return None;
    }
    let mut edits: Vec<(usize, char)> = vec![];
    while edits.len() < k {
        let p = candidates[rng.below(candidates.len())];
        if edits.iter().any(|e| e.0 == p) {
            continue;
        }
        let c = if group0 { cs[rng.below(32)] } else { cs[rng.below(95)] };
        if c == chars[p] {
            continue;
        }
        edits.push((p, c));
    }
    Some(subst(chars, &edits))
}

pub fn run_checksum(out: &mut Out, thorough: bool, rng: &mut Rng) {
    quiet_panics();
    // 1. vectors
    for (body, cs) in VECTORS {
        let got = impl_checksum(body);
        out.line(&format!("C checksum {}", hex(body)), &got);
        out.line(&format!("J cscreate {} {}", hex(body), got), "ok");
        if &got != cs {
            // the repo's own vector: report through the judge line above (spec disagrees too)
            out.count("vector-mismatch");
        }
        emit_basic(out, body);
    }
    for s in BIP380_STRINGS {
        out.line(&format!("C verifycs {}", hex(s)), &impl_verify(s));
    }

    // 2. valid strings of every length 0..=600, all groups
    let mut pool: Vec<String> = vec![];
    for len in 0..=600usize {
        let style = len % 5;
        let body = rand_body(rng, len, style);
        if let Some(p) = emit_basic(out, &body) {
            if len >= 1 && (len <= 40 || len % 7 == 0) {
                pool.push(p);
            }
        }
    }
    // the whole charset in order, and each character alone / repeated (class folding 1,2,3 chars)
    emit_basic(out, INPUT_CHARSET);
    for c in charset() {
        for rep in 1..=4 {
            let body: String = std::iter::repeat(c).take(rep).collect();
            emit_basic(out, &body);
        }
    }
    let descs: Vec<String> = descriptor_bodies();
    let mut desc_printed = vec![];
    for d in &descs {
        if let Some(p) = emit_basic(out, d) {
            let v = verdict_desc(&p);
            // a well-formed descriptor with the printed checksum must parse
            out.line(&format!("J descaccept {} {}", hex(&p), v), "ok");
            if v == "accepted" {
                desc_printed.push(p);
            } else {
                out.count("descriptor-body-not-parsed");
            }
        }
    }
    out.note("descriptors_used", format!("{}", desc_printed.len()));

    // 3. exhaustive single substitutions
    let n_single = if thorough { 200 } else { 50 };
    let mut singles: Vec<String> = vec![];
    for (body, _) in VECTORS.iter().take(if thorough { 5 } else { 2 }) {
        singles.push(format!("{}#{}", body, impl_checksum(body)));
    }
    // short strings of every length 1..=24 (all group-phase / partial-group combinations), then longer ones
    for len in 1..=24usize {
        singles.push({
            let b = rand_body(rng, len, 0);
            format!("{}#{}", b, impl_checksum(&b))
        });
    }
    while singles.len() < n_single {
        let len = 25 + rng.below(if thorough { 476 } else { 120 });
        let style = rng.below(5);
        let b = rand_body(rng, len, style);
        singles.push(format!("{}#{}", b, impl_checksum(&b)));
    }
    for s in &singles {
        exhaustive_single(out, s, false, if thorough { 211 } else { 53 });
    }
    for s in desc_printed.iter().take(if thorough { 14 } else { 6 }) {
        exhaustive_single(out, s, true, if thorough { 499 } else { 97 });
    }

    // 4. random double substitutions and <= 4 first-group substitutions
    let n_random: u64 = if thorough { 10_000_000 } else { 100_000 };
    let sample_every: u64 = if thorough { 500 } else { 5 };
    let mut origs: Vec<Vec<char>> = pool.iter().map(|s| s.chars().collect()).collect();
    for s in &desc_printed {
        origs.push(s.chars().collect());
    }
    for (body, cs) in VECTORS {
        origs.push(format!("{}#{}", body, cs).chars().collect());
    }
    if origs.is_empty() {
        // the implementation produced no usable checksum at all: already reported above
        origs.push("a#qqqqqqqq".chars().collect());
    }
    let per = n_random / (origs.len() as u64) + 1;
    let mut tried = [0u64; 5];
    for o in &origs {
        let os: String = o.iter().collect();
        let mut agg = [[0u64; 3]; 5]; // per k: tried, rejected, exempt
        for i in 0..per {
            let (k, group0) = match i % 4 {
                0 | 1 => (2usize, false),
                2 => (3 + (i as usize / 4) % 2, true),
                _ => (2, true),
            };
            let t = match random_subst(rng, o, k, group0) {
                Some(t) => t,
                None => continue,
            };
            let v = verdict_verify(&t);
            let is_exempt = !t.contains('#');
            agg[k][0] += 1;
            tried[k] += 1;
            if v == "rejected" {
                agg[k][1] += 1;
            } else if is_exempt {
                agg[k][2] += 1;
            }
            if (v != "rejected" && !is_exempt) || i % sample_every == 0 {
                out.line(&format!("J csdetect {} {} {} {}", k, hex(&os), hex(&t), v), "ok");
                if i % (sample_every * 4) == 0 {
                    out.line(&format!("C verifycs {}", hex(&t)), &impl_verify(&t));
                }
            }
        }
        for k in 2..=4 {
            if agg[k][0] > 0 {
                out.line(
                    &format!("J csdetectagg {} {} {} {} {}", k, hex(&os), agg[k][0], agg[k][1], agg[k][2]),
                    "ok",
                );
            }
        }
    }
    for k in 2..=4 {
        *out.hist.entry(format!("n random {}-substitutions", k)).or_insert(0) += tried[k];
    }
    // descriptor level (no exemption): random double substitutions of real descriptors
    let n_desc = if thorough { 300_000 } else { 6_000 };
    for i in 0..(if desc_printed.is_empty() { 0 } else { n_desc }) {
        let o: Vec<char> = desc_printed[rng.below(desc_printed.len())].chars().collect();
        let os: String = o.iter().collect();
        let (k, g) = if i % 3 == 2 { (4, true) } else { (2, false) };
        if let Some(t) = random_subst(rng, &o, k, g) {
            let v = verdict_desc(&t);
            if v != "rejected" || i % 10 == 0 {
                out.line(&format!("J csdetectd {} {} {} {}", k, hex(&os), hex(&t), v), "ok");
            }
            out.count("n random descriptor-level substitutions");
        }
    }

    // 5. malformed checksum syntax / characters
    let weird: Vec<String> = vec![
        "\u{0}", "\u{7f}", "\u{80}", "\u{dc}", "\u{1f496}", "\n", "\t", "\u{1f}", "\u{ff}", "\u{fffd}",
    ]
    .into_iter()
    .map(String::from)
    .collect();
    let n_mal = if thorough { 60_000 } else { 6_000 };
    for i in 0..n_mal {
        let base: Vec<char> = origs[rng.below(origs.len())].clone();
        let mut s: Vec<char> = base.clone();
        match i % 10 {
            0 => {
                // drop characters from the end (short / missing checksum)
                let k = 1 + rng.below(9.min(s.len()));
                s.truncate(s.len() - k);
            }
            1 => {
                // extend the checksum
                for _ in 0..1 + rng.below(3) {
                    s.push("qpzry9x8gf2tvdw0s3jn54khce6mua7l".chars().nth(rng.below(32)).unwrap());
                }
            }
            2 => {
                // extra '#'
                let p = rng.below(s.len() + 1);
                s.insert(p, '#');
            }
            3 => {
                // invalid character somewhere
                let p = rng.below(s.len() + 1);
                let w: Vec<char> = weird[rng.below(weird.len())].chars().collect();
                s.insert(p, w[0]);
            }
            4 => {
                // replace a character by an invalid one
                let p = rng.below(s.len());
                s[p] = weird[rng.below(weird.len())].chars().next().unwrap();
            }
            5 => {
                // delete one character anywhere
                let p = rng.below(s.len());
                s.remove(p);
            }
            6 => {
                // checksum only / hash only
                let n = s.len();
                s = s[n - 9.min(n)..].to_vec();
            }
            7 => {
                // swap two adjacent characters
                if s.len() >= 2 {
                    let p = rng.below(s.len() - 1);
                    s.swap(p, p + 1);
                }
            }
            8 => {
                // upper-case checksum
                let n = s.len();
                for c in s[n - 8.min(n)..].iter_mut() {
                    *c = c.to_ascii_uppercase();
                }
            }
            _ => {
                // duplicate the checksum part
                let n = s.len();
                let tail: Vec<char> = s[n - 9.min(n)..].to_vec();
                s.extend(tail);
            }
        }
        let t: String = s.into_iter().collect();
        out.line(&format!("C verifycs {}", hex(&t)), &impl_verify(&t));
        if i % 4 == 0 {
            out.line(&format!("C checksum {}", hex(&t)), &impl_checksum(&t));
        }
    }
    for s in ["", "#", "##", "#qqqqqqqq", "########", "#########", "a#", "a#b#cccccccc"] {
        out.line(&format!("C verifycs {}", hex(s)), &impl_verify(s));
        out.line(&format!("C checksum {}", hex(s)), &impl_checksum(s));
    }
    out.note(
        "domain",
        "checksum: every length 0..=600 over all 95 characters (all three groups), BIP-380 vectors, real descriptors; all single substitutions (position x 94 replacements) of the listed strings; random 2-substitutions and <=4 first-group substitutions; malformed checksum syntax; engine fed in chunks (every 2-split, random multi-splits: the Formatter route); Display of Descriptor and of each inner type (Bare/Pkh/Wpkh/Sh/Wsh/Tr) = {:#} + '#' + spec checksum; corrupted checksummed strings through EVERY parser that accepts a checksum (Tree, Descriptor<String|DescriptorPublicKey|DefiniteDescriptorKey>, parse_descriptor, Wsh/Wpkh/Sh/Pkh/Bare/Tr, Miniscript in 4 contexts incl. from_str_insane / validation params / from_tree, Concrete, Semantic, WalletPolicy): all single substitutions of two accepted templates per route + random 2..4 substitutions; RAW TEXT corpus (harness/src/rawtext.rs: short strings, checksum lengths 0..9, '#' at every position, nesting/arity +-1 around every limit, every character class at every position of 41 templates, name look-alikes, numbers around every boundary in every numeric position) through 24 parse+Display round-trip routes".into(),
    );
}

/// A SANE miniscript of tree height `h >= 2` that prints with nesting `h + 1`:
/// `and_v(v:pk(K0),and_v(v:older(1),…and_v(v:older(1),or_d(multi(1,K1),older(1)))…))`
/// (`multi_a` under Tap).  Every path needs K0's signature, no repeated keys, non-malleable,
/// one kind of timelock; the deepest leaf `older(1)` is a terminal WITH an argument, which is
/// what makes the printed nesting exceed the tree height by one.
fn deep_sane_ms(height: usize, tap: bool) -> String {
    let n = height - 2;
    let (k0, k1) = if tap { (X1, X2) } else { (K1, K2) };
    let mut s = format!("and_v(v:pk({}),", k0);
    for _ in 0..n {
        s.push_str("and_v(v:older(1),");
    }
    if tap {
        s.push_str(&format!("or_d(multi_a(1,{}),older(1))", k1));
    } else {
        s.push_str(&format!("or_d(multi(1,{}),older(1))", k1));
    }
    for _ in 0..n + 1 {
        s.push(')');
    }
    s
}

fn nesting_of(s: &str) -> usize {
    let (mut d, mut m) = (0usize, 0usize);
    for c in s.chars() {
        if c == '(' || c == '{' {
            d += 1;
            m = m.max(d);
        } else if c == ')' || c == '}' {
            d = d.saturating_sub(1);
        }
    }
    m
}

/// Descriptor-level round trip at the nesting limit of the expression parser.
///
/// `from_ast` accepts a Miniscript of tree height 402, which prints with nesting 403 — accepted by
/// the expression parser since /repo 4d088e26 (limit MAX_RECURSION_DEPTH + 1 = 403).  A
/// descriptor adds levels on top: `tr(K,` one, every level of the tap tree one more (`{`), so a
/// `tr()` descriptor the library constructs (Descriptor::new_tr, leaves validated) can print
/// with nesting 404 and more, which `Descriptor::from_str` then rejects
/// (MaxRecursionDepthExceeded).  Under Segwitv0/Legacy the 201-opcode limit (enforced by
/// Wsh::new / Sh::new since /repo f6816493) keeps nesting far below the limit: every nested
/// fragment costs at least one opcode, so `wsh(…)` never gets near it; the deepest constructible
/// ones are judged too.
///
/// line: `J descdepth <verdict> nesting=<printed nesting> <wrapper> taptree-depth=<t> leaf-height=<h> chars=<len>`
pub fn run_desc_depth(out: &mut Out) {
    use miniscript::descriptor::TapTree;
    use miniscript::{Miniscript, Segwitv0, Tap};
    type Pk = DescriptorPublicKey;
    quiet_panics();
    // (wrapper, tap-tree depth of the deep leaf, tree height of the deep leaf)
    let mut cases: Vec<(&str, usize, usize)> = vec![
        ("wsh", 0, 20), ("wsh", 0, 90), ("sh-wsh", 0, 20), ("sh-wsh", 0, 90),
        ("wsh", 0, 402), ("sh-wsh", 0, 402), // not constructible (op limit): counted, not judged
        ("tr", 0, 2), ("tr", 0, 100), ("tr", 0, 400), ("tr", 0, 401), ("tr", 0, 402),
    ];
    for t in [1usize, 2, 64, 127, 128] {
        cases.push(("tr", t, 400 - t)); // nesting 402
        cases.push(("tr", t, 401 - t)); // nesting 403: the deepest the parser accepts
        cases.push(("tr", t, 402 - t)); // nesting 404
    }
    cases.push(("tr", 128, 402)); // nesting 532
    for (wrapper, t, h) in cases {
        let built: Result<Result<String, String>, ()> = catch_unwind(AssertUnwindSafe(|| {
            let d: Result<Descriptor<Pk>, String> = match wrapper {
                "wsh" => Miniscript::<Pk, Segwitv0>::from_str(&deep_sane_ms(h, false))
                    .map_err(|e| format!("{:?}", e))
                    .and_then(|ms| Descriptor::new_wsh(ms).map_err(|e| format!("{:?}", e))),
                "sh-wsh" => Miniscript::<Pk, Segwitv0>::from_str(&deep_sane_ms(h, false))
                    .map_err(|e| format!("{:?}", e))
                    .and_then(|ms| Descriptor::new_sh_wsh(ms).map_err(|e| format!("{:?}", e))),
                _ => Miniscript::<Pk, Tap>::from_str(&deep_sane_ms(h, true)).map_err(|e| format!("{:?}", e)).and_then(|ms| {
                    let mut tree = TapTree::leaf(ms);
                    for _ in 0..t {
                        let side = Miniscript::<Pk, Tap>::from_str(&format!("pk({})", X2)).map_err(|e| format!("{:?}", e))?;
                        tree = TapTree::combine(tree, TapTree::leaf(side)).map_err(|e| format!("{:?}", e))?;
                    }
                    let k = Pk::from_str(X1).map_err(|e| format!("{:?}", e))?;
                    Descriptor::new_tr(k, Some(tree)).map_err(|e| format!("{:?}", e))
                }),
            };
            d.map(|d| d.to_string())
        }))
        .map_err(|_| ());
        match built {
            Err(()) => {
                out.line(&format!("J descdepth PANIC-in-construction nesting=0 {} taptree-depth={} leaf-height={} chars=0", wrapper, t, h), "ok");
            }
            Ok(Err(e)) => {
                // the library refuses to construct it: nothing to round-trip
                // `e` is the Debug form of the error: variant names are API, message wording is not
                let why = if e.contains("ImpossibleSatisfaction") || e.contains("MaxOpCountExceeded") { "op-limit" } else if e.contains("MaxRecursiveDepthExceeded") || e.contains("MaxRecursionDepthExceeded") { "depth" } else { "other" };
                out.count(&format!("descdepth {} taptree-depth={} leaf-height={} not-constructible:{}", wrapper, t, h, why));
            }
            Ok(Ok(printed)) => {
                let v = match catch_unwind(AssertUnwindSafe(|| Descriptor::<Pk>::from_str(&printed))) {
                    Ok(Ok(d2)) => {
                        if d2.to_string() == printed { "accepted".to_string() } else { "reprint-differs".to_string() }
                    }
                    Ok(Err(e)) => {
                        // classified by the variant name (Debug), not by the wording of the message
                        if format!("{:?}", e).contains("MaxRecursionDepthExceeded") {
                            "rejected:MaxRecursionDepthExceeded".to_string()
                        } else {
                            "rejected:other".to_string()
                        }
                    }
                    Err(_) => "PANIC".to_string(),
                };
                out.count(&format!("descdepth {} {}", wrapper, v));
                out.line(
                    &format!(
                        "J descdepth {} nesting={} {} taptree-depth={} leaf-height={} chars={}",
                        v, nesting_of(&printed), wrapper, t, h, printed.len()
                    ),
                    "ok",
                );
            }
        }
    }
}

/// R1/R4: the engine is fed in CHUNKS by `checksum::Formatter` (one `write_str` per Display
/// piece); its class accumulator lives across calls.  Every 2-split of short strings (all
/// residues mod 3 of both parts), random multi-splits of long ones.
pub fn run_chunked(out: &mut Out, rng: &mut Rng) {
    let chunked = |parts: &[&str]| -> String {
        catch_unwind(AssertUnwindSafe(|| {
            let mut eng = Engine::new();
            for p in parts {
                if let Err(e) = eng.input(p) {
                    return format!("ERR:{}", cs_err(&e));
                }
            }
            eng.checksum()
        }))
        .unwrap_or_else(|_| "PANIC".into())
    };
    let mut bodies: Vec<String> = vec!["".into(), "a".into(), "ab".into(), "abc".into(), "wpkh(A)".into(), INPUT_CHARSET.into()];
    bodies.extend(descriptor_bodies().into_iter().take(6));
    for b in &bodies {
        let chars: Vec<char> = b.chars().collect();
        let n = chars.len();
        let splits: Vec<usize> = if n <= 100 { (0..=n).collect() } else { (0..=n).step_by(7).chain(0..=6).chain(n - 6..=n).collect() };
        for k in splits {
            let (l, r): (String, String) = (chars[..k].iter().collect(), chars[k..].iter().collect());
            out.line(&format!("J cschunk {} {} {}", hex(b), k, chunked(&[&l, &r])), "ok");
        }
        for _ in 0..20 {
            // 3..6 pieces, empty pieces allowed
            let mut cuts: Vec<usize> = (0..2 + rng.below(4)).map(|_| rng.below(n + 1)).collect();
            cuts.sort();
            let mut parts: Vec<String> = vec![];
            let mut prev = 0;
            for c in cuts.iter().chain(std::iter::once(&n)) {
                parts.push(chars[prev..*c].iter().collect());
                prev = *c;
            }
            let refs: Vec<&str> = parts.iter().map(|x| x.as_str()).collect();
            let tag: Vec<String> = cuts.iter().map(|c| c.to_string()).collect();
            out.line(&format!("J cschunk {} {} {}", hex(b), tag.join(","), chunked(&refs)), "ok");
        }
    }
    // used engine: `checksum_chars` consumes the state (it feeds the pending class symbol and the
    // target residue into the SAME engine) - a second call answers something else.  Not a claim of
    // the property (the Formatter asks once): recorded as an observation.
    let twice = catch_unwind(AssertUnwindSafe(|| {
        let mut e = Engine::new();
        let _ = e.input("wpkh(A)");
        (e.checksum(), e.checksum())
    }));
    if let Ok((a, b)) = twice {
        if a != b {
            out.count("observation: Engine::checksum called twice on one engine gives two different strings");
            out.note("observation_engine_reuse", format!("wpkh(A): first {} second {}", a, b));
        }
    }
}

/// R1: the checksum a DISPLAY prints (route `checksum::Formatter`, chunked input) through
/// `Descriptor` and through each inner type: `{}` = `{:#}` + "#" + SPEC checksum of `{:#}`
pub fn run_display_routes(out: &mut Out) {
    type Pk = DescriptorPublicKey;
    for body in descriptor_bodies() {
        let r = catch_unwind(AssertUnwindSafe(|| -> Vec<(String, String, String)> {
            let mut v = vec![];
            let d = match Descriptor::<Pk>::from_str(&body) {
                Ok(d) => d,
                Err(_) => return v,
            };
            v.push(("Descriptor".to_string(), format!("{:#}", d), format!("{}", d)));
            match &d {
                Descriptor::Bare(x) => v.push(("Bare".into(), format!("{:#}", x), format!("{}", x))),
                Descriptor::Pkh(x) => v.push(("Pkh".into(), format!("{:#}", x), format!("{}", x))),
                Descriptor::Wpkh(x) => v.push(("Wpkh".into(), format!("{:#}", x), format!("{}", x))),
                Descriptor::Sh(x) => v.push(("Sh".into(), format!("{:#}", x), format!("{}", x))),
                Descriptor::Wsh(x) => v.push(("Wsh".into(), format!("{:#}", x), format!("{}", x))),
                Descriptor::Tr(x) => v.push(("Tr".into(), format!("{:#}", x), format!("{}", x))),
            }
            // Debug must not be mistaken for Display; `to_string` is Display
            v.push(("Descriptor::to_string".into(), format!("{:#}", d), d.to_string()));
            v
        }));
        match r {
            Err(_) => out.line(&format!("J csdisplay PANIC {} -", hex(&body)), "ok"),
            Ok(v) => {
                for (route, alt, disp) in v {
                    out.line(&format!("J csdisplay {} {} {}", route, hex(&alt), hex(&disp)), "ok");
                }
            }
        }
    }
}

/// R1: corrupted checksummed strings through EVERY parser that accepts a `#checksum`
/// (not only `verify_checksum` and `Descriptor<DescriptorPublicKey>`): all single substitutions of
/// one or two accepted templates per route + random double / in-group substitutions
pub fn run_detect_routes(out: &mut Out, rng: &mut Rng) {
    use crate::c11expr::rawtext;
    let cs = charset();
    let mut templates: Vec<String> = rawtext::short_templates().into_iter().filter(|t| !t.contains('#')).collect();
    // real-key templates for the routes over DescriptorPublicKey / DefiniteDescriptorKey
    templates.extend(rawtext::long_templates().into_iter().filter(|t| t.contains('(')));
    for (rname, f) in rawtext::routes() {
        if matches!(rname, "verify_checksum" | "checksum::Engine::input" | "parse_num" | "parse_num_nonzero" | "DescriptorPublicKey" | "DescriptorSecretKey" | "DefiniteDescriptorKey") {
            continue; // no checksum syntax (keys), or judged by csdetect already
        }
        let tag = rname.replace(' ', "");
        let mut used = 0;
        for t in &templates {
            if used >= 2 { break; }
            let c = impl_checksum(t);
            if c.len() != 8 || !c.is_ascii() { continue; }
            let printed = format!("{}#{}", t, c);
            if rawtext::guarded(|| f(&printed)) != Some(true) { continue; }
            used += 1;
            let chars: Vec<char> = printed.chars().collect();
            let (mut total, mut rejected) = (0u64, 0u64);
            // long (real-key) templates: structural positions, the checksum part and every 4th other position
            let long = chars.len() > 60;
            for p in 0..chars.len() {
                if long && !(p % 4 == 0 || p + 10 >= chars.len() || "()[]{},/<>;:'*#".contains(chars[p])) { continue; }
                for &ch in &cs {
                    if ch == chars[p] { continue; }
                    let t2 = subst(&chars, &[(p, ch)]);
                    let v = match rawtext::guarded(|| f(&t2)) { None => "PANIC", Some(true) => "accepted", Some(false) => "rejected" };
                    total += 1;
                    if v == "rejected" { rejected += 1; } else {
                        out.line(&format!("J csdetectr {} 1 {} {} {}", tag, hex(&printed), hex(&t2), v), "ok");
                    }
                }
            }
            if long {
                out.line(&format!("J csdetectagg 1 {} {} {} 0", hex(&printed), total, rejected), "ok");
            } else {
                out.line(&format!("J csdetectrall {} 1 {} {} {}", tag, hex(&printed), total, rejected), "ok");
            }
            let (mut tried, mut rej) = ([0u64; 5], [0u64; 5]);
            for i in 0..600u64 {
                let (k, g0) = match i % 4 { 0 | 1 => (2usize, false), 2 => (3 + (i as usize / 4) % 2, true), _ => (2, true) };
                if let Some(t2) = random_subst(rng, &chars, k, g0) {
                    let v = match rawtext::guarded(|| f(&t2)) { None => "PANIC", Some(true) => "accepted", Some(false) => "rejected" };
                    tried[k] += 1;
                    if v == "rejected" { rej[k] += 1; } else {
                        out.line(&format!("J csdetectr {} {} {} {} {}", tag, k, hex(&printed), hex(&t2), v), "ok");
                    }
                }
            }
            for k in 2..=4 {
                if tried[k] > 0 {
                    out.line(&format!("J csdetectagg {} {} {} {} 0", k, hex(&printed), tried[k], rej[k]), "ok");
                }
            }
        }
        out.note(&format!("csdetectr_templates {}", tag), used.to_string());
        if used == 0 { out.count(&format!("csdetectr route without accepted template {}", tag)); }
    }
}

/// R1/R3 for the round-trip claim: every string of the raw corpus that a parser ACCEPTS yields an
/// object; `parse(Display(x)) == x` and Display is a fixed point - through every text type
pub fn run_raw_roundtrip(out: &mut Out) {
    use crate::c11expr::rawtext;
    let corpus = rawtext::raw_corpus();
    for (rname, f) in rawtext::rt_routes() {
        let tag = rname.replace(' ', "");
        let mut agg: std::collections::BTreeMap<&str, (u64, u64)> = Default::default();
        for (class, s) in &corpus {
            let r = rawtext::guarded(|| f(s));
            let v = match r { None => Some("PANIC"), Some(x) => x };
            if let Some(v) = v {
                let e = agg.entry(class).or_insert((0, 0));
                e.0 += 1;
                if v != "ok" {
                    e.1 += 1;
                    out.line(&format!("J rawrt {} {} {}", tag, hex(s), v), "ok");
                } else if e.0 % 211 == 0 {
                    out.line(&format!("J rawrt {} {} ok", tag, hex(s)), "ok");
                }
            }
        }
        for (class, (n, nbad)) in agg {
            out.line(&format!("J rawrtagg {} {} {} {}", class, tag, n, nbad), "ok");
        }
    }
}

pub fn run(out: &mut Out, thorough: bool, seed: u64) {
    let mut rng = Rng(seed ^ 0xC10);
    let t0 = std::time::Instant::now();
    run_checksum(out, thorough, &mut rng);
    let t1 = t0.elapsed().as_millis();
    run_chunked(out, &mut rng);
    run_display_routes(out);
    let t2 = t0.elapsed().as_millis();
    run_detect_routes(out, &mut rng);
    let t3 = t0.elapsed().as_millis();
    run_raw_roundtrip(out);
    let t4 = t0.elapsed().as_millis();
    run_desc_depth(out);
    out.note("ms_checksum_chunk_detectroutes_rawrt", format!("{} {} {} {}", t1, t2 - t1, t3 - t2, t4 - t3));
    crate::c10b::run_roundtrip(out, thorough, &mut rng);
}

//! C10 (AST level): text round trips of miniscripts, descriptors, keys, policies, wallet policies.
//!
//!   J rt <kind> <hex s> <token>        s = x.to_string(); y = parse(s); token = pass iff y == x (library
//!                                      equality) AND the neutral structure of y equals that of x (own
//!                                      conversion, not the library's `==`) AND y.to_string() == s AND (real
//!                                      keys) script(y) == script(x); otherwise `fail:<what>` / `PANIC`
//!   J alias <ctx> <hex a> <hex b> <token>   two spellings (sugar / expanded) must denote the same AST
//!   C mstree <ctx> <ast>               Display of the fragment with atoms printed as ids  (model: Model/Display.lean)
//!   C msparse <ctx> <hex s>            `Tree::from_str` + `FromTree for Miniscript` over id atoms → wire AST | ERR
//!   J nopanic <op> <hex> <verdict>     malformed stream: every parser returns, never panics
use std::collections::BTreeMap;
use std::panic::{catch_unwind, AssertUnwindSafe};
use std::str::FromStr;
use std::sync::Arc;

use miniscript::bitcoin::hashes::{hash160, ripemd160, sha256, Hash};
use miniscript::bitcoin::secp256k1::XOnlyPublicKey;
use miniscript::bitcoin::PublicKey;
use miniscript::expression::{self, FromTree};
use miniscript::{
    hash256, BareCtx, Legacy, Miniscript, MiniscriptKey, ScriptContext, Segwitv0, Tap, Terminal,
    Translator, ValidationParams,
};

use crate::ast::{self, CtxK, KeyOf, Node, HK};
use crate::c10::hex;
use crate::common::{Out, Rng};
use crate::msops;

#[path = "c10b_gap.rs"]
mod gap;

/* ------------------------------------------------------------ neutral structure of a real Miniscript */

/// atoms of a key type mapped back to the ids of the neutral AST
pub trait Atom: MiniscriptKey {
    fn kid(k: &Self) -> Option<u32>;
    fn sha(h: &Self::Sha256) -> Option<u32>;
    fn h256(h: &Self::Hash256) -> Option<u32>;
    fn rip(h: &Self::Ripemd160) -> Option<u32>;
    fn h160(h: &Self::Hash160) -> Option<u32>;
}
impl Atom for PublicKey {
    fn kid(k: &Self) -> Option<u32> { msops::key_id_full(k) }
    fn sha(h: &sha256::Hash) -> Option<u32> { msops::hash_id(HK::Sha256, h.as_byte_array()) }
    fn h256(h: &hash256::Hash) -> Option<u32> { msops::hash_id(HK::Hash256, h.as_byte_array()) }
    fn rip(h: &ripemd160::Hash) -> Option<u32> { msops::hash_id(HK::Ripemd160, h.as_byte_array()) }
    fn h160(h: &hash160::Hash) -> Option<u32> { msops::hash_id(HK::Hash160, h.as_byte_array()) }
}
impl Atom for XOnlyPublicKey {
    fn kid(k: &Self) -> Option<u32> { msops::key_id_x(k) }
    fn sha(h: &sha256::Hash) -> Option<u32> { msops::hash_id(HK::Sha256, h.as_byte_array()) }
    fn h256(h: &hash256::Hash) -> Option<u32> { msops::hash_id(HK::Hash256, h.as_byte_array()) }
    fn rip(h: &ripemd160::Hash) -> Option<u32> { msops::hash_id(HK::Ripemd160, h.as_byte_array()) }
    fn h160(h: &hash160::Hash) -> Option<u32> { msops::hash_id(HK::Hash160, h.as_byte_array()) }
}
/// canonical decimal (what `parse_num` accepts): "0" or [1-9][0-9]* within u32
pub fn canon_u32(s: &str) -> Option<u32> {
    let n: u32 = s.parse().ok()?;
    if n.to_string() == s { Some(n) } else { None }
}
impl Atom for String {
    fn kid(k: &Self) -> Option<u32> { canon_u32(k) }
    fn sha(h: &String) -> Option<u32> { canon_u32(h) }
    fn h256(h: &String) -> Option<u32> { canon_u32(h) }
    fn rip(h: &String) -> Option<u32> { canon_u32(h) }
    fn h160(h: &String) -> Option<u32> { canon_u32(h) }
}

/// real `Terminal` tree → neutral `Node` (every variant spelled out; no use of the library's
/// `==`, `Display` or iterators)
pub fn from_ms<Pk: Atom, Ctx: ScriptContext>(ms: &Miniscript<Pk, Ctx>) -> Option<Node> {
    let b = |x: &Arc<Miniscript<Pk, Ctx>>| -> Option<Box<Node>> { Some(Box::new(from_ms(x)?)) };
    Some(match ms.as_inner() {
        Terminal::True => Node::True,
        Terminal::False => Node::False,
        Terminal::PkK(k) => Node::PkK(Pk::kid(k)?),
        Terminal::PkH(k) => Node::PkH(Pk::kid(k)?),
        Terminal::RawPkH(h) => Node::RawPkH(raw_id(h)?),
        Terminal::After(t) => Node::After(t.to_consensus_u32()),
        Terminal::Older(t) => Node::Older(t.to_consensus_u32()),
        Terminal::Sha256(h) => Node::Hash(HK::Sha256, Pk::sha(h)?),
        Terminal::Hash256(h) => Node::Hash(HK::Hash256, Pk::h256(h)?),
        Terminal::Ripemd160(h) => Node::Hash(HK::Ripemd160, Pk::rip(h)?),
        Terminal::Hash160(h) => Node::Hash(HK::Hash160, Pk::h160(h)?),
        Terminal::Alt(x) => Node::Alt(b(x)?),
        Terminal::Swap(x) => Node::Swap(b(x)?),
        Terminal::Check(x) => Node::Check(b(x)?),
        Terminal::DupIf(x) => Node::DupIf(b(x)?),
        Terminal::Verify(x) => Node::Verify(b(x)?),
        Terminal::NonZero(x) => Node::NonZero(b(x)?),
        Terminal::ZeroNotEqual(x) => Node::ZeroNotEqual(b(x)?),
        Terminal::AndV(x, y) => Node::AndV(b(x)?, b(y)?),
        Terminal::AndB(x, y) => Node::AndB(b(x)?, b(y)?),
        Terminal::AndOr(x, y, z) => Node::AndOr(b(x)?, b(y)?, b(z)?),
        Terminal::OrB(x, y) => Node::OrB(b(x)?, b(y)?),
        Terminal::OrD(x, y) => Node::OrD(b(x)?, b(y)?),
        Terminal::OrC(x, y) => Node::OrC(b(x)?, b(y)?),
        Terminal::OrI(x, y) => Node::OrI(b(x)?, b(y)?),
        Terminal::Thresh(t) => {
            let mut v = vec![];
            for x in t.iter() { v.push(from_ms(x)?); }
            Node::Thresh(t.k(), v)
        }
        Terminal::Multi(t) => Node::Multi(t.k(), t.iter().map(Pk::kid).collect::<Option<Vec<_>>>()?),
        Terminal::SortedMulti(t) => Node::SortedMulti(t.k(), t.iter().map(Pk::kid).collect::<Option<Vec<_>>>()?),
        Terminal::MultiA(t) => Node::MultiA(t.k(), t.iter().map(Pk::kid).collect::<Option<Vec<_>>>()?),
        Terminal::SortedMultiA(t) => Node::SortedMultiA(t.k(), t.iter().map(Pk::kid).collect::<Option<Vec<_>>>()?),
    })
}

/// real keys / hashes → decimal id strings
pub(crate) struct ToIds;
impl<P: Atom> Translator<P> for ToIds {
    type TargetPk = String;
    type Error = ();
    fn pk(&mut self, pk: &P) -> Result<String, ()> { P::kid(pk).map(|i| i.to_string()).ok_or(()) }
    fn sha256(&mut self, h: &P::Sha256) -> Result<String, ()> { P::sha(h).map(|i| i.to_string()).ok_or(()) }
    fn hash256(&mut self, h: &P::Hash256) -> Result<String, ()> { P::h256(h).map(|i| i.to_string()).ok_or(()) }
    fn ripemd160(&mut self, h: &P::Ripemd160) -> Result<String, ()> { P::rip(h).map(|i| i.to_string()).ok_or(()) }
    fn hash160(&mut self, h: &P::Hash160) -> Result<String, ()> { P::h160(h).map(|i| i.to_string()).ok_or(()) }
}

thread_local! {
    /// synthetic raw key hashes for ids outside the atom table (malformed stream)
    static RAWMAP: std::cell::RefCell<std::collections::HashMap<hash160::Hash, u32>> = std::cell::RefCell::new(Default::default());
}
fn synth_raw(id: u32) -> hash160::Hash {
    let h = hash160::Hash::hash(format!("synthetic-raw-pkh-{}", id).as_bytes());
    RAWMAP.with(|m| m.borrow_mut().insert(h, id));
    h
}
fn raw_id(h: &hash160::Hash) -> Option<u32> {
    msops::rawpkh_id(h).or_else(|| RAWMAP.with(|m| m.borrow().get(h).cloned()))
}

/// raw-pkh atoms: 40-hex hash ↔ decimal id inside a miniscript string
pub(crate) fn rawpkh_hex_to_ids(s: &str) -> String {
    let mut r = s.to_string();
    for id in (0..10).chain(100..104).chain(200..210) {
        let h = ast::raw_pkh(id).to_string();
        if r.contains(&h) { r = r.replace(&h, &id.to_string()); }
    }
    r
}
fn rawpkh_ids_to_hex(s: &str) -> String {
    let mut out = String::new();
    let mut rest = s;
    loop {
        let p = ["expr_raw_pkh(", "expr_raw_pk_h("].iter().filter_map(|pat| rest.find(pat).map(|i| (i, pat.len()))).min();
        match p {
            None => { out.push_str(rest); return out; }
            Some((i, l)) => {
                out.push_str(&rest[..i + l]);
                rest = &rest[i + l..];
                let end = rest.find(|c: char| !c.is_ascii_digit()).unwrap_or(rest.len());
                match canon_u32(&rest[..end]) {
                    Some(id) if rest[end..].starts_with(')') => {
                        if id < 10 || (100..104).contains(&id) || (200..210).contains(&id) { out.push_str(&ast::raw_pkh(id).to_string()); }
                        else { out.push_str(&synth_raw(id).to_string()); }
                    }
                    _ => out.push_str(&rest[..end]),
                }
                rest = &rest[end..];
            }
        }
    }
}

fn guard<F: FnOnce() -> String>(f: F) -> String {
    catch_unwind(AssertUnwindSafe(f)).unwrap_or_else(|_| "PANIC".into())
}

/* ------------------------------------------------------------ C mstree / C msparse */

fn id_string<Pk: KeyOf + Atom, Ctx: ScriptContext>(n: &Node) -> String {
    guard(|| {
        let ms = match ast::to_ms::<Pk, Ctx>(n) { Ok(m) => m, Err(_) => return "ERR".into() };
        let t: Miniscript<String, Ctx> = match ms.translate_pk(&mut ToIds) { Ok(t) => t, Err(_) => return "ERR".into() };
        rawpkh_hex_to_ids(&t.to_string())
    })
}

fn msparse_ids<Ctx: ScriptContext>(s: &str) -> String {
    let s = rawpkh_ids_to_hex(s);
    guard(|| {
        let top = match expression::Tree::from_str(&s) { Ok(t) => t, Err(_) => return "ERR".into() };
        match Miniscript::<String, Ctx>::from_tree(top.root()) {
            Ok(ms) => from_ms(&ms).map(|n| n.wire()).unwrap_or_else(|| "ERR".into()),
            Err(_) => "ERR".into(),
        }
    })
}
fn msparse_ctx(ctx: CtxK, s: &str) -> String {
    match ctx {
        CtxK::Bare => msparse_ids::<BareCtx>(s),
        CtxK::Legacy => msparse_ids::<Legacy>(s),
        CtxK::Segwitv0 => msparse_ids::<Segwitv0>(s),
        CtxK::Tap => msparse_ids::<Tap>(s),
    }
}

/* ------------------------------------------------------------ J rt ms */

macro_rules! rt_ms_impl {
    ($name:ident, $pk:ty, $ctx:ty) => {
        fn $name(n: &Node) -> Option<(String, String)> {
            let ms = ast::to_ms::<$pk, $ctx>(n).ok()?;
            let s = ms.to_string();
            let tok = guard(|| {
                let y = match Miniscript::<$pk, $ctx>::from_str_with_validation_params(&s, &ValidationParams::MAX) {
                    Ok(y) => y,
                    Err(e) => return format!("fail:parse-err:{}", err_class(&e.to_string())),
                };
                match from_ms(&y) {
                    Some(m) if m == *n => {}
                    Some(_) => return "fail:ast-differs".into(),
                    None => return "fail:unknown-atom".into(),
                }
                if y != ms { return "fail:lib-eq".into(); }
                if y.to_string() != s { return "fail:not-fixed-point".into(); }
                if y.encode() != ms.encode() { return "fail:script-differs".into(); }
                if y.ty != ms.ty || y.ext != ms.ext { return "fail:type-or-ext-differs".into(); }
                "pass".into()
            });
            Some((s, tok))
        }
    };
}
rt_ms_impl!(rt_ms_bare, PublicKey, BareCtx);
rt_ms_impl!(rt_ms_legacy, PublicKey, Legacy);
rt_ms_impl!(rt_ms_segwit, PublicKey, Segwitv0);
rt_ms_impl!(rt_ms_tap, XOnlyPublicKey, Tap);

/// short error class (first words, no spaces) for tokens
fn err_class(e: &str) -> String {
    let w: Vec<&str> = e.split(|c: char| !c.is_ascii_alphanumeric()).filter(|w| !w.is_empty()).take(4).collect();
    w.join("-")
}

fn emit_rt_ms(out: &mut Out, ctx: CtxK, n: &Node) {
    let r = match ctx {
        CtxK::Bare => rt_ms_bare(n),
        CtxK::Legacy => rt_ms_legacy(n),
        CtxK::Segwitv0 => rt_ms_segwit(n),
        CtxK::Tap => rt_ms_tap(n),
    };
    match r {
        Some((s, tok)) => {
            out.count(&format!("rt ms-{} {}", ctx.name(), if tok == "pass" { "pass" } else { tok.as_str() }));
            out.line(&format!("J rt ms-{} {} {}", ctx.name(), hex(&s), tok), "ok");
        }
        None => out.count(&format!("rt ms-{} not-constructible", ctx.name())),
    }
}

fn text_forms<Pk: KeyOf + Atom, Ctx: ScriptContext>(n: &Node) -> Option<(String, String, String, String, String)> {
    catch_unwind(AssertUnwindSafe(|| {
        let ms = ast::to_ms::<Pk, Ctx>(n).ok()?;
        let t: Miniscript<String, Ctx> = ms.translate_pk(&mut ToIds).ok()?;
        let f = |s: String| rawpkh_hex_to_ids(&s);
        Some((f(t.to_string()), f(t.as_inner().to_string()), f(format!("{:?}", t).replace("0x", "")), f(format!("{:?}", t.as_inner()).replace("0x", "")),
              { let a = f(format!("{:#}", t)); let ta = f(format!("{:#}", t.as_inner())); if ta == a { a } else { format!("{}|Terminal:{}", a, ta) } }))
    })).unwrap_or(None)
}

fn emit_tree_ops(out: &mut Out, ctx: CtxK, n: &Node) {
    let ids = match ctx {
        CtxK::Bare => id_string::<PublicKey, BareCtx>(n),
        CtxK::Legacy => id_string::<PublicKey, Legacy>(n),
        CtxK::Segwitv0 => id_string::<PublicKey, Segwitv0>(n),
        CtxK::Tap => id_string::<XOnlyPublicKey, Tap>(n),
    };
    if ids == "ERR" { return; }
    // the other text forms of the same object: Display / Debug of the Miniscript and of its Terminal
    let forms = match ctx {
        CtxK::Bare => text_forms::<PublicKey, BareCtx>(n),
        CtxK::Legacy => text_forms::<PublicKey, Legacy>(n),
        CtxK::Segwitv0 => text_forms::<PublicKey, Segwitv0>(n),
        CtxK::Tap => text_forms::<XOnlyPublicKey, Tap>(n),
    };
    if let Some((d, t, g, tg, alt)) = forms {
        out.line(&format!("J textforms {} {} {} {} {}", ctx.name(), hex(&d), hex(&t), hex(&g), hex(&tg)), "ok");
        // `{:#}` of a miniscript is not a documented text form; it differs from Display where a lock time occurs
        // `{:#}` is the same text (fixed in c7695b28: a lock time printed as `block-height N`)
        // a HASH still prints as `0x…` under `{:#}` (rust-bitcoin's alternate hex form), which no parser reads: judged on
        // designated probes (run_alt_probes); every other object containing a raw key hash is only counted here
        if d.contains("expr_raw") { out.count("alttext raw-key-hash object (hash prints as 0x… under {:#}; see the probes)"); }
        else { out.line(&format!("J alttext ms-{} {} {}", ctx.name(), hex(&d), hex(&alt)), "ok"); }
    }
    out.line(&format!("C mstree {} {}", ctx.name(), n.wire()), &ids);
    out.line(&format!("C msparse {} {}", ctx.name(), hex(&ids)), &msparse_ctx(ctx, &ids));
}

/* ------------------------------------------------------------ spellings */

/// the fragment written WITHOUT any sugar (`c:pk_k`, `and_v(X,1)`, `or_i(0,X)`, `andor(X,Y,0)`);
/// wrappers a,s,c,d,v,j,n are merged into one prefix because `a:s:X` is not legal syntax
fn expanded(n: &Node, key: &dyn Fn(u32) -> String, hash: &dyn Fn(HK, u32) -> String) -> String {
    use Node::*;
    let e = |x: &Node| expanded(x, key, hash);
    let ks = |v: &[u32]| v.iter().map(|k| key(*k)).collect::<Vec<_>>().join(",");
    let wrap = |c: char, x: &Node| -> String {
        let inner = e(x);
        // merge with an existing wrapper prefix of the child
        let is_wrapped = matches!(x, Alt(_) | Swap(_) | Check(_) | DupIf(_) | Verify(_) | NonZero(_) | ZeroNotEqual(_));
        if is_wrapped { format!("{}{}", c, inner) } else { format!("{}:{}", c, inner) }
    };
    match self_ref(n) {
        True => "1".into(), False => "0".into(),
        PkK(k) => format!("pk_k({})", key(*k)), PkH(k) => format!("pk_h({})", key(*k)),
        RawPkH(h) => format!("expr_raw_pkh({})", ast::raw_pkh(*h)),
        After(t) => format!("after({})", t), Older(t) => format!("older({})", t),
        Hash(kind, h) => format!("{}({})", kind.name(), hash(*kind, *h)),
        Alt(x) => wrap('a', x), Swap(x) => wrap('s', x), Check(x) => wrap('c', x), DupIf(x) => wrap('d', x),
        Verify(x) => wrap('v', x), NonZero(x) => wrap('j', x), ZeroNotEqual(x) => wrap('n', x),
        AndV(a, b) => format!("and_v({},{})", e(a), e(b)),
        AndB(a, b) => format!("and_b({},{})", e(a), e(b)),
        AndOr(a, b, c) => format!("andor({},{},{})", e(a), e(b), e(c)),
        OrB(a, b) => format!("or_b({},{})", e(a), e(b)),
        OrD(a, b) => format!("or_d({},{})", e(a), e(b)),
        OrC(a, b) => format!("or_c({},{})", e(a), e(b)),
        OrI(a, b) => format!("or_i({},{})", e(a), e(b)),
        Thresh(k, xs) => format!("thresh({},{})", k, xs.iter().map(|x| e(x)).collect::<Vec<_>>().join(",")),
        Multi(k, v) => format!("multi({},{})", k, ks(v)),
        SortedMulti(k, v) => format!("sortedmulti({},{})", k, ks(v)),
        MultiA(k, v) => format!("multi_a({},{})", k, ks(v)),
        SortedMultiA(k, v) => format!("sortedmulti_a({},{})", k, ks(v)),
    }
}
fn self_ref(n: &Node) -> &Node { n }

fn real_key(ctx: CtxK) -> impl Fn(u32) -> String {
    move |k| if ctx == CtxK::Tap { ast::xonly_key(k).to_string() } else { ast::full_key(k).to_string() }
}
pub(crate) fn real_hash(kind: HK, h: u32) -> String {
    let v = ast::hash_value(kind, h);
    if kind == HK::Hash256 {
        // hash256 displays forwards
        hash256::Hash::from_slice(&v).unwrap().to_string()
    } else {
        let mut s = String::new();
        for b in &v { s.push_str(&format!("{:02x}", b)); }
        s
    }
}

fn parse_to_node<Pk: Atom + miniscript::FromStrKey, Ctx: ScriptContext>(s: &str) -> Result<Node, String> {
    let r = catch_unwind(AssertUnwindSafe(|| {
        Miniscript::<Pk, Ctx>::from_str_with_validation_params(s, &ValidationParams::MAX)
            .map_err(|e| format!("err:{}", err_class(&e.to_string())))
            .and_then(|m| from_ms(&m).ok_or_else(|| "err:unknown-atom".to_string()))
    }));
    r.unwrap_or_else(|_| Err("PANIC".into()))
}
fn parse_to_node_ctx(ctx: CtxK, s: &str) -> Result<Node, String> {
    match ctx {
        CtxK::Bare => parse_to_node::<PublicKey, BareCtx>(s),
        CtxK::Legacy => parse_to_node::<PublicKey, Legacy>(s),
        CtxK::Segwitv0 => parse_to_node::<PublicKey, Segwitv0>(s),
        CtxK::Tap => parse_to_node::<XOnlyPublicKey, Tap>(s),
    }
}

/// sugar spelling (the library's own Display) vs expanded spelling: same AST, equal to `n`
fn emit_alias(out: &mut Out, ctx: CtxK, n: &Node, sugar: &str) {
    let exp = expanded(n, &real_key(ctx), &real_hash);
    let tok = match (parse_to_node_ctx(ctx, sugar), parse_to_node_ctx(ctx, &exp)) {
        (Ok(a), Ok(b)) => if a == b && a == *n { "pass".to_string() } else if a == b { "fail:both-differ-from-object".into() } else { "fail:spellings-differ".into() },
        (Err(e), _) => format!("fail:sugar-{}", e),
        (_, Err(e)) => format!("fail:expanded-{}", e),
    };
    out.count(&format!("alias {}", if tok == "pass" { "pass" } else { tok.as_str() }));
    out.line(&format!("J alias {} {} {} {}", ctx.name(), hex(sugar), hex(&exp), tok), "ok");
}

/* ------------------------------------------------------------ object sets */

fn bx(n: Node) -> Box<Node> { Box::new(n) }

/// every sugar shape, stacked wrappers, wrapper + sugar interaction, sorted multis; candidates are
/// filtered by the library's own type checker (`to_ms`), so only constructible objects are used
pub(crate) fn sugar_nodes(ctx: CtxK) -> Vec<Node> {
    use Node::*;
    let ks = ast::ctx_keys(ctx, 3);
    let (k0, k1, k2) = (ks[0], ks[1], ks[2]);
    let pk = |k: u32| Check(bx(PkK(k)));
    let pkh = |k: u32| Check(bx(PkH(k)));
    let mut v: Vec<Node> = vec![];
    // bases of each type
    let bs: Vec<Node> = vec![
        pk(k0), pkh(k1), Older(10), After(100), Hash(HK::Sha256, 0), True, False,
        OrI(bx(pk(k0)), bx(pk(k1))), AndV(bx(Verify(bx(pk(k0)))), bx(pk(k1))),
        if ctx == CtxK::Tap { MultiA(2, vec![k0, k1, k2]) } else { Multi(2, vec![k0, k1, k2]) },
        if ctx == CtxK::Tap { SortedMultiA(2, vec![k2, k0, k1]) } else { SortedMulti(2, vec![k2, k0, k1]) },
        if ctx == CtxK::Tap { SortedMultiA(1, vec![k1]) } else { SortedMulti(1, vec![k1]) },
        // raw public key hashes (reachable by decoding a script): regression inputs for b17364cb
        Check(bx(RawPkH(if ctx == CtxK::Tap { 200 } else { 0 }))),
    ];
    let kt: Vec<Node> = vec![PkK(k0), PkH(k1), RawPkH(if ctx == CtxK::Tap { 201 } else { 1 }),
        OrI(bx(PkK(k0)), bx(PkH(k1))), AndV(bx(Verify(bx(pk(k2)))), bx(PkK(k0)))];
    v.extend(bs.iter().cloned());
    v.extend(kt.iter().cloned());
    // one-letter wrappers and sugar on every base
    let unary: Vec<fn(Box<Node>) -> Node> = vec![Alt, Swap, Check, DupIf, Verify, NonZero, ZeroNotEqual];
    let sugar_t = |x: Node| AndV(bx(x), bx(True));
    let sugar_l = |x: Node| OrI(bx(False), bx(x));
    let sugar_u = |x: Node| OrI(bx(x), bx(False));
    let mut lvl: Vec<Node> = bs.iter().chain(kt.iter()).cloned().collect();
    for _depth in 0..3 {
        let mut next = vec![];
        for x in &lvl {
            for f in &unary { next.push(f(bx(x.clone()))); }
            next.push(sugar_t(x.clone()));
            next.push(sugar_l(x.clone()));
            next.push(sugar_u(x.clone()));
        }
        // keep those the library accepts
        let acc: Vec<Node> = next.into_iter().filter(|n| constructible(ctx, n)).collect();
        v.extend(acc.iter().cloned());
        lvl = acc;
        if lvl.len() > 400 { lvl.truncate(400); }
    }
    // and_n, andor with non-0 third child, and_v(X,1) inside other fragments, or_i(0,0)
    let b = pk(k0);
    for y in [pk(k1), Older(10), False, True] {
        v.push(AndOr(bx(b.clone()), bx(y.clone()), bx(False)));
        v.push(AndOr(bx(b.clone()), bx(y.clone()), bx(pk(k2))));
        v.push(AndOr(bx(b.clone()), bx(False), bx(y.clone())));
        v.push(AndOr(bx(b.clone()), bx(y.clone()), bx(OrI(bx(False), bx(False)))));
    }
    v.push(OrI(bx(False), bx(False)));
    v.push(OrI(bx(True), bx(False)));
    v.push(OrI(bx(False), bx(True)));
    v.push(AndV(bx(Verify(bx(True))), bx(True)));
    v.push(AndV(bx(Verify(bx(pk(k0)))), bx(AndV(bx(Verify(bx(pk(k1)))), bx(True)))));
    v.push(Thresh(1, vec![False]));
    v.push(Thresh(1, vec![pk(k0)]));
    v.push(Thresh(2, vec![pk(k0), Swap(bx(pk(k1))), Alt(bx(OrI(bx(False), bx(pk(k2)))))]));
    v.push(Thresh(1, vec![sugar_u(pk(k0)), Alt(bx(sugar_l(Older(10)))), Swap(bx(AndOr(bx(pk(k1)), bx(pk(k2)), bx(False))))]));
    // R5: casts (t: l: u: sugar, pk / pkh, and_n) INSIDE every combinator and under wrapper towers
    {
        let t = |x: Node| AndV(bx(Verify(bx(x))), bx(True));          // tv:X  (B)
        let l = |x: Node| OrI(bx(False), bx(x));
        let u = |x: Node| OrI(bx(x), bx(False));
        let an = |x: Node, y: Node| AndOr(bx(x), bx(y), bx(False));
        let casts: Vec<Node> = vec![t(pk(k0)), l(pk(k1)), u(pkh(k2)), an(pk(k0), pkh(k1)), l(Older(10)), u(After(100)), t(Hash(HK::Sha256, 0)),
                                    l(u(pk(k0))), u(l(pkh(k1))), t(l(pk(k2))), an(l(pk(k0)), u(pk(k1)))];
        for a in &casts { for b in &casts {
            v.push(AndB(bx(a.clone()), bx(Alt(bx(b.clone())))));
            v.push(AndB(bx(a.clone()), bx(Swap(bx(b.clone())))));
            v.push(OrB(bx(a.clone()), bx(Alt(bx(b.clone())))));
            v.push(OrD(bx(a.clone()), bx(b.clone())));
            v.push(OrI(bx(a.clone()), bx(b.clone())));
            v.push(AndV(bx(Verify(bx(a.clone()))), bx(b.clone())));
            v.push(OrC(bx(a.clone()), bx(Verify(bx(b.clone())))));
            v.push(AndOr(bx(a.clone()), bx(b.clone()), bx(casts[0].clone())));
            v.push(AndOr(bx(a.clone()), bx(b.clone()), bx(False)));
        } }
        for a in &casts {
            v.push(Thresh(2, vec![a.clone(), Alt(bx(casts[1].clone())), Swap(bx(casts[2].clone())), Alt(bx(casts[3].clone()))]));
            v.push(NonZero(bx(a.clone()))); v.push(ZeroNotEqual(bx(a.clone()))); v.push(DupIf(bx(Verify(bx(a.clone())))));
            v.push(AndV(bx(Verify(bx(ZeroNotEqual(bx(a.clone()))))), bx(True)));
            v.push(OrI(bx(False), bx(AndV(bx(Verify(bx(a.clone()))), bx(True)))));
        }
    }
    // R2: refused TODAY by the sanity rules for exactly one reason (repeated key in every pair of occurrence kinds,
    // mixed lock units, sigless branch, malleable): they round-trip through the permissive parser, and `J rtsane`
    // (entry-point model) decides what the default parsers must do with them
    {
        let mk = |ks: Vec<u32>| if ctx == CtxK::Tap { MultiA(1, ks) } else { Multi(1, ks) };
        v.push(OrD(bx(pk(k0)), bx(AndV(bx(Verify(bx(pkh(k0)))), bx(Older(10))))));
        v.push(AndV(bx(Verify(bx(pk(k0)))), bx(pk(k0))));
        v.push(AndV(bx(Verify(bx(pkh(k1)))), bx(pkh(k1))));
        v.push(AndV(bx(Verify(bx(pk(k0)))), bx(mk(vec![k0, k1]))));
        v.push(AndV(bx(Verify(bx(pkh(k1)))), bx(mk(vec![k0, k1]))));
        v.push(mk(vec![k2, k2]));
        v.push(AndB(bx(mk(vec![k0, k1])), bx(Alt(bx(mk(vec![k1, k2]))))));
        v.push(OrI(bx(AndV(bx(Verify(bx(pk(k0)))), bx(Older(10)))), bx(AndV(bx(Verify(bx(pk(k1)))), bx(Older(4194305))))));   // two units, different paths: sane
        v.push(AndV(bx(Verify(bx(pk(k0)))), bx(AndV(bx(Verify(bx(Older(10)))), bx(Older(4194305))))));                       // same path: mixed
        v.push(AndV(bx(Verify(bx(pk(k0)))), bx(AndV(bx(Verify(bx(After(100)))), bx(After(500000001))))));
        v.push(OrI(bx(pk(k0)), bx(Older(10))));                          // a branch without signature
        v.push(OrB(bx(Hash(HK::Sha256, 0)), bx(Alt(bx(Hash(HK::Hash160, 1))))));
        v.push(AndV(bx(Verify(bx(pk(k0)))), bx(OrI(bx(Hash(HK::Sha256, 0)), bx(Hash(HK::Sha256, 0))))));   // malleable
    }
    // raw public key hashes: the three shapes that failed before b17364cb (bare: unparseable name;
    // c: folded into the name of the bare fragment), in every context, plus mixed forms
    let rp = if ctx == CtxK::Tap { 200 } else { 0 };
    v.push(RawPkH(rp));
    v.push(Check(bx(RawPkH(rp))));
    v.push(Check(bx(AndV(bx(Verify(bx(True))), bx(RawPkH(rp))))));
    v.push(Check(bx(OrI(bx(PkK(k0)), bx(RawPkH(rp + 1))))));
    v.push(AndV(bx(Verify(bx(Check(bx(RawPkH(rp)))))), bx(True)));
    v.push(OrI(bx(False), bx(Check(bx(RawPkH(rp))))));
    v.into_iter().filter(|n| constructible(ctx, n)).collect()
}

pub(crate) fn constructible(ctx: CtxK, n: &Node) -> bool {
    match ctx {
        CtxK::Bare => ast::to_ms::<PublicKey, BareCtx>(n).is_ok(),
        CtxK::Legacy => ast::to_ms::<PublicKey, Legacy>(n).is_ok(),
        CtxK::Segwitv0 => ast::to_ms::<PublicKey, Segwitv0>(n).is_ok(),
        CtxK::Tap => ast::to_ms::<XOnlyPublicKey, Tap>(n).is_ok(),
    }
}

pub fn ms_objects(ctx: CtxK, thorough: bool, rng: &mut Rng) -> Vec<Node> {
    let mut v = sugar_nodes(ctx);
    let atoms = ast::default_atoms(ctx, false);
    let (depth, quota) = if thorough { (3, 60) } else { (2, 14) };
    for t in ast::enumerate(ctx, &atoms, depth, quota, rng) { v.push(t.node); }
    let n_rand = if thorough { 300 } else { 40 };
    for i in 0..n_rand {
        if let Some(n) = ast::random_b(ctx, rng, 8 + (i % 5) * 10) { v.push(n); }
    }
    // big thresholds / multis
    let ks = ast::ctx_keys(ctx, 10);
    let pk = |k: u32| Node::Check(bx(Node::PkK(k)));
    let mut xs = vec![pk(ks[0])];
    for k in &ks[1..] { xs.push(Node::Swap(bx(pk(*k)))); }
    v.push(Node::Thresh(10, xs.clone()));
    v.push(Node::Thresh(1, xs.clone()));
    v.push(Node::Thresh(7, xs));
    if ctx == CtxK::Tap {
        v.push(Node::MultiA(10, ks.clone())); v.push(Node::SortedMultiA(3, ks.clone()));
    } else {
        v.push(Node::Multi(10, ks.clone())); v.push(Node::SortedMulti(3, ks.clone()));
    }
    // the shared designated fragments (all hash kinds, both lock units, lock pairs, one-child thresholds,
    // raw key hashes, uncompressed keys in every position in Bare/Legacy, mixed-encoding multis) - every tier
    v.extend(ast::dimension_corpus(ctx));
    // multisig at its size limit (one past the limit is not constructible: judged as text by `C msparse`)
    if ctx == CtxK::Tap {
        v.push(Node::MultiA(999, (0..999u32).map(|i| 200 + i % 10).collect()));
        v.push(Node::SortedMultiA(1, (0..999u32).map(|i| 200 + (i * 7) % 10).collect()));
    } else {
        v.push(Node::Multi(20, (0..20u32).map(|i| i % 10).collect()));
        v.push(Node::SortedMulti(1, (0..20u32).map(|i| (i * 3) % 10).collect()));
    }
    let mut seen = std::collections::BTreeSet::new();
    v.into_iter().filter(|n| constructible(ctx, n) && seen.insert(n.clone())).collect()
}

pub fn run_ms(out: &mut Out, thorough: bool, rng: &mut Rng) -> BTreeMap<CtxK, Vec<(Node, String)>> {
    let mut all = BTreeMap::new();
    for ctx in CtxK::ALL {
        let objs = ms_objects(ctx, thorough, rng);
        out.note(&format!("c10b_ms_objects_{}", ctx.name()), objs.len().to_string());
        let mut strs = vec![];
        for n in &objs {
            n.count_frags(out);
            emit_rt_ms(out, ctx, n);
            gap::emit_rtsane(out, ctx, n, true);
            emit_tree_ops(out, ctx, n);
            let sugar = match ctx {
                CtxK::Bare => ast::to_ms::<PublicKey, BareCtx>(n).map(|m| m.to_string()),
                CtxK::Legacy => ast::to_ms::<PublicKey, Legacy>(n).map(|m| m.to_string()),
                CtxK::Segwitv0 => ast::to_ms::<PublicKey, Segwitv0>(n).map(|m| m.to_string()),
                CtxK::Tap => ast::to_ms::<XOnlyPublicKey, Tap>(n).map(|m| m.to_string()),
            };
            if let Ok(s) = sugar {
                emit_alias(out, ctx, n, &s);
                strs.push((n.clone(), s));
            }
        }
        all.insert(ctx, strs);
    }
    all
}

/* ------------------------------------------------------------ the depth boundary */

/// `or_i(older(1),or_i(older(1),…older(1)))` with `levels` nested `or_i`
fn deep_or_i(levels: usize) -> Node {
    let mut x = Node::Older(1);
    for _ in 0..levels { x = Node::OrI(bx(Node::Older(1)), bx(x)); }
    x
}

/// multisig sizes at and one past the limits (20 / 999), as id text: model and implementation must agree
fn run_multi_limits(out: &mut Out) {
    let ids = |n: usize| (0..n).map(|i| (i % 10).to_string()).collect::<Vec<_>>().join(",");
    for (ctx, name, ns) in [(CtxK::Segwitv0, "multi", [19usize, 20, 21]), (CtxK::Legacy, "sortedmulti", [19, 20, 21]), (CtxK::Tap, "multi_a", [998, 999, 1000]), (CtxK::Tap, "sortedmulti_a", [998, 999, 1000])] {
        for n in ns {
            for k in [1usize, n] {
                let s = format!("{}({},{})", name, k, ids(n));
                let ans = msparse_ctx(ctx, &s);
                out.count(&format!("multi-limit {} n={} {}", name, n, if ans == "ERR" { "ERR" } else { "ok" }));
                out.line(&format!("C msparse {} {}", ctx.name(), hex(&s)), &ans);
            }
        }
    }
}

fn run_deep(out: &mut Out) {
    // 401 levels: height 401, printed nesting 402 (accepted); 402 levels: the deepest object
    // `from_ast` accepts (height 402) prints with nesting 403
    for levels in [100usize, 401, 402] {
        let n = deep_or_i(levels);
        if let Some((s, tok)) = rt_ms_segwit(&n) {
            out.count(&format!("rtgen or_i-chain-{} {}", levels, tok));
            // the string is 6 kB: the case is named by its generator
            out.line(&format!("J rtgen ms-segwitv0 or_i-chain-of-older(1):levels={}:chars={} {}", levels, s.len(), tok), "ok");
            out.line(&format!("C msparse segwitv0 {}", hex(&s)), &msparse_ctx(CtxK::Segwitv0, &s));
        }
    }
}

/* ------------------------------------------------------------ malformed stream */

const JUNK: &[&str] = &["::", ":", "(", ")", ",", "()", "(,)", "{", "}", "#", "@", " ", "x:", "z", "q", "A", "0", "1", "00", "-1", "+", "4294967296", "2147483648", "'", "h", "*", "/", "<0;1>"];

pub fn mutate(s: &str, rng: &mut Rng) -> String {
    let mut c: Vec<char> = s.chars().collect();
    if c.is_empty() { return JUNK[rng.below(JUNK.len())].to_string(); }
    let n_edits = 1 + rng.below(2);
    for _ in 0..n_edits {
        if c.is_empty() { break; }
        let i = rng.below(c.len());
        match rng.below(9) {
            0 => { c.remove(i); }
            1 => { let x = c[i]; c.insert(i, x); }
            2 => { if i + 1 < c.len() { c.swap(i, i + 1); } }
            3 => { let j: Vec<char> = JUNK[rng.below(JUNK.len())].chars().collect(); for (k, ch) in j.into_iter().enumerate() { c.insert(i + k, ch); } }
            4 => { c[i] = c[i].to_ascii_uppercase(); }
            5 => { // unknown / duplicate wrapper letter in front of a ':'
                if let Some(p) = c.iter().position(|x| *x == ':') {
                    let l = ['a', 's', 'c', 'd', 'v', 'j', 'n', 't', 'l', 'u', 'x', 'k', 'A'][rng.below(13)];
                    c.insert(p, l);
                } else { c.insert(0, ':'); c.insert(0, ['a', 'v', 'x'][rng.below(3)]); }
            }
            6 => { // empty an argument: delete up to the next , or )
                let mut j = i;
                while j < c.len() && c[j] != ',' && c[j] != ')' { j += 1; }
                c.drain(i..j);
            }
            7 => { c.truncate(i); }
            _ => { let j = rng.below(c.len()); let x = c[j]; c[i] = x; }
        }
    }
    c.into_iter().collect()
}

fn verdict<T, E>(f: impl FnOnce() -> Result<T, E>) -> &'static str {
    match catch_unwind(AssertUnwindSafe(f)) { Ok(Ok(_)) => "ok", Ok(Err(_)) => "err", Err(_) => "PANIC" }
}

fn run_malformed_ms(out: &mut Out, thorough: bool, rng: &mut Rng, ms: &BTreeMap<CtxK, Vec<(Node, String)>>) {
    let per_ctx = if thorough { 6000 } else { 700 };
    for ctx in CtxK::ALL {
        let pool = &ms[&ctx];
        if pool.is_empty() { continue; }
        for i in 0..per_ctx {
            let (n, real) = &pool[rng.below(pool.len())];
            // id-string stream: model vs implementation (String keys)
            let ids = match ctx {
                CtxK::Bare => id_string::<PublicKey, BareCtx>(n),
                CtxK::Legacy => id_string::<PublicKey, Legacy>(n),
                CtxK::Segwitv0 => id_string::<PublicKey, Segwitv0>(n),
                CtxK::Tap => id_string::<XOnlyPublicKey, Tap>(n),
            };
            if ids != "ERR" && ids.len() < 600 {
                let m = mutate(&ids, rng);
                // also try the string in another context now and then (multi vs multi_a)
                let c2 = if i % 5 == 0 { CtxK::ALL[rng.below(4)] } else { ctx };
                let ans = msparse_ctx(c2, &m);
                out.count(&format!("malformed msparse {}", if ans == "ERR" { "ERR" } else if ans == "PANIC" { "PANIC" } else { "ok" }));
                out.line(&format!("C msparse {} {}", c2.name(), hex(&m)), &ans);
            }
            // real-key stream: no panic
            if real.len() < 1500 {
                let m = mutate(real, rng);
                let v = match ctx {
                    CtxK::Bare => verdict(|| Miniscript::<PublicKey, BareCtx>::from_str_with_validation_params(&m, &ValidationParams::MAX)),
                    CtxK::Legacy => verdict(|| Miniscript::<PublicKey, Legacy>::from_str(&m)),
                    CtxK::Segwitv0 => verdict(|| Miniscript::<PublicKey, Segwitv0>::from_str_insane(&m)),
                    CtxK::Tap => verdict(|| Miniscript::<XOnlyPublicKey, Tap>::from_str_with_validation_params(&m, &ValidationParams::MAX)),
                };
                out.count(&format!("malformed ms-fromstr {}", v));
                if v == "PANIC" || i % 10 == 0 {
                    out.line(&format!("J nopanic ms-fromstr-{} {} {}", ctx.name(), hex(&m), v), "ok");
                }
            }
        }
    }
}

pub fn run_roundtrip(out: &mut Out, thorough: bool, rng: &mut Rng) {
    crate::c10::quiet_panics();
    ast::emit_defs(out); // key kinds / sizes for the entry-point model behind `J rtsane`
    let ms = run_ms(out, thorough, rng);
    run_deep(out);
    run_multi_limits(out);
    run_malformed_ms(out, thorough, rng, &ms);
    let descs = run_desc(out, thorough, rng, &ms);
    let pols = run_policies(out, thorough, rng);
    let km = key_material();
    let wps = run_wallet(out, &km);
    run_malformed_other(out, thorough, rng, &descs, &pols, &wps, &km);
    gap::run_alt_probes(out);
    gap::run_routes(out, thorough, rng, &km);
    gap::run_raw_strings(out, &km);
    gap::run_key_values(out, &km);
    gap::run_secret_descriptors(out, &km);
    let _ = gap::run_definite(out, &km);
    gap::run_desc_model(out, thorough, rng, &ms);
    gap::run_policies_real(out, thorough, rng, &km);
    gap::run_wallet_gen(out, thorough, rng, &km);
    gap::run_keyforms(out, &km);
    gap::run_numargs(out);
    gap::run_absurd(out, thorough, rng, &km, &descs);
    out.note("c10b_scope", "objects: miniscripts (4 contexts, all base types; hand corpus = every sugar shape, wrapper stacks, casts inside every combinator, refused-today scripts; ast::dimension_corpus incl. wrapper towers; enumerated + random), descriptors (all wrappers, every key form, all tap-tree shapes <= 5 leaves, combs and sibling pairs to depth 128), keys and secret keys (parser- and struct-built), policies (string / real keys, API-only shapes), wallet policies. ROUTES, whole designated corpus in quick: from_str (permissive + default parsers), from_ast + constructors (new_wsh / new_sh_wsh / new_sh / new_bare / new_tr / Tr::new / TapTree::leaf+combine / new_pk / new_pkh / new_wpkh / new_sh_wpkh), translate_pk (to id strings and to DescriptorPublicKey), derived_descriptor, at_derivation_index, into_single_descriptors, parse_descriptor / to_string_with_secret, compiler output (compile, compile_tr), the per-wrapper types Bare/Pkh/Wpkh/Sh/Wsh/Tr. TEXT FORMS: Display, {:#} (descriptors), Display and Debug of Miniscript and Terminal (J textforms). STATES: fresh, after script_pubkey/address/spend_info, clones, pairs of used objects incl. mirrored trees. RAW: every string of length <= 2 and length neighbours of every key / checksum / fingerprint constant to 18 parsers".into());
    out.note("domain", "text round trips: see c10b_scope".into());
}

/* ============================================================ descriptors, keys, policies */

use miniscript::bitcoin::bip32::{Xpriv, Xpub};
use miniscript::bitcoin::secp256k1::Secp256k1;
use miniscript::bitcoin::{NetworkKind, PrivateKey};
use miniscript::descriptor::{DescriptorSecretKey, ShInner, TapTree, WalletPolicy};
use miniscript::policy::{Concrete, Semantic};
use miniscript::{AbsLockTime, Descriptor, DescriptorPublicKey, RelLockTime, Threshold};

/// neutral structure of a miniscript over ANY key type: every `Terminal` variant spelled out,
/// keys and hashes through their derived `Debug` (structural), no library `==`/`Display`
pub fn shape_ms<Pk: MiniscriptKey, Ctx: ScriptContext>(ms: &Miniscript<Pk, Ctx>) -> String {
    let s = |x: &Arc<Miniscript<Pk, Ctx>>| shape_ms(x);
    let ks = |t: &[Pk]| t.iter().map(|k| format!("{:?}", k)).collect::<Vec<_>>().join(",");
    match ms.as_inner() {
        Terminal::True => "1".into(),
        Terminal::False => "0".into(),
        Terminal::PkK(k) => format!("pk_k({:?})", k),
        Terminal::PkH(k) => format!("pk_h({:?})", k),
        Terminal::RawPkH(h) => format!("raw_pkh({:?})", h),
        Terminal::After(t) => format!("after({})", t.to_consensus_u32()),
        Terminal::Older(t) => format!("older({})", t.to_consensus_u32()),
        Terminal::Sha256(h) => format!("sha256({:?})", h),
        Terminal::Hash256(h) => format!("hash256({:?})", h),
        Terminal::Ripemd160(h) => format!("ripemd160({:?})", h),
        Terminal::Hash160(h) => format!("hash160({:?})", h),
        Terminal::Alt(x) => format!("a({})", s(x)),
        Terminal::Swap(x) => format!("s({})", s(x)),
        Terminal::Check(x) => format!("c({})", s(x)),
        Terminal::DupIf(x) => format!("d({})", s(x)),
        Terminal::Verify(x) => format!("v({})", s(x)),
        Terminal::NonZero(x) => format!("j({})", s(x)),
        Terminal::ZeroNotEqual(x) => format!("n({})", s(x)),
        Terminal::AndV(x, y) => format!("and_v({},{})", s(x), s(y)),
        Terminal::AndB(x, y) => format!("and_b({},{})", s(x), s(y)),
        Terminal::AndOr(x, y, z) => format!("andor({},{},{})", s(x), s(y), s(z)),
        Terminal::OrB(x, y) => format!("or_b({},{})", s(x), s(y)),
        Terminal::OrD(x, y) => format!("or_d({},{})", s(x), s(y)),
        Terminal::OrC(x, y) => format!("or_c({},{})", s(x), s(y)),
        Terminal::OrI(x, y) => format!("or_i({},{})", s(x), s(y)),
        Terminal::Thresh(t) => format!("thresh({},{})", t.k(), t.iter().map(|x| shape_ms(x)).collect::<Vec<_>>().join(",")),
        Terminal::Multi(t) => format!("multi({},{})", t.k(), ks(t.data())),
        Terminal::SortedMulti(t) => format!("sortedmulti({},{})", t.k(), ks(t.data())),
        Terminal::MultiA(t) => format!("multi_a({},{})", t.k(), ks(t.data())),
        Terminal::SortedMultiA(t) => format!("sortedmulti_a({},{})", t.k(), ks(t.data())),
    }
}

pub fn shape_desc<Pk: MiniscriptKey>(d: &Descriptor<Pk>) -> String {
    match d {
        Descriptor::Bare(b) => format!("bare({})", shape_ms(b.as_inner())),
        Descriptor::Pkh(p) => format!("pkh({:?})", p.as_inner()),
        Descriptor::Wpkh(p) => format!("wpkh({:?})", p.as_inner()),
        Descriptor::Sh(sh) => match sh.as_inner() {
            ShInner::Wsh(w) => format!("sh(wsh({}))", shape_ms(w.as_inner())),
            ShInner::Wpkh(p) => format!("sh(wpkh({:?}))", p.as_inner()),
            ShInner::Ms(ms) => format!("sh({})", shape_ms(ms)),
        },
        Descriptor::Wsh(w) => format!("wsh({})", shape_ms(w.as_inner())),
        Descriptor::Tr(t) => {
            let leaves: Vec<String> = t.leaves().map(|l| format!("{}:{}", l.depth(), shape_ms(l.miniscript()))).collect();
            format!("tr({:?};{})", t.internal_key(), leaves.join(";"))
        }
    }
}

struct KeyMaterial {
    secp: Secp256k1<miniscript::bitcoin::secp256k1::All>,
    xpubs: Vec<String>,
    xprvs: Vec<String>,
    tpub: String,
    wifs: Vec<String>,
}
fn key_material() -> KeyMaterial {
    let secp = Secp256k1::new();
    let mut xpubs = vec![]; let mut xprvs = vec![];
    for i in 0..4u8 {
        let xprv = Xpriv::new_master(NetworkKind::Main, &[i + 1; 32]).unwrap();
        xpubs.push(Xpub::from_priv(&secp, &xprv).to_string());
        xprvs.push(xprv.to_string());
    }
    let t = Xpriv::new_master(NetworkKind::Test, &[9u8; 32]).unwrap();
    let tpub = Xpub::from_priv(&secp, &t).to_string();
    let wifs = (0..3).map(|i| PrivateKey::new(ast::secret(i), miniscript::bitcoin::Network::Bitcoin).to_wif()).collect();
    KeyMaterial { secp, xpubs, xprvs, tpub, wifs }
}

/// every key-expression form, as TEXT (hardened markers `'` and `h`, wildcards `*`, `*'`, `*h`,
/// multipath in various positions, origins)
fn key_forms(km: &KeyMaterial, i: usize, xonly: bool, allow_unc: bool) -> Vec<String> {
    let x = &km.xpubs[i % km.xpubs.len()];
    let raw = if xonly { ast::xonly_key(200 + i as u32).to_string() } else { ast::full_key(i as u32).to_string() };
    let mut v = vec![
        raw.clone(),
        format!("[d34db33f]{}", raw),
        format!("[00000001/44'/0'/{}']{}", i, raw),
        format!("[0a0b0c0d/44h/0h/{}h/7]{}", i, raw),
        x.clone(),
        format!("{}/0", x),
        format!("{}/0/{}", x, i),
        format!("{}/*", x),
        format!("{}/{}/*", x, i),
        format!("{}/0'/1", x),
        format!("{}/0h/1h", x),
        format!("{}/*'", x),
        format!("{}/*h", x),
        format!("{}/1'/*h", x),
        format!("[d34db33f/48'/0'/0'/2']{}/0/*", x),
        format!("[d34db33f/48h/0h]{}/<0;1>/*", x),
        format!("{}/<0;1>", x),
        format!("{}/<0;1;2>/*", x),
        format!("{}/9/<3;4>/5/*", x),
        format!("{}/<0';1h>/*", x),
        format!("[01020304]{}/<2;3>/*h", x),
        format!("{}/2147483647/<0;2147483647>/*", x),
        format!("{}/0", km.tpub),
    ];
    if allow_unc && !xonly { v.push(ast::full_key(100 + (i as u32 % 4)).to_string()); }
    v
}

/// a key text of a specified-valid form; if the library refuses it the refusal is reported through the key-grammar
/// judge and the run goes on with a plain key (the harness must never abort on a library change)
pub(crate) fn key_or_fallback(out: &mut Out, text: &str, xonly: bool) -> DescriptorPublicKey {
    match catch_unwind(AssertUnwindSafe(|| DescriptorPublicKey::from_str(text))) {
        Ok(Ok(k)) => k,
        r => {
            out.line(&format!("J keyform pub {} {}", hex(text), if r.is_err() { "PANIC" } else { "rejected" }), "ok");
            if xonly { DescriptorPublicKey::from(ast::xonly_key(200)) } else { DescriptorPublicKey::from(ast::full_key(0)) }
        }
    }
}

fn parse_desc(s: &str) -> Result<Descriptor<DescriptorPublicKey>, String> {
    match catch_unwind(AssertUnwindSafe(|| Descriptor::<DescriptorPublicKey>::from_str(s))) {
        Ok(Ok(d)) => Ok(d),
        Ok(Err(e)) => Err(err_class(&e.to_string())),
        Err(_) => Err("PANIC".into()),
    }
}

/// scripts of a descriptor at a few derivation indices (None: not derivable with public data)
fn scripts_of(km: &KeyMaterial, d: &Descriptor<DescriptorPublicKey>) -> Option<Vec<Vec<u8>>> {
    let singles = if d.is_multipath() { d.clone().into_single_descriptors().ok()? } else { vec![d.clone()] };
    let mut out = vec![];
    for s in singles {
        for idx in [0u32, 1, 77] {
            let dd = s.derived_descriptor(&km.secp, idx).ok()?;
            out.push(dd.script_pubkey().to_bytes());
            if !s.has_wildcard() { break; }
        }
    }
    Some(out)
}

pub(crate) fn rt_desc_token(km: &KeyMaterial, x: &Descriptor<DescriptorPublicKey>, s: &str) -> String {
    guard(|| {
        let y = match Descriptor::<DescriptorPublicKey>::from_str(s) {
            Ok(y) => y,
            Err(e) => return format!("fail:parse-err:{}", err_class(&e.to_string())),
        };
        if shape_desc(&y) != shape_desc(x) { return "fail:structure-differs".into(); }
        if y != *x { return "fail:lib-eq".into(); }
        if y.to_string() != s { return "fail:not-fixed-point".into(); }
        // without checksum
        let alt = format!("{:#}", x);
        match Descriptor::<DescriptorPublicKey>::from_str(&alt) {
            Ok(z) => { if shape_desc(&z) != shape_desc(x) { return "fail:nochecksum-structure-differs".into(); } if format!("{:#}", z) != alt { return "fail:nochecksum-not-fixed-point".into(); } }
            Err(e) => return format!("fail:nochecksum-parse-err:{}", err_class(&e.to_string())),
        }
        if !s.starts_with(&alt) || s.len() != alt.len() + 9 { return "fail:checksum-form".into(); }
        match (catch_unwind(AssertUnwindSafe(|| scripts_of(km, x))), catch_unwind(AssertUnwindSafe(|| scripts_of(km, &y)))) {
            (Ok(a), Ok(b)) => if a != b { return "fail:script-differs".into(); },
            _ => return "PANIC".into(),
        }
        "pass".into()
    })
}

fn emit_rt_desc(out: &mut Out, km: &KeyMaterial, kind: &str, x: &Descriptor<DescriptorPublicKey>) {
    let s = match catch_unwind(AssertUnwindSafe(|| x.to_string())) { Ok(s) => s, Err(_) => { out.line(&format!("J rt {} - PANIC", kind), "ok"); return; } };
    let tok = rt_desc_token(km, x, &s);
    out.count(&format!("rt {} {}", kind, tok));
    out.line(&format!("J rt {} {} {}", kind, hex(&s), tok), "ok");
}

/// tap tree text of a shape over leaf texts
fn tree_text(shape: &Shp, leaves: &[String], next: &mut usize, out: &mut String) {
    match shape {
        Shp::L => { out.push_str(&leaves[*next % leaves.len()]); *next += 1; }
        Shp::N(l, r) => { out.push('{'); tree_text(l, leaves, next, out); out.push(','); tree_text(r, leaves, next, out); out.push('}'); }
    }
}
#[derive(Clone)]
enum Shp { L, N(Box<Shp>, Box<Shp>) }
fn shp_random(n: usize, rng: &mut Rng) -> Shp {
    if n <= 1 { return Shp::L; }
    let k = match rng.below(3) { 0 => 1 + rng.below(n - 1), 1 => if rng.coin() { 1 } else { n - 1 }, _ => (n / 2).max(1) };
    Shp::N(Box::new(shp_random(k, rng)), Box::new(shp_random(n - k, rng)))
}
fn shp_comb(d: usize, rng: &mut Rng) -> Shp {
    let mut s = Shp::L;
    for _ in 0..d { s = if rng.coin() { Shp::N(Box::new(s), Box::new(Shp::L)) } else { Shp::N(Box::new(Shp::L), Box::new(s)) }; }
    s
}
/// a spine of `d` inner nodes (always descending on the same side) with `bottom` at its end
fn shp_spine(d: usize, right: bool, bottom: Shp) -> Shp {
    let mut s = bottom;
    for _ in 0..d { s = if right { Shp::N(Box::new(Shp::L), Box::new(s)) } else { Shp::N(Box::new(s), Box::new(Shp::L)) }; }
    s
}
fn shp_pair() -> Shp { Shp::N(Box::new(Shp::L), Box::new(Shp::L)) }
/// the boundary shapes of `TapTreeBuilder`'s depth-128 bookkeeping: TWO sibling pairs at depth 128 (a balanced
/// 4-leaf subtree under a spine of 126), a pure right / left comb to depth 128, a pair at depth 128 next to a leaf at 127
fn shp_depth128() -> Vec<Shp> {
    let four = Shp::N(Box::new(shp_pair()), Box::new(shp_pair()));
    vec![
        shp_spine(126, true, four.clone()), shp_spine(126, false, four),
        shp_spine(128, true, Shp::L), shp_spine(128, false, Shp::L),
        shp_spine(127, true, shp_pair()), shp_spine(126, true, Shp::N(Box::new(Shp::L), Box::new(shp_pair()))),
    ]
}
/// every binary tree shape with exactly `n` leaves (Catalan(n-1) of them)
fn shp_all(n: usize) -> Vec<Shp> {
    if n == 1 { return vec![Shp::L]; }
    let mut v = vec![];
    for k in 1..n { for l in shp_all(k) { for r in shp_all(n - k) { v.push(Shp::N(Box::new(l.clone()), Box::new(r))); } } }
    v
}
fn shp_build(shape: &Shp, leaves: &[Arc<Miniscript<DescriptorPublicKey, Tap>>], next: &mut usize) -> Option<TapTree<DescriptorPublicKey>> {
    match shape {
        Shp::L => { let t = TapTree::leaf(leaves[*next % leaves.len()].clone()); *next += 1; Some(t) }
        Shp::N(l, r) => { let a = shp_build(l, leaves, next)?; let b = shp_build(r, leaves, next)?; TapTree::combine(a, b).ok() }
    }
}

/// key ids of the neutral AST → descriptor keys of assorted forms
pub(crate) struct ToDescKeys { pub full: Vec<DescriptorPublicKey>, pub xonly: Vec<DescriptorPublicKey> }
impl Translator<PublicKey> for ToDescKeys {
    type TargetPk = DescriptorPublicKey;
    type Error = ();
    fn pk(&mut self, pk: &PublicKey) -> Result<DescriptorPublicKey, ()> {
        let id = msops::key_id_full(pk).ok_or(())?;
        if id >= 100 { return Ok(DescriptorPublicKey::from(*pk)); }
        Ok(self.full[id as usize % self.full.len()].clone())
    }
    miniscript::translate_hash_clone!(PublicKey, DescriptorPublicKey, ());
}
impl Translator<XOnlyPublicKey> for ToDescKeys {
    type TargetPk = DescriptorPublicKey;
    type Error = ();
    fn pk(&mut self, pk: &XOnlyPublicKey) -> Result<DescriptorPublicKey, ()> {
        let id = msops::key_id_x(pk).ok_or(())?;
        Ok(self.xonly[(id - 200) as usize % self.xonly.len()].clone())
    }
    miniscript::translate_hash_clone!(XOnlyPublicKey, DescriptorPublicKey, ());
}

fn run_desc(out: &mut Out, thorough: bool, rng: &mut Rng, ms: &BTreeMap<CtxK, Vec<(Node, String)>>) -> Vec<String> {
    let km = key_material();
    let mut valid: Vec<String> = vec![];
    // 1. every key form under every single-key / small wrapper, from TEXT
    for i in 0..3usize {
        let full = key_forms(&km, i, false, true);
        let k2 = key_forms(&km, i + 1, false, false);
        for (j, k) in full.iter().enumerate() {
            let o = &k2[(j * 7 + 3) % k2.len()];
            let texts = vec![
                format!("pk({})", k), format!("pkh({})", k), format!("wpkh({})", k), format!("sh(wpkh({}))", k),
                format!("wsh(pk({}))", k), format!("sh(pk({}))", k), format!("sh(wsh(pkh({})))", k),
                format!("wsh(sortedmulti(1,{},{}))", k, o), format!("sh(sortedmulti(2,{},{}))", o, k),
                format!("sh(wsh(multi(2,{},{})))", k, o), format!("sh(multi(1,{}))", k), format!("multi(1,{},{})", k, o),
                format!("wsh(and_v(v:pk({}),or_d(pk({}),older(12960))))", k, o),
                format!("wsh(c:pk_k({}))", k), format!("wsh(or_i(0,pk({})))", k), format!("wsh(and_v(v:pkh({}),1))", k),
            ];
            // an uncompressed key is legal only outside segwit: every text below is VALID by construction,
            // so a refusal is a judged failure (`J rt … reject:<class>`)
            let unc = k.len() >= 130 && !k.contains("pub");
            for t in texts {
                if unc && (t.contains("wpkh(") || t.contains("wsh(")) { continue; }
                if i == 0 || rng.below(3) == 0 { desc_from_text(out, &km, "desc", &t, &mut valid); }
            }
        }
        let xo = key_forms(&km, i, true, false);
        let xo2 = key_forms(&km, i + 1, true, false);
        for (j, k) in xo.iter().enumerate() {
            let o = &xo2[(j * 5 + 1) % xo2.len()];
            let texts = vec![
                format!("tr({})", k), format!("tr({},pk({}))", k, o), format!("tr({},{{pk({}),multi_a(1,{},{})}})", o, k, k, o),
                format!("tr({},{{{{pk({}),and_v(v:pk({}),older(5))}},sortedmulti_a(2,{},{})}})", k, o, k, o, k),
            ];
            for t in texts { if i == 0 || rng.below(3) == 0 { desc_from_text(out, &km, "desc-tr", &t, &mut valid); } }
        }
    }
    // 2. tap trees of random shape / combs up to depth 128 (text and `TapTree::combine`)
    let xk: Vec<String> = (0..6).map(|i| key_forms(&km, i, true, false)[[0usize, 4, 7, 15][i % 4]].clone()).collect();
    let leaf_texts: Vec<String> = (0..6).map(|i| match i % 4 {
        0 => format!("pk({})", xk[i]), 1 => format!("and_v(v:pk({}),older({}))", xk[i], 10 + i),
        2 => format!("multi_a(1,{},{})", xk[i], xk[(i + 1) % 6]), _ => format!("or_d(pk({}),and_v(v:pkh({}),after(100)))", xk[i], xk[(i + 2) % 6]),
    }).collect();
    let leaf_ms: Vec<Arc<Miniscript<DescriptorPublicKey, Tap>>> = leaf_texts.iter().filter_map(|t| Miniscript::from_str(t).ok().map(Arc::new)).collect();
    let mut shapes: Vec<Shp> = vec![Shp::L];
    for n in 2..=(if thorough { 40 } else { 12 }) { shapes.push(shp_random(n, rng)); }
    for d in [1usize, 2, 31, 64, 127, 128] { shapes.push(shp_comb(d, rng)); }
    shapes.extend(shp_depth128());
    // every shape with up to 5 leaves (1+1+2+5+14): all depth jumps after a comma, nested branch as first / last child
    for n in 1..=5 { shapes.extend(shp_all(n)); }
    for _ in 0..(if thorough { 40 } else { 6 }) { shapes.push(shp_comb(1 + rng.below(128), rng)); }
    for sh in &shapes {
        let ik = key_or_fallback(out, &xk[rng.below(xk.len())], true);
        if let Some(tree) = shp_build(sh, &leaf_ms, &mut 0) {
            if let Ok(d) = Descriptor::new_tr(ik.clone(), Some(tree)) { emit_rt_desc(out, &km, "desc-tr-api", &d); valid.push(d.to_string()); }
        }
        let mut t = format!("tr({},", ik);
        tree_text(sh, &leaf_texts, &mut 0, &mut t);
        t.push(')');
        desc_from_text(out, &km, "desc-tr-text", &t, &mut vec![]);
    }
    // 3. the miniscript objects of the first part (all sugar shapes, B-typed) under wsh / sh / bare / tr, built by API
    let mut tr = ToDescKeys {
        full: (0..10).map(|i| key_or_fallback(out, &key_forms(&km, i, false, false)[[0usize, 4, 6, 8, 14, 15, 17, 2, 5, 20][i]], false)).collect(),
        xonly: (0..10).map(|i| key_or_fallback(out, &key_forms(&km, i, true, false)[[0usize, 4, 6, 8, 14, 15, 17, 2, 5, 20][i]], true)).collect(),
    };
    let cap = if thorough { 4000 } else { 500 };
    for (ctx, kind) in [(CtxK::Segwitv0, "desc-wsh-api"), (CtxK::Legacy, "desc-sh-api"), (CtxK::Bare, "desc-bare-api"), (CtxK::Tap, "desc-trleaf-api")] {
        let pool = &ms[&ctx];
        let step = (pool.len() / cap).max(1);
        for (n, sugar) in pool.iter().step_by(step) {
            if sugar.contains("expr_raw") { continue; } // `Descriptor::from_str` refuses raw key hashes on purpose (allow_raw_pkh = false)
            // `bare(c:pk_h(K))` is judged once below with a fixed key
            if ctx == CtxK::Bare && matches!(n, Node::Check(x) if matches!(**x, Node::PkH(_))) { continue; }
            let d: Option<Descriptor<DescriptorPublicKey>> = match ctx {
                CtxK::Segwitv0 => ast::to_ms::<PublicKey, Segwitv0>(n).ok().and_then(|m| m.translate_pk(&mut tr).ok()).and_then(|m| {
                    if rng.coin() { Descriptor::new_wsh(m).ok() } else { Descriptor::new_sh_wsh(m).ok() } }),
                CtxK::Legacy => ast::to_ms::<PublicKey, Legacy>(n).ok().and_then(|m| m.translate_pk(&mut tr).ok()).and_then(|m| Descriptor::new_sh(m).ok()),
                CtxK::Bare => ast::to_ms::<PublicKey, BareCtx>(n).ok().and_then(|m| m.translate_pk(&mut tr).ok()).and_then(|m| Descriptor::new_bare(m).ok()),
                CtxK::Tap => ast::to_ms::<XOnlyPublicKey, Tap>(n).ok().and_then(|m| m.translate_pk(&mut tr).ok()).and_then(|m: Miniscript<DescriptorPublicKey, Tap>| {
                    if m.validate(&Tap::SANE).is_err() { return None; }
                    Descriptor::new_tr(tr.xonly[3].clone(), Some(TapTree::leaf(m))).ok() }),
            };
            match d {
                Some(d) => { emit_rt_desc(out, &km, kind, &d); if valid.len() < 400 { valid.push(d.to_string()); } }
                None => out.count(&format!("rt {} not-constructible", kind)),
            }
        }
    }
    // a bare descriptor whose script is `pkh(K)` (accepted by `Descriptor::new_bare`)
    {
        let k = key_or_fallback(out, &ast::full_key(0).to_string(), false);
        let ms: Result<Miniscript<DescriptorPublicKey, BareCtx>, _> = Miniscript::from_ast(Terminal::PkH(k)).and_then(|m| Miniscript::from_ast(Terminal::Check(Arc::new(m))));
        if let Ok(d) = ms.and_then(Descriptor::new_bare) { emit_rt_desc(out, &km, "desc-bare-api", &d); }
    }
    // 4. secret keys: parse_descriptor / to_string_with_secret
    let sec_forms: Vec<String> = {
        let x = &km.xprvs[0]; let y = &km.xprvs[1];
        vec![km.wifs[0].clone(), format!("[d34db33f/44'/0'/0']{}", km.wifs[1]), x.clone(), format!("{}/0/*", x), format!("{}/0'/1h/*'", x),
             format!("[01020304/1]{}/<0;1>/*", y), format!("{}/*h", y), format!("{}/<5;6;7>", y)]
    };
    for (j, sk) in sec_forms.iter().enumerate() {
        let pubk = &key_forms(&km, j % 3, false, false)[[0usize, 4, 7, 15][j % 4]];
        for t in [format!("wpkh({})", sk), format!("wsh(multi(2,{},{}))", sk, pubk), format!("sh(wsh(and_v(v:pk({}),pk({}))))", pubk, sk), format!("pkh({})", sk)] {
            let tok = guard(|| {
                let (d, kmap) = match Descriptor::parse_descriptor(&km.secp, &t) { Ok(x) => x, Err(e) => return format!("reject:{}", err_class(&e.to_string())) };
                let s = d.to_string_with_secret(&kmap);
                let (d2, kmap2) = match Descriptor::parse_descriptor(&km.secp, &s) { Ok(x) => x, Err(e) => return format!("fail:parse-err:{}", err_class(&e.to_string())) };
                if shape_desc(&d2) != shape_desc(&d) { return "fail:structure-differs".into(); }
                if d2 != d { return "fail:lib-eq".into(); }
                if format!("{:?}", kmap2) != format!("{:?}", kmap) || kmap2 != kmap { return "fail:keymap-differs".into(); }
                if d2.to_string_with_secret(&kmap2) != s { return "fail:not-fixed-point".into(); }
                // the text we started from differs from `s` only by the checksum and `'`/`h` spelling
                "pass".into()
            });
            out.count(&format!("rt desc-secret {}", tok));
            out.line(&format!("J rt desc-secret {} {}", hex(&t), tok), "ok");
        }
    }
    // 5. keys alone
    let mut key_texts: Vec<String> = vec![];
    for i in 0..4 { key_texts.extend(key_forms(&km, i, false, true)); key_texts.extend(key_forms(&km, i, true, false)); }
    for t in &key_texts {
        let tok = guard(|| {
            let k = match DescriptorPublicKey::from_str(t) { Ok(k) => k, Err(e) => return format!("reject:{}", err_class(&e.to_string())) };
            let s = k.to_string();
            let k2 = match DescriptorPublicKey::from_str(&s) { Ok(k) => k, Err(e) => return format!("fail:parse-err:{}", err_class(&e.to_string())) };
            if format!("{:?}", k2) != format!("{:?}", k) { return "fail:structure-differs".into(); }
            if k2 != k { return "fail:lib-eq".into(); }
            if k2.to_string() != s { return "fail:not-fixed-point".into(); }
            "pass".into()
        });
        out.count(&format!("rt key {}", tok));
        out.line(&format!("J rt key {} {}", hex(t), tok), "ok");
    }
    for t in &sec_forms {
        let tok = guard(|| {
            let k = match DescriptorSecretKey::from_str(t) { Ok(k) => k, Err(e) => return format!("reject:{}", err_class(&e.to_string())) };
            let s = k.to_string();
            let k2 = match DescriptorSecretKey::from_str(&s) { Ok(k) => k, Err(e) => return format!("fail:parse-err:{}", err_class(&e.to_string())) };
            if format!("{:?}", k2) != format!("{:?}", k) { return "fail:structure-differs".into(); }
            if k2 != k { return "fail:lib-eq".into(); }
            if k2.to_string() != s { return "fail:not-fixed-point".into(); }
            "pass".into()
        });
        out.count(&format!("rt seckey {}", tok));
        out.line(&format!("J rt seckey {} {}", hex(t), tok), "ok");
    }
    valid.extend(key_texts.into_iter().take(30));
    valid
}

pub(crate) fn desc_from_text(out: &mut Out, km: &KeyMaterial, kind: &str, t: &str, valid: &mut Vec<String>) {
    match parse_desc(t) {
        Ok(d) => { emit_rt_desc(out, km, kind, &d); if valid.len() < 300 { valid.push(d.to_string()); } }
        Err(e) if e == "PANIC" => out.line(&format!("J nopanic desc-fromstr {} PANIC", hex(t)), "ok"),
        Err(e) => { out.count(&format!("rt {} rejected-input:{}", kind, e)); out.line(&format!("J rt {} {} reject:{}", kind, hex(t), e), "ok"); }
    }
}

/* ------------------------------------------------------------ policies */

fn shape_conc(p: &Concrete<String>) -> String {
    match p {
        Concrete::Unsatisfiable => "U".into(), Concrete::Trivial => "T".into(),
        Concrete::Key(k) => format!("pk[{}]", k),
        Concrete::After(t) => format!("after[{}]", t.to_consensus_u32()),
        Concrete::Older(t) => format!("older[{}]", t.to_consensus_u32()),
        Concrete::Sha256(h) => format!("sha256[{}]", h), Concrete::Hash256(h) => format!("hash256[{}]", h),
        Concrete::Ripemd160(h) => format!("ripemd160[{}]", h), Concrete::Hash160(h) => format!("hash160[{}]", h),
        Concrete::And(v) => format!("and[{}]", v.iter().map(|x| shape_conc(x)).collect::<Vec<_>>().join(";")),
        Concrete::Or(v) => format!("or[{}]", v.iter().map(|(w, x)| format!("{}@{}", w, shape_conc(x))).collect::<Vec<_>>().join(";")),
        Concrete::Thresh(t) => format!("thresh[{};{}]", t.k(), t.iter().map(|x| shape_conc(x)).collect::<Vec<_>>().join(";")),
    }
}
fn shape_sem(p: &Semantic<String>) -> String {
    match p {
        Semantic::Unsatisfiable => "U".into(), Semantic::Trivial => "T".into(),
        Semantic::Key(k) => format!("pk[{}]", k),
        Semantic::After(t) => format!("after[{}]", t.to_consensus_u32()),
        Semantic::Older(t) => format!("older[{}]", t.to_consensus_u32()),
        Semantic::Sha256(h) => format!("sha256[{}]", h), Semantic::Hash256(h) => format!("hash256[{}]", h),
        Semantic::Ripemd160(h) => format!("ripemd160[{}]", h), Semantic::Hash160(h) => format!("hash160[{}]", h),
        Semantic::Thresh(t) => format!("thresh[{};{}]", t.k(), t.iter().map(|x| shape_sem(x)).collect::<Vec<_>>().join(";")),
    }
}

fn conc_leaf(rng: &mut Rng, heights_only: bool) -> Concrete<String> {
    let h32 = "aa".repeat(32); let h20 = "bb".repeat(20);
    match rng.below(9) {
        0 => Concrete::Unsatisfiable, 1 => Concrete::Trivial,
        2 => Concrete::After(AbsLockTime::from_consensus(if heights_only || rng.coin() { 1 + rng.below(400_000) as u32 } else { 500_000_000 + rng.below(1000) as u32 }).unwrap()),
        3 => Concrete::Older(RelLockTime::from_consensus(if heights_only || rng.coin() { 1 + rng.below(65535) as u32 } else { 4_194_305 + rng.below(100) as u32 }).unwrap()),
        4 => Concrete::Sha256(h32), 5 => Concrete::Hash256(h32.replace('a', "c")), 6 => Concrete::Ripemd160(h20), 7 => Concrete::Hash160(h20.replace('b', "d")),
        _ => Concrete::Key(format!("K{}", rng.below(6))),
    }
}
/// shapes the parser produces: binary and/or (with weights), thresh
fn conc_random(rng: &mut Rng, depth: usize) -> Concrete<String> {
    if depth == 0 || rng.below(4) == 0 { return conc_leaf(rng, true); }
    match rng.below(3) {
        0 => Concrete::And(vec![Arc::new(conc_random(rng, depth - 1)), Arc::new(conc_random(rng, depth - 1))]),
        1 => Concrete::Or(vec![(1 + rng.below(9), Arc::new(conc_random(rng, depth - 1))), (1 + rng.below(99), Arc::new(conc_random(rng, depth - 1)))]),
        _ => { let n = 1 + rng.below(4); let k = 1 + rng.below(n);
               Concrete::Thresh(Threshold::new(k, (0..n).map(|_| Arc::new(conc_random(rng, depth - 1))).collect()).unwrap()) }
    }
}
fn sem_random(rng: &mut Rng, depth: usize) -> Semantic<String> {
    if depth == 0 || rng.below(4) == 0 {
        return match conc_leaf(rng, false) {
            Concrete::Unsatisfiable => Semantic::Unsatisfiable, Concrete::Trivial => Semantic::Trivial, Concrete::Key(k) => Semantic::Key(k),
            Concrete::After(t) => Semantic::After(t), Concrete::Older(t) => Semantic::Older(t), Concrete::Sha256(h) => Semantic::Sha256(h),
            Concrete::Hash256(h) => Semantic::Hash256(h), Concrete::Ripemd160(h) => Semantic::Ripemd160(h), Concrete::Hash160(h) => Semantic::Hash160(h),
            _ => Semantic::Trivial,
        };
    }
    // n >= 2 children, any k (k = n prints `and`, k = 1 prints `or`)
    let n = 2 + rng.below(4); let k = 1 + rng.below(n);
    Semantic::Thresh(Threshold::new(k, (0..n).map(|_| Arc::new(sem_random(rng, depth - 1))).collect()).unwrap())
}

fn emit_rt_conc(out: &mut Out, kind: &str, x: &Concrete<String>) {
    let s = x.to_string();
    let tok = guard(|| {
        let y = match Concrete::<String>::from_str(&s) { Ok(y) => y, Err(e) => return format!("fail:parse-err:{}", err_class(&e.to_string())) };
        if shape_conc(&y) != shape_conc(x) { return "fail:structure-differs".into(); }
        if y != *x { return "fail:lib-eq".into(); }
        if y.to_string() != s { return "fail:not-fixed-point".into(); }
        "pass".into()
    });
    out.count(&format!("rt {} {}", kind, tok));
    out.line(&format!("J rt {} {} {}", kind, hex(&s), tok), "ok");
}
fn emit_rt_sem(out: &mut Out, kind: &str, x: &Semantic<String>) {
    let s = x.to_string();
    let tok = guard(|| {
        let y = match Semantic::<String>::from_str(&s) { Ok(y) => y, Err(e) => return format!("fail:parse-err:{}", err_class(&e.to_string())) };
        if shape_sem(&y) != shape_sem(x) { return "fail:structure-differs".into(); }
        if y != *x { return "fail:lib-eq".into(); }
        if y.to_string() != s { return "fail:not-fixed-point".into(); }
        "pass".into()
    });
    out.count(&format!("rt {} {}", kind, tok));
    out.line(&format!("J rt {} {} {}", kind, hex(&s), tok), "ok");
}

fn run_policies(out: &mut Out, thorough: bool, rng: &mut Rng) -> Vec<String> {
    let mut valid = vec![];
    let n = if thorough { 3000 } else { 400 };
    for i in 0..n {
        let c = conc_random(rng, 1 + i % 4);
        if valid.len() < 100 { valid.push(c.to_string()); }
        emit_rt_conc(out, "concrete", &c);
        let s = sem_random(rng, 1 + i % 4);
        if valid.len() < 200 { valid.push(s.to_string()); }
        emit_rt_sem(out, "semantic", &s);
    }
    // unweighted / alias spellings the parser accepts: or(a,b) = or(1@a,1@b)
    for (a, b) in [("or(pk(A),pk(B))", "or(1@pk(A),1@pk(B))"), ("or(3@pk(A),pk(B))", "or(3@pk(A),1@pk(B))"),
                   ("and(pk(A),or(pk(B),older(5)))", "and(pk(A),or(1@pk(B),1@older(5)))")] {
        let tok = guard(|| match (Concrete::<String>::from_str(a), Concrete::<String>::from_str(b)) {
            (Ok(x), Ok(y)) => if shape_conc(&x) == shape_conc(&y) { "pass".into() } else { "fail:spellings-differ".into() },
            _ => "fail:parse-err".to_string(),
        });
        out.line(&format!("J alias concrete {} {} {}", hex(a), hex(b), tok), "ok");
    }
    // shapes that only the API can build (public enum variants / `Threshold::new`)
    let k = |s: &str| Arc::new(Concrete::Key(s.to_string()));
    let api_conc: Vec<Concrete<String>> = vec![
        Concrete::And(vec![k("A")]),
        Concrete::And(vec![k("A"), k("B"), k("C")]),
        Concrete::Or(vec![(1, k("A"))]),
        Concrete::Or(vec![(1, k("A")), (2, k("B")), (3, k("C"))]),
        Concrete::Or(vec![(0, k("A")), (1, k("B"))]),
        // a weight that does not fit the parser's u32, and n-ary And/Or NESTED inside or / thresh
        Concrete::Or(vec![(4294967296usize, k("A")), (1, k("B"))]),
        Concrete::Or(vec![(1, Arc::new(Concrete::And(vec![k("A"), k("B"), k("C")]))), (1, k("D"))]),
        Concrete::Thresh(Threshold::new(2, vec![Arc::new(Concrete::Or(vec![(1, k("A")), (1, k("B")), (1, k("C"))])), k("D"), k("E")]).unwrap()),
        // the largest weight the parser reads
        Concrete::Or(vec![(4294967295usize, k("A")), (1, k("B"))]),
    ];
    for c in &api_conc { emit_rt_conc(out, "concrete-api", c); }
    let sk = |s: &str| Arc::new(Semantic::Key(s.to_string()));
    let api_sem: Vec<Semantic<String>> = vec![
        Semantic::Thresh(Threshold::new(1, vec![sk("A")]).unwrap()),
        Semantic::Thresh(Threshold::new(2, vec![sk("A"), Arc::new(Semantic::Thresh(Threshold::new(1, vec![sk("B")]).unwrap())), sk("C")]).unwrap()),
    ];
    for s in &api_sem { emit_rt_sem(out, "semantic-api", s); }
    // a policy that `from_str` refuses on purpose (time lock mix): excluded from the property, counted
    let mix = Concrete::<String>::And(vec![Arc::new(Concrete::After(AbsLockTime::from_consensus(1).unwrap())), Arc::new(Concrete::After(AbsLockTime::from_consensus(500_000_001).unwrap()))]);
    out.count(&format!("rt concrete excluded-timelock-mix {}", verdict(|| Concrete::<String>::from_str(&mix.to_string()))));
    valid
}

/* ------------------------------------------------------------ wallet policies */

fn run_wallet(out: &mut Out, km: &KeyMaterial) -> Vec<String> {
    let templates = [
        "pkh(@0/**)", "wpkh(@0/**)", "sh(wpkh(@0/**))", "tr(@0/**)", "wsh(multi(2,@0/**,@1/**))", "sh(wsh(sortedmulti(2,@0/**,@1/**,@2/**)))",
        "wsh(sortedmulti(2,@0/<0;1>/*,@1/**))", "tr(@0/**,{pk(@1/**),pk(@2/**)})", "tr(@0/<2;3>/*,pk(@1/<4;7>/*))",
        "wsh(and_v(v:pk(@0/**),or_d(pk(@1/**),older(12960))))", "wsh(or_d(pk(@0/**),and_v(v:pkh(@0/<2;3>/*),older(5))))",
        "sh(multi(1,@0/**,@1/<5;6>/*))", "tr(@0/**,{{pk(@1/**),multi_a(2,@2/**,@3/**)},and_v(v:pk(@4/**),after(100))})",
    ];
    let mut valid = vec![];
    for t in templates {
        let tok = guard(|| {
            let w = match WalletPolicy::from_str(t) { Ok(w) => w, Err(e) => return format!("reject:{}", err_class(&e.to_string())) };
            let s = w.to_string();
            let w2 = match WalletPolicy::from_str(&s) { Ok(w) => w, Err(e) => return format!("fail:parse-err:{}", err_class(&e.to_string())) };
            if format!("{:?}", w2) != format!("{:?}", w) { return "fail:structure-differs".into(); }
            if w2 != w { return "fail:lib-eq".into(); }
            if w2.to_string() != s { return "fail:not-fixed-point".into(); }
            // (`@0/<0;1>/*` is printed in its short form `@0/**`: same object, so `s` may differ from `t`)
            "pass".into()
        });
        out.count(&format!("rt walletpolicy {}", tok));
        out.line(&format!("J rt walletpolicy {} {}", hex(t), tok), "ok"); valid.push(t.to_string());
    }
    // from full descriptors: template text, key information, and back
    let x = |i: usize| format!("[d34db33f/48'/0'/{}']{}", i, km.xpubs[i % km.xpubs.len()]);
    let descs = [
        format!("wpkh({}/<0;1>/*)", x(0)), format!("wsh(multi(2,{}/<0;1>/*,{}/<0;1>/*))", x(0), x(1)),
        format!("tr({}/<0;1>/*,{{pk({}/<0;1>/*),pk({}/<2;3>/*)}})", x(0), x(1), x(2)),
        format!("wsh(or_d(pk({}/<0;1>/*),and_v(v:pkh({}/<2;3>/*),older(5))))", x(0), x(0)),
    ];
    for t in &descs {
        let tok = guard(|| {
            let d = match Descriptor::<DescriptorPublicKey>::from_str(t) { Ok(d) => d, Err(e) => return format!("reject:{}", err_class(&e.to_string())) };
            let w = match WalletPolicy::from_str(t) { Ok(w) => w, Err(e) => return format!("reject:{}", err_class(&e.to_string())) };
            let s = w.to_string();
            let w2 = match WalletPolicy::from_str(&s) { Ok(w) => w, Err(e) => return format!("fail:template-parse-err:{}", err_class(&e.to_string())) };
            if w2.to_string() != s { return "fail:not-fixed-point".into(); }
            match w.clone().into_descriptor() {
                Ok(back) => { if shape_desc(&back) != shape_desc(&d) { return "fail:into-descriptor-differs".into(); } }
                Err(e) => return format!("fail:into-descriptor:{}", err_class(&e.to_string())),
            }
            "pass".into()
        });
        out.count(&format!("rt walletpolicy-desc {}", tok));
        out.line(&format!("J rt walletpolicy-desc {} {}", hex(t), tok), "ok");
    }
    valid
}

/* ------------------------------------------------------------ malformed stream, other parsers */

fn run_malformed_other(out: &mut Out, thorough: bool, rng: &mut Rng, descs: &[String], pols: &[String], wps: &[String], km: &KeyMaterial) {
    let n = if thorough { 20000 } else { 2500 };
    let mut emit = |out: &mut Out, op: &str, m: &str, v: &str, i: usize| {
        out.count(&format!("malformed {} {}", op, v));
        if v == "PANIC" || i % 10 == 0 { out.line(&format!("J nopanic {} {} {}", op, hex(m), v), "ok"); }
    };
    for i in 0..n {
        if !descs.is_empty() {
            let m = mutate(&descs[rng.below(descs.len())], rng);
            let v = verdict(|| Descriptor::<DescriptorPublicKey>::from_str(&m));
            emit(out, "desc-fromstr", &m, v, i);
            if i % 4 == 0 {
                let v = verdict(|| DescriptorPublicKey::from_str(&m)); emit(out, "key-fromstr", &m, v, i);
                let v = verdict(|| Descriptor::parse_descriptor(&km.secp, &m)); emit(out, "parse-descriptor", &m, v, i);
                let v = verdict(|| WalletPolicy::from_str(&m)); emit(out, "walletpolicy-fromstr", &m, v, i);
                let v = verdict(|| Descriptor::<String>::from_str(&m)); emit(out, "desc-string-fromstr", &m, v, i);
            }
        }
        if !pols.is_empty() {
            let m = mutate(&pols[rng.below(pols.len())], rng);
            let v = verdict(|| Concrete::<String>::from_str(&m)); emit(out, "concrete-fromstr", &m, v, i);
            let v = verdict(|| Semantic::<String>::from_str(&m)); emit(out, "semantic-fromstr", &m, v, i);
        }
        if !wps.is_empty() && i % 3 == 0 {
            let m = mutate(&wps[rng.below(wps.len())], rng);
            let v = verdict(|| WalletPolicy::from_str(&m)); emit(out, "walletpolicy-fromstr", &m, v, i);
        }
    }
    // keys: dedicated mutations of key expressions (origin brackets, paths, multipath, wildcards)
    let mut keys: Vec<String> = vec![];
    for i in 0..3 { keys.extend(key_forms(km, i, false, true)); keys.extend(key_forms(km, i, true, false)); }
    keys.push(km.xprvs[0].clone() + "/0'/<1;2>/*h"); keys.push(km.wifs[0].clone());
    for i in 0..n {
        let m = mutate(&keys[rng.below(keys.len())], rng);
        let v = verdict(|| DescriptorPublicKey::from_str(&m)); emit(out, "key-fromstr", &m, v, i);
        let v = verdict(|| DescriptorSecretKey::from_str(&m)); emit(out, "seckey-fromstr", &m, v, i);
        if i % 3 == 0 { let t = format!("wpkh({})", m); let v = verdict(|| Descriptor::<DescriptorPublicKey>::from_str(&t)); emit(out, "desc-fromstr", &t, v, i); }
    }
}

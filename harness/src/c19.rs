//! C19: equality, ordering and hashing are structural and mutually consistent.
//!
//! Objects: `Miniscript<String, Ctx>` in the four contexts (key atom `i` is the string
//! `K%05d`, hash atom `h` a zero-padded hex number, so `Ord` on atoms is the numeric order the
//! Lean model uses; `RawPkH` is a real `hash160::Hash`), built from the neutral AST either
//! through `Miniscript::from_ast` or — for ill-typed neighbours — `from_components_unchecked`
//! (`==`/`cmp`/`hash` never look at the type).
//!
//! Inputs: every enumerated fragment `x` paired with itself (built twice), with every ONE-EDIT
//! NEIGHBOUR (change k; add/remove/duplicate a child of thresh / a key of multi…; change one
//! leaf key/hash/lock; sorted↔unsorted multi; pk_k↔pk_h; swap/rotate children; swap the
//! combinator; add/remove/swap a wrapper; sugar forms t:/l:/u:/and_n) and with random other
//! fragments; triples from the same pool.
//!   C mseq / mscmp / mshash / msclone     the Lean model answers the same question
//!   J eqstruct / ordlaws / cloneeq        the specification judges the library's answers
//! Everything runs under `catch_unwind` (`PANIC` is an answer).
//!
//! (History: before the fixes e7035cf1 / 150fe1e9 the thresh-k, thresh-arity and multi-arity
//! neighbours failed; their canonical witnesses are now fixed regression inputs.)
//!
//! A pair that FAILS the judge is shrunk (descend to the differing child, drop / replace common
//! children by canonical leaves, lower k, renumber keys, all while it keeps failing on the real
//! library with well-typed objects) and the J line is written for the shrunk pair, so that
//! `known_findings.txt` entries are seed-independent.  The judge itself is the Lean driver.
//!
//! Descriptor / policy level: `Descriptor<DescriptorPublicKey>`-free, string-built
//! `Descriptor<String>`, `Tr<String>` (with and without the spend-info cache filled),
//! `policy::Concrete<String>`, `policy::Semantic<String>`: J eqstruct / ordlaws / cloneeq with
//! the canonical string as the structural identity.
use std::collections::{BTreeMap, BTreeSet};
use std::hash::{Hash, Hasher};
use std::panic::{catch_unwind, AssertUnwindSafe};
use std::str::FromStr;
use std::sync::Arc;

use miniscript::miniscript::types::{ExtData, Type};
use miniscript::policy::{Concrete, Semantic};
use miniscript::{
    AbsLockTime, BareCtx, Descriptor, Legacy, Miniscript, RelLockTime, ScriptContext, Segwitv0, Tap,
    Terminal, Threshold,
};

use crate::ast::{self, CtxK, Node, HK};
use crate::common::{Out, Rng};

#[path = "c19x.rs"]
mod c19x;

/* ------------------------------------------------------------ construction (String keys) */

fn key_str(k: u32) -> String { format!("K{:05}", k) }
fn hash_str(kind: HK, h: u32) -> String {
    match kind {
        HK::Sha256 | HK::Hash256 => format!("{:064x}", h),
        HK::Ripemd160 | HK::Hash160 => format!("{:040x}", h),
    }
}
fn key_id(s: &str) -> u32 { s[1..].parse().unwrap() }
fn hash_id(s: &str) -> u32 { u32::from_str_radix(&s[s.len() - 8..], 16).unwrap() }

type SMs<Ctx> = Miniscript<String, Ctx>;

/// `strict`: every node through `from_ast`; otherwise an ill-typed node falls back to
/// `from_components_unchecked` with a dummy type.
fn build<Ctx: ScriptContext>(n: &Node, strict: bool) -> Option<SMs<Ctx>> {
    use Node::*;
    let sub = |x: &Node| -> Option<Arc<SMs<Ctx>>> { Some(Arc::new(build::<Ctx>(x, strict)?)) };
    let keys = |v: &Vec<u32>| -> Vec<String> { v.iter().map(|k| key_str(*k)).collect() };
    let t: Terminal<String, Ctx> = match n {
        True => Terminal::True,
        False => Terminal::False,
        PkK(k) => Terminal::PkK(key_str(*k)),
        PkH(k) => Terminal::PkH(key_str(*k)),
        RawPkH(h) => Terminal::RawPkH(ast::raw_pkh(*h)),
        After(n) => Terminal::After(AbsLockTime::from_consensus(*n).ok()?),
        Older(n) => Terminal::Older(RelLockTime::from_consensus(*n).ok()?),
        Hash(HK::Sha256, h) => Terminal::Sha256(hash_str(HK::Sha256, *h)),
        Hash(HK::Hash256, h) => Terminal::Hash256(hash_str(HK::Hash256, *h)),
        Hash(HK::Ripemd160, h) => Terminal::Ripemd160(hash_str(HK::Ripemd160, *h)),
        Hash(HK::Hash160, h) => Terminal::Hash160(hash_str(HK::Hash160, *h)),
        Alt(x) => Terminal::Alt(sub(x)?),
        Swap(x) => Terminal::Swap(sub(x)?),
        Check(x) => Terminal::Check(sub(x)?),
        DupIf(x) => Terminal::DupIf(sub(x)?),
        Verify(x) => Terminal::Verify(sub(x)?),
        NonZero(x) => Terminal::NonZero(sub(x)?),
        ZeroNotEqual(x) => Terminal::ZeroNotEqual(sub(x)?),
        AndV(a, b) => Terminal::AndV(sub(a)?, sub(b)?),
        AndB(a, b) => Terminal::AndB(sub(a)?, sub(b)?),
        AndOr(a, b, c) => Terminal::AndOr(sub(a)?, sub(b)?, sub(c)?),
        OrB(a, b) => Terminal::OrB(sub(a)?, sub(b)?),
        OrD(a, b) => Terminal::OrD(sub(a)?, sub(b)?),
        OrC(a, b) => Terminal::OrC(sub(a)?, sub(b)?),
        OrI(a, b) => Terminal::OrI(sub(a)?, sub(b)?),
        Thresh(k, xs) => {
            let mut v = Vec::with_capacity(xs.len());
            for x in xs { v.push(sub(x)?); }
            Terminal::Thresh(Threshold::new(*k, v).ok()?)
        }
        Multi(k, v) => Terminal::Multi(Threshold::new(*k, keys(v)).ok()?),
        SortedMulti(k, v) => Terminal::SortedMulti(Threshold::new(*k, keys(v)).ok()?),
        MultiA(k, v) => Terminal::MultiA(Threshold::new(*k, keys(v)).ok()?),
        SortedMultiA(k, v) => Terminal::SortedMultiA(Threshold::new(*k, keys(v)).ok()?),
    };
    // `from_ast` consumes the terminal; build it again for the fallback only if needed
    match catch_unwind(AssertUnwindSafe(|| Miniscript::from_ast(t.clone()))) {
        Ok(Ok(ms)) => Some(ms),
        _ if strict => None,
        _ => Some(Miniscript::from_components_unchecked(t, Type::FALSE, ExtData::FALSE)),
    }
}

fn raw_table() -> &'static BTreeMap<Vec<u8>, u32> {
    use miniscript::bitcoin::hashes::Hash as _;
    static T: std::sync::OnceLock<BTreeMap<Vec<u8>, u32>> = std::sync::OnceLock::new();
    T.get_or_init(|| (0..10).chain(100..110).chain(200..210).map(|h| (ast::raw_pkh(h).to_byte_array().to_vec(), h)).collect())
}

/// back to the neutral AST
fn unbuild<Ctx: ScriptContext>(ms: &SMs<Ctx>) -> Node {
    use miniscript::bitcoin::hashes::Hash as _;
    let b = |x: &Arc<SMs<Ctx>>| Box::new(unbuild::<Ctx>(x));
    let ks = |t: &[String]| -> Vec<u32> { t.iter().map(|k| key_id(k)).collect() };
    match &ms.node {
        Terminal::True => Node::True,
        Terminal::False => Node::False,
        Terminal::PkK(k) => Node::PkK(key_id(k)),
        Terminal::PkH(k) => Node::PkH(key_id(k)),
        Terminal::RawPkH(h) => Node::RawPkH(*raw_table().get(&h.to_byte_array().to_vec()).unwrap_or(&9999)),
        Terminal::After(n) => Node::After(n.to_consensus_u32()),
        Terminal::Older(n) => Node::Older(n.to_consensus_u32()),
        Terminal::Sha256(h) => Node::Hash(HK::Sha256, hash_id(h)),
        Terminal::Hash256(h) => Node::Hash(HK::Hash256, hash_id(h)),
        Terminal::Ripemd160(h) => Node::Hash(HK::Ripemd160, hash_id(h)),
        Terminal::Hash160(h) => Node::Hash(HK::Hash160, hash_id(h)),
        Terminal::Alt(x) => Node::Alt(b(x)),
        Terminal::Swap(x) => Node::Swap(b(x)),
        Terminal::Check(x) => Node::Check(b(x)),
        Terminal::DupIf(x) => Node::DupIf(b(x)),
        Terminal::Verify(x) => Node::Verify(b(x)),
        Terminal::NonZero(x) => Node::NonZero(b(x)),
        Terminal::ZeroNotEqual(x) => Node::ZeroNotEqual(b(x)),
        Terminal::AndV(x, y) => Node::AndV(b(x), b(y)),
        Terminal::AndB(x, y) => Node::AndB(b(x), b(y)),
        Terminal::AndOr(x, y, z) => Node::AndOr(b(x), b(y), b(z)),
        Terminal::OrB(x, y) => Node::OrB(b(x), b(y)),
        Terminal::OrD(x, y) => Node::OrD(b(x), b(y)),
        Terminal::OrC(x, y) => Node::OrC(b(x), b(y)),
        Terminal::OrI(x, y) => Node::OrI(b(x), b(y)),
        Terminal::Thresh(t) => Node::Thresh(t.k(), t.data().iter().map(|x| unbuild::<Ctx>(x)).collect()),
        Terminal::Multi(t) => Node::Multi(t.k(), ks(t.data())),
        Terminal::SortedMulti(t) => Node::SortedMulti(t.k(), ks(t.data())),
        Terminal::MultiA(t) => Node::MultiA(t.k(), ks(t.data())),
        Terminal::SortedMultiA(t) => Node::SortedMultiA(t.k(), ks(t.data())),
    }
}

/* ------------------------------------------------------------ observations on the library */

#[allow(deprecated)]
fn sip<T: Hash>(x: &T, k0: u64, k1: u64) -> u64 {
    let mut s = std::hash::SipHasher::new_with_keys(k0, k1);
    x.hash(&mut s);
    s.finish()
}
fn hash_same<T: Hash>(a: &T, b: &T) -> bool {
    sip(a, 0x0123456789abcdef, 0xfedcba9876543210) == sip(b, 0x0123456789abcdef, 0xfedcba9876543210)
        && sip(a, 7, 11) == sip(b, 7, 11)
}
fn ord_str(o: std::cmp::Ordering) -> &'static str {
    match o { std::cmp::Ordering::Less => "lt", std::cmp::Ordering::Equal => "eq", std::cmp::Ordering::Greater => "gt" }
}
fn guarded<R>(f: impl FnOnce() -> R) -> Option<R> { catch_unwind(AssertUnwindSafe(f)).ok() }

/// what the library says about a pair
#[derive(Clone, Debug)]
struct Obs { eq: String, cmp: String, hash: String, disp: String, pc: String }

fn observe<T: Eq + Ord + Hash + ToString>(a: &T, b: &T) -> Obs { observe_with(a, b, &|a, b| hash_same(a, b)) }

fn observe_with<T: Eq + Ord + ToString>(a: &T, b: &T, hash_same: &dyn Fn(&T, &T) -> bool) -> Obs {
    Obs {
        eq: guarded(|| if a == b { "1" } else { "0" }).unwrap_or("PANIC").to_string(),
        cmp: guarded(|| ord_str(a.cmp(b))).unwrap_or("PANIC").to_string(),
        hash: guarded(|| if hash_same(a, b) { "same" } else { "diff" }).unwrap_or("PANIC").to_string(),
        disp: guarded(|| if a.to_string() == b.to_string() { "1" } else { "0" }).unwrap_or("PANIC").to_string(),
        // `PartialOrd`: partial_cmp and the four operators `<`, `<=`, `>`, `>=`
        pc: guarded(|| {
            let b01 = |x: bool| if x { '1' } else { '0' };
            let pc = match a.partial_cmp(b) { Some(o) => ord_str(o), None => "none" };
            format!("{}/{}{}{}{}", pc, b01(a < b), b01(a <= b), b01(a > b), b01(a >= b))
        }).unwrap_or("PANIC".to_string()),
    }
}

/// the judge's predicate (mirror of `J eqstruct` in Driver/OpsCmp.lean), used ONLY to decide
/// whether a pair is to be shrunk before it is handed to the real judge
fn pair_ok(same: bool, o: &Obs) -> bool {
    let eq = o.eq == "1";
    ["lt", "eq", "gt"].contains(&o.cmp.as_str())
        && (o.eq == "1" || o.eq == "0")
        && eq == same
        && (o.cmp == "eq") == eq
        && (!eq || o.hash == "same")
        && (o.disp == "1") == eq
        && o.pc == match o.cmp.as_str() { "lt" => "lt/1100", "eq" => "eq/0101", _ => "gt/0011" }
}

fn obs_nodes<Ctx: ScriptContext>(a: &Node, b: &Node, strict: bool) -> Option<Obs> {
    let x = build::<Ctx>(a, strict)?;
    let y = build::<Ctx>(b, strict)?;
    Some(observe(&x, &y))
}

macro_rules! with_sctx {
    ($ctx:expr, $f:ident ( $($arg:expr),* )) => {
        match $ctx {
            CtxK::Bare => $f::<BareCtx>($($arg),*),
            CtxK::Legacy => $f::<Legacy>($($arg),*),
            CtxK::Segwitv0 => $f::<Segwitv0>($($arg),*),
            CtxK::Tap => $f::<Tap>($($arg),*),
        }
    };
}

fn obs_ctx(ctx: CtxK, a: &Node, b: &Node, strict: bool) -> Option<Obs> { with_sctx!(ctx, obs_nodes(a, b, strict)) }

/* ------------------------------------------------------------ one-edit neighbours */

fn children(n: &Node) -> Vec<Node> {
    use Node::*;
    match n {
        Alt(x) | Swap(x) | Check(x) | DupIf(x) | Verify(x) | NonZero(x) | ZeroNotEqual(x) => vec![(**x).clone()],
        AndV(a, b) | AndB(a, b) | OrB(a, b) | OrD(a, b) | OrC(a, b) | OrI(a, b) => vec![(**a).clone(), (**b).clone()],
        AndOr(a, b, c) => vec![(**a).clone(), (**b).clone(), (**c).clone()],
        Thresh(_, xs) => xs.clone(),
        _ => vec![],
    }
}
/// same constructor (and k) with other children; `cs.len()` must fit (any length for thresh)
fn with_children(n: &Node, cs: Vec<Node>) -> Node {
    use Node::*;
    let b = |i: usize| Box::new(cs[i].clone());
    match n {
        Alt(_) => Alt(b(0)), Swap(_) => Swap(b(0)), Check(_) => Check(b(0)), DupIf(_) => DupIf(b(0)),
        Verify(_) => Verify(b(0)), NonZero(_) => NonZero(b(0)), ZeroNotEqual(_) => ZeroNotEqual(b(0)),
        AndV(..) => AndV(b(0), b(1)), AndB(..) => AndB(b(0), b(1)), OrB(..) => OrB(b(0), b(1)),
        OrD(..) => OrD(b(0), b(1)), OrC(..) => OrC(b(0), b(1)), OrI(..) => OrI(b(0), b(1)),
        AndOr(..) => AndOr(b(0), b(1), b(2)),
        Thresh(k, _) => Thresh(*k, cs),
        other => other.clone(),
    }
}

fn pk(k: u32) -> Node { Node::Check(Box::new(Node::PkK(k))) }
fn spk(k: u32) -> Node { Node::Swap(Box::new(pk(k))) }

/// edits applied at the root only
fn root_edits(n: &Node, base_key: u32) -> Vec<(&'static str, Node)> {
    use Node::*;
    let mut v: Vec<(&'static str, Node)> = vec![];
    let bx = |x: &Node| Box::new(x.clone());
    let other_key = |k: u32| k / 100 * 100 + (k % 100 + 1) % 10;
    match n {
        True => v.push(("leaf", False)),
        False => v.push(("leaf", True)),
        PkK(k) => { v.push(("key", PkK(other_key(*k)))); v.push(("leafkind", PkH(*k))); }
        PkH(k) => { v.push(("key", PkH(other_key(*k)))); v.push(("leafkind", PkK(*k))); }
        RawPkH(h) => v.push(("rawpkh", RawPkH(h / 100 * 100 + (h % 100 + 1) % 4))),
        After(t) => {
            v.push(("lock", After(t + 1))); v.push(("leafkind", Older((*t).min(65535).max(1))));
            // single-bit neighbours: every bit of the u32 matters to ==, cmp and hash alike,
            // whatever consensus makes of it (unit threshold 500000000, BIP68 masks)
            for b in [0u32, 7, 8, 15, 16, 21, 22, 23, 28, 29, 30] {
                let t2 = t ^ (1 << b);
                if t2 >= 1 && t2 < (1 << 31) { v.push(("lockbit", After(t2))); }
            }
            if *t < 500_000_000 { v.push(("lockunit", After(t + 500_000_000))); }
        }
        Older(t) => {
            v.push(("lock", Older(t + 1))); v.push(("leafkind", After(*t)));
            for b in [0u32, 7, 8, 15, 16, 21, 22, 23, 28, 29, 30] {
                let t2 = t ^ (1 << b);
                if t2 >= 1 && t2 < (1 << 31) { v.push(("lockbit", Older(t2))); }
            }
        }
        Hash(kind, h) => {
            v.push(("hash", Hash(*kind, (h + 1) % 4)));
            let k2 = match kind { HK::Sha256 => HK::Hash256, HK::Hash256 => HK::Sha256, HK::Ripemd160 => HK::Hash160, HK::Hash160 => HK::Ripemd160 };
            v.push(("hashkind", Hash(k2, *h)));
        }
        Alt(x) | Swap(x) | Check(x) | DupIf(x) | Verify(x) | NonZero(x) | ZeroNotEqual(x) => {
            v.push(("unwrap", (**x).clone()));
            for (nm, w) in [("w:a", Alt(bx(x))), ("w:s", Swap(bx(x))), ("w:c", Check(bx(x))), ("w:d", DupIf(bx(x))),
                            ("w:v", Verify(bx(x))), ("w:j", NonZero(bx(x))), ("w:n", ZeroNotEqual(bx(x)))] {
                if &w != n { v.push((nm, w)); }
            }
            // sugar neighbours of a unary wrapper: t:X, l:X, u:X
            v.push(("sugar:t", AndV(bx(x), Box::new(True))));
            v.push(("sugar:l", OrI(Box::new(False), bx(x))));
            v.push(("sugar:u", OrI(bx(x), Box::new(False))));
        }
        AndV(a, b) | AndB(a, b) | OrB(a, b) | OrD(a, b) | OrC(a, b) | OrI(a, b) => {
            for (nm, w) in [("bin:and_v", AndV(bx(a), bx(b))), ("bin:and_b", AndB(bx(a), bx(b))), ("bin:or_b", OrB(bx(a), bx(b))),
                            ("bin:or_d", OrD(bx(a), bx(b))), ("bin:or_c", OrC(bx(a), bx(b))), ("bin:or_i", OrI(bx(a), bx(b)))] {
                if &w != n { v.push((nm, w)); }
            }
            if a != b { v.push(("swapkids", with_children(n, vec![(**b).clone(), (**a).clone()]))); }
            v.push(("hoist", (**a).clone()));
            v.push(("hoist", (**b).clone()));
            v.push(("sugar:andor", AndOr(bx(a), bx(b), Box::new(False))));
            // sugar: second child replaced by the constant that turns the node into t: / u: / l:
            v.push(("sugar:const", with_children(n, vec![(**a).clone(), True])));
            v.push(("sugar:const", with_children(n, vec![(**a).clone(), False])));
            v.push(("sugar:const", with_children(n, vec![False, (**b).clone()])));
        }
        AndOr(a, b, c) => {
            v.push(("rot", AndOr(bx(b), bx(c), bx(a))));
            v.push(("swapkids", AndOr(bx(a), bx(c), bx(b))));
            v.push(("sugar:and_n", AndOr(bx(a), bx(b), Box::new(False))));
            v.push(("arity", AndV(bx(a), bx(b))));
            v.push(("arity", AndB(bx(a), bx(b))));
        }
        Thresh(k, xs) => {
            let n_ = xs.len();
            if *k > 1 { v.push(("thresh-k", Thresh(k - 1, xs.clone()))); }
            if *k < n_ { v.push(("thresh-k", Thresh(k + 1, xs.clone()))); }
            if n_ >= 2 && *k <= n_ - 1 {
                let mut a = xs.clone(); a.pop(); v.push(("thresh-n", Thresh(*k, a)));
                let mut a = xs.clone(); a.remove(0); v.push(("thresh-n", Thresh(*k, a)));
                if n_ >= 3 { let mut a = xs.clone(); a.remove(1); v.push(("thresh-n", Thresh(*k, a))); }
            }
            let mut a = xs.clone(); a.push(spk(base_key + 9)); v.push(("thresh-n", Thresh(*k, a)));
            let mut a = xs.clone(); a.push(xs[n_ - 1].clone()); v.push(("thresh-n", Thresh(*k, a)));
            let mut a = xs.clone(); a.insert(0, pk(base_key + 9)); v.push(("thresh-n", Thresh(*k, a)));
            if n_ >= 2 && xs[0] != xs[n_ - 1] { let mut a = xs.clone(); a.swap(0, n_ - 1); v.push(("swapkids", Thresh(*k, a))); }
        }
        Multi(k, ks) | SortedMulti(k, ks) | MultiA(k, ks) | SortedMultiA(k, ks) => {
            let mk = |k: usize, ks: Vec<u32>| match n {
                Multi(..) => Multi(k, ks), SortedMulti(..) => SortedMulti(k, ks),
                MultiA(..) => MultiA(k, ks), _ => SortedMultiA(k, ks),
            };
            let n_ = ks.len();
            if *k > 1 { v.push(("multi-k", mk(k - 1, ks.clone()))); }
            if *k < n_ { v.push(("multi-k", mk(k + 1, ks.clone()))); }
            if n_ >= 2 && *k <= n_ - 1 {
                let mut a = ks.clone(); a.pop(); v.push(("multi-n", mk(*k, a)));
                let mut a = ks.clone(); a.remove(0); v.push(("multi-n", mk(*k, a)));
            }
            let mut a = ks.clone(); a.push(base_key + 9); v.push(("multi-n", mk(*k, a)));
            let mut a = ks.clone(); a.push(ks[n_ - 1]); v.push(("multi-n", mk(*k, a)));
            let mut a = ks.clone(); a[0] = other_key(a[0]); v.push(("key", mk(*k, a)));
            let mut a = ks.clone(); a[n_ - 1] = base_key + 8; v.push(("key", mk(*k, a)));
            if n_ >= 2 && ks[0] != ks[n_ - 1] { let mut a = ks.clone(); a.swap(0, n_ - 1); v.push(("swapkeys", mk(*k, a))); }
            v.push(("sorted", match n {
                Multi(..) => SortedMulti(*k, ks.clone()), SortedMulti(..) => Multi(*k, ks.clone()),
                MultiA(..) => SortedMultiA(*k, ks.clone()), _ => MultiA(*k, ks.clone()),
            }));
            v.push(("multikind", match n {
                Multi(..) => MultiA(*k, ks.clone()), SortedMulti(..) => SortedMultiA(*k, ks.clone()),
                MultiA(..) => Multi(*k, ks.clone()), _ => SortedMulti(*k, ks.clone()),
            }));
        }
    }
    // any node: wrap it
    v.push(("wrap", Alt(bx(n))));
    v.push(("wrap", ZeroNotEqual(bx(n))));
    v
}

/// all one-edit neighbours (an edit at the root or at exactly one descendant)
fn neighbours(n: &Node, base_key: u32) -> Vec<(&'static str, Node)> {
    let mut v = root_edits(n, base_key);
    let cs = children(n);
    for (i, c) in cs.iter().enumerate() {
        for (nm, c2) in neighbours(c, base_key) {
            let mut cs2 = cs.clone();
            cs2[i] = c2;
            v.push((nm, with_children(n, cs2)));
        }
    }
    v
}

/* ------------------------------------------------------------ shrinking of failing pairs */

/// does the pair fail the judge's predicate on the real library?  `strict`: both objects must be
/// buildable through `from_ast` at every node (well-typed, legal in the context)
fn pair_fails(ctx: CtxK, a: &Node, b: &Node, strict: bool) -> bool {
    match obs_ctx(ctx, a, b, strict) {
        Some(o) => !pair_ok(a == b, &o),
        None => false,
    }
}

fn canon_leaves(base: u32) -> Vec<Node> {
    vec![pk(base), spk(base), Node::Verify(Box::new(pk(base))), Node::PkK(base), spk(base + 1), Node::True, Node::False]
}

fn multi_parts(n: &Node) -> Option<(u8, usize, Vec<u32>)> {
    match n {
        Node::Multi(k, v) => Some((0, *k, v.clone())), Node::SortedMulti(k, v) => Some((1, *k, v.clone())),
        Node::MultiA(k, v) => Some((2, *k, v.clone())), Node::SortedMultiA(k, v) => Some((3, *k, v.clone())),
        _ => None,
    }
}
fn mk_multi(kind: u8, k: usize, v: Vec<u32>) -> Node {
    match kind { 0 => Node::Multi(k, v), 1 => Node::SortedMulti(k, v), 2 => Node::MultiA(k, v), _ => Node::SortedMultiA(k, v) }
}

/// greedy shrinking; every accepted step keeps the pair failing
fn shrink_pair(ctx: CtxK, a0: &Node, b0: &Node) -> (CtxK, Node, Node) {
    use Node::*;
    let base = if ctx == CtxK::Tap { 200 } else { 0 };
    let (mut a, mut b) = (a0.clone(), b0.clone());
    let strict = pair_fails(ctx, &a, &b, true);
    if !strict && !pair_fails(ctx, &a, &b, false) { return (ctx, a, b); }
    let fails = |x: &Node, y: &Node| pair_fails(ctx, x, y, strict);
    let canon_kids = |n: usize| -> Vec<Node> { (0..n).map(|i| if i == 0 { pk(base) } else { spk(base + i as u32) }).collect() };
    let mut rounds = 0;
    'main: loop {
        rounds += 1;
        if rounds > 300 { break; }
        // 1. descend into a differing child whose pair fails on its own
        let (ca, cb) = (children(&a), children(&b));
        if std::mem::discriminant(&a) == std::mem::discriminant(&b) && ca.len() == cb.len() {
            for i in 0..ca.len() {
                if ca[i] != cb[i] && fails(&ca[i], &cb[i]) { a = ca[i].clone(); b = cb[i].clone(); continue 'main; }
            }
        }
        // 2. two thresholds: canonical children, fewer children, smaller k
        if let (Thresh(ka, xa), Thresh(kb, xb)) = (a.clone(), b.clone()) {
            let mut cands: Vec<(Node, Node)> = vec![];
            if xa.len() > 1 && xb.len() > 1 {
                cands.push((Thresh(ka.min(xa.len() - 1), xa[..xa.len() - 1].to_vec()), Thresh(kb.min(xb.len() - 1), xb[..xb.len() - 1].to_vec())));
                cands.push((Thresh(ka.min(xa.len() - 1), xa[1..].to_vec()), Thresh(kb.min(xb.len() - 1), xb[1..].to_vec())));
            }
            if xa.len() > xb.len() + 1 { cands.push((Thresh(ka.min(xa.len() - 1), xa[..xa.len() - 1].to_vec()), b.clone())); }
            if xb.len() > xa.len() + 1 { cands.push((a.clone(), Thresh(kb.min(xb.len() - 1), xb[..xb.len() - 1].to_vec()))); }
            if ka > 1 && kb > 1 { cands.push((Thresh(ka - 1, xa.clone()), Thresh(kb - 1, xb.clone()))); }
            if ka != kb && xa.len() != xb.len() {
                if ka <= xb.len() { cands.push((a.clone(), Thresh(ka, xb.clone()))); }
                if kb <= xa.len() { cands.push((Thresh(kb, xa.clone()), b.clone())); }
            }
            cands.push((Thresh(ka, canon_kids(xa.len())), Thresh(kb, canon_kids(xb.len()))));
            for (na, nb) in cands {
                if (na.clone(), nb.clone()) != (a.clone(), b.clone()) && fails(&na, &nb) {
                    a = na; b = nb; continue 'main;
                }
            }
        }
        // 3. two key thresholds of the same kind: canonical keys, fewer keys, smaller k
        if let (Some((kind, ka, xa)), Some((kind2, kb, xb))) = (multi_parts(&a), multi_parts(&b)) {
            if kind == kind2 {
                let mut cands: Vec<(Node, Node)> = vec![];
                if xa.len() > 1 && xb.len() > 1 {
                    cands.push((mk_multi(kind, ka.min(xa.len() - 1), xa[..xa.len() - 1].to_vec()), mk_multi(kind, kb.min(xb.len() - 1), xb[..xb.len() - 1].to_vec())));
                    cands.push((mk_multi(kind, ka.min(xa.len() - 1), xa[1..].to_vec()), mk_multi(kind, kb.min(xb.len() - 1), xb[1..].to_vec())));
                }
                if xa.len() > xb.len() + 1 { cands.push((mk_multi(kind, ka.min(xa.len() - 1), xa[..xa.len() - 1].to_vec()), b.clone())); }
                if xb.len() > xa.len() + 1 { cands.push((a.clone(), mk_multi(kind, kb.min(xb.len() - 1), xb[..xb.len() - 1].to_vec()))); }
                if ka > 1 && kb > 1 { cands.push((mk_multi(kind, ka - 1, xa.clone()), mk_multi(kind, kb - 1, xb.clone()))); }
                if ka != kb && xa.len() != xb.len() {
                    if ka <= xb.len() { cands.push((a.clone(), mk_multi(kind, ka, xb.clone()))); }
                    if kb <= xa.len() { cands.push((mk_multi(kind, kb, xa.clone()), b.clone())); }
                }
                cands.push((mk_multi(kind, ka, (base..base + xa.len() as u32).collect()), mk_multi(kind, kb, (base..base + xb.len() as u32).collect())));
                for (na, nb) in cands {
                    if (na.clone(), nb.clone()) != (a.clone(), b.clone()) && fails(&na, &nb) {
                        let smaller = na.wire().len() + nb.wire().len() < a.wire().len() + b.wire().len()
                            || (na.wire().len() + nb.wire().len() == a.wire().len() + b.wire().len() && (na.wire(), nb.wire()) < (a.wire(), b.wire()));
                        if smaller { a = na; b = nb; continue 'main; }
                    }
                }
            }
        }
        // 4. replace children by canonical leaves (both sides, or one side)
        if matches!((&a, &b), (Thresh(..), Thresh(..))) { break; }
        let (ca, cb) = (children(&a), children(&b));
        for i in 0..ca.len().max(cb.len()) {
            for leaf in canon_leaves(base) {
                let mut tries: Vec<(Node, Node)> = vec![];
                if i < ca.len() && i < cb.len() && (leaf.size() < ca[i].size() || leaf.size() < cb[i].size()) {
                    let mut ya = ca.clone(); ya[i] = leaf.clone();
                    let mut yb = cb.clone(); yb[i] = leaf.clone();
                    tries.push((with_children(&a, ya), with_children(&b, yb)));
                }
                if i < ca.len() && leaf.size() < ca[i].size() {
                    let mut ya = ca.clone(); ya[i] = leaf.clone();
                    tries.push((with_children(&a, ya), b.clone()));
                }
                if i < cb.len() && leaf.size() < cb[i].size() {
                    let mut yb = cb.clone(); yb[i] = leaf.clone();
                    tries.push((a.clone(), with_children(&b, yb)));
                }
                for (na, nb) in tries {
                    if fails(&na, &nb) { a = na; b = nb; continue 'main; }
                }
            }
        }
        break;
    }
    // canonical orientation and context
    if (b.size(), b.wire()) < (a.size(), a.wire()) && fails(&b, &a) { std::mem::swap(&mut a, &mut b); }
    for c2 in [CtxK::Segwitv0, CtxK::Tap] {
        if c2 == ctx { break; }
        // the same pair with this context's key ids
        let shift = |n: &Node| -> Node {
            fn go(n: &Node, from: u32, to: u32) -> Node {
                use Node::*;
                let f = |v: &Vec<u32>| v.iter().map(|k| k - from + to).collect::<Vec<_>>();
                match n {
                    PkK(k) => PkK(k - from + to), PkH(k) => PkH(k - from + to),
                    Multi(k, v) => Multi(*k, f(v)), SortedMulti(k, v) => SortedMulti(*k, f(v)),
                    MultiA(k, v) => MultiA(*k, f(v)), SortedMultiA(k, v) => SortedMultiA(*k, f(v)),
                    other => with_children(other, children(other).iter().map(|c| go(c, from, to)).collect()),
                }
            }
            let mut ks = vec![]; n.keys(&mut ks);
            if ks.iter().all(|k| *k >= base && *k < base + 100) { go(n, base, if c2 == CtxK::Tap { 200 } else { 0 }) } else { n.clone() }
        };
        let (sa, sb) = (shift(&a), shift(&b));
        if pair_fails(c2, &sa, &sb, true) { return (c2, sa, sb); }
    }
    (ctx, a, b)
}

/* ------------------------------------------------------------ emission */

struct Emit<'a> {
    out: &'a mut Out,
    seen_shrunk: BTreeSet<String>,
}

fn emit_pair(e: &mut Emit, ctx: CtxK, a: &Node, b: &Node, tag: &str) {
    let Some(o) = obs_ctx(ctx, a, b, false) else { e.out.count("pair unbuildable"); return };
    let (wa, wb) = (a.wire(), b.wire());
    let c = ctx.name();
    e.out.count(&format!("pair {}", tag));
    e.out.line(&format!("C mseq {} {} {}", c, wa, wb), &o.eq);
    e.out.line(&format!("C mscmp {} {} {}", c, wa, wb), &o.cmp);
    e.out.line(&format!("C mshash {} {} {}", c, wa, wb), &o.hash);
    if pair_ok(a == b, &o) {
        e.out.line(&format!("J eqstruct {} {} {} {} {} {} {} {}", c, wa, wb, o.eq, o.cmp, o.hash, o.disp, o.pc), "ok");
    } else {
        e.out.count(&format!("pair-fails {}", tag));
        // shrink (with well-typed objects whenever the pair itself is well-typed)
        let (sc, sa, sb) = shrink_pair(ctx, a, b);
        let (sc, sa, sb, so) = match obs_ctx(sc, &sa, &sb, false) {
            Some(so) if !pair_ok(sa == sb, &so) => (sc, sa, sb, so),
            _ => (ctx, a.clone(), b.clone(), o.clone()),
        };
        let key = format!("{} {} {}", sc.name(), sa.wire(), sb.wire());
        if e.seen_shrunk.insert(key.clone()) {
            e.out.line(&format!("J eqstruct {} {} {} {} {} {}", key, so.eq, so.cmp, so.hash, so.disp, so.pc), "ok");
        }
    }
}

fn cmp_nodes<Ctx: ScriptContext>(a: &Node, b: &Node) -> String {
    match (build::<Ctx>(a, false), build::<Ctx>(b, false)) {
        (Some(x), Some(y)) => guarded(|| ord_str(x.cmp(&y))).unwrap_or("PANIC").to_string(),
        _ => "UNBUILDABLE".into(),
    }
}
fn cmp_ctx(ctx: CtxK, a: &Node, b: &Node) -> String { with_sctx!(ctx, cmp_nodes(a, b)) }

fn emit_triple(e: &mut Emit, ctx: CtxK, a: &Node, b: &Node, c: &Node) {
    // a triple containing a pair that fails on its own is reported through that (shrunk) pair
    for (x, y) in [(a, b), (b, c), (a, c)] {
        if let Some(o) = obs_ctx(ctx, x, y, false) {
            if !pair_ok(x == y, &o) { emit_pair(e, ctx, x, y, "from-triple"); return; }
        } else { return; }
    }
    let (ab, bc, ac, ba) = (cmp_ctx(ctx, a, b), cmp_ctx(ctx, b, c), cmp_ctx(ctx, a, c), cmp_ctx(ctx, b, a));
    e.out.count("triple");
    e.out.line(&format!("J ordlaws {} {} {} {} {} {} {} {}", ctx.name(), a.wire(), b.wire(), c.wire(), ab, bc, ac, ba), "ok");
}

fn clone_node<Ctx: ScriptContext>(a: &Node) -> Option<(String, String)> {
    let x = build::<Ctx>(a, false)?;
    Some(match guarded(|| { let y = x.clone(); (unbuild::<Ctx>(&y).wire(), if y == x { "1" } else { "0" }) }) {
        Some((w, eq)) => (w, eq.to_string()),
        None => ("PANIC".into(), "PANIC".into()),
    })
}
/// `==` / `cmp` / `hash` "depend only on the node": the well-typed object against the SAME node
/// with other type information (`from_components_unchecked(node, Type::FALSE, ExtData::FALSE)`)
fn twin_obs<Ctx: ScriptContext>(a: &Node) -> Option<Obs> {
    let x = build::<Ctx>(a, true)?;
    let y = Miniscript::from_components_unchecked(x.node.clone(), Type::FALSE, ExtData::FALSE);
    Some(if a.size() % 2 == 0 { observe(&x, &y) } else { observe(&y, &x) })
}
fn emit_untyped_twin(e: &mut Emit, ctx: CtxK, a: &Node) {
    if let Some(o) = with_sctx!(ctx, twin_obs(a)) {
        e.out.count("pair untyped-twin");
        e.out.line(&format!("J eqstruct {} {} {} {} {} {} {} {}", ctx.name(), a.wire(), a.wire(), o.eq, o.cmp, o.hash, o.disp, o.pc), "ok");
    }
}
/// ROUTES and CACHED STATE: the object built through `from_ast` against
///   * the same string parsed by `from_str_insane` (token identical: must be equal),
///   * the same node with two OTHER cached types (`Type::TRUE` vs `Type::FALSE`),
///   * a DIFFERENT node that is given this object's cached `ty` / `ext` (must be unequal),
/// and, over real keys, against `decode_consensus(encode(x))` (`pk_h` comes back as a raw hash).
fn route_obs<Ctx: ScriptContext>(a: &Node, other: Option<&Node>) -> Vec<(String, String, Obs)> {
    let mut v = vec![];
    let Some(x) = build::<Ctx>(a, true) else { return v };
    if let Some(Ok(p)) = guarded(|| SMs::<Ctx>::from_str_insane(&x.to_string())) {
        v.push((a.wire(), unbuild::<Ctx>(&p).wire(), observe(&x, &p)));
    }
    let t1 = Miniscript::from_components_unchecked(x.node.clone(), Type::TRUE, ExtData::TRUE);
    let t2 = Miniscript::<String, Ctx>::from_components_unchecked(x.node.clone(), Type::FALSE, ExtData::FALSE);
    v.push((a.wire(), a.wire(), observe(&t1, &t2)));
    if let Some(b) = other {
        if let Some(y) = build::<Ctx>(b, false) {
            let y2 = Miniscript::from_components_unchecked(y.node.clone(), x.ty, x.ext);
            v.push((a.wire(), b.wire(), observe(&x, &y2)));
        }
    }
    v
}
fn emit_route_twins(e: &mut Emit, ctx: CtxK, a: &Node, pool: &[Node], rng: &mut Rng) {
    let other = if pool.is_empty() { None } else { Some(&pool[rng.below(pool.len())]) };
    for (wa, wb, o) in with_sctx!(ctx, route_obs(a, other)) {
        e.out.count("pair route/cache twin");
        e.out.line(&format!("J eqstruct {} {} {} {} {} {} {} {}", ctx.name(), wa, wb, o.eq, o.cmp, o.hash, o.disp, o.pc), "ok");
    }
    // the script route (real keys)
    let mut ks = vec![]; a.keys(&mut ks);
    if ks.iter().all(|k| k % 100 < 10) && a.wire().find("raw_pkh").is_none() {
        if let Some((wb, o)) = crate::with_ctx!(ctx, decoded_obs(a)) {
            e.out.count("pair decode route");
            e.out.line(&format!("J eqstruct {} {} {} {} {} {} {} {}", ctx.name(), a.wire(), wb, o.eq, o.cmp, o.hash, o.disp, o.pc), "ok");
        }
    }
}
fn decoded_obs<Pk: crate::c20::KeyId, Ctx: ScriptContext>(a: &Node) -> Option<(String, Obs)>
where Pk: miniscript::ToPublicKey, Ctx: ScriptContext<Key = Pk> {
    let x = ast::to_ms::<Pk, Ctx>(a).ok()?;
    let d = guarded(|| Miniscript::<Pk, Ctx>::decode_consensus(&x.encode()))?.ok()?;
    let wb = guarded(|| crate::c20::from_ms(&d).wire())?;
    if wb.contains("9999") { return None; }
    Some((wb, observe(&x, &d)))
}
fn emit_clone(e: &mut Emit, ctx: CtxK, a: &Node) {
    if let Some((w, eq)) = with_sctx!(ctx, clone_node(a)) {
        e.out.line(&format!("C msclone {} {}", ctx.name(), a.wire()), &w);
        e.out.line(&format!("J cloneeq {} {} {} {}", ctx.name(), a.wire(), w, eq), "ok");
    }
}

/* ------------------------------------------------------------ fixed witness list */

/// regression inputs, always checked verbatim (no shrinking) and judged like every other pair:
/// the witness pairs of the two defects fixed in e7035cf1 (`Terminal::eq` ignored k and arity of
/// thresh) and 150fe1e9 (`Ord for Terminal` never compared the number of children: `Equal` for
/// different widths, or `unreachable!`), and their neighbours, in every context
fn witness_pairs(base: u32) -> Vec<(Node, Node)> {
    use Node::*;
    let th = |k: usize, n: usize| Thresh(k, (0..n).map(|i| if i == 0 { pk(base) } else { spk(base + i as u32) }).collect());
    let bx = |x: Node| Box::new(x);
    let m = |k: usize, n: u32| if base >= 200 { MultiA(k, (base..base + n).collect()) } else { Multi(k, (base..base + n).collect()) };
    vec![
        (th(1, 3), th(2, 3)),
        (th(2, 2), th(2, 3)),
        (th(1, 1), th(1, 2)),
        (Thresh(1, vec![Thresh(1, vec![pk(base), spk(base + 1)]), spk(base + 2)]),
         Thresh(1, vec![Thresh(1, vec![pk(base)]), spk(base + 1), spk(base + 2)])),
        (AndV(bx(Verify(bx(th(1, 2)))), bx(pk(base + 3))), AndV(bx(Verify(bx(th(2, 2)))), bx(pk(base + 3)))),
        (OrD(bx(m(1, 1)), bx(pk(base + 2))), OrD(bx(m(1, 2)), bx(pk(base + 2)))),
        (m(1, 1), m(1, 2)),
        (m(1, 2), m(2, 2)),
        (OrD(bx(th(1, 1)), bx(pk(base + 2))), OrD(bx(th(1, 2)), bx(pk(base + 2)))),
    ]
}

/* ------------------------------------------------------------ string-built families */

fn emit_str_family<T: Eq + Ord + ToString + Clone>(e: &mut Emit, fam: &str, items: &[(String, T)], rng: &mut Rng, n_triples: usize, hs: &dyn Fn(&T, &T) -> bool) {
    for (sa, a) in items {
        for (sb, b) in items {
            let o = observe_with(a, b, hs);
            e.out.count(&format!("strpair {}", fam));
            e.out.line(&format!("J eqstruct {} {} {} {} {} {} {} {}", fam, sa, sb, o.eq, o.cmp, o.hash, o.disp, o.pc), "ok");
        }
        let (cs, ceq) = match guarded(|| { let y = a.clone(); (y.to_string(), if &y == a { "1" } else { "0" }) }) {
            Some((s, q)) => (s, q.to_string()), None => ("PANIC".into(), "PANIC".into()),
        };
        e.out.line(&format!("J cloneeq {} {} {} {}", fam, sa, cs, ceq), "ok");
    }
    let c = |a: &T, b: &T| guarded(|| ord_str(a.cmp(b))).unwrap_or("PANIC").to_string();
    for _ in 0..n_triples {
        let (sa, a) = rng.pick(items); let (sb, b) = rng.pick(items); let (sc, cc) = rng.pick(items);
        // a triple containing a pair that fails on its own is already reported by the all-pairs loop
        if [(sa, a, sb, b), (sb, b, sc, cc), (sa, a, sc, cc)].iter().any(|(s1, x, s2, y)| !pair_ok(s1 == s2, &observe_with(*x, *y, hs))) { continue; }
        e.out.line(&format!("J ordlaws {} {} {} {} {} {} {} {}", fam, sa, sb, sc, c(a, b), c(b, cc), c(a, cc), c(b, a)), "ok");
    }
}

fn str_items<T: FromStr + ToString>(srcs: &[String], out: &mut Out, fam: &str) -> Vec<(String, T)> {
    let mut v = vec![];
    let mut seen = BTreeSet::new();
    for s in srcs {
        match guarded(|| T::from_str(s)) {
            Some(Ok(t)) => {
                // canonical token = the object's own string form (must round-trip to be usable)
                let canon = t.to_string();
                if canon.contains(' ') { continue; }
                if seen.insert(canon.clone()) { v.push((canon, t)); }
            }
            _ => out.count(&format!("str-unparsed {}", fam)),
        }
    }
    v
}

fn ms_strings() -> Vec<String> {
    // miniscript bodies over string keys A..D (B-typed, sane enough for wsh/sh/tr leaves)
    let v = [
        "pk(A)", "pk(B)", "pkh(A)", "and_v(v:pk(A),pk(B))", "and_v(v:pk(B),pk(A))", "or_d(pk(A),pk(B))",
        "or_b(pk(A),s:pk(B))", "and_b(pk(A),s:pk(B))", "or_i(pk(A),pk(B))", "andor(pk(A),pk(B),pk(C))",
        "and_v(v:pk(A),after(100))", "and_v(v:pk(A),after(101))", "and_v(v:pk(A),older(100))",
        "and_v(v:pk(A),sha256(0000000000000000000000000000000000000000000000000000000000000001))",
        "and_v(v:pk(A),sha256(0000000000000000000000000000000000000000000000000000000000000002))",
        "and_v(v:pk(A),hash256(0000000000000000000000000000000000000000000000000000000000000001))",
        "thresh(2,pk(A),s:pk(B),s:pk(C))", "thresh(2,pk(A),s:pk(C),s:pk(B))",
        "t:or_c(pk(A),v:pk(B))", "or_d(pk(A),and_v(v:pk(B),older(5)))",
        "or_d(pk(A),and_v(v:pk(B),older(65541)))", "or_d(pk(A),and_v(v:pk(B),older(4194309)))",
        "and_v(v:pk(A),older(1))", "and_v(v:pk(A),older(65537))", "and_v(v:pk(A),after(1000000000))",
        "and_v(v:pk(A),after(500000100))",
    ];
    v.iter().map(|s| s.to_string()).collect()
}

fn descriptor_strings() -> Vec<String> {
    let mut v = vec![];
    for m in ms_strings() {
        v.push(format!("wsh({})", m));
        v.push(format!("sh({})", m));
        v.push(format!("sh(wsh({}))", m));
        v.push(format!("tr(I,{})", m.replace("multi(", "multi_a(")));
    }
    // `Descriptor::Bare` over a miniscript that is not a plain pk (vs sh / wsh of the same ms)
    for m in ["multi(1,A,B)", "multi(2,A,B)", "multi(1,B,A)", "multi(1,A,B,C)", "pk(A)", "pk(B)", "and_v(v:pk(A),pk(B))"] { v.push(m.to_string()); }
    for m in ["multi(1,A,B)", "multi(2,A,B)", "multi(1,B,A)", "sortedmulti(1,A,B)", "multi(1,A,B,C)"] {
        v.push(format!("wsh({})", m));
        v.push(format!("sh({})", m));
    }
    for k in ["A", "B"] {
        v.push(format!("pkh({})", k)); v.push(format!("wpkh({})", k)); v.push(format!("sh(wpkh({}))", k));
        v.push(format!("tr({})", k)); v.push(format!("pk({})", k));
    }
    v.push("tr(I,{pk(A),pk(B)})".into());
    v.push("tr(I,{pk(B),pk(A)})".into());
    v.push("tr(I,{pk(A),{pk(B),pk(C)}})".into());
    v.push("tr(I,{{pk(A),pk(B)},pk(C)})".into());
    v.push("tr(J,{pk(A),pk(B)})".into());
    v.push("tr(I,multi_a(1,A,B))".into());
    v.push("tr(I,multi_a(2,A,B))".into());
    v.push("tr(I,sortedmulti_a(1,A,B))".into());
    v
}

fn concrete_strings() -> Vec<String> {
    ["pk(A)", "pk(B)", "after(100)", "after(101)", "older(100)", "UNSATISFIABLE", "TRIVIAL",
     "older(5)", "older(65541)", "older(4194309)", "older(4259845)", "older(1)", "older(65537)", "after(9)", "after(1000000000)", "after(500000100)", "after(65636)", "and(pk(A),older(65541))", "and(pk(A),older(5))", "or(pk(A),after(1000000000))", "or(pk(A),after(9))",
     "sha256(0000000000000000000000000000000000000000000000000000000000000001)",
     "hash256(0000000000000000000000000000000000000000000000000000000000000001)",
     "ripemd160(0000000000000000000000000000000000000001)", "hash160(0000000000000000000000000000000000000001)",
     "hash256(0000000000000000000000000000000000000000000000000000000000000002)", "sha256(0000000000000000000000000000000000000000000000000000000000000002)", "ripemd160(0000000000000000000000000000000000000002)", "hash160(0000000000000000000000000000000000000002)", "and(pk(A),hash256(0000000000000000000000000000000000000000000000000000000000000001))", "and(pk(A),hash256(0000000000000000000000000000000000000000000000000000000000000002))", "and(pk(A),ripemd160(0000000000000000000000000000000000000001))", "and(pk(A),ripemd160(0000000000000000000000000000000000000002))", "and(pk(A),hash160(0000000000000000000000000000000000000001))", "and(pk(A),hash160(0000000000000000000000000000000000000002))",
     "or(0@pk(A),1@pk(B))", "or(2@pk(A),4@pk(B))", "or(1@pk(A),0@pk(B))",
     "and(pk(A),pk(B))", "and(pk(B),pk(A))", "or(pk(A),pk(B))", "or(1@pk(A),2@pk(B))", "or(2@pk(A),1@pk(B))",
     "thresh(1,pk(A),pk(B))", "thresh(2,pk(A),pk(B))", "thresh(2,pk(A),pk(B),pk(C))", "thresh(1,pk(A),pk(B),pk(C))",
     "and(pk(A),or(pk(B),pk(C)))", "and(or(pk(B),pk(C)),pk(A))", "and(pk(A),and(pk(B),pk(C)))",
     "or(pk(A),and(pk(B),older(5)))", "thresh(2,pk(A),and(pk(B),pk(C)),older(9))"]
        .iter().map(|s| s.to_string()).collect()
}

fn semantic_strings() -> Vec<String> {
    ["pk(A)", "pk(B)", "after(100)", "after(101)", "older(100)", "UNSATISFIABLE", "TRIVIAL",
     "older(5)", "older(65541)", "older(4194309)", "older(4259845)", "older(1)", "older(65537)", "after(9)", "after(1000000000)", "after(500000100)", "after(65636)", "and(pk(A),older(65541))", "and(pk(A),older(5))", "or(pk(A),after(1000000000))", "or(pk(A),after(9))",
     "sha256(0000000000000000000000000000000000000000000000000000000000000001)",
     "hash256(0000000000000000000000000000000000000000000000000000000000000001)",
     "hash256(0000000000000000000000000000000000000000000000000000000000000002)", "sha256(0000000000000000000000000000000000000000000000000000000000000002)", "ripemd160(0000000000000000000000000000000000000001)", "ripemd160(0000000000000000000000000000000000000002)", "hash160(0000000000000000000000000000000000000001)", "hash160(0000000000000000000000000000000000000002)", "and(pk(A),hash256(0000000000000000000000000000000000000000000000000000000000000002))", "and(pk(A),ripemd160(0000000000000000000000000000000000000001))", "and(pk(A),ripemd160(0000000000000000000000000000000000000002))", "and(pk(A),hash160(0000000000000000000000000000000000000001))", "and(pk(A),hash160(0000000000000000000000000000000000000002))",
     "and(pk(A),pk(B))", "and(pk(B),pk(A))", "or(pk(A),pk(B))", "or(pk(B),pk(A))",
     "thresh(2,pk(A),pk(B),pk(C))", "thresh(1,pk(A),pk(B),pk(C))", "thresh(3,pk(A),pk(B),pk(C))",
     "thresh(2,pk(A),pk(B),pk(C),pk(D))", "and(pk(A),or(pk(B),pk(C)))", "or(pk(A),and(pk(B),older(5)))",
     "and(pk(A),pk(B),pk(C))", "or(pk(A),pk(B),pk(C))"]
        .iter().map(|s| s.to_string()).collect()
}

/* ------------------------------------------------------------ run */

pub fn run(out: &mut Out, thorough: bool, seed: u64) {
    std::panic::set_hook(Box::new(|_| {}));
    let mut rng = Rng(seed ^ 0xC19);
    ast::emit_defs(out);
    let mut e = Emit { out, seen_shrunk: BTreeSet::new() };
    let mut n_inputs = 0u64;
    for ctx in CtxK::ALL {
        let base = if ctx == CtxK::Tap { 200 } else { 0 };
        // fixed witnesses, verbatim
        for (a, b) in witness_pairs(base) {
            if let Some(o) = obs_ctx(ctx, &a, &b, false) {
                let c = ctx.name();
                e.out.count("pair witness");
                e.out.line(&format!("C mseq {} {} {}", c, a.wire(), b.wire()), &o.eq);
                e.out.line(&format!("C mscmp {} {} {}", c, a.wire(), b.wire()), &o.cmp);
                e.out.line(&format!("C mshash {} {} {}", c, a.wire(), b.wire()), &o.hash);
                e.out.line(&format!("J eqstruct {} {} {} {} {} {} {} {}", c, a.wire(), b.wire(), o.eq, o.cmp, o.hash, o.disp, o.pc), "ok");
            }
        }
        let atoms = ast::default_atoms(ctx, false);
        let mut frags: Vec<Node> = ast::enumerate(ctx, &atoms, 2, if thorough { 40 } else { 10 }, &mut rng)
            .into_iter().map(|t| t.node).collect();
        if ctx != CtxK::Tap { frags.push(Node::Check(Box::new(Node::RawPkH(0)))); frags.push(Node::RawPkH(1)); }
        // threshold-rich fragments (the enumerator produces few of them)
        {
            use Node::*;
            let bx = |x: Node| Box::new(x);
            let w = |i: usize| -> Node { match i % 4 { 0 => spk(base + i as u32 % 8), 1 => Alt(bx(Older(10))), 2 => Alt(bx(Hash(HK::Sha256, 0))), _ => Swap(bx(Check(bx(PkH(base + 1))))) } };
            for n in 1..=4usize {
                for k in 1..=n {
                    let kids: Vec<Node> = (0..n).map(|i| if i == 0 { pk(base) } else { w(i) }).collect();
                    let t = Thresh(k, kids);
                    frags.push(t.clone());
                    if k == 1 { frags.push(OrD(bx(t.clone()), bx(pk(base + 5)))); frags.push(AndV(bx(Verify(bx(t.clone()))), bx(pk(base + 5)))); }
                    if n == 2 {
                        frags.push(Thresh(1, vec![t.clone(), Alt(bx(t.clone()))]));
                        frags.push(Thresh(2, vec![t.clone(), Alt(bx(Thresh(1, vec![pk(base + 2)]))), spk(base + 3)]));
                        frags.push(AndOr(bx(t.clone()), bx(pk(base + 1)), bx(Thresh(k, vec![pk(base + 2), spk(base)]))));
                    }
                }
            }
            let mk = |k: usize, v: Vec<u32>| if ctx == CtxK::Tap { MultiA(k, v) } else { Multi(k, v) };
            let smk = |k: usize, v: Vec<u32>| if ctx == CtxK::Tap { SortedMultiA(k, v) } else { SortedMulti(k, v) };
            for n in 1..=3u32 {
                for k in 1..=n as usize {
                    let v: Vec<u32> = (0..n).map(|i| base + (i * 3 + 1) % 7).collect();
                    frags.push(mk(k, v.clone())); frags.push(smk(k, v.clone()));
                    frags.push(OrD(bx(mk(k, v.clone())), bx(pk(base + 5))));
                    frags.push(Thresh(1, vec![mk(k, v.clone()), Alt(bx(smk(k, v)))]));
                }
            }
        }
        for _ in 0..(if thorough { 60 } else { 12 }) {
            let sz = 8 + rng.below(20);
            if let Some(n) = ast::random_b(ctx, &mut rng, sz) { frags.push(n); }
        }
        frags.extend(ast::dimension_corpus(ctx));
        let mut seen = BTreeSet::new();
        frags.retain(|n| seen.insert(n.wire()));
        let cap_nb = if thorough { 60 } else { 14 };
        let mut pool: Vec<Node> = vec![];
        for x in &frags {
            n_inputs += 1;
            x.count_frags(e.out);
            emit_pair(&mut e, ctx, x, x, "identical");
            emit_clone(&mut e, ctx, x);
            emit_untyped_twin(&mut e, ctx, x);
            emit_route_twins(&mut e, ctx, x, &frags, &mut rng);
            let mut nb = neighbours(x, base);
            // all edits of the kinds that matter most, a sample of the rest
            let (must, mut rest): (Vec<_>, Vec<_>) = nb.drain(..).partition(|(t, _)| t.starts_with("thresh") || t.starts_with("multi") || t.starts_with("sugar") || *t == "sorted");
            for i in (1..rest.len()).rev() { let j = rng.below(i + 1); rest.swap(i, j); }
            rest.truncate(cap_nb);
            let mut must = must;
            if must.len() > 2 * cap_nb { for i in (1..must.len()).rev() { let j = rng.below(i + 1); must.swap(i, j); } must.truncate(2 * cap_nb); }
            for (tag, y) in must.iter().chain(rest.iter()) {
                if y == x { continue; }
                if rng.coin() { emit_pair(&mut e, ctx, x, y, tag); } else { emit_pair(&mut e, ctx, y, x, tag); }
                if pool.len() < 4000 { pool.push(y.clone()); }
            }
            // a triple inside the neighbourhood
            if must.len() + rest.len() >= 2 {
                let all: Vec<&Node> = must.iter().chain(rest.iter()).map(|p| &p.1).collect();
                for _ in 0..3 {
                    let (y, z) = (all[rng.below(all.len())], all[rng.below(all.len())]);
                    match rng.below(3) { 0 => emit_triple(&mut e, ctx, x, y, z), 1 => emit_triple(&mut e, ctx, y, x, z), _ => emit_triple(&mut e, ctx, y, z, x) }
                }
            }
        }
        // random pairs and triples across the pool
        let all: Vec<&Node> = frags.iter().chain(pool.iter()).collect();
        for _ in 0..(if thorough { 4000 } else { 400 }) {
            let (a, b) = (all[rng.below(all.len())], all[rng.below(all.len())]);
            emit_pair(&mut e, ctx, a, b, "random");
        }
        for _ in 0..(if thorough { 6000 } else { 600 }) {
            let (a, b, c) = (all[rng.below(all.len())], all[rng.below(all.len())], all[rng.below(all.len())]);
            emit_triple(&mut e, ctx, a, b, c);
        }
        // sorted triples: transitivity along a chain produced by the library's own order
        let mut chain: Vec<&Node> = (0..40).map(|_| all[rng.below(all.len())]).collect();
        let ok = guarded(|| chain.sort_by(|a, b| match cmp_ctx(ctx, a, b).as_str() { "lt" => std::cmp::Ordering::Less, "gt" => std::cmp::Ordering::Greater, _ => std::cmp::Ordering::Equal }));
        if ok.is_some() {
            for w in chain.windows(3) { emit_triple(&mut e, ctx, w[0], w[1], w[2]); }
        }
    }
    // string-built families
    let ds = str_items::<Descriptor<String>>(&descriptor_strings(), e.out, "descriptor");
    emit_str_family(&mut e, "descriptor", &ds, &mut rng, if thorough { 4000 } else { 600 }, &|a, b| hash_same(a, b));
    // Tr: equality / order / hash must ignore the lazily filled spend-info cache (real keys:
    // `spend_info` needs `ToPublicKey`)
    {
        let k = |i: u32| ast::full_key(i).to_string();
        let trs = [format!("tr({})", k(0)), format!("tr({},pk({}))", k(0), k(1)),
                   format!("tr({},{{pk({}),pk({})}})", k(0), k(1), k(2)),
                   format!("tr({},{{pk({}),{{pk({}),multi_a(1,{},{})}}}})", k(3), k(1), k(2), k(0), k(1))];
        for s in trs.iter() {
            if let Some(Ok(Descriptor::Tr(tr))) = guarded(|| Descriptor::<miniscript::bitcoin::PublicKey>::from_str(s)) {
                let fresh = tr.clone();
                let cached = tr.clone();
                let _ = guarded(|| cached.spend_info());
                let o = observe(&fresh, &cached);
                e.out.line(&format!("J eqstruct tr-cache {} {} {} {} {} {} {}", s, s, o.eq, o.cmp, o.hash, o.disp, o.pc), "ok");
                let c2 = cached.clone();
                let o = observe(&c2, &fresh);
                e.out.line(&format!("J eqstruct tr-cache-clone {} {} {} {} {} {} {}", s, s, o.eq, o.cmp, o.hash, o.disp, o.pc), "ok");
            } else { e.out.count("tr-cache unparsed"); }
        }
    }
    // the same descriptor family over REAL keys, all pairs, in three states: both fresh, both
    // USED (script_pubkey / spend info computed: every lazily filled cache is full), one of each.
    // Mirrored trees and multi_a / sortedmulti_a over sorted keys share an output key without
    // sharing a structure.
    {
        type D = Descriptor<miniscript::bitcoin::PublicKey>;
        let letters: [(&str, u32); 6] = [("A", 1), ("B", 2), ("C", 3), ("D", 4), ("I", 5), ("J", 6)];
        let mut srcs: Vec<String> = vec![];
        let mut raw = descriptor_strings();
        raw.extend(["tr(I,{{pk(A),pk(B)},{pk(C),pk(D)}})", "tr(I,{{pk(C),pk(D)},{pk(A),pk(B)}})", "tr(I,{{pk(B),pk(A)},{pk(C),pk(D)}})",
                    "tr(I,{pk(C),{pk(A),pk(B)}})", "tr(I,{pk(C),{pk(B),pk(A)}})", "tr(I,{{pk(B),pk(A)},pk(C)})",
                    "tr(I,multi_a(1,B,A))", "tr(I,sortedmulti_a(1,B,A))", "tr(I,sortedmulti_a(2,A,B))", "tr(I,sortedmulti_a(2,B,A))",
                    "tr(I,{pk(A),pk(A)})", "tr(I,pk(I))", "tr(A,pk(B))", "tr(B,pk(A))",
                    "wsh(sortedmulti(1,B,A))", "wsh(sortedmulti(2,A,B))", "sh(sortedmulti(1,A,B))", "sh(sortedmulti(1,B,A))"].iter().map(|s| s.to_string()));
        for d in raw {
            // letters stand alone between punctuation in these strings
            let mut t = String::new();
            let cs: Vec<char> = d.chars().collect();
            for (i, c) in cs.iter().enumerate() {
                let alone = (i == 0 || !cs[i - 1].is_ascii_alphanumeric() && cs[i - 1] != '_') && (i + 1 == cs.len() || !cs[i + 1].is_ascii_alphanumeric() && cs[i + 1] != '_');
                match letters.iter().find(|(l, _)| alone && l.chars().next() == Some(*c)) {
                    Some((_, id)) => t.push_str(&ast::full_key(*id).to_string()),
                    None => t.push(*c),
                }
            }
            srcs.push(t);
        }
        let fresh = str_items::<D>(&srcs, e.out, "descriptor-pk");
        let used: Vec<(String, D)> = fresh.iter().map(|(s, d)| {
            let u = d.clone();
            let _ = guarded(|| u.script_pubkey());
            if let Descriptor::Tr(tr) = &u { let _ = guarded(|| tr.spend_info()); }
            (s.clone(), u)
        }).collect();
        e.out.note("descriptor_pk_family", fresh.len().to_string());
        emit_str_family(&mut e, "descriptor-pk", &fresh, &mut rng, if thorough { 2000 } else { 300 }, &|a, b| hash_same(a, b));
        emit_str_family(&mut e, "descriptor-pk-used", &used, &mut rng, if thorough { 2000 } else { 300 }, &|a, b| hash_same(a, b));
        // one fresh, one used (all pairs)
        for (sa, a) in &fresh {
            for (sb, b) in &used {
                let o = observe(a, b);
                e.out.count("strpair descriptor-pk-mixed");
                e.out.line(&format!("J eqstruct descriptor-pk-mixed {} {} {} {} {} {} {}", sa, sb, o.eq, o.cmp, o.hash, o.disp, o.pc), "ok");
            }
        }
    }
    let cs = str_items::<Concrete<String>>(&concrete_strings(), e.out, "concrete");
    emit_str_family(&mut e, "concrete", &cs, &mut rng, if thorough { 3000 } else { 500 }, &|a, b| hash_same(a, b));
    let ss = str_items::<Semantic<String>>(&semantic_strings(), e.out, "semantic");
    // `Semantic` implements no `Hash`: the hash column is vacuous ("same" iff equal)
    emit_str_family(&mut e, "semantic", &ss, &mut rng, if thorough { 3000 } else { 500 }, &|a, b| a == b);
    c19x::run(&mut e, thorough, &mut rng);
    e.out.note("distinct_nontrivial", n_inputs.to_string());
    e.out.note("domain", "per context: enumerated fragments (depth 2, all base types) + random larger ones, each vs itself, vs its one-edit neighbours (k, arity, leaf, sorted/unsorted, wrapper, sugar, child order) and vs random others; triples inside neighbourhoods, random, and along library-sorted chains; string-built descriptors (wsh/sh/sh-wsh/tr/pkh/wpkh), Tr with/without cache, the same descriptor family over REAL keys (plus mirrored trees, multi_a / sortedmulti_a twins, sortedmulti key orders) in three states - both fresh, both USED (script_pubkey / spend_info computed), one of each - all pairs; concrete and semantic policies: all pairs + random triples; ROUTES/STATES: every strict fragment vs its from_str_insane parse, vs decode_consensus(encode) over real keys, as unchecked twins with different cached ty/ext and vs another node carrying its ty/ext; sugar spellings parsed in every context; Tr<PublicKey>/Tr<XOnly> via Tr::new fresh / USED / clone-of-used over output-key-sharing trees (mirrors at depth 1-3, multi_a vs sortedmulti_a, duplicates, keyless leaf); at_derivation_index results vs parsed definite keys, fresh and USED".into());
}

//! C05: dump the COMPLETE table of every typing rule of the implementation.
use miniscript::miniscript::types::{
    Base, Correctness as C, Dissat, Input, Malleability as M, Type,
};

use crate::common::{Out, Rng};

pub fn all_corr() -> Vec<C> {
    let mut v = vec![];
    for base in [Base::B, Base::K, Base::V, Base::W] {
        for input in [Input::Zero, Input::One, Input::Any, Input::OneNonZero, Input::AnyNonZero] {
            for dissatisfiable in [false, true] {
                for unit in [false, true] {
                    v.push(C { base, input, dissatisfiable, unit });
                }
            }
        }
    }
    v
}
pub fn all_mall() -> Vec<M> {
    let mut v = vec![];
    for dissat in [Dissat::None, Dissat::Unique, Dissat::Unknown] {
        for signed in [false, true] {
            for non_malleable in [false, true] {
                v.push(M { dissat, signed, non_malleable });
            }
        }
    }
    v
}
pub fn cs(c: &C) -> String {
    format!(
        "{}{}{}{}",
        match c.base { Base::B => 'B', Base::K => 'K', Base::V => 'V', Base::W => 'W' },
        match c.input {
            Input::Zero => 'z', Input::One => 'o', Input::Any => 'a',
            Input::OneNonZero => 'O', Input::AnyNonZero => 'N',
        },
        c.dissatisfiable as u8, c.unit as u8
    )
}
pub fn ms(m: &M) -> String {
    format!(
        "{}{}{}",
        match m.dissat { Dissat::None => 'f', Dissat::Unique => 'e', Dissat::Unknown => 'x' },
        m.signed as u8, m.non_malleable as u8
    )
}
pub fn ts(t: &Type) -> String { format!("{}/{}", cs(&t.corr), ms(&t.mall)) }
fn rc<E>(r: Result<C, E>) -> String { r.map(|c| cs(&c)).unwrap_or_else(|_| "ERR".into()) }
fn rt<E>(r: Result<Type, E>) -> String { r.map(|t| ts(&t)).unwrap_or_else(|_| "ERR".into()) }

type C1 = fn(C) -> Result<C, miniscript::miniscript::types::ErrorKind>;
type C2 = fn(C, C) -> Result<C, miniscript::miniscript::types::ErrorKind>;
type M1 = fn(M) -> M;
type M2 = fn(M, M) -> M;
type T1 = fn(Type) -> Result<Type, miniscript::miniscript::types::ErrorKind>;
type T2 = fn(Type, Type) -> Result<Type, miniscript::miniscript::types::ErrorKind>;

pub fn run(out: &mut Out, thorough: bool, seed: u64) {
    let mut rng = Rng(seed ^ 0xC05);
    let cc = all_corr();
    let mm = all_mall();
    // leaves
    let leaves: [(&str, Type); 10] = [
        ("true", Type::TRUE), ("false", Type::FALSE), ("pk_k", Type::pk_k()),
        ("pk_h", Type::pk_h()), ("multi", Type::multi()), ("sortedmulti", Type::sortedmulti()),
        ("multi_a", Type::multi_a()), ("sortedmulti_a", Type::sortedmulti_a()),
        ("hash", Type::hash()), ("time", Type::time()),
    ];
    for (n, t) in leaves.iter() {
        out.line(&format!("C leaf {}", n), &ts(t));
    }
    let c1: [(&str, C1); 9] = [
        ("castAlt", C::cast_alt), ("castSwap", C::cast_swap), ("castCheck", C::cast_check),
        ("castDupIf", C::cast_dupif), ("castVerify", C::cast_verify),
        ("castNonZero", C::cast_nonzero), ("castZeroNotEqual", C::cast_zeronotequal),
        ("castTrue", C::cast_true), ("castOrIFalse", C::cast_or_i_false),
    ];
    for (n, f) in c1.iter() {
        for x in &cc {
            let r = f(*x);
            out.line(&format!("C corr1 {} {}", n, cs(x)), &rc(r));
            out.line(&format!("J specC1 {} {} {}", n, cs(x), rc(r)), "ok");
        }
    }
    let c2: [(&str, C2); 6] = [
        ("andB", C::and_b), ("andV", C::and_v), ("orB", C::or_b), ("orD", C::or_d),
        ("orC", C::or_c), ("orI", C::or_i),
    ];
    for (n, f) in c2.iter() {
        for x in &cc {
            for y in &cc {
                let r = f(*x, *y);
                out.line(&format!("C corr2 {} {} {}", n, cs(x), cs(y)), &rc(r));
                out.line(&format!("J specC2 {} {} {} {}", n, cs(x), cs(y), rc(r)), "ok");
            }
        }
    }
    for x in &cc {
        for y in &cc {
            for z in &cc {
                let r = C::and_or(*x, *y, *z);
                out.line(&format!("C corr3 andOr {} {} {}", cs(x), cs(y), cs(z)), &rc(r));
                if r.is_ok() || rng.below(16) == 0 {
                    out.line(
                        &format!("J specC3 andOr {} {} {} {}", cs(x), cs(y), cs(z), rc(r)),
                        "ok",
                    );
                }
            }
        }
    }
    let m1: [(&str, M1); 9] = [
        ("castAlt", M::cast_alt), ("castSwap", M::cast_swap), ("castCheck", M::cast_check),
        ("castDupIf", M::cast_dupif), ("castVerify", M::cast_verify),
        ("castNonZero", M::cast_nonzero), ("castZeroNotEqual", M::cast_zeronotequal),
        ("castTrue", M::cast_true), ("castOrIFalse", M::cast_or_i_false),
    ];
    for (n, f) in m1.iter() {
        for x in &mm {
            let r = f(*x);
            out.line(&format!("C mall1 {} {}", n, ms(x)), &ms(&r));
            out.line(&format!("J specM1 {} {} {}", n, ms(x), ms(&r)), "ok");
        }
    }
    let m2: [(&str, M2); 6] = [
        ("andB", M::and_b), ("andV", M::and_v), ("orB", M::or_b), ("orD", M::or_d),
        ("orC", M::or_c), ("orI", M::or_i),
    ];
    for (n, f) in m2.iter() {
        for x in &mm {
            for y in &mm {
                let r = f(*x, *y);
                out.line(&format!("C mall2 {} {} {}", n, ms(x), ms(y)), &ms(&r));
                out.line(&format!("J specM2 {} {} {} {}", n, ms(x), ms(y), ms(&r)), "ok");
            }
        }
    }
    for x in &mm {
        for y in &mm {
            for z in &mm {
                let r = M::and_or(*x, *y, *z);
                out.line(&format!("C mall3 andOr {} {} {}", ms(x), ms(y), ms(z)), &ms(&r));
                out.line(&format!("J specM3 andOr {} {} {} {}", ms(x), ms(y), ms(z), ms(&r)), "ok");
            }
        }
    }
    // Type glue: the product of the two, on the complete unary domain and a sample of pairs
    let tt: Vec<Type> =
        cc.iter().flat_map(|c| mm.iter().map(move |m| Type { corr: *c, mall: *m })).collect();
    let t1: [(&str, T1); 10] = [
        ("castAlt", Type::cast_alt), ("castSwap", Type::cast_swap), ("castCheck", Type::cast_check),
        ("castDupIf", Type::cast_dupif), ("castVerify", Type::cast_verify),
        ("castNonZero", Type::cast_nonzero), ("castZeroNotEqual", Type::cast_zeronotequal),
        ("castTrue", Type::cast_true), ("castUnlikely", Type::cast_unlikely),
        ("castLikely", Type::cast_likely),
    ];
    for (n, f) in t1.iter() {
        for x in &tt {
            out.line(&format!("C ty1 {} {}", n, ts(x)), &rt(f(*x)));
        }
    }
    let t2: [(&str, T2); 6] = [
        ("andB", Type::and_b), ("andV", Type::and_v), ("orB", Type::or_b), ("orD", Type::or_d),
        ("orC", Type::or_c), ("orI", Type::or_i),
    ];
    let npairs = if thorough { 200_000 } else { 20_000 };
    for (n, f) in t2.iter() {
        for _ in 0..npairs {
            let x = *rng.pick(&tt);
            let y = *rng.pick(&tt);
            out.line(&format!("C ty2 {} {} {}", n, ts(&x), ts(&y)), &rt(f(x, y)));
        }
    }
    for _ in 0..npairs {
        let x = *rng.pick(&tt);
        let y = *rng.pick(&tt);
        let z = *rng.pick(&tt);
        out.line(
            &format!("C ty3 andOr {} {} {}", ts(&x), ts(&y), ts(&z)),
            &rt(Type::and_or(x, y, z)),
        );
    }
    // thresholds: all child lists of length <= 2 (3 when thorough) over the full domain is
    // too large (960^3); enumerate over the *valid child classes* exhaustively for n <= 3
    // and sample long lists (n <= 20, occasionally up to 200) over the full domain.
    let nthr = if thorough { 200_000 } else { 30_000 };
    for i in 0..nthr {
        let n = if i % 50 == 0 { 1 + rng.below(200) } else { 1 + rng.below(20) };
        let k = 1 + rng.below(n);
        // bias towards acceptable children so that the accept branch is exercised
        let biased = rng.below(4) != 0;
        let mut subs: Vec<Type> = Vec::with_capacity(n);
        for j in 0..n {
            let mut t = *rng.pick(&tt);
            if biased {
                t.corr.base = if j == 0 { Base::B } else { Base::W };
                t.corr.unit = true;
                t.corr.dissatisfiable = true;
                if rng.below(3) != 0 { t.corr.input = Input::Zero; }
            }
            subs.push(t);
        }
        let cl = subs.iter().map(|t| cs(&t.corr)).collect::<Vec<_>>().join(",");
        let ml = subs.iter().map(|t| ms(&t.mall)).collect::<Vec<_>>().join(",");
        let tl = subs.iter().map(ts).collect::<Vec<_>>().join(",");
        let rcx = C::threshold(k, subs.iter().map(|t| &t.corr));
        let rmx = M::threshold(k, subs.iter().map(|t| &t.mall));
        let rtx = Type::threshold(k, subs.iter());
        out.line(&format!("C corrT {} {}", k, cl), &rc(rcx));
        out.line(&format!("J specCT {} {} {}", k, cl, rc(rcx)), "ok");
        out.line(&format!("C mallT {} {}", k, ml), &ms(&rmx));
        out.line(&format!("J specMT {} {} {}", k, ml, ms(&rmx)), "ok");
        out.line(&format!("C tyT {} {}", k, tl), &rt(rtx));
    }
    // exhaustive small thresholds over the full correctness domain: n = 1, 2
    for x in &cc {
        let r = C::threshold(1, [*x].iter());
        out.line(&format!("C corrT 1 {}", cs(x)), &rc(r));
        for y in &cc {
            for k in 1..=2 {
                let r = C::threshold(k, [*x, *y].iter());
                out.line(&format!("C corrT {} {},{}", k, cs(x), cs(y)), &rc(r));
            }
        }
    }
    for x in &mm {
        for y in &mm {
            for z in &mm {
                for k in 1..=3 {
                    let r = M::threshold(k, [*x, *y, *z].iter());
                    let l = format!("{},{},{}", ms(x), ms(y), ms(z));
                    out.line(&format!("C mallT {} {}", k, l), &ms(&r));
                    out.line(&format!("J specMT {} {} {}", k, l, ms(&r)), "ok");
                }
            }
        }
    }
    typeof_stream(out, thorough, &mut rng);
    out.note("domain", "type_check dispatch: every one-step composition (7 wrappers, 6 binary combinators, andor, thresh) of accepted fragments in 4 contexts, accepted AND rejected, compared with the model's typeOf; 80 correctness x 12 malleability values; unary/binary/ternary rule tables complete; thresholds: exhaustive n<=2 (corr) / n=3 (mall) + random n<=200".into());
}


/// `Type::type_check` as dispatched by `Miniscript::from_ast` on real fragments: every one-step
/// composition of already accepted fragments - whether the library accepts it or rejects it
/// with a type error - is compared with the model's `typeOf` (`C typeof`; "ERR" = type error).
/// Context errors (key kinds, multi flavour) are not typing and are skipped.
fn typeof_stream(out: &mut Out, thorough: bool, rng: &mut Rng) {
    use crate::ast::{self, CtxK, Node};
    trait Reparse: ast::KeyOf {
        fn reparse<Ctx: miniscript::ScriptContext>(s: &str) -> Result<miniscript::Miniscript<Self, Ctx>, miniscript::Error>;
    }
    impl Reparse for miniscript::bitcoin::PublicKey {
        fn reparse<Ctx: miniscript::ScriptContext>(s: &str) -> Result<miniscript::Miniscript<Self, Ctx>, miniscript::Error> {
            miniscript::Miniscript::<Self, Ctx>::from_str_with_validation_params(s, &miniscript::ValidationParams::MAX)
        }
    }
    impl Reparse for miniscript::bitcoin::secp256k1::XOnlyPublicKey {
        fn reparse<Ctx: miniscript::ScriptContext>(s: &str) -> Result<miniscript::Miniscript<Self, Ctx>, miniscript::Error> {
            miniscript::Miniscript::<Self, Ctx>::from_str_with_validation_params(s, &miniscript::ValidationParams::MAX)
        }
    }
    fn one<Pk: Reparse, Ctx: miniscript::ScriptContext>(out: &mut Out, ctx: CtxK, n: &Node) {
        let ans = match ast::to_ms::<Pk, Ctx>(n) {
            Ok(ms) => ts(&ms.ty),
            Err(e) if e.starts_with("typecheck") => "ERR".to_string(),
            Err(_) => { out.count("typeof: non-typing rejection (skipped)"); return; }
        };
        out.count(if ans == "ERR" { "typeof: rejected" } else { "typeof: accepted" });
        out.line(&format!("C typeof {} {}", ctx.name(), n.wire()), &ans);
        // the other routes by which a typed Miniscript reaches a caller: the text parser and the
        // script decoder build their nodes themselves; both must carry the same type
        if let Ok(ms) = ast::to_ms::<Pk, Ctx>(n) {
            let text = ms.to_string();
            match std::panic::catch_unwind(|| Pk::reparse::<Ctx>(&text)) {
                Ok(Ok(p)) => { out.count("typeof: route from_str"); out.line(&format!("C typeof {} {}", ctx.name(), n.wire()), &ts(&p.ty)); }
                Ok(Err(_)) => out.count("typeof: text form not re-parsed (skipped)"),
                Err(_) => out.count("typeof: from_str panicked (C11's business)"),
            }
            let script = ms.encode();
            match std::panic::catch_unwind(|| miniscript::Miniscript::<Ctx::Key, Ctx>::decode_with_validation_params(&script, &miniscript::ValidationParams::MAX)) {
                Ok(Ok(p)) => { out.count("typeof: route decode"); out.line(&format!("C typeof {} {}", ctx.name(), n.wire()), &ts(&p.ty)); }
                Ok(Err(_)) => out.count("typeof: script not decoded (skipped)"),
                Err(_) => out.count("typeof: decode panicked (C11's business)"),
            }
        }
    }
    for ctx in CtxK::ALL {
        // full atoms in every tier: all hash kinds, both lock units, uncompressed keys (Bare/Legacy)
        let atoms = ast::default_atoms(ctx, false);
        let mut pool: Vec<Node> = ast::enumerate(ctx, &atoms, 1, if thorough { 12 } else { 4 }, rng).into_iter().map(|t| t.node).collect();
        // raw key hashes are typed by their own arm of the dispatch
        let rb = if ctx == CtxK::Tap { 200 } else { 0 };
        pool.push(Node::RawPkH(rb));
        pool.push(Node::Check(Box::new(Node::RawPkH(rb))));
        let bx = |n: &Node| Box::new(n.clone());
        // the shared designated corpus (wrapper towers, lock / hash / key dimensions): every
        // subterm through every route
        {
            fn subs(n: &Node, acc: &mut Vec<Node>) {
                acc.push(n.clone());
                match n {
                    Node::Alt(x) | Node::Swap(x) | Node::Check(x) | Node::DupIf(x) | Node::Verify(x) | Node::NonZero(x) | Node::ZeroNotEqual(x) => subs(x, acc),
                    Node::AndV(a, b) | Node::AndB(a, b) | Node::OrB(a, b) | Node::OrC(a, b) | Node::OrD(a, b) | Node::OrI(a, b) => { subs(a, acc); subs(b, acc); }
                    Node::AndOr(a, b, c) => { subs(a, acc); subs(b, acc); subs(c, acc); }
                    Node::Thresh(_, xs) => for x in xs { subs(x, acc); },
                    _ => {}
                }
            }
            let mut all = vec![];
            out.note(&format!("wrapper_towers_{}", ctx.name()), format!("{} (thin slice in the shared corpus: {})", ast::wrapper_towers(ctx).len(), ast::wrapper_towers_thin(ctx).len()));
            for n in ast::dimension_corpus(ctx).into_iter().chain(ast::wrapper_towers(ctx)) { subs(&n, &mut all); }
            let mut seen = std::collections::BTreeSet::new();
            for n in all { if seen.insert(n.wire()) { crate::with_ctx!(ctx, one(out, ctx, &n)); } }
        }
        // every pool member itself (leaves included), and the sugar shapes around it
        for a in &pool {
            crate::with_ctx!(ctx, one(out, ctx, a));
            for w in [Node::AndV(bx(a), Box::new(Node::True)), Node::OrI(Box::new(Node::False), bx(a)), Node::OrI(bx(a), Box::new(Node::False)),
                      Node::AndOr(bx(a), bx(&pool[0]), Box::new(Node::False)), Node::AndOr(bx(a), Box::new(Node::False), bx(&pool[0])),
                      Node::Thresh(1, vec![a.clone()])] {
                crate::with_ctx!(ctx, one(out, ctx, &w));
            }
        }
        // the unchecked combinators must carry the type from_ast computes
        {
            use miniscript::{Miniscript, Threshold};
            fn chk<Pk: ast::KeyOf, Ctx: miniscript::ScriptContext>(out: &mut Out, ctx: CtxK, tap: bool) {
                let ks: Vec<u32> = if tap { vec![209, 208, 201] } else { vec![9, 8, 1] };
                let keys: Vec<Pk> = ks.iter().map(|i| Pk::of(*i)).collect();
                if tap {
                    if let Ok(t) = Threshold::new(2, keys.clone()) { let m = Miniscript::<Pk, Ctx>::sortedmulti_a(t); out.line(&format!("C typeof {} {}", ctx.name(), Node::SortedMultiA(2, ks.clone()).wire()), &ts(&m.ty)); }
                    if let Ok(t) = Threshold::new(2, keys) { let m = Miniscript::<Pk, Ctx>::multi_a(t); out.line(&format!("C typeof {} {}", ctx.name(), Node::MultiA(2, ks.clone()).wire()), &ts(&m.ty)); }
                } else {
                    if let Ok(t) = Threshold::new(2, keys.clone()) { let m = Miniscript::<Pk, Ctx>::sortedmulti(t); out.line(&format!("C typeof {} {}", ctx.name(), Node::SortedMulti(2, ks.clone()).wire()), &ts(&m.ty)); }
                    if let Ok(t) = Threshold::new(2, keys) { let m = Miniscript::<Pk, Ctx>::multi(t); out.line(&format!("C typeof {} {}", ctx.name(), Node::Multi(2, ks.clone()).wire()), &ts(&m.ty)); }
                }
                let k0 = Pk::of(if tap { 200 } else { 0 });
                out.line(&format!("C typeof {} {}", ctx.name(), Node::Check(Box::new(Node::PkK(if tap { 200 } else { 0 }))).wire()), &ts(&Miniscript::<Pk, Ctx>::pk(k0.clone()).ty));
                out.line(&format!("C typeof {} {}", ctx.name(), Node::Check(Box::new(Node::PkH(if tap { 200 } else { 0 }))).wire()), &ts(&Miniscript::<Pk, Ctx>::pkh(k0).ty));
            }
            let tap = ctx == CtxK::Tap;
            crate::with_ctx!(ctx, chk(out, ctx, tap));
        }
        let pick = |rng: &mut Rng| pool[rng.below(pool.len())].clone();
        for a in &pool {
            for w in [Node::Alt(bx(a)), Node::Swap(bx(a)), Node::Check(bx(a)), Node::DupIf(bx(a)), Node::Verify(bx(a)),
                      Node::NonZero(bx(a)), Node::ZeroNotEqual(bx(a))] {
                crate::with_ctx!(ctx, one(out, ctx, &w));
            }
        }
        let n2 = if thorough { 40 } else { 12 };
        for a in &pool {
            for _ in 0..n2 {
                let b = pick(rng);
                for c in [Node::AndV(bx(a), bx(&b)), Node::AndB(bx(a), bx(&b)), Node::OrB(bx(a), bx(&b)),
                          Node::OrD(bx(a), bx(&b)), Node::OrC(bx(a), bx(&b)), Node::OrI(bx(a), bx(&b))] {
                    crate::with_ctx!(ctx, one(out, ctx, &c));
                }
                let c = pick(rng);
                crate::with_ctx!(ctx, one(out, ctx, &Node::AndOr(bx(a), bx(&b), bx(&c))));
                let kids = vec![a.clone(), b.clone(), c.clone(), pick(rng)];
                let n = 1 + rng.below(4);
                let k = 1 + rng.below(n);
                crate::with_ctx!(ctx, one(out, ctx, &Node::Thresh(k, kids[..n].to_vec())));
            }
        }
    }
}

//! C11: no input can crash or hang the library.
//! = the expression-parser stream (`c11expr`) + a PANIC SWEEP over every other harness module
//! (script decoder on malformed bytes, all text parsers on mutated strings, interpreter on
//! mutated witnesses, PSBT finalizer/updater on adversarial PSBTs, planner on adversarial
//! assets, policy code, compiler): those modules run every library call under `catch_unwind`
//! and emit a `J nopanic … PANIC` line when one panics; here only those lines (and the atom
//! tables) are kept, everything else is counted as "swept".  Plus a corpus of satisfier calls
//! known to hit `assert!`s.
use crate::ast::{self, CtxK, Node, HK};
use crate::common::Out;
use crate::msops::{self, Assets};
use crate::with_ctx;
use miniscript::{Miniscript, ScriptContext};

#[path = "c11psbt.rs"]
mod psbtraw;

static LAST_PANIC: std::sync::Mutex<String> = std::sync::Mutex::new(String::new());

fn satisfier_case<Pk: msops::HKey, Ctx: ScriptContext>(out: &mut Out, ctx: CtxK, node: &Node, a: &Assets, tag: &str)
where Assets: miniscript::Satisfier<Pk>
{
    let ms: Miniscript<Pk, Ctx> = match ast::to_ms(node) { Ok(m) => m, Err(_) => { out.count("satisfier corpus: rejected by from_ast"); return; } };
    for mall in [false, true] {
        let r = std::panic::catch_unwind(std::panic::AssertUnwindSafe(|| {
            let _ = if mall { ms.build_template_mall(a) } else { ms.build_template(a) };
            let _ = if mall { ms.satisfy_malleable(a) } else { ms.satisfy(a) };
        }));
        let at = if r.is_err() { LAST_PANIC.lock().map(|s| s.clone()).unwrap_or_default() } else { "-".into() };
        out.line(
            &format!("J nopanic satisfier {} {} {} {} {} at={} {}", tag, ctx.name(), if mall { "mall" } else { "nonmall" },
                node.wire(), a.wire(), at, if r.is_err() { "PANIC" } else { "OK" }),
            "ok",
        );
    }
}

/// A taproot PSBT whose only leaf is `DUP HASH160 <hash160(x-only key)> EQUALVERIFY CHECKSIG`
/// (decoded by the finalizer as `c:expr_raw_pkh`), with a VALID script-path signature in
/// `tap_script_sigs` and (optionally) the key in `tap_key_origins`.
fn psbt_tap_rawpkh(out: &mut Out, with_origin: bool) {
    use miniscript::bitcoin::hashes::{hash160, Hash};
    use miniscript::bitcoin::opcodes::all as op;
    use miniscript::bitcoin::psbt::Psbt;
    use miniscript::bitcoin::script::Builder;
    use miniscript::bitcoin::secp256k1::{Keypair, Message, Secp256k1, SecretKey};
    use miniscript::bitcoin::sighash::{Prevouts, SighashCache, TapSighashType};
    use miniscript::bitcoin::taproot::{LeafVersion, TapLeafHash, TaprootBuilder};
    use miniscript::bitcoin::{absolute, taproot, transaction, Amount, OutPoint, ScriptBuf, Sequence, Transaction, TxIn, TxOut, Witness};
    use miniscript::psbt::PsbtExt;
    let secp = Secp256k1::new();
    let kp = |b: u8| Keypair::from_secret_key(&secp, &SecretKey::from_slice(&[b; 32]).unwrap());
    let (ik, _) = kp(0x11).x_only_public_key();
    let (lk, _) = kp(0x22).x_only_public_key();
    let h = hash160::Hash::hash(&lk.serialize());
    let script = Builder::new().push_opcode(op::OP_DUP).push_opcode(op::OP_HASH160).push_slice(h.to_byte_array())
        .push_opcode(op::OP_EQUALVERIFY).push_opcode(op::OP_CHECKSIG).into_script();
    let info = TaprootBuilder::new().add_leaf(0, script.clone()).unwrap().finalize(&secp, ik).unwrap();
    let spk = ScriptBuf::new_p2tr_tweaked(info.output_key());
    let utxo = TxOut { value: Amount::from_sat(2000), script_pubkey: spk.clone() };
    let tx = Transaction {
        version: transaction::Version::TWO, lock_time: absolute::LockTime::ZERO,
        input: vec![TxIn { previous_output: OutPoint::default(), script_sig: ScriptBuf::new(), sequence: Sequence::MAX, witness: Witness::new() }],
        output: vec![TxOut { value: Amount::from_sat(1000), script_pubkey: spk }],
    };
    let lh = TapLeafHash::from_script(&script, LeafVersion::TapScript);
    let digest = SighashCache::new(&tx).taproot_script_spend_signature_hash(0, &Prevouts::All(&[utxo.clone()]), lh, TapSighashType::Default).unwrap();
    let sig = secp.sign_schnorr_no_aux_rand(&Message::from_digest(digest.to_byte_array()), &kp(0x22));
    let mut psbt = Psbt::from_unsigned_tx(tx).unwrap();
    psbt.inputs[0].witness_utxo = Some(utxo);
    psbt.inputs[0].tap_internal_key = Some(ik);
    psbt.inputs[0].tap_merkle_root = info.merkle_root();
    let cb = info.control_block(&(script.clone(), LeafVersion::TapScript)).unwrap();
    psbt.inputs[0].tap_scripts.insert(cb, (script.clone(), LeafVersion::TapScript));
    psbt.inputs[0].tap_script_sigs.insert((lk, lh), taproot::Signature { signature: sig, sighash_type: TapSighashType::Default });
    if with_origin {
        psbt.inputs[0].tap_key_origins.insert(lk, (vec![lh], (Default::default(), Default::default())));
    }
    for mall in [false, true] {
        let mut p = psbt.clone();
        let r = std::panic::catch_unwind(std::panic::AssertUnwindSafe(|| {
            if mall { p.finalize_mall_mut(&secp).is_ok() } else { p.finalize_mut(&secp).is_ok() }
        }));
        let at = if r.is_err() { LAST_PANIC.lock().map(|s| s.clone()).unwrap_or_default() } else { "-".into() };
        let res = match &r { Ok(true) => "finalized", Ok(false) => "error", Err(_) => "panic" };
        out.line(
            &format!("J nopanic psbt-tap-rawpkh-leaf origin={} {} result={} at={} {}", with_origin, if mall { "mall" } else { "nonmall" }, res, at,
                if r.is_err() { "PANIC" } else { "OK" }),
            "ok",
        );
    }
}

/// Non-ASCII text at every position of valid-looking inputs, to every `FromStr` entry point:
/// parsers slice by byte offsets, and a multi-byte character at a sliced offset panics unless
/// the input was rejected (or char boundaries are respected) first.
fn non_ascii_stream(out: &mut Out, thorough: bool) {
    use miniscript::descriptor::{DefiniteDescriptorKey, DescriptorPublicKey, DescriptorSecretKey};
    use miniscript::policy::{Concrete, Semantic};
    use miniscript::{Descriptor, Miniscript, Segwitv0, Tap};
    use std::str::FromStr;
    const XPUB: &str = "xpub661MyMwAqRbcFtXgS5sYJABqqG9YLmC4Q1Rdap9gSE8NqtwybGhePY2gZ29ESFjqJoCu1Rupje8YtGqsefD265TMg7usUDFdp6W1EGMcet8";
    const XPRV: &str = "xprv9s21ZrQH143K3QTDL4LXw2F7HEK3wJUD2nW2nRk4stbPy6cq3jPPqjiChkVvvNKmPGJxWUtg6LnF5kejMRNNU3TGtRBeJgk33yuGBxrMPHi";
    const PK: &str = "03c57b973499cb87c1409b29b475185b624c6abb8421f003246f1ede275d367af4";
    const XO: &str = "c57b973499cb87c1409b29b475185b624c6abb8421f003246f1ede275d367af4";
    let bases: Vec<String> = vec![
        PK.into(), XO.into(), format!("[d34db33f/44'/0'/0']{}", PK), format!("[d34db33f/44h/0h]{}/1/*", XPUB),
        format!("{}/<0;1>/*", XPUB), format!("[d34db33f]{}/0'/*h", XPRV), XPRV.into(),
        "L4rK1yDtCWekvXuE6oXD9jCYfFNV2cWRpVuPLBcCU2z8TrisoyY1".into(),
        format!("wpkh({})", PK), format!("wsh(and_v(v:pk({}),older(10)))", PK), format!("tr({},{{pk({}),pk({})}})", XO, XO, PK),
        format!("sh(wsh(multi(1,{},{})))#abcdefgh", PK, PK), "and_v(v:pk(A),or_d(pk(B),older(10)))".into(),
        "or(9@pk(A),1@and(pk(B),after(100)))".into(), "thresh(2,pk(A),pk(B),older(5))".into(),
        format!("pkh({})", PK), format!("pk({})", PK), format!("sh(multi(1,{},{}))", PK, PK),
        "wsh(multi(2,@0/**,@1/<2;3>/*))".into(), "tr(@0/**,{pk(@1/**),pk(@2/<0;1>/*)})".into(),
    ];
    let mut inputs: Vec<String> = vec![];
    for u in ["é", "€", "😀"] {
        for n in [0usize, 1, 2, 3, 31, 32, 33, 61, 62, 63, 64, 65, 66, 67, 109, 110, 111, 112, 127, 128, 129, 130] {
            inputs.push(format!("{}{}", u, "a".repeat(n)));
            inputs.push(format!("{}{}", u, "0".repeat(n)));
            inputs.push(format!("{}{}", "0".repeat(n), u));
            inputs.push(format!("[d34db33f/44'/0'/0']{}{}", u, "0".repeat(n)));
            inputs.push(format!("[{}{}]{}", u, "0".repeat(n.min(12)), PK));
        }
        for b in &bases {
            let chars: Vec<char> = b.chars().collect();
            let step = if thorough { 1 } else { (chars.len() / 40).max(1) };
            let mut pos: Vec<usize> = (0..chars.len()).step_by(step).collect();
            for p in [0usize, 1, 2, 3, chars.len().saturating_sub(1), chars.len().saturating_sub(2)] { pos.push(p.min(chars.len().saturating_sub(1))); }
            // around every structural character
            for (i, c) in chars.iter().enumerate() { if "[]/()<>;,'#*@{}".contains(*c) { pos.push(i); if i + 1 < chars.len() { pos.push(i + 1); } if i > 0 { pos.push(i - 1); } } }
            pos.sort(); pos.dedup();
            for p in pos {
                let mut r = chars.clone(); r.splice(p..p + 1, u.chars()); inputs.push(r.iter().collect());
                let mut r = chars.clone(); r.splice(p..p, u.chars()); inputs.push(r.iter().collect());
            }
        }
    }
    inputs.sort(); inputs.dedup();
    out.note("non_ascii_inputs", inputs.len().to_string());
    macro_rules! probe { ($name:expr, $ty:ty, $s:expr) => {{
        let r = std::panic::catch_unwind(|| <$ty>::from_str($s).is_ok());
        let at = if r.is_err() { LAST_PANIC.lock().map(|s| s.clone()).unwrap_or_default() } else { "-".into() };
        let verdict = match r { Err(_) => "PANIC", Ok(_) => "OK" };
        if verdict != "OK" || out.n_lines % 97 == 0 {
            out.line(&format!("J nopanic nonascii {} {} at={} {}", $name, crate::c10::hex($s), at, if verdict == "OK" { "OK" } else { "PANIC" }), "ok");
        } else { out.count(concat!("nonascii ok ", $name)); }
    }}; }
    // TRUNCATIONS: every prefix and every suffix of every key expression (short and LONG origins,
    // xpub / xprv / WIF / hex keys, paths, multipath, wildcards), alone and as the key of every
    // wrapper: parsers test total lengths and then slice segments - a long valid head with a
    // 0..3-byte tail (or the reverse) passes the length test and reaches the slice
    {
        let long_origin = "[aabbccdd/44'/0'/0'/1000000000/1000000001/1000000002/1000000003/1000000004]";
        let keys: Vec<String> = vec![
            PK.into(), XO.into(), XPUB.into(), XPRV.into(), "L4rK1yDtCWekvXuE6oXD9jCYfFNV2cWRpVuPLBcCU2z8TrisoyY1".into(),
            format!("[d34db33f/44'/0'/0']{}", PK), format!("[d34db33f/44h/0h]{}/1/*", XPUB), format!("{}/<0;1>/*", XPUB),
            format!("[d34db33f]{}/0'/*h", XPRV), format!("{}{}", long_origin, PK), format!("{}{}/0/*", long_origin, XPUB),
            format!("{}{}/<0;1;2>/*h", long_origin, XPRV), format!("{}{}", long_origin, XO),
        ];
        let mut trunc: Vec<String> = vec![];
        for k in &keys {
            let cs: Vec<char> = k.chars().collect();
            let mut cuts: Vec<usize> = (0..=cs.len()).collect();
            if !thorough && cs.len() > 90 {
                // all cuts within 6 characters of a structural character or of either end, every 7th otherwise
                cuts.retain(|i| *i < 8 || *i + 8 > cs.len() || i % 7 == 0 || (i.saturating_sub(6)..(*i + 6).min(cs.len())).any(|j| "[]/<>;'*h".contains(cs[j])));
            }
            for i in cuts {
                trunc.push(cs[..i].iter().collect());
                trunc.push(cs[i..].iter().collect());
            }
        }
        trunc.sort(); trunc.dedup();
        out.note("truncated_key_expressions", trunc.len().to_string());
        for t in &trunc {
            inputs.push(t.clone());
            for w in ["pk({})", "pkh({})", "wpkh({})", "sh(wpkh({}))", "tr({})", "wsh(pk({}))"] { inputs.push(w.replace("{}", t)); }
            inputs.push(format!("wsh(multi(1,{},{}))", t, PK));
            inputs.push(format!("tr({},pk({}))", XO, t));
            inputs.push(format!("sh(sortedmulti(1,{},{}))", PK, t));
        }
        inputs.sort(); inputs.dedup();
        out.note("non_ascii_and_truncation_inputs", inputs.len().to_string());
    }
    for s in &inputs {
        probe!("DescriptorPublicKey", DescriptorPublicKey, s);
        probe!("DescriptorSecretKey", DescriptorSecretKey, s);
        probe!("DefiniteDescriptorKey", DefiniteDescriptorKey, s);
        probe!("Descriptor<DescriptorPublicKey>", Descriptor<DescriptorPublicKey>, s);
        probe!("Descriptor<String>", Descriptor<String>, s);
        probe!("Miniscript<String,Segwitv0>", Miniscript<String, Segwitv0>, s);
        probe!("Miniscript<DescriptorPublicKey,Tap>", Miniscript<DescriptorPublicKey, Tap>, s);
        probe!("Concrete<String>", Concrete<String>, s);
        probe!("Concrete<DescriptorPublicKey>", Concrete<DescriptorPublicKey>, s);
        probe!("Semantic<String>", Semantic<String>, s);
        // the inner descriptor types have their own FromStr; wallet policies their own grammar
        probe!("Wsh<String>", miniscript::descriptor::Wsh<String>, s);
        probe!("Wpkh<String>", miniscript::descriptor::Wpkh<String>, s);
        probe!("Sh<String>", miniscript::descriptor::Sh<String>, s);
        probe!("Pkh<String>", miniscript::descriptor::Pkh<String>, s);
        probe!("Bare<String>", miniscript::descriptor::Bare<String>, s);
        probe!("Tr<String>", miniscript::descriptor::Tr<String>, s);
        probe!("Tr<DescriptorPublicKey>", miniscript::descriptor::Tr<DescriptorPublicKey>, s);
        probe!("WalletPolicy", miniscript::descriptor::WalletPolicy, s);
    }
}

/// Byte-level transaction data offered to `Interpreter::from_txdata` (and, when accepted, iterated
/// to the end): every output type x inner scripts (redeem script / witness script / tapscript) of
/// every short length, witness-program look-alikes around the 22- and 34-byte boundaries, and
/// scriptSig / witness / control-block shapes around each length the classifier tests.
fn from_txdata_stream(out: &mut Out, thorough: bool) {
    use miniscript::bitcoin::hashes::{hash160, sha256, Hash};
    use miniscript::bitcoin::script::{Builder, PushBytesBuf};
    use miniscript::bitcoin::{absolute, ScriptBuf, Sequence, Witness};
    use miniscript::interpreter::Interpreter;
    let push = |b: &[u8]| -> ScriptBuf { Builder::new().push_slice(PushBytesBuf::try_from(b.to_vec()).unwrap()).into_script() };
    let alpha: &[u8] = if thorough { &[0x00, 0x01, 0x02, 0x14, 0x20, 0x21, 0x4c, 0x50, 0x51, 0x60, 0x75, 0x87, 0xa9, 0xac, 0xff] } else { &[0x00, 0x01, 0x14, 0x20, 0x51, 0xac, 0xff] };
    // inner scripts
    let mut inners: Vec<Vec<u8>> = vec![vec![]];
    for a in alpha { inners.push(vec![*a]); }
    for a in alpha { for b in alpha { inners.push(vec![*a, *b]); } }
    if thorough { for a in alpha { for b in alpha { for c in [0x00u8, 0x14, 0x20, 0x51] { inners.push(vec![*a, *b, c]); } } } }
    let key33 = ast::full_key(1).to_bytes();
    for ver in [0x00u8, 0x51, 0x60] {
        for (plen, body) in [(0x14u8, 20usize), (0x20, 32), (0x21, 33), (0x02, 2), (0x28, 40)] {
            for delta in [-2i32, -1, 0, 1, 2] {
                let n = (body as i32 + delta).max(0) as usize;
                let mut v = vec![ver, plen]; v.extend(std::iter::repeat(0x11u8).take(n)); inners.push(v);
            }
        }
    }
    // well-formed miniscripts as inner scripts
    let mut pkcs = vec![0x21]; pkcs.extend(&key33); pkcs.push(0xac);
    inners.push(pkcs.clone());
    inners.push(vec![0x51]);
    inners.sort(); inners.dedup();
    let h160 = |b: &[u8]| hash160::Hash::hash(b).to_byte_array().to_vec();
    let s256 = |b: &[u8]| sha256::Hash::hash(b).to_byte_array().to_vec();
    let mut n = 0u64;
    let mut probe = |out: &mut Out, tag: &str, spk: &ScriptBuf, ss: &ScriptBuf, wit: &Witness| {
        let r = std::panic::catch_unwind(std::panic::AssertUnwindSafe(|| {
            match Interpreter::from_txdata(spk, ss, wit, Sequence::from_consensus(10), absolute::LockTime::from_consensus(100)) {
                Ok(i) => { let mut k = 0; for x in i.iter_assume_sigs() { k += 1; if x.is_err() || k > 10_000 { break; } } let _ = i.inferred_descriptor_string(); let _ = i.is_legacy(); true }
                Err(_) => false,
            }
        }));
        let at = if r.is_err() { LAST_PANIC.lock().map(|s| s.clone()).unwrap_or_default() } else { "-".into() };
        n += 1;
        match r {
            Err(_) => out.line(&format!("J nopanic from_txdata {} spk={} ss={} wit={} at={} PANIC", tag, ast::hex(spk.as_bytes()), ast::hex(ss.as_bytes()),
                wit.iter().map(|e| if e.is_empty() { "-".to_string() } else { ast::hex(e) }).collect::<Vec<_>>().join(","), at), "ok"),
            Ok(acc) => out.count(&format!("from_txdata {} {}", tag, if acc { "accepted" } else { "refused" })),
        }
    };
    let empty = ScriptBuf::new();
    let w = |items: Vec<Vec<u8>>| Witness::from_slice(&items);
    for inner in &inners {
        // p2sh: canonical scriptSig, with stack items below, with trailing / leading garbage
        let mut spk = vec![0xa9, 0x14]; spk.extend(h160(inner)); spk.push(0x87);
        let spk = ScriptBuf::from_bytes(spk);
        let ss0 = if inner.is_empty() { ScriptBuf::from_bytes(vec![0x00]) } else { push(inner) };
        probe(out, "p2sh", &spk, &ss0, &Witness::new());
        let mut ss1 = vec![0x00]; ss1.extend(ss0.as_bytes()); probe(out, "p2sh+item", &spk, &ScriptBuf::from_bytes(ss1), &Witness::new());
        let mut ss2 = vec![0x01, 0x01, 0x21]; ss2.extend(&key33); ss2.extend(ss0.as_bytes()); probe(out, "p2sh+items", &spk, &ScriptBuf::from_bytes(ss2), &Witness::new());
        probe(out, "p2sh+wit", &spk, &ss0, &w(vec![vec![1], inner.clone()]));
        probe(out, "p2sh+wit2", &spk, &ss0, &w(vec![vec![0x30; 71], key33.clone()]));
        probe(out, "p2sh-empty-ss", &spk, &empty, &Witness::new());
        // p2wsh / p2sh-p2wsh
        let mut wspk = vec![0x00, 0x20]; wspk.extend(s256(inner));
        let wspk = ScriptBuf::from_bytes(wspk);
        for wit in [w(vec![inner.clone()]), w(vec![vec![], inner.clone()]), w(vec![vec![1], vec![], inner.clone()]), Witness::new(), w(vec![vec![]])] {
            probe(out, "p2wsh", &wspk, &empty, &wit);
            let mut sspk = vec![0xa9, 0x14]; sspk.extend(h160(wspk.as_bytes())); sspk.push(0x87);
            probe(out, "p2sh-p2wsh", &ScriptBuf::from_bytes(sspk), &push(wspk.as_bytes()), &wit);
        }
        probe(out, "p2wsh+ss", &wspk, &ss0, &w(vec![inner.clone()]));
        // bare: the inner script as scriptPubKey
        probe(out, "bare", &ScriptBuf::from_bytes(inner.clone()), &empty, &Witness::new());
        probe(out, "bare+ss", &ScriptBuf::from_bytes(inner.clone()), &ScriptBuf::from_bytes(vec![0x00, 0x51]), &Witness::new());
        probe(out, "bare+wit", &ScriptBuf::from_bytes(inner.clone()), &empty, &w(vec![vec![1]]));
        // p2tr script path: control blocks of every length the parser distinguishes
        let xo = ast::xonly_key(201).serialize().to_vec();
        let mut tspk = vec![0x51, 0x20]; tspk.extend(&xo);
        let tspk = ScriptBuf::from_bytes(tspk);
        // a control block that really commits to the inner script (single leaf, and a two-leaf tree)
        {
            use miniscript::bitcoin::taproot::{LeafVersion, TaprootBuilder};
            let secp = miniscript::bitcoin::secp256k1::Secp256k1::verification_only();
            let ik = ast::xonly_key(201);
            let leaf = ScriptBuf::from_bytes(inner.clone());
            for two in [false, true] {
                let b = if two { TaprootBuilder::new().add_leaf(1, leaf.clone()).and_then(|b| b.add_leaf(1, ScriptBuf::from_bytes(vec![0x51]))) } else { TaprootBuilder::new().add_leaf(0, leaf.clone()) };
                if let Ok(Ok(info)) = b.map(|b| b.finalize(&secp, ik)) {
                    if let Some(cb) = info.control_block(&(leaf.clone(), LeafVersion::TapScript)) {
                        let mut vspk = vec![0x51, 0x20]; vspk.extend(info.output_key().to_x_only_public_key().serialize());
                        let vspk = ScriptBuf::from_bytes(vspk);
                        let cbb = cb.serialize();
                        probe(out, "p2tr-valid", &vspk, &empty, &w(vec![inner.clone(), cbb.clone()]));
                        probe(out, "p2tr-valid+item", &vspk, &empty, &w(vec![vec![], inner.clone(), cbb.clone()]));
                        probe(out, "p2tr-valid+items", &vspk, &empty, &w(vec![vec![0x30; 64], vec![1], inner.clone(), cbb.clone()]));
                        probe(out, "p2tr-valid+annex", &vspk, &empty, &w(vec![inner.clone(), cbb.clone(), vec![0x50, 0x00]]));
                        probe(out, "p2tr-valid+ss", &vspk, &ScriptBuf::from_bytes(vec![0x51]), &w(vec![inner.clone(), cbb]));
                    }
                }
            }
        }
        for clen in [0usize, 1, 32, 33, 34, 64, 65, 66, 97] {
            let mut cb = vec![0xc0u8]; cb.extend(xo.iter().cycle().take(clen.saturating_sub(1))); cb.truncate(clen);
            probe(out, "p2tr", &tspk, &empty, &w(vec![inner.clone(), cb.clone()]));
            probe(out, "p2tr+item", &tspk, &empty, &w(vec![vec![], inner.clone(), cb.clone()]));
            probe(out, "p2tr+annex", &tspk, &empty, &w(vec![inner.clone(), cb, vec![0x50, 0x00]]));
        }
    }
    // key-only outputs: witness / scriptSig shapes
    let k20 = h160(&key33);
    let mut wpkh = vec![0x00, 0x14]; wpkh.extend(&k20);
    let wpkh = ScriptBuf::from_bytes(wpkh);
    let mut pkh = vec![0x76, 0xa9, 0x14]; pkh.extend(&k20); pkh.extend([0x88, 0xac]);
    let pkh = ScriptBuf::from_bytes(pkh);
    let mut shwpkh = vec![0xa9, 0x14]; shwpkh.extend(h160(wpkh.as_bytes())); shwpkh.push(0x87);
    let shwpkh = ScriptBuf::from_bytes(shwpkh);
    let xo = ast::xonly_key(201).serialize().to_vec();
    let mut tspk = vec![0x51, 0x20]; tspk.extend(&xo);
    let tspk = ScriptBuf::from_bytes(tspk);
    let elems: Vec<Vec<u8>> = vec![vec![], vec![0], vec![1], key33.clone(), key33[..32].to_vec(), ast::full_key(101).to_bytes(), vec![0x30; 71], vec![0x30; 64], vec![0x30; 65], vec![0x50], vec![0x50, 1]];
    let mut wits: Vec<Vec<Vec<u8>>> = vec![vec![]];
    for a in &elems { wits.push(vec![a.clone()]); for b in &elems { wits.push(vec![a.clone(), b.clone()]); } }
    for a in &elems { wits.push(vec![a.clone(), key33.clone(), vec![]]); }
    for wi in &wits {
        let wit = w(wi.clone());
        probe(out, "p2wpkh", &wpkh, &empty, &wit);
        probe(out, "p2sh-p2wpkh", &shwpkh, &push(wpkh.as_bytes()), &wit);
        probe(out, "p2tr-key", &tspk, &empty, &wit);
        // the same items as scriptSig pushes of p2pkh / p2pk
        let mut b = Builder::new();
        for e in wi { b = b.push_slice(PushBytesBuf::try_from(e.clone()).unwrap()); }
        let ss = b.into_script();
        probe(out, "p2pkh", &pkh, &ss, &Witness::new());
        probe(out, "p2pkh+wit", &pkh, &ss, &wit);
        let mut pk = vec![0x21]; pk.extend(&key33); pk.push(0xac);
        probe(out, "p2pk", &ScriptBuf::from_bytes(pk), &ss, &Witness::new());
        probe(out, "p2wpkh+ss", &wpkh, &ss, &wit);
    }
    // scriptSigs that are not push-only / truncated pushes
    for ss in [vec![0x4c], vec![0x4c, 0x05, 0x01], vec![0x4d, 0x01], vec![0x4e, 0x01, 0x00], vec![0x01], vec![0x02, 0x01], vec![0xac], vec![0x6a], vec![0x00, 0xac], vec![0x4f], vec![0x60], vec![0x51, 0x51]] {
        let ssb = ScriptBuf::from_bytes(ss);
        for spk in [&pkh, &shwpkh, &wpkh, &tspk] { probe(out, "odd-scriptsig", spk, &ssb, &Witness::new()); }
    }
    out.note("from_txdata_cases", n.to_string());
}

fn bx(n: Node) -> Box<Node> { Box::new(n) }

pub fn run(out: &mut Out, thorough: bool, seed: u64) {
    let prev = std::panic::take_hook();
    // 1. expression parser / parse_num (own C and J lines)
    crate::c11expr::run(out, thorough, seed);
    // 2. satisfier assert corpus
    std::panic::set_hook(Box::new(|info| {
        if let (Some(l), Ok(mut g)) = (info.location(), LAST_PANIC.lock()) {
            *g = format!("{}:{}", l.file().rsplit("/src/").next().unwrap_or("?"), l.line());
        }
    }));
    ast::emit_defs(out);
    {
        let pk = |i: u32| Node::Check(bx(Node::PkK(i)));
        let v = |n: Node| Node::Verify(bx(n));
        // (a) formerly F3: sane script whose or_d left dissatisfaction carried a signature
        let a1 = Node::OrD(bx(Node::OrI(bx(Node::NonZero(bx(Node::AndV(bx(v(pk(0))), bx(pk(1)))))), bx(Node::AndV(bx(v(pk(2))), bx(Node::False))))), bx(pk(3)));
        let mut as1 = Assets::default(); as1.ecdsa.insert(2);
        // (b) malleable mode, mixed time locks make the sig-free dissatisfaction IMPOSSIBLE
        let lock = |n: u32| Node::OrI(bx(Node::False), bx(Node::AndV(bx(v(Node::Older(n))), bx(Node::False))));
        let b1 = Node::OrD(bx(Node::OrI(bx(Node::AndB(bx(lock(1)), bx(Node::Alt(bx(lock(4194305)))))), bx(Node::AndV(bx(v(pk(2))), bx(Node::False))))), bx(pk(3)));
        let mut as2 = Assets::default(); as2.ecdsa.insert(2); as2.older.insert(1); as2.older.insert(4194305);
        // (c) and_v dissatisfaction with a signature under or_i, raw pkh arm without its key
        let c1 = Node::OrD(bx(Node::OrI(bx(Node::Check(bx(Node::RawPkH(0)))), bx(Node::AndV(bx(v(pk(1))), bx(pk(2)))))), bx(pk(3)));
        let mut as3 = Assets::default(); as3.ecdsa.insert(1); as3.ecdsa.insert(2);
        // (d) or_i(j:pk, and_v(v:pk,pk)) under or_d
        let d1 = Node::OrD(bx(Node::OrI(bx(Node::NonZero(bx(pk(0)))), bx(Node::AndV(bx(v(pk(1))), bx(pk(2)))))), bx(pk(3)));
        let mut as4 = Assets::default(); as4.ecdsa.insert(1);
        for ctx in [CtxK::Segwitv0, CtxK::Legacy] {
            with_ctx!(ctx, satisfier_case(out, ctx, &a1, &as1, "f3-or_d-left-dissat"));
            with_ctx!(ctx, satisfier_case(out, ctx, &b1, &as2, "mixed-locks-or_d-left-dissat"));
            with_ctx!(ctx, satisfier_case(out, ctx, &c1, &as3, "rawpkh-and_v-dissat"));
            with_ctx!(ctx, satisfier_case(out, ctx, &d1, &as4, "j-pk-and_v-dissat"));
        }
        // (e) tap raw pkh: template built with x-only lookups, completed with full-key lookups
        let e1 = Node::Check(bx(Node::RawPkH(200)));
        let mut as5 = Assets::default(); as5.schnorr.insert(200, 64); as5.rawsig.insert(200); as5.rawpk.insert(200);
        with_ctx!(CtxK::Tap, satisfier_case(out, CtxK::Tap, &e1, &as5, "tap-rawpkh"));
        let _ = HK::Sha256;
    }
    psbt_tap_rawpkh(out, true);
    psbt_tap_rawpkh(out, false);
    non_ascii_stream(out, thorough);
    { let t0 = std::time::Instant::now(); from_txdata_stream(out, thorough); out.note("from_txdata_seconds", format!("{:.1}", t0.elapsed().as_secs_f64())); }
    { let t0 = std::time::Instant::now(); psbtraw::run(out, thorough, &LAST_PANIC); out.note("psbt_raw_seconds", format!("{:.1}", t0.elapsed().as_secs_f64())); }
    // 3. panic sweep over the other modules
    out.sweep = true;
    crate::c04::run(out, thorough, seed);
    {
        let mut rng = crate::common::Rng(seed ^ 0xC11);
        crate::c10b::run_roundtrip(out, thorough, &mut rng);
    }
    crate::c13::run(out, thorough, seed);
    crate::c14::run(out, thorough, seed);
    crate::c17::run(out, thorough, seed);
    crate::c12::run(out, thorough, seed);
    crate::c18::run(out, thorough, seed);
    // the compiler takes typed policy VALUES (enum-built odds of 0, uncompressed keys as unspendable
    // key …): not one of C11's input channels; its panics on such values are C08 observations
    out.sweep_tokens = false;
    crate::c08::run(out, false, seed);
    out.sweep_tokens = true;
    out.sweep = false;
    let swept = out.swept;
    out.note("swept_calls", swept.to_string());
    out.note("domain", "expression parser: own stream; all other entry points: panic sweep over the C04 (script decoder, malformed bytes), C10 (every FromStr on mutated strings), C13 (interpreter on mutated spends), C14 (PSBT histories + adversarial PSBTs), C17 (planner, adversarial Assets), C12 (constructors/validate), C18 (policy code), C08 (compiler) streams; satisfier assert corpus; non-ASCII text at every position of 15 base strings to all 18 public FromStr types (incl. the inner descriptor types Wsh / Wpkh / Sh / Pkh / Bare / Tr and WalletPolicy); byte-level Interpreter::from_txdata stream (p2sh / p2wsh / sh-wsh / bare / p2tr with committing and non-committing control blocks of 9 lengths / p2wpkh / sh-wpkh / p2pkh / p2pk x inner scripts of every length 0..2 over an opcode alphabet, witness-program look-alikes of 3 versions x 5 program lengths x body length -2..+2, x scriptSig / witness shapes incl. non-push and truncated pushes; accepted inputs are iterated to the end)".into());
    std::panic::set_hook(prev);
}

//! C11: no input can crash or hang the library.
//! = the expression-parser stream (`c11expr`) + a PANIC SWEEP over every other harness module
//! (script decoder on malformed bytes, all text parsers on mutated strings, interpreter on
//! mutated witnesses, PSBT finalizer/updater on adversarial PSBTs, planner on adversarial
//! assets, policy code, compiler): those modules run every library call under `catch_unwind`
//! and emit a `J nopanic … PANIC` line when one panics; here only those lines (and the atom
//! tables) are kept, everything else is counted as "swept".  Plus a corpus of satisfier calls
//! known to hit `assert!`s.
use crate::ast::{self, CtxK, Node, HK};
use crate::common::Out;
use crate::msops::{self, Assets};
use crate::with_ctx;
use miniscript::{Miniscript, ScriptContext};

static LAST_PANIC: std::sync::Mutex<String> = std::sync::Mutex::new(String::new());

fn satisfier_case<Pk: msops::HKey, Ctx: ScriptContext>(out: &mut Out, ctx: CtxK, node: &Node, a: &Assets, tag: &str)
where Assets: miniscript::Satisfier<Pk>
{
    let ms: Miniscript<Pk, Ctx> = match ast::to_ms(node) { Ok(m) => m, Err(_) => { out.count("satisfier corpus: rejected by from_ast"); return; } };
    for mall in [false, true] {
        let r = std::panic::catch_unwind(std::panic::AssertUnwindSafe(|| {
            let _ = if mall { ms.build_template_mall(a) } else { ms.build_template(a) };
            let _ = if mall { ms.satisfy_malleable(a) } else { ms.satisfy(a) };
        }));
        let at = if r.is_err() { LAST_PANIC.lock().map(|s| s.clone()).unwrap_or_default() } else { "-".into() };
        out.line(
            &format!("J nopanic satisfier {} {} {} {} {} at={} {}", tag, ctx.name(), if mall { "mall" } else { "nonmall" },
                node.wire(), a.wire(), at, if r.is_err() { "PANIC" } else { "OK" }),
            "ok",
        );
    }
}

/// A taproot PSBT whose only leaf is `DUP HASH160 <hash160(x-only key)> EQUALVERIFY CHECKSIG`
/// (decoded by the finalizer as `c:expr_raw_pkh`), with a VALID script-path signature in
/// `tap_script_sigs` and (optionally) the key in `tap_key_origins`.
fn psbt_tap_rawpkh(out: &mut Out, with_origin: bool) {
    use miniscript::bitcoin::hashes::{hash160, Hash};
    use miniscript::bitcoin::opcodes::all as op;
    use miniscript::bitcoin::psbt::Psbt;
    use miniscript::bitcoin::script::Builder;
    use miniscript::bitcoin::secp256k1::{Keypair, Message, Secp256k1, SecretKey};
    use miniscript::bitcoin::sighash::{Prevouts, SighashCache, TapSighashType};
    use miniscript::bitcoin::taproot::{LeafVersion, TapLeafHash, TaprootBuilder};
    use miniscript::bitcoin::{absolute, taproot, transaction, Amount, OutPoint, ScriptBuf, Sequence, Transaction, TxIn, TxOut, Witness};
    use miniscript::psbt::PsbtExt;
    let secp = Secp256k1::new();
    let kp = |b: u8| Keypair::from_secret_key(&secp, &SecretKey::from_slice(&[b; 32]).unwrap());
    let (ik, _) = kp(0x11).x_only_public_key();
    let (lk, _) = kp(0x22).x_only_public_key();
    let h = hash160::Hash::hash(&lk.serialize());
    let script = Builder::new().push_opcode(op::OP_DUP).push_opcode(op::OP_HASH160).push_slice(h.to_byte_array())
        .push_opcode(op::OP_EQUALVERIFY).push_opcode(op::OP_CHECKSIG).into_script();
    let info = TaprootBuilder::new().add_leaf(0, script.clone()).unwrap().finalize(&secp, ik).unwrap();
    let spk = ScriptBuf::new_p2tr_tweaked(info.output_key());
    let utxo = TxOut { value: Amount::from_sat(2000), script_pubkey: spk.clone() };
    let tx = Transaction {
        version: transaction::Version::TWO, lock_time: absolute::LockTime::ZERO,
        input: vec![TxIn { previous_output: OutPoint::default(), script_sig: ScriptBuf::new(), sequence: Sequence::MAX, witness: Witness::new() }],
        output: vec![TxOut { value: Amount::from_sat(1000), script_pubkey: spk }],
    };
    let lh = TapLeafHash::from_script(&script, LeafVersion::TapScript);
    let digest = SighashCache::new(&tx).taproot_script_spend_signature_hash(0, &Prevouts::All(&[utxo.clone()]), lh, TapSighashType::Default).unwrap();
    let sig = secp.sign_schnorr_no_aux_rand(&Message::from_digest(digest.to_byte_array()), &kp(0x22));
    let mut psbt = Psbt::from_unsigned_tx(tx).unwrap();
    psbt.inputs[0].witness_utxo = Some(utxo);
    psbt.inputs[0].tap_internal_key = Some(ik);
    psbt.inputs[0].tap_merkle_root = info.merkle_root();
    let cb = info.control_block(&(script.clone(), LeafVersion::TapScript)).unwrap();
    psbt.inputs[0].tap_scripts.insert(cb, (script.clone(), LeafVersion::TapScript));
    psbt.inputs[0].tap_script_sigs.insert((lk, lh), taproot::Signature { signature: sig, sighash_type: TapSighashType::Default });
    if with_origin {
        psbt.inputs[0].tap_key_origins.insert(lk, (vec![lh], (Default::default(), Default::default())));
    }
    for mall in [false, true] {
        let mut p = psbt.clone();
        let r = std::panic::catch_unwind(std::panic::AssertUnwindSafe(|| {
            if mall { p.finalize_mall_mut(&secp).is_ok() } else { p.finalize_mut(&secp).is_ok() }
        }));
        let at = if r.is_err() { LAST_PANIC.lock().map(|s| s.clone()).unwrap_or_default() } else { "-".into() };
        let res = match &r { Ok(true) => "finalized", Ok(false) => "error", Err(_) => "panic" };
        out.line(
            &format!("J nopanic psbt-tap-rawpkh-leaf origin={} {} result={} at={} {}", with_origin, if mall { "mall" } else { "nonmall" }, res, at,
                if r.is_err() { "PANIC" } else { "OK" }),
            "ok",
        );
    }
}

/// Non-ASCII text at every position of valid-looking inputs, to every `FromStr` entry point:
/// parsers slice by byte offsets, and a multi-byte character at a sliced offset panics unless
/// the input was rejected (or char boundaries are respected) first.
fn non_ascii_stream(out: &mut Out, thorough: bool) {
    use miniscript::descriptor::{DefiniteDescriptorKey, DescriptorPublicKey, DescriptorSecretKey};
    use miniscript::policy::{Concrete, Semantic};
    use miniscript::{Descriptor, Miniscript, Segwitv0, Tap};
    use std::str::FromStr;
    const XPUB: &str = "xpub661MyMwAqRbcFtXgS5sYJABqqG9YLmC4Q1Rdap9gSE8NqtwybGhePY2gZ29ESFjqJoCu1Rupje8YtGqsefD265TMg7usUDFdp6W1EGMcet8";
    const XPRV: &str = "xprv9s21ZrQH143K3QTDL4LXw2F7HEK3wJUD2nW2nRk4stbPy6cq3jPPqjiChkVvvNKmPGJxWUtg6LnF5kejMRNNU3TGtRBeJgk33yuGBxrMPHi";
    const PK: &str = "03c57b973499cb87c1409b29b475185b624c6abb8421f003246f1ede275d367af4";
    const XO: &str = "c57b973499cb87c1409b29b475185b624c6abb8421f003246f1ede275d367af4";
    let bases: Vec<String> = vec![
        PK.into(), XO.into(), format!("[d34db33f/44'/0'/0']{}", PK), format!("[d34db33f/44h/0h]{}/1/*", XPUB),
        format!("{}/<0;1>/*", XPUB), format!("[d34db33f]{}/0'/*h", XPRV), XPRV.into(),
        "L4rK1yDtCWekvXuE6oXD9jCYfFNV2cWRpVuPLBcCU2z8TrisoyY1".into(),
        format!("wpkh({})", PK), format!("wsh(and_v(v:pk({}),older(10)))", PK), format!("tr({},{{pk({}),pk({})}})", XO, XO, PK),
        format!("sh(wsh(multi(1,{},{})))#abcdefgh", PK, PK), "and_v(v:pk(A),or_d(pk(B),older(10)))".into(),
        "or(9@pk(A),1@and(pk(B),after(100)))".into(), "thresh(2,pk(A),pk(B),older(5))".into(),
    ];
    let mut inputs: Vec<String> = vec![];
    for u in ["é", "€", "😀"] {
        for n in [0usize, 1, 2, 3, 31, 32, 33, 61, 62, 63, 64, 65, 66, 67, 109, 110, 111, 112, 127, 128, 129, 130] {
            inputs.push(format!("{}{}", u, "a".repeat(n)));
            inputs.push(format!("{}{}", u, "0".repeat(n)));
            inputs.push(format!("{}{}", "0".repeat(n), u));
            inputs.push(format!("[d34db33f/44'/0'/0']{}{}", u, "0".repeat(n)));
            inputs.push(format!("[{}{}]{}", u, "0".repeat(n.min(12)), PK));
        }
        for b in &bases {
            let chars: Vec<char> = b.chars().collect();
            let step = if thorough { 1 } else { (chars.len() / 40).max(1) };
            let mut pos: Vec<usize> = (0..chars.len()).step_by(step).collect();
            for p in [0usize, 1, 2, 3, chars.len().saturating_sub(1), chars.len().saturating_sub(2)] { pos.push(p.min(chars.len().saturating_sub(1))); }
            // around every structural character
            for (i, c) in chars.iter().enumerate() { if "[]/()<>;,'#*@{}".contains(*c) { pos.push(i); if i + 1 < chars.len() { pos.push(i + 1); } if i > 0 { pos.push(i - 1); } } }
            pos.sort(); pos.dedup();
            for p in pos {
                let mut r = chars.clone(); r.splice(p..p + 1, u.chars()); inputs.push(r.iter().collect());
                let mut r = chars.clone(); r.splice(p..p, u.chars()); inputs.push(r.iter().collect());
            }
        }
    }
    inputs.sort(); inputs.dedup();
    out.note("non_ascii_inputs", inputs.len().to_string());
    macro_rules! probe { ($name:expr, $ty:ty, $s:expr) => {{
        let r = std::panic::catch_unwind(|| <$ty>::from_str($s).is_ok());
        let at = if r.is_err() { LAST_PANIC.lock().map(|s| s.clone()).unwrap_or_default() } else { "-".into() };
        let verdict = match r { Err(_) => "PANIC", Ok(_) => "OK" };
        if verdict != "OK" || out.n_lines % 97 == 0 {
            out.line(&format!("J nopanic nonascii {} {} at={} {}", $name, crate::c10::hex($s), at, if verdict == "OK" { "OK" } else { "PANIC" }), "ok");
        } else { out.count(concat!("nonascii ok ", $name)); }
    }}; }
    for s in &inputs {
        probe!("DescriptorPublicKey", DescriptorPublicKey, s);
        probe!("DescriptorSecretKey", DescriptorSecretKey, s);
        probe!("DefiniteDescriptorKey", DefiniteDescriptorKey, s);
        probe!("Descriptor<DescriptorPublicKey>", Descriptor<DescriptorPublicKey>, s);
        probe!("Descriptor<String>", Descriptor<String>, s);
        probe!("Miniscript<String,Segwitv0>", Miniscript<String, Segwitv0>, s);
        probe!("Miniscript<DescriptorPublicKey,Tap>", Miniscript<DescriptorPublicKey, Tap>, s);
        probe!("Concrete<String>", Concrete<String>, s);
        probe!("Concrete<DescriptorPublicKey>", Concrete<DescriptorPublicKey>, s);
        probe!("Semantic<String>", Semantic<String>, s);
    }
}

fn bx(n: Node) -> Box<Node> { Box::new(n) }

pub fn run(out: &mut Out, thorough: bool, seed: u64) {
    let prev = std::panic::take_hook();
    // 1. expression parser / parse_num (own C and J lines)
    crate::c11expr::run(out, thorough, seed);
    // 2. satisfier assert corpus
    std::panic::set_hook(Box::new(|info| {
        if let (Some(l), Ok(mut g)) = (info.location(), LAST_PANIC.lock()) {
            *g = format!("{}:{}", l.file().rsplit("/src/").next().unwrap_or("?"), l.line());
        }
    }));
    ast::emit_defs(out);
    {
        let pk = |i: u32| Node::Check(bx(Node::PkK(i)));
        let v = |n: Node| Node::Verify(bx(n));
        // (a) formerly F3: sane script whose or_d left dissatisfaction carried a signature
        let a1 = Node::OrD(bx(Node::OrI(bx(Node::NonZero(bx(Node::AndV(bx(v(pk(0))), bx(pk(1)))))), bx(Node::AndV(bx(v(pk(2))), bx(Node::False))))), bx(pk(3)));
        let mut as1 = Assets::default(); as1.ecdsa.insert(2);
        // (b) malleable mode, mixed time locks make the sig-free dissatisfaction IMPOSSIBLE
        let lock = |n: u32| Node::OrI(bx(Node::False), bx(Node::AndV(bx(v(Node::Older(n))), bx(Node::False))));
        let b1 = Node::OrD(bx(Node::OrI(bx(Node::AndB(bx(lock(1)), bx(Node::Alt(bx(lock(4194305)))))), bx(Node::AndV(bx(v(pk(2))), bx(Node::False))))), bx(pk(3)));
        let mut as2 = Assets::default(); as2.ecdsa.insert(2); as2.older.insert(1); as2.older.insert(4194305);
        // (c) and_v dissatisfaction with a signature under or_i, raw pkh arm without its key
        let c1 = Node::OrD(bx(Node::OrI(bx(Node::Check(bx(Node::RawPkH(0)))), bx(Node::AndV(bx(v(pk(1))), bx(pk(2)))))), bx(pk(3)));
        let mut as3 = Assets::default(); as3.ecdsa.insert(1); as3.ecdsa.insert(2);
        // (d) or_i(j:pk, and_v(v:pk,pk)) under or_d
        let d1 = Node::OrD(bx(Node::OrI(bx(Node::NonZero(bx(pk(0)))), bx(Node::AndV(bx(v(pk(1))), bx(pk(2)))))), bx(pk(3)));
        let mut as4 = Assets::default(); as4.ecdsa.insert(1);
        for ctx in [CtxK::Segwitv0, CtxK::Legacy] {
            with_ctx!(ctx, satisfier_case(out, ctx, &a1, &as1, "f3-or_d-left-dissat"));
            with_ctx!(ctx, satisfier_case(out, ctx, &b1, &as2, "mixed-locks-or_d-left-dissat"));
            with_ctx!(ctx, satisfier_case(out, ctx, &c1, &as3, "rawpkh-and_v-dissat"));
            with_ctx!(ctx, satisfier_case(out, ctx, &d1, &as4, "j-pk-and_v-dissat"));
        }
        // (e) tap raw pkh: template built with x-only lookups, completed with full-key lookups
        let e1 = Node::Check(bx(Node::RawPkH(200)));
        let mut as5 = Assets::default(); as5.schnorr.insert(200, 64); as5.rawsig.insert(200); as5.rawpk.insert(200);
        with_ctx!(CtxK::Tap, satisfier_case(out, CtxK::Tap, &e1, &as5, "tap-rawpkh"));
        let _ = HK::Sha256;
    }
    psbt_tap_rawpkh(out, true);
    psbt_tap_rawpkh(out, false);
    non_ascii_stream(out, thorough);
    // 3. panic sweep over the other modules
    out.sweep = true;
    crate::c04::run(out, thorough, seed);
    {
        let mut rng = crate::common::Rng(seed ^ 0xC11);
        crate::c10b::run_roundtrip(out, thorough, &mut rng);
    }
    crate::c13::run(out, thorough, seed);
    crate::c14::run(out, thorough, seed);
    crate::c17::run(out, thorough, seed);
    crate::c12::run(out, thorough, seed);
    crate::c18::run(out, thorough, seed);
    // the compiler takes typed policy VALUES (enum-built odds of 0, uncompressed keys as unspendable
    // key …): not one of C11's input channels; its panics on such values are C08 observations
    out.sweep_tokens = false;
    crate::c08::run(out, false, seed);
    out.sweep_tokens = true;
    out.sweep = false;
    let swept = out.swept;
    out.note("swept_calls", swept.to_string());
    out.note("domain", "expression parser: own stream; all other entry points: panic sweep over the C04 (script decoder, malformed bytes), C10 (every FromStr on mutated strings), C13 (interpreter on mutated spends), C14 (PSBT histories + adversarial PSBTs), C17 (planner, adversarial Assets), C12 (constructors/validate), C18 (policy code), C08 (compiler) streams; satisfier assert corpus".into());
    std::panic::set_hook(prev);
}

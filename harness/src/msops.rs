//! Miniscript-level operations shared by several properties: a controllable
//! `Satisfier`/`AssetProvider`, canonical printing of templates / ext data, and emission of
//! correspondence (`C`) and judge (`J`) lines for one fragment.
use std::collections::{BTreeMap, BTreeSet};

use miniscript::bitcoin::hashes::{hash160, ripemd160, sha256, Hash};
use miniscript::bitcoin::secp256k1::{self, Message, Secp256k1, XOnlyPublicKey};
use miniscript::bitcoin::taproot::TapLeafHash;
use miniscript::bitcoin::{absolute, ecdsa, relative, taproot, PublicKey, TapSighashType};
use miniscript::miniscript::satisfy::{Placeholder, Satisfaction, Witness};
use miniscript::miniscript::types::ExtData;
use miniscript::{hash256, Miniscript, MiniscriptKey, Satisfier, ScriptContext, ToPublicKey};

use crate::ast::{self, hex, CtxK, KeyOf, Node, HK};
use crate::c05::ts;
use crate::common::Out;

pub const MSG: [u8; 32] = [0x42; 32];

fn sig_tables() -> &'static (Vec<secp256k1::ecdsa::Signature>, Vec<secp256k1::schnorr::Signature>) {
    static T: std::sync::OnceLock<(Vec<secp256k1::ecdsa::Signature>, Vec<secp256k1::schnorr::Signature>)> = std::sync::OnceLock::new();
    T.get_or_init(|| {
        let secp = Secp256k1::new();
        let e = (0..100).map(|i| secp.sign_ecdsa(&Message::from_digest(MSG), &ast::secret(i))).collect();
        let s = (0..100).map(|i| {
            let kp = secp256k1::Keypair::from_secret_key(&secp, &ast::secret(i));
            secp.sign_schnorr_with_aux_rand(&Message::from_digest(MSG), &kp, &[7u8; 32])
        }).collect();
        (e, s)
    })
}
pub fn ecdsa_sig(id: u32) -> ecdsa::Signature {
    let sig = sig_tables().0[(id % 100) as usize];
    ecdsa::Signature { signature: sig, sighash_type: miniscript::bitcoin::EcdsaSighashType::All }
}
pub fn schnorr_sig(id: u32, size: usize) -> taproot::Signature {
    let sig = sig_tables().1[(id % 100) as usize];
    taproot::Signature {
        signature: sig,
        sighash_type: if size == 65 { TapSighashType::All } else { TapSighashType::Default },
    }
}

/// `D sig` lines: every (public key, signature) pair that verifies
pub fn emit_sig_defs(out: &mut Out) {
    for id in (0..10).chain(100..104) {
        let pk = ast::full_key(id);
        out.line(&format!("D sig {} {}", hex(&pk.to_bytes()), hex(&ecdsa_sig(id).to_vec())), "ok");
    }
    for id in 200..210 {
        let pk = ast::xonly_key(id);
        for size in [64usize, 65] {
            out.line(&format!("D sig {} {}", hex(&pk.serialize()), hex(&schnorr_sig(id, size).to_vec())), "ok");
        }
    }
}

/// The caller's assets.
#[derive(Clone, Debug, Default, PartialEq, Eq, Hash, PartialOrd, Ord)]
pub struct Assets {
    pub ecdsa: BTreeSet<u32>,
    pub schnorr: BTreeMap<u32, usize>,
    pub pre: BTreeSet<(HK, u32)>,
    /// canonical consensus values (type flag + 16-bit value) for which check_older is true
    pub older: BTreeSet<u32>,
    pub after: BTreeSet<u32>,
    /// raw pkh ids whose public key is known / for which a signature is available
    pub rawpk: BTreeSet<u32>,
    pub rawsig: BTreeSet<u32>,
}

impl Assets {
    pub fn wire(&self) -> String {
        fn j<T: ToString>(i: impl Iterator<Item = T>) -> String {
            let v: Vec<String> = i.map(|x| x.to_string()).collect();
            if v.is_empty() { "-".into() } else { v.join(",") }
        }
        format!(
            "e={};s={};p={};o={};a={};rp={};re={};rs={}",
            j(self.ecdsa.iter()),
            j(self.schnorr.iter().map(|(k, s)| format!("{}:{}", k, s))),
            j(self.pre.iter().map(|(k, h)| format!("{}:{}", k.name(), h))),
            j(self.older.iter()),
            j(self.after.iter()),
            j(self.rawpk.iter().map(|h| format!("{}:{}", h, h))),
            j(self.rawsig.iter().filter(|h| **h < 200).map(|h| format!("{}:{}", h, h))),
            j(self.rawsig.iter().filter(|h| **h >= 200).map(|h| format!("{}:{}:{}", h, h, self.schnorr.get(h).cloned().unwrap_or(64)))),
        )
    }
    /// everything a script mentions
    pub fn full(node: &Node) -> Assets {
        let mut a = Assets::default();
        let mut ks = vec![];
        node.keys(&mut ks);
        for k in ks {
            if k >= 200 { a.schnorr.insert(k, 64); } else { a.ecdsa.insert(k); }
        }
        let mut hs = vec![];
        node.hashes(&mut hs);
        for h in hs { a.pre.insert(h); }
        let (mut af, mut ol) = (vec![], vec![]);
        node.locks(&mut af, &mut ol);
        for n in af { a.after.insert(n); }
        for n in ol { a.older.insert(rel_canon(n)); }
        let mut rp = vec![];
        node.rawpkhs(&mut rp);
        for h in rp { a.rawpk.insert(h); a.rawsig.insert(h); if h >= 200 { a.schnorr.entry(h).or_insert(64); } }
        a
    }
}

pub fn rel_canon(n: u32) -> u32 { (n & 0x0040_0000) | (n & 0xffff) }

pub fn key_id_full(pk: &PublicKey) -> Option<u32> {
    (0..10).chain(100..104).find(|id| ast::full_key(*id) == *pk)
}
pub fn key_id_x(pk: &XOnlyPublicKey) -> Option<u32> { (200..210).find(|id| ast::xonly_key(*id) == *pk) }
fn hash_table() -> &'static Vec<(HK, u32, Vec<u8>)> {
    static T: std::sync::OnceLock<Vec<(HK, u32, Vec<u8>)>> = std::sync::OnceLock::new();
    T.get_or_init(|| HK::ALL.iter().flat_map(|k| (0..4).map(move |h| (*k, h, ast::hash_value(*k, h)))).collect())
}
pub fn hash_id(kind: HK, v: &[u8]) -> Option<u32> {
    hash_table().iter().find(|(k, _, val)| *k == kind && val == v).map(|(_, h, _)| *h)
}
fn rawpkh_table() -> &'static Vec<(u32, hash160::Hash)> {
    static T: std::sync::OnceLock<Vec<(u32, hash160::Hash)>> = std::sync::OnceLock::new();
    T.get_or_init(|| (0..10).chain(100..104).chain(200..210).map(|id| (id, ast::raw_pkh(id))).collect())
}
pub fn rawpkh_id(h: &hash160::Hash) -> Option<u32> {
    rawpkh_table().iter().find(|(_, x)| x == h).map(|(i, _)| *i)
}

pub trait KeyId { fn id(&self) -> Option<u32>; }
impl KeyId for PublicKey { fn id(&self) -> Option<u32> { key_id_full(self) } }
impl KeyId for XOnlyPublicKey { fn id(&self) -> Option<u32> { key_id_x(self) } }

impl<Pk> Satisfier<Pk> for Assets
where
    Pk: MiniscriptKey<Sha256 = sha256::Hash, Hash256 = hash256::Hash, Ripemd160 = ripemd160::Hash, Hash160 = hash160::Hash>
        + ToPublicKey + KeyId,
{
    fn lookup_ecdsa_sig(&self, pk: &Pk) -> Option<ecdsa::Signature> {
        let id = pk.id()?;
        if self.ecdsa.contains(&id) { Some(ecdsa_sig(id)) } else { None }
    }
    fn lookup_tap_leaf_script_sig(&self, pk: &Pk, _: &TapLeafHash) -> Option<taproot::Signature> {
        let id = pk.id()?;
        self.schnorr.get(&id).map(|sz| schnorr_sig(id, *sz))
    }
    fn lookup_raw_pkh_pk(&self, h: &hash160::Hash) -> Option<PublicKey> {
        let id = rawpkh_id(h)?;
        if id < 200 && self.rawpk.contains(&id) { Some(ast::full_key(id)) } else { None }
    }
    fn lookup_raw_pkh_x_only_pk(&self, h: &hash160::Hash) -> Option<XOnlyPublicKey> {
        let id = rawpkh_id(h)?;
        if id >= 200 && self.rawpk.contains(&id) { Some(ast::xonly_key(id)) } else { None }
    }
    fn lookup_raw_pkh_ecdsa_sig(&self, h: &hash160::Hash) -> Option<(PublicKey, ecdsa::Signature)> {
        let id = rawpkh_id(h)?;
        if id < 200 && self.rawsig.contains(&id) { Some((ast::full_key(id), ecdsa_sig(id))) } else { None }
    }
    fn lookup_raw_pkh_tap_leaf_script_sig(&self, h: &(hash160::Hash, TapLeafHash)) -> Option<(XOnlyPublicKey, taproot::Signature)> {
        let id = rawpkh_id(&h.0)?;
        if id >= 200 && self.rawsig.contains(&id) {
            Some((ast::xonly_key(id), schnorr_sig(id, self.schnorr.get(&id).cloned().unwrap_or(64))))
        } else { None }
    }
    fn lookup_sha256(&self, h: &sha256::Hash) -> Option<[u8; 32]> {
        let id = hash_id(HK::Sha256, h.as_byte_array())?;
        if self.pre.contains(&(HK::Sha256, id)) { Some(ast::preimage(id)) } else { None }
    }
    fn lookup_hash256(&self, h: &hash256::Hash) -> Option<[u8; 32]> {
        let id = hash_id(HK::Hash256, h.as_byte_array())?;
        if self.pre.contains(&(HK::Hash256, id)) { Some(ast::preimage(id)) } else { None }
    }
    fn lookup_ripemd160(&self, h: &ripemd160::Hash) -> Option<[u8; 32]> {
        let id = hash_id(HK::Ripemd160, h.as_byte_array())?;
        if self.pre.contains(&(HK::Ripemd160, id)) { Some(ast::preimage(id)) } else { None }
    }
    fn lookup_hash160(&self, h: &hash160::Hash) -> Option<[u8; 32]> {
        let id = hash_id(HK::Hash160, h.as_byte_array())?;
        if self.pre.contains(&(HK::Hash160, id)) { Some(ast::preimage(id)) } else { None }
    }
    fn check_older(&self, n: relative::LockTime) -> bool {
        self.older.contains(&n.to_consensus_u32())
    }
    fn check_after(&self, n: absolute::LockTime) -> bool { self.after.contains(&n.to_consensus_u32()) }
}

/* ---------------------------------------------------------------- canonical printing */

pub fn show_satdata(d: &Option<miniscript::miniscript::types::extra_props::SatData>) -> String {
    match d {
        None => "none".into(),
        Some(d) => format!("({},{},{},{},{})", d.max_witness_stack_size, d.max_witness_stack_count,
            d.max_script_sig_size, d.max_exec_stack_count, d.max_exec_op_count),
    }
}
pub fn show_ext(e: &ExtData) -> String {
    let t = &e.timelock_info;
    format!("pk={} fv={} ops={} sat={} dis={} tl={}{}{}{}{} h={}", e.pk_cost, e.has_free_verify as u8,
        e.static_ops, show_satdata(&e.sat_data), show_satdata(&e.dissat_data),
        t.csv_with_height as u8, t.csv_with_time as u8, t.cltv_with_height as u8, t.cltv_with_time as u8,
        t.contains_combination as u8, e.tree_height)
}

pub fn show_ph<Pk: MiniscriptKey<Sha256 = sha256::Hash, Hash256 = hash256::Hash, Ripemd160 = ripemd160::Hash, Hash160 = hash160::Hash> + KeyId>(p: &Placeholder<Pk>) -> String {
    use Placeholder::*;
    let kid = |k: &Pk| k.id().map(|i| i.to_string()).unwrap_or("?".into());
    let rid = |h: &hash160::Hash| rawpkh_id(h).map(|i| i.to_string()).unwrap_or("?".into());
    let hid = |kind: HK, v: &[u8]| hash_id(kind, v).map(|i| i.to_string()).unwrap_or("?".into());
    match p {
        Pubkey(k, s) => format!("pk({}:{})", kid(k), s),
        PubkeyHash(h, s) => format!("pkh({}:{})", rid(h), s),
        EcdsaSigPk(k) => format!("sig({})", kid(k)),
        EcdsaSigPkHash(h) => format!("sigh({})", rid(h)),
        SchnorrSigPk(k, _, s) => format!("ssig({}:{})", kid(k), s),
        SchnorrSigPkHash(h, _, s) => format!("ssigh({}:{})", rid(h), s),
        Sha256Preimage(h) => format!("pre(sha256:{})", hid(HK::Sha256, h.as_byte_array())),
        Hash256Preimage(h) => format!("pre(hash256:{})", hid(HK::Hash256, h.as_byte_array())),
        Ripemd160Preimage(h) => format!("pre(ripemd160:{})", hid(HK::Ripemd160, h.as_byte_array())),
        Hash160Preimage(h) => format!("pre(hash160:{})", hid(HK::Hash160, h.as_byte_array())),
        HashDissatisfaction => "z32".into(),
        PushOne => "1".into(),
        PushZero => "0".into(),
        TapScript(_) => "tapscript".into(),
        TapControlBlock(_) => "controlblock".into(),
    }
}

pub fn show_sat<Pk: MiniscriptKey<Sha256 = sha256::Hash, Hash256 = hash256::Hash, Ripemd160 = ripemd160::Hash, Hash160 = hash160::Hash> + KeyId>(s: &Satisfaction<Placeholder<Pk>>) -> String {
    let st = match &s.stack {
        Witness::Stack(v) => format!("S[{}]", v.iter().map(show_ph).collect::<Vec<_>>().join(",")),
        Witness::Unavailable => "UNAVAILABLE".into(),
        Witness::Impossible => "IMPOSSIBLE".into(),
    };
    format!("{} sig={} abs={} rel={}", st, s.has_sig as u8,
        s.absolute_timelock.map(|t| t.to_consensus_u32().to_string()).unwrap_or("-".into()),
        s.relative_timelock.map(|t| t.to_consensus_u32().to_string()).unwrap_or("-".into()))
}

pub fn wit_wire(w: &[Vec<u8>]) -> String {
    if w.is_empty() { ".".into() } else { w.iter().map(|e| hex(e)).collect::<Vec<_>>().join(",") }
}

/// nLockTime / nSequence that meet exactly the locks a satisfaction reports
pub fn tx_fields(abs: Option<u32>, rel: Option<u32>) -> (u32, u32) {
    (abs.unwrap_or(0), rel.unwrap_or(0xffff_fffe))
}

/* ---------------------------------------------------------------- per-fragment emission */

pub trait HKey: KeyOf + KeyId {}
impl HKey for PublicKey {}
impl HKey for XOnlyPublicKey {}

/// static ops: typeof / encode / scriptsize / ext
pub fn emit_static<Pk: HKey, Ctx: ScriptContext>(out: &mut Out, ctx: CtxK, node: &Node, what: &[&str]) {
    let ms: Miniscript<Pk, Ctx> = match ast::to_ms(node) { Ok(m) => m, Err(_) => return };
    let w = node.wire();
    for op in what {
        match *op {
            "typeof" => out.line(&format!("C typeof {} {}", ctx.name(), w), &ts(&ms.ty)),
            "encode" => out.line(&format!("C encode {} {}", ctx.name(), w), &hex(ms.encode().as_bytes())),
            "scriptsize" => out.line(&format!("C scriptsize {} {}", ctx.name(), w), &ms.script_size().to_string()),
            "ext" => out.line(&format!("C ext {} {}", ctx.name(), w), &show_ext(&ms.ext)),
            _ => {}
        }
    }
}

/// Satisfier ops for one (fragment, assets, mode): template correspondence and, when the
/// library returns a satisfaction, execution of it by the Lean Script semantics.
/// Returns the produced witness (if any).
pub fn emit_satisfy<Pk: HKey, Ctx: ScriptContext>(
    out: &mut Out, ctx: CtxK, node: &Node, assets: &Assets, mall: bool, judge: bool,
) -> Option<Vec<Vec<u8>>>
where Assets: Satisfier<Pk>
{
    let ms: Miniscript<Pk, Ctx> = match ast::to_ms(node) { Ok(m) => m, Err(_) => return None };
    let mode = if mall { "mall" } else { "nonmall" };
    let w = node.wire();
    let aw = assets.wire();
    let res = std::panic::catch_unwind(std::panic::AssertUnwindSafe(|| {
        if mall { ms.build_template_mall(assets) } else { ms.build_template(assets) }
    }));
    let tmpl = match res {
        Ok(t) => t,
        Err(_) => {
            out.line(&format!("C satisfy {} {} {} {}", ctx.name(), mode, w, aw), "PANIC");
            return None;
        }
    };
    out.line(&format!("C satisfy {} {} {} {}", ctx.name(), mode, w, aw), &show_sat(&tmpl));
    let direct = if mall { ms.satisfy_malleable(assets) } else { ms.satisfy(assets) };
    match (&tmpl.stack, &direct) {
        (Witness::Stack(_), Ok(wit)) => {
            out.count("sat result stack");
            if judge {
                let (lt, sq) = tx_fields(
                    tmpl.absolute_timelock.map(|t| t.to_consensus_u32()),
                    tmpl.relative_timelock.map(|t| t.to_consensus_u32()),
                );
                let script = ms.encode();
                out.line(
                    &format!("J exec {} 0 {} {} {} {} | {} {} {}", ctx.name(), lt, sq,
                        hex(script.as_bytes()), wit_wire(wit), mode, w, aw),
                    "ok",
                );
                out.line(&format!("C fragsame {} {} {} {} {}", ctx.name(), lt, sq, w, wit_wire(wit)), "same");
                // and on a damaged witness (error paths must agree too)
                if !wit.is_empty() {
                    let mut bad = wit.clone();
                    let i = out.n_lines as usize % bad.len();
                    bad[i] = if bad[i].is_empty() { vec![1] } else { vec![] };
                    out.line(&format!("C fragsame {} {} {} {} {}", ctx.name(), lt, sq, w, wit_wire(&bad)), "same");
                }
            }
            Some(wit.clone())
        }
        (Witness::Stack(_), Err(_)) => {
            // template says stack but completion failed: report as a judge failure
            out.line(&format!("J consistent template-vs-satisfy {} {} {} {}", ctx.name(), mode, w, aw), "ok");
            None
        }
        (_, Ok(_)) => {
            out.line(&format!("J consistent satisfy-without-template {} {} {} {}", ctx.name(), mode, w, aw), "ok");
            None
        }
        (Witness::Unavailable, Err(_)) => { out.count("sat result unavailable"); None }
        (Witness::Impossible, Err(_)) => { out.count("sat result impossible"); None }
    }
}

/// all subsets of the assets a fragment mentions (capped), most useful first
pub fn asset_subsets(node: &Node, cap: usize) -> Vec<Assets> {
    let full = Assets::full(node);
    // atoms as a flat list of "switches"
    #[derive(Clone)]
    enum Sw { E(u32), S(u32), P(HK, u32), O(u32), A(u32), RP(u32), RS(u32) }
    let mut sw: Vec<Sw> = vec![];
    for k in &full.ecdsa { sw.push(Sw::E(*k)); }
    for (k, _) in &full.schnorr { sw.push(Sw::S(*k)); }
    for (k, h) in &full.pre { sw.push(Sw::P(*k, *h)); }
    for n in &full.older { sw.push(Sw::O(*n)); }
    for n in &full.after { sw.push(Sw::A(*n)); }
    for h in &full.rawpk { sw.push(Sw::RP(*h)); }
    for h in &full.rawsig { sw.push(Sw::RS(*h)); }
    let n = sw.len().min(10);
    let total = 1usize << n;
    let mut res = Vec::new();
    // order: full set first, then decreasing popcount
    let mut masks: Vec<usize> = (0..total).collect();
    masks.sort_by_key(|m| std::cmp::Reverse(m.count_ones()));
    for m in masks.into_iter().take(cap) {
        let mut a = Assets::default();
        for (i, s) in sw.iter().enumerate().take(n) {
            if m >> i & 1 == 1 {
                match s {
                    Sw::E(k) => { a.ecdsa.insert(*k); }
                    Sw::S(k) => { a.schnorr.insert(*k, if k % 2 == 0 { 64 } else { 65 }); }
                    Sw::P(k, h) => { a.pre.insert((*k, *h)); }
                    Sw::O(x) => { a.older.insert(*x); }
                    Sw::A(x) => { a.after.insert(*x); }
                    Sw::RP(h) => { a.rawpk.insert(*h); }
                    Sw::RS(h) => { a.rawsig.insert(*h); if *h >= 200 { a.schnorr.entry(*h).or_insert(64); } }
                }
            }
        }
        res.push(a);
    }
    res
}

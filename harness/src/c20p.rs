//! C20, policies: `policy::concrete::Policy::{translate_pk, translate_unsatisfiable_pk, keys,
//! for_each_key, for_any_key}` and `policy::semantic::Policy::{translate_pk, for_each_key,
//! for_any_key}` (module of c20.rs; called from `c20::run`).
//!
//! Objects: `Policy<String>` built through the public enum constructors (so `and` / `or` with any
//! number of children and any weights exist), key atom `i` = `K%05d`, hash atom `h` = zero-padded
//! hex.  Inputs have ASYMMETRIC children: unequal `or` odds at every nesting depth, mixed
//! and/or/thresh, thresholds with k < n, repeated keys, hashes, locks, UNSATISFIABLE / TRIVIAL;
//! bounded-exhaustive small shapes over a small leaf alphabet + random deeper ones.
//! Mappings: identity, two injective renamings, a collapsing (non-injective) mapping,
//! string → real keys / hashes (`Policy<bitcoin::PublicKey>`), fail-on-key-i, fail-on-call-n
//! (stateful: makes the library's visiting order observable).
//!   C ptranslate / punsat / pforeach / pforany / pkeys     the Lean model answers the same question
//!                                                          (wire form WITH the or-weights)
//!   J ptranslate-id / -compose / -string / punsat / pkeys-multiset   the property's statements,
//!        judged by the driver (`-string`: translated.to_string() is original.to_string() with
//!        the key / hash tokens substituted)
use std::collections::BTreeSet;
use std::marker::PhantomData;
use std::panic::{catch_unwind, AssertUnwindSafe};
use std::sync::Arc;

use miniscript::bitcoin::hashes::{hash160, ripemd160, sha256, Hash};
use miniscript::bitcoin::PublicKey;
use miniscript::policy::{Concrete, Semantic};
use miniscript::{hash256, AbsLockTime, ForEachKey, MiniscriptKey, RelLockTime, Threshold, Translator};

use crate::ast::{full_key, hash_value, HK};
use crate::common::{Out, Rng};

const UNKNOWN: u32 = 9999;

/* ------------------------------------------------------------ neutral policy */

#[derive(Clone, Debug, PartialEq, Eq, PartialOrd, Ord)]
pub enum P {
    U, T, Key(u32), After(u32), Older(u32), Hash(HK, u32),
    And(Vec<P>), Or(Vec<(usize, P)>), Thresh(usize, Vec<P>),
}

impl P {
    pub fn wire(&self) -> String {
        let j = |v: &Vec<P>| v.iter().map(|x| x.wire()).collect::<Vec<_>>().join(",");
        match self {
            P::U => "U".into(), P::T => "T".into(),
            P::Key(k) => format!("pk({})", k), P::After(n) => format!("after({})", n), P::Older(n) => format!("older({})", n),
            P::Hash(kind, h) => format!("{}({})", kind.name(), h),
            P::And(v) => format!("and({})", j(v)),
            P::Or(v) => format!("or({})", v.iter().map(|(w, x)| format!("{}@{}", w, x.wire())).collect::<Vec<_>>().join(",")),
            P::Thresh(k, v) => format!("thresh({},{})", k, j(v)),
        }
    }
    fn size(&self) -> usize {
        match self {
            P::And(v) | P::Thresh(_, v) => 1 + v.iter().map(|x| x.size()).sum::<usize>(),
            P::Or(v) => 1 + v.iter().map(|x| x.1.size()).sum::<usize>(),
            _ => 1,
        }
    }
    /// keys in pre-order
    fn keys(&self, acc: &mut Vec<u32>) {
        match self {
            P::Key(k) => acc.push(*k),
            P::And(v) | P::Thresh(_, v) => for x in v { x.keys(acc) },
            P::Or(v) => for x in v { x.1.keys(acc) },
            _ => {}
        }
    }
    fn n_atoms(&self) -> usize {
        match self {
            P::Key(_) | P::Hash(..) => 1,
            P::And(v) | P::Thresh(_, v) => v.iter().map(|x| x.n_atoms()).sum(),
            P::Or(v) => v.iter().map(|x| x.1.n_atoms()).sum(),
            _ => 0,
        }
    }
    fn is_semantic(&self) -> bool {
        match self {
            P::And(_) | P::Or(_) => false,
            P::Thresh(_, v) => v.iter().all(|x| x.is_semantic()),
            _ => true,
        }
    }
    fn count(&self, out: &mut Out, fam: &str) {
        let name = match self { P::U => "U", P::T => "T", P::Key(_) => "pk", P::After(_) => "after", P::Older(_) => "older",
            P::Hash(..) => "hash", P::And(_) => "and", P::Or(_) => "or", P::Thresh(..) => "thresh" };
        out.count(&format!("pfrag {} {}", fam, name));
        match self {
            P::And(v) | P::Thresh(_, v) => for x in v { x.count(out, fam) },
            P::Or(v) => for x in v { x.1.count(out, fam) },
            _ => {}
        }
    }
}

/* ------------------------------------------------------------ key types */

fn key_str(k: u32) -> String { format!("K{:05}", k) }
fn hash_str(kind: HK, h: u32) -> String {
    match kind { HK::Sha256 | HK::Hash256 => format!("{:064x}", h), _ => format!("{:040x}", h) }
}
fn str_hash_id(s: &str) -> u32 { u32::from_str_radix(&s[s.len().saturating_sub(8)..], 16).unwrap_or(UNKNOWN) }
fn real_hash_id(kind: HK, b: &[u8]) -> u32 { (0..4).find(|h| hash_value(kind, *h) == b).unwrap_or(UNKNOWN) }

/// a key type the harness can build from ids and read back
pub trait PKey: MiniscriptKey + Clone {
    fn mk(k: u32) -> Self;
    fn id(&self) -> u32;
    fn mk_sha256(h: u32) -> Self::Sha256;
    fn mk_hash256(h: u32) -> Self::Hash256;
    fn mk_ripemd160(h: u32) -> Self::Ripemd160;
    fn mk_hash160(h: u32) -> Self::Hash160;
    fn id_sha256(h: &Self::Sha256) -> u32;
    fn id_hash256(h: &Self::Hash256) -> u32;
    fn id_ripemd160(h: &Self::Ripemd160) -> u32;
    fn id_hash160(h: &Self::Hash160) -> u32;
}
impl PKey for String {
    fn mk(k: u32) -> Self { key_str(k) }
    fn id(&self) -> u32 { self[1..].parse().unwrap_or(UNKNOWN) }
    fn mk_sha256(h: u32) -> String { hash_str(HK::Sha256, h) }
    fn mk_hash256(h: u32) -> String { hash_str(HK::Hash256, h) }
    fn mk_ripemd160(h: u32) -> String { hash_str(HK::Ripemd160, h) }
    fn mk_hash160(h: u32) -> String { hash_str(HK::Hash160, h) }
    fn id_sha256(h: &String) -> u32 { str_hash_id(h) }
    fn id_hash256(h: &String) -> u32 { str_hash_id(h) }
    fn id_ripemd160(h: &String) -> u32 { str_hash_id(h) }
    fn id_hash160(h: &String) -> u32 { str_hash_id(h) }
}
impl PKey for PublicKey {
    fn mk(k: u32) -> Self { full_key(k) }
    fn id(&self) -> u32 { (0..10).find(|i| full_key(*i) == *self).unwrap_or(UNKNOWN) }
    fn mk_sha256(h: u32) -> sha256::Hash { sha256::Hash::from_slice(&hash_value(HK::Sha256, h)).unwrap() }
    fn mk_hash256(h: u32) -> hash256::Hash { hash256::Hash::from_slice(&hash_value(HK::Hash256, h)).unwrap() }
    fn mk_ripemd160(h: u32) -> ripemd160::Hash { ripemd160::Hash::from_slice(&hash_value(HK::Ripemd160, h)).unwrap() }
    fn mk_hash160(h: u32) -> hash160::Hash { hash160::Hash::from_slice(&hash_value(HK::Hash160, h)).unwrap() }
    fn id_sha256(h: &sha256::Hash) -> u32 { real_hash_id(HK::Sha256, h.as_byte_array()) }
    fn id_hash256(h: &hash256::Hash) -> u32 { real_hash_id(HK::Hash256, h.as_byte_array()) }
    fn id_ripemd160(h: &ripemd160::Hash) -> u32 { real_hash_id(HK::Ripemd160, h.as_byte_array()) }
    fn id_hash160(h: &hash160::Hash) -> u32 { real_hash_id(HK::Hash160, h.as_byte_array()) }
}

/* ------------------------------------------------------------ conversions */

pub fn to_concrete<K: PKey>(p: &P) -> Option<Concrete<K>> {
    let kids = |v: &Vec<P>| -> Option<Vec<Arc<Concrete<K>>>> { v.iter().map(|x| to_concrete::<K>(x).map(Arc::new)).collect() };
    Some(match p {
        P::U => Concrete::Unsatisfiable, P::T => Concrete::Trivial,
        P::Key(k) => Concrete::Key(K::mk(*k)),
        P::After(n) => Concrete::After(AbsLockTime::from_consensus(*n).ok()?),
        P::Older(n) => Concrete::Older(RelLockTime::from_consensus(*n).ok()?),
        P::Hash(HK::Sha256, h) => Concrete::Sha256(K::mk_sha256(*h)),
        P::Hash(HK::Hash256, h) => Concrete::Hash256(K::mk_hash256(*h)),
        P::Hash(HK::Ripemd160, h) => Concrete::Ripemd160(K::mk_ripemd160(*h)),
        P::Hash(HK::Hash160, h) => Concrete::Hash160(K::mk_hash160(*h)),
        P::And(v) => Concrete::And(kids(v)?),
        P::Or(v) => {
            let mut out = vec![];
            for (w, x) in v { out.push((*w, Arc::new(to_concrete::<K>(x)?))); }
            Concrete::Or(out)
        }
        P::Thresh(k, v) => Concrete::Thresh(Threshold::new(*k, kids(v)?).ok()?),
    })
}
fn from_concrete<K: PKey>(p: &Concrete<K>) -> P {
    match p {
        Concrete::Unsatisfiable => P::U, Concrete::Trivial => P::T,
        Concrete::Key(k) => P::Key(k.id()),
        Concrete::After(n) => P::After(n.to_consensus_u32()),
        Concrete::Older(n) => P::Older(n.to_consensus_u32()),
        Concrete::Sha256(h) => P::Hash(HK::Sha256, K::id_sha256(h)),
        Concrete::Hash256(h) => P::Hash(HK::Hash256, K::id_hash256(h)),
        Concrete::Ripemd160(h) => P::Hash(HK::Ripemd160, K::id_ripemd160(h)),
        Concrete::Hash160(h) => P::Hash(HK::Hash160, K::id_hash160(h)),
        Concrete::And(v) => P::And(v.iter().map(|x| from_concrete::<K>(x)).collect()),
        Concrete::Or(v) => P::Or(v.iter().map(|(w, x)| (*w, from_concrete::<K>(x))).collect()),
        Concrete::Thresh(t) => P::Thresh(t.k(), t.data().iter().map(|x| from_concrete::<K>(x)).collect()),
    }
}
pub fn to_semantic<K: PKey>(p: &P) -> Option<Semantic<K>> {
    Some(match p {
        P::U => Semantic::Unsatisfiable, P::T => Semantic::Trivial,
        P::Key(k) => Semantic::Key(K::mk(*k)),
        P::After(n) => Semantic::After(AbsLockTime::from_consensus(*n).ok()?),
        P::Older(n) => Semantic::Older(RelLockTime::from_consensus(*n).ok()?),
        P::Hash(HK::Sha256, h) => Semantic::Sha256(K::mk_sha256(*h)),
        P::Hash(HK::Hash256, h) => Semantic::Hash256(K::mk_hash256(*h)),
        P::Hash(HK::Ripemd160, h) => Semantic::Ripemd160(K::mk_ripemd160(*h)),
        P::Hash(HK::Hash160, h) => Semantic::Hash160(K::mk_hash160(*h)),
        P::Thresh(k, v) => {
            let mut kids = vec![];
            for x in v { kids.push(Arc::new(to_semantic::<K>(x)?)); }
            Semantic::Thresh(Threshold::new(*k, kids).ok()?)
        }
        P::And(_) | P::Or(_) => return None,
    })
}
fn from_semantic<K: PKey>(p: &Semantic<K>) -> P {
    match p {
        Semantic::Unsatisfiable => P::U, Semantic::Trivial => P::T,
        Semantic::Key(k) => P::Key(k.id()),
        Semantic::After(n) => P::After(n.to_consensus_u32()),
        Semantic::Older(n) => P::Older(n.to_consensus_u32()),
        Semantic::Sha256(h) => P::Hash(HK::Sha256, K::id_sha256(h)),
        Semantic::Hash256(h) => P::Hash(HK::Hash256, K::id_hash256(h)),
        Semantic::Ripemd160(h) => P::Hash(HK::Ripemd160, K::id_ripemd160(h)),
        Semantic::Hash160(h) => P::Hash(HK::Hash160, K::id_hash160(h)),
        Semantic::Thresh(t) => P::Thresh(t.k(), t.data().iter().map(|x| from_semantic::<K>(x)).collect()),
    }
}

/* ------------------------------------------------------------ translators */

#[derive(Clone, Copy, Debug, PartialEq, Eq)]
enum MapK { Id, Ren, Ren2, Collapse, Real }
impl MapK {
    fn name(self) -> &'static str { match self { MapK::Id => "id", MapK::Ren => "ren", MapK::Ren2 => "ren2", MapK::Collapse => "collapse", MapK::Real => "real" } }
    fn key(self, k: u32) -> u32 {
        match self { MapK::Id | MapK::Real => k, MapK::Ren => k / 100 * 100 + (k % 100 + 3) % 10, MapK::Ren2 => k / 100 * 100 + (k % 100 + 7) % 10, MapK::Collapse => k % 2 }
    }
    fn hash(self, h: u32) -> u32 {
        match self { MapK::Id | MapK::Real => h, MapK::Ren => (h + 1) % 4, MapK::Ren2 => (h + 2) % 4, MapK::Collapse => h % 2 }
    }
}
#[derive(Clone, Debug)]
enum Mode { Pure(Vec<MapK>), Fail(u32), FailCall(usize) }
impl Mode {
    fn name(&self) -> String {
        match self { Mode::Pure(v) => v.iter().map(|m| m.name()).collect::<Vec<_>>().join("+"), Mode::Fail(k) => format!("fail:{}", k), Mode::FailCall(n) => format!("failcall:{}", n) }
    }
}
#[derive(Clone, Debug, PartialEq, Eq)]
enum AtomE { K(u32), H(HK, u32) }

struct Tx<Q> { mode: Mode, calls: usize, _q: PhantomData<Q> }
impl<Q> Tx<Q> {
    fn new(mode: Mode) -> Self { Tx { mode, calls: 0, _q: PhantomData } }
    fn key(&mut self, k: u32) -> Result<u32, AtomE> {
        match &self.mode {
            Mode::Pure(v) => Ok(v.iter().fold(k, |acc, m| m.key(acc))),
            Mode::Fail(i) => if k == *i { Err(AtomE::K(k)) } else { Ok(k) },
            Mode::FailCall(n) => { if self.calls == *n { return Err(AtomE::K(k)); } self.calls += 1; Ok(k) }
        }
    }
    fn hash(&mut self, kind: HK, h: u32) -> Result<u32, AtomE> {
        match &self.mode {
            Mode::Pure(v) => Ok(v.iter().fold(h, |acc, m| m.hash(acc))),
            Mode::Fail(_) => Ok(h),
            Mode::FailCall(n) => { if self.calls == *n { return Err(AtomE::H(kind, h)); } self.calls += 1; Ok(h) }
        }
    }
}
impl<S: PKey, Q: PKey> Translator<S> for Tx<Q> {
    type TargetPk = Q;
    type Error = AtomE;
    fn pk(&mut self, pk: &S) -> Result<Q, AtomE> { self.key(pk.id()).map(Q::mk) }
    fn sha256(&mut self, h: &S::Sha256) -> Result<Q::Sha256, AtomE> { self.hash(HK::Sha256, S::id_sha256(h)).map(Q::mk_sha256) }
    fn hash256(&mut self, h: &S::Hash256) -> Result<Q::Hash256, AtomE> { self.hash(HK::Hash256, S::id_hash256(h)).map(Q::mk_hash256) }
    fn ripemd160(&mut self, h: &S::Ripemd160) -> Result<Q::Ripemd160, AtomE> { self.hash(HK::Ripemd160, S::id_ripemd160(h)).map(Q::mk_ripemd160) }
    fn hash160(&mut self, h: &S::Hash160) -> Result<Q::Hash160, AtomE> { self.hash(HK::Hash160, S::id_hash160(h)).map(Q::mk_hash160) }
}
fn err_text(e: AtomE) -> String {
    match e { AtomE::K(k) => format!("ERR:K{}", k), AtomE::H(kind, h) => format!("ERR:H{}:{}", kind.name(), h) }
}

/// the two policy types behind one interface
pub trait Pol<K: PKey>: Sized + ToString + PartialEq + ForEachKey<K> {
    const FAM: &'static str;
    fn build(p: &P) -> Option<Self>;
    fn unbuild(&self) -> P;
    fn tr<Q: PKey>(&self, t: &mut Tx<Q>) -> Result<(P, String), AtomE>;
    fn tr_twice(&self, f: MapK, g: MapK) -> String;
}
impl<K: PKey> Pol<K> for Concrete<K> {
    const FAM: &'static str = "concrete";
    fn build(p: &P) -> Option<Self> { to_concrete::<K>(p) }
    fn unbuild(&self) -> P { from_concrete::<K>(self) }
    fn tr<Q: PKey>(&self, t: &mut Tx<Q>) -> Result<(P, String), AtomE> {
        self.translate_pk(t).map(|r: Concrete<Q>| (from_concrete::<Q>(&r), r.to_string()))
    }
    fn tr_twice(&self, f: MapK, g: MapK) -> String {
        match self.translate_pk(&mut Tx::<String>::new(Mode::Pure(vec![f]))) {
            Err(e) => err_text(e),
            Ok(mid) => match mid.translate_pk(&mut Tx::<String>::new(Mode::Pure(vec![g]))) {
                Err(e) => err_text(e),
                Ok(r) => from_concrete::<String>(&r).wire(),
            },
        }
    }
}
impl<K: PKey> Pol<K> for Semantic<K> {
    const FAM: &'static str = "semantic";
    fn build(p: &P) -> Option<Self> { to_semantic::<K>(p) }
    fn unbuild(&self) -> P { from_semantic::<K>(self) }
    fn tr<Q: PKey>(&self, t: &mut Tx<Q>) -> Result<(P, String), AtomE> {
        self.translate_pk(t).map(|r: Semantic<Q>| (from_semantic::<Q>(&r), r.to_string()))
    }
    fn tr_twice(&self, f: MapK, g: MapK) -> String {
        match self.translate_pk(&mut Tx::<String>::new(Mode::Pure(vec![f]))) {
            Err(e) => err_text(e),
            Ok(mid) => match mid.translate_pk(&mut Tx::<String>::new(Mode::Pure(vec![g]))) {
                Err(e) => err_text(e),
                Ok(r) => from_semantic::<String>(&r).wire(),
            },
        }
    }
}

fn guard(f: impl FnOnce() -> String) -> String { catch_unwind(AssertUnwindSafe(f)).unwrap_or_else(|_| "PANIC".to_string()) }
fn show_ids(v: &[u32]) -> String { if v.is_empty() { "-".into() } else { v.iter().map(|k| k.to_string()).collect::<Vec<_>>().join(",") } }
fn scan_keys(s: &str) -> Vec<u32> {
    s.split(|c: char| "(),@".contains(c)).filter(|t| t.len() > 1 && t.starts_with('K') && t[1..].chars().all(|c| c.is_ascii_digit()))
        .map(|t| t[1..].parse().unwrap_or(UNKNOWN)).collect()
}

/// translate with a String-targeted or PublicKey-targeted translator; (wire, printed form)
fn run_tr<T: Pol<String>>(x: &T, mode: &Mode) -> Result<(P, String), String> {
    let real = matches!(mode, Mode::Pure(v) if v.contains(&MapK::Real));
    let r = catch_unwind(AssertUnwindSafe(|| {
        if real { x.tr::<PublicKey>(&mut Tx::new(mode.clone())) } else { x.tr::<String>(&mut Tx::new(mode.clone())) }
    }));
    match r { Err(_) => Err("PANIC".into()), Ok(Err(e)) => Err(err_text(e)), Ok(Ok(v)) => Ok(v) }
}

fn ops_for<T: Pol<String>>(out: &mut Out, p: &P, thorough: bool) {
    let Some(x) = T::build(p) else { out.count("policy unbuildable"); return };
    let fam = T::FAM;
    let w = p.wire();
    p.count(out, fam);
    let mut keys = vec![]; p.keys(&mut keys);
    let distinct: Vec<u32> = { let mut s = BTreeSet::new(); keys.iter().cloned().filter(|k| s.insert(*k)).collect() };
    let absent = (0..10).rev().find(|k| !distinct.contains(k)).unwrap_or(99);

    // C ptranslate
    let pure = [MapK::Id, MapK::Ren, MapK::Ren2, MapK::Collapse, MapK::Real];
    let mut modes: Vec<Mode> = pure.iter().map(|m| Mode::Pure(vec![*m])).collect();
    for k in distinct.iter().chain(std::iter::once(&absent)) { modes.push(Mode::Fail(*k)); }
    let cap = if thorough { 16 } else { 7 };
    for n in 0..=p.n_atoms().min(cap) { modes.push(Mode::FailCall(n)); }
    for mode in &modes {
        let r = run_tr(&x, mode);
        let ans = match &r { Ok((q, _)) => q.wire(), Err(e) => e.clone() };
        out.line(&format!("C ptranslate {} {} {}", fam, mode.name(), w), &ans);
        if let (Mode::Pure(v), Ok((_, s))) = (mode, &r) {
            // the printed form of the translated policy is the printed form of the original with
            // the atoms substituted
            let orig = guard(|| x.to_string());
            if !orig.contains(' ') && !s.contains(' ') {
                out.line(&format!("J ptranslate-string {} {} {} {}", fam, v[0].name(), orig, s), "ok");
            }
        }
    }
    // identity: equal object
    {
        let ans = guard(|| {
            let mut t = Tx::<String>::new(Mode::Pure(vec![MapK::Id]));
            match x.tr::<String>(&mut t) { Ok((q, _)) => { let eq = T::build(&q).map(|y| y == x).unwrap_or(false); format!("{} {}", q.wire(), if eq { "1" } else { "0" }) } Err(e) => format!("{} 0", err_text(e)) }
        });
        out.line(&format!("J ptranslate-id {} {} {}", fam, w, ans), "ok");
    }
    // composition
    for (f, g) in [(MapK::Ren, MapK::Ren2), (MapK::Ren2, MapK::Ren), (MapK::Id, MapK::Collapse), (MapK::Collapse, MapK::Ren), (MapK::Ren, MapK::Collapse)] {
        let comp = match run_tr(&x, &Mode::Pure(vec![f, g])) { Ok((q, _)) => q.wire(), Err(e) => e };
        let seq = guard(|| x.tr_twice(f, g));
        out.line(&format!("J ptranslate-compose {} {} {} {} {} {}", fam, f.name(), g.name(), w, comp, seq), "ok");
    }
    // key visitors
    let scanned = scan_keys(&guard(|| x.to_string()));
    let visit = |stop: Option<u32>, any: bool| -> String {
        guard(|| {
            let mut v = vec![];
            let r = if any { x.for_any_key(|k| { v.push(k.id()); Some(k.id()) == stop }) } else { x.for_each_key(|k| { v.push(k.id()); Some(k.id()) != stop }) };
            format!("{}|{}", show_ids(&v), if r { "1" } else { "0" })
        })
    };
    let mut stops: Vec<Option<u32>> = vec![None];
    for k in distinct.iter().chain(std::iter::once(&absent)) { stops.push(Some(*k)); }
    for s in &stops {
        let tok = s.map(|k| k.to_string()).unwrap_or("-".into());
        out.line(&format!("C pforeach {} {} {}", fam, tok, w), &visit(*s, false));
        out.line(&format!("C pforany {} {} {}", fam, tok, w), &visit(*s, true));
    }
    let fe = visit(None, false);
    let fe_keys = fe.split('|').next().unwrap_or("-").to_string();
    tail(out, fam, p, &w, &fe_keys, &scanned, &distinct, absent);
}

/// family-specific tail (`keys()` and `translate_unsatisfiable_pk` exist on `Concrete` only)
fn tail(out: &mut Out, fam: &str, p: &P, w: &str, fe_keys: &str, scanned: &[u32], distinct: &[u32], absent: u32) {
    if fam == "concrete" {
        let c = to_concrete::<String>(p).unwrap();
        let ks = guard(|| show_ids(&c.keys().iter().map(|k| k.id()).collect::<Vec<_>>()));
        out.line(&format!("C pkeys {}", w), &ks);
        out.line(&format!("J pkeys-multiset concrete {} {} {} {}", w, ks, fe_keys, show_ids(scanned)), "ok");
        for k in distinct.iter().chain(std::iter::once(&absent)) {
            let r = guard(|| from_concrete::<String>(&to_concrete::<String>(p).unwrap().translate_unsatisfiable_pk(&key_str(*k))).wire());
            out.line(&format!("C punsat {} {}", k, w), &r);
            out.line(&format!("J punsat {} {} {}", k, w, r), "ok");
        }
    } else {
        out.line(&format!("J pkeys-multiset semantic {} {} {} {}", w, fe_keys, fe_keys, show_ids(scanned)), "ok");
    }
}

/* ------------------------------------------------------------ inputs */

fn leaves() -> Vec<P> {
    vec![P::Key(0), P::Key(1), P::Key(2), P::Hash(HK::Sha256, 0), P::Hash(HK::Hash160, 1), P::Older(5), P::After(100), P::U, P::T,
         P::Hash(HK::Hash256, 2), P::Hash(HK::Ripemd160, 3), P::Older(4194305), P::After(500000001), P::Key(3)]
}

/// all policies with one connective over a small leaf alphabet (children may repeat)
fn small_shapes(semantic: bool) -> Vec<P> {
    let a = [P::Key(0), P::Key(1), P::Hash(HK::Sha256, 0), P::Older(5), P::U];
    let mut v: Vec<P> = leaves();
    for x in &a { for y in &a {
        v.push(P::Thresh(1, vec![x.clone(), y.clone()]));
        v.push(P::Thresh(2, vec![x.clone(), y.clone()]));
        if !semantic {
            v.push(P::And(vec![x.clone(), y.clone()]));
            for (w1, w2) in [(9, 1), (1, 9), (3, 7)] { v.push(P::Or(vec![(w1, x.clone()), (w2, y.clone())])); }
        }
        for z in &a { for k in 1..=3 { v.push(P::Thresh(k, vec![x.clone(), y.clone(), z.clone()])); } }
    } }
    for x in &a { v.push(P::Thresh(1, vec![x.clone()])); }
    v
}

/// random policy; every `or` gets pairwise different weights, thresholds mostly k < n
fn random_pol(rng: &mut Rng, depth: usize, semantic: bool) -> P {
    let ls = leaves();
    if depth == 0 || rng.below(5) == 0 { return rng.pick(&ls).clone(); }
    let n = 2 + rng.below(3);
    let kids: Vec<P> = (0..n).map(|i| if i == 0 && rng.coin() { rng.pick(&ls).clone() } else { random_pol(rng, depth - 1, semantic) }).collect();
    match if semantic { 2 } else { rng.below(3) } {
        0 => P::And(kids),
        1 => {
            let base = 1 + rng.below(5);
            P::Or(kids.into_iter().enumerate().map(|(i, x)| (base + i * (2 + rng.below(3)) + (i * i), x)).rev().collect())
        }
        _ => { let k = if n > 1 && rng.below(4) != 0 { 1 + rng.below(n - 1) } else { n }; P::Thresh(k, kids) }
    }
}

/// hand-written asymmetric policies
fn hand(semantic: bool) -> Vec<P> {
    let k = P::Key;
    let th = |kk: usize, v: Vec<P>| P::Thresh(kk, v);
    let mut v = vec![
        th(2, vec![k(0), k(1), k(2)]),
        th(2, vec![k(0), th(1, vec![k(1), P::Older(5)]), P::Hash(HK::Sha256, 0), k(0)]),
        th(1, vec![th(2, vec![k(0), k(1)]), th(2, vec![k(2), k(3), P::After(100)])]),
        th(3, vec![k(2), k(1), k(0), k(1)]),
        th(1, vec![P::U, k(0), P::T]),
    ];
    if !semantic {
        v.extend(vec![
            P::Or(vec![(9, k(0)), (1, k(1))]),
            P::Or(vec![(1, k(0)), (9, k(1))]),
            P::Or(vec![(9, k(0)), (1, P::And(vec![k(1), th(2, vec![k(2), P::Hash(HK::Sha256, 0), k(0), P::Older(5)])]))]),
            P::Or(vec![(7, P::Or(vec![(2, k(0)), (5, k(1))])), (3, P::Or(vec![(11, k(2)), (4, P::And(vec![k(3), P::After(100)]))]))]),
            P::And(vec![P::Or(vec![(1, k(0)), (2, k(1))]), P::Or(vec![(2, k(0)), (1, k(1))])]),
            P::Or(vec![(5, k(0)), (4, k(1)), (3, k(2)), (2, k(0))]),
            P::And(vec![k(0), k(1), k(2)]),
            th(2, vec![P::Or(vec![(9, k(0)), (1, P::Hash(HK::Hash160, 1))]), P::And(vec![k(1), P::Older(5)]), P::Or(vec![(1, k(2)), (9, P::U)])]),
            P::Or(vec![(0, k(0)), (1000000, P::T)]),
            P::And(vec![k(0)]),
            P::Or(vec![(3, k(1))]),
        ]);
    }
    v
}

pub fn run(out: &mut Out, thorough: bool, rng: &mut Rng) {
    let mut n = 0usize;
    for semantic in [false, true] {
        let mut ps = hand(semantic);
        ps.extend(small_shapes(semantic));
        for _ in 0..(if thorough { 1500 } else { 250 }) { let d = 2 + rng.below(3); ps.push(random_pol(rng, d, semantic)); }
        let mut seen = BTreeSet::new();
        ps.retain(|p| p.size() <= 60 && seen.insert(p.wire()));
        for p in &ps {
            n += 1;
            debug_assert!(!semantic || p.is_semantic());
            if semantic { ops_for::<Semantic<String>>(out, p, thorough) } else { ops_for::<Concrete<String>>(out, p, thorough) }
        }
        out.note(&format!("policy inputs {}", if semantic { "semantic" } else { "concrete" }), ps.len().to_string());
    }
    out.note("policy domain", "concrete + semantic Policy<String>: hand-written asymmetric policies, every one-connective policy over a 5-leaf alphabet (and / or with 3 weight pairs / thresh k<=n<=3), random depth<=4 n-ary policies with pairwise different or-weights; maps id/ren/ren2/collapse/real/fail:i/failcall:n".into());
    let _ = n;
}

//! RAW TEXT CHANNEL (rule R3) shared by C10 (c10.rs) and C11 (c11expr.rs): strings that no
//! `Display` of the library produces, offered to EVERY text entry point (rule R1).
//!
//! classes
//!   short     every string of length 0..=3 over a 20-symbol structural alphabet
//!   cslen     `body#` + 0..=9 checksum characters (prefix of the true checksum / wrong characters)
//!   hashpos   `#` inserted at / substituted for every position of every template
//!   depth     nesting ±1 around each limit (expression 403, miniscript height 402, tap tree 128),
//!             arities ±1 around multi 20 / multi_a / thresh
//!   charclass one representative of every character class at every position of every template
//!             (substituted and inserted), and every position deleted
//!   names     look-alikes of every fragment / wrapper / descriptor / policy name: truncated and
//!             extended by one character, case-flipped, unknown wrappers, doubled separators
//!   numbers   leading zeros, signs, radix prefixes, non-ASCII digits, every decimal length around
//!             u32::MAX, 2^31, 2^22 (CSV type flag), 500 000 000 (CLTV threshold), 65 535 … in every
//!             numeric position (older/after/thresh/multi/weights/derivation steps/placeholders)
use std::panic::{catch_unwind, AssertUnwindSafe};
use std::str::FromStr;

use miniscript::descriptor::{
    Bare, DefiniteDescriptorKey, DescriptorPublicKey, DescriptorSecretKey, Pkh, Sh, Tr, WalletPolicy, Wpkh, Wsh,
};
use miniscript::expression::{FromTree, Tree};
use miniscript::policy::{Concrete, Semantic};
use miniscript::{BareCtx, Descriptor, Legacy, Miniscript, Segwitv0, Tap, ValidationParams};

pub const XPUB: &str = "xpub661MyMwAqRbcFtXgS5sYJABqqG9YLmC4Q1Rdap9gSE8NqtwybGhePY2gZ29ESFjqJoCu1Rupje8YtGqsefD265TMg7usUDFdp6W1EGMcet8";
pub const XPRV: &str = "xprv9s21ZrQH143K3QTDL4LXw2F7HEK3wJUD2nW2nRk4stbPy6cq3jPPqjiChkVvvNKmPGJxWUtg6LnF5kejMRNNU3TGtRBeJgk33yuGBxrMPHi";
pub const PK: &str = "03c57b973499cb87c1409b29b475185b624c6abb8421f003246f1ede275d367af4";
pub const PK2: &str = "02c2fd50ceae468857bb7eb32ae9cd4083e6c7e42fbbec179d81134b3e3830586c";
pub const XO: &str = "c57b973499cb87c1409b29b475185b624c6abb8421f003246f1ede275d367af4";
pub const WIF: &str = "L4rK1yDtCWekvXuE6oXD9jCYfFNV2cWRpVuPLBcCU2z8TrisoyY1";
const H32: &str = "e3b0c44298fc1c149afbf4c8996fb92427ae41e4649b934ca495991b7852b855";
const H20: &str = "da39a3ee5e6b4b0d3255bfef95601890afd80709";

/// short templates over abstract keys (String keys) – every position is visited
pub fn short_templates() -> Vec<String> {
    let v = vec![
        // miniscript
        "and_v(v:pk(A),or_d(pk(B),older(144)))", "thresh(2,pk(A),s:pk(B),sln:after(500000))",
        "andor(pk(A),sha256(H),pkh(B))", "multi(2,A,B,C)", "t:or_c(pk(A),v:hash160(H))", "c:pk_k(A)",
        "multi_a(1,A,B)", "or_i(and_b(pk(A),a:ripemd160(H)),hash256(H))", "j:and_n(pk(A),pk_h(B))",
        // descriptors
        "wsh(and_v(v:pk(A),older(10)))", "sh(wsh(multi(1,A,B)))", "wpkh(A)", "pkh(A)", "pk(A)", "sh(wpkh(A))",
        "sh(sortedmulti(1,A,B))", "wsh(sortedmulti(2,A,B))", "tr(A,{pk(B),{pk(C),multi_a(1,D,E)}})", "tr(A)",
        "tr(A,sortedmulti_a(1,B,C))", "sh(pk(A))", "sh(multi(1,A))",
        // policies
        "or(9@pk(A),1@and(pk(B),after(100)))", "thresh(2,pk(A),pk(B),older(5))", "and(pk(A),sha256(H))",
        "or(pk(A),UNSATISFIABLE)", "and(TRIVIAL,hash160(H))",
        // wallet policy templates
        "wsh(multi(2,@0/**,@1/<2;3>/*))", "tr(@0/**,pk(@1/**))",
    ];
    let mut v: Vec<String> = v.into_iter().map(String::from).collect();
    let cs = crate::c10::impl_checksum("wpkh(A)");
    if cs.len() == 8 && cs.is_ascii() {
        v.push(format!("wpkh(A)#{}", cs));
    }
    v
}

/// templates with real keys – structural positions and every 5th other position are visited
pub fn long_templates() -> Vec<String> {
    vec![
        format!("[d34db33f/44'/0'/0']{}/1/*", XPUB),
        format!("{}/<0;1>/*", XPUB),
        PK.to_string(),
        XO.to_string(),
        format!("[d34db33f]{}/0'/*h", XPRV),
        WIF.to_string(),
        format!("wpkh({})", PK),
        format!("tr({},pk({}))", XO, XO),
        format!("wsh(multi(1,[d34db33f/48h]{}/<0;1>/*,{}))", XPUB, PK),
        format!("wsh(and_v(v:pk({}),sha256({})))", PK, H32),
        format!("and_v(v:pkh({}),hash160({}))", PK2, H20),
        format!("pk({})", PK),
    ]
}

const CLASS_REPS: &[&str] = &[
    "0", "9", "a", "h", "z", "A", "Z", "(", ")", "{", "}", "[", "]", "<", ">", ",", ";", ":", "/", "*", "'", "#", "@", "_",
    " ", "\"", "\\", "~", "!", "\t", "\u{7f}", "\u{0}", "é", "€", "😀",
];
const INSERT_REPS: &[&str] = &["(", ")", ",", "#", ":", "@", "/", "é"];

fn positions(t: &[char], long: bool) -> Vec<usize> {
    if !long {
        return (0..t.len()).collect();
    }
    let mut pos: Vec<usize> = (0..t.len()).step_by(5).collect();
    for (i, c) in t.iter().enumerate() {
        if "[]/()<>;,'#*@{}:h".contains(*c) {
            pos.push(i);
            if i + 1 < t.len() { pos.push(i + 1); }
            if i > 0 { pos.push(i - 1); }
        }
    }
    for p in [0usize, 1, 2, 3, t.len().saturating_sub(1), t.len().saturating_sub(2), t.len().saturating_sub(3)] {
        pos.push(p.min(t.len().saturating_sub(1)));
    }
    pos.sort();
    pos.dedup();
    pos
}

pub const NAMES: &[&str] = &[
    "pk", "pk_k", "pk_h", "pkh", "older", "after", "sha256", "hash256", "ripemd160", "hash160", "and_v", "and_b", "and_n",
    "andor", "or_b", "or_c", "or_d", "or_i", "thresh", "multi", "multi_a", "sortedmulti", "sortedmulti_a", "expr_raw_pkh",
    "wsh", "sh", "wpkh", "tr", "and", "or", "UNSATISFIABLE", "TRIVIAL", "a", "s", "c", "t", "d", "v", "j", "n", "l", "u",
];

/// a context in which `name` is used correctly; `{}` is replaced by the (mangled) name
fn name_contexts(name: &str) -> Vec<String> {
    let v: Vec<&str> = match name {
        "pk" | "pk_k" | "pk_h" | "pkh" => vec!["c:{}(A)", "{}(A)", "wsh({}(A))", "and_v(v:{}(A),pk(B))", "or(1@{}(A),1@pk(B))"],
        "older" | "after" => vec!["and_v(v:pk(A),{}(10))", "{}(10)", "and({}(10),pk(A))"],
        "sha256" | "hash256" | "ripemd160" | "hash160" => vec!["and_v(v:pk(A),{}(H))", "and(pk(A),{}(H))"],
        "and_v" => vec!["{}(v:pk(A),pk(B))"],
        "and_b" | "or_b" => vec!["{}(pk(A),s:pk(B))"],
        "and_n" | "or_d" | "or_i" => vec!["{}(pk(A),pk(B))"],
        "or_c" => vec!["t:{}(pk(A),v:pk(B))"],
        "andor" => vec!["{}(pk(A),pk(B),pk(C))"],
        "thresh" => vec!["{}(2,pk(A),s:pk(B))", "{}(2,pk(A),pk(B))"],
        "multi" | "sortedmulti" => vec!["{}(1,A,B)", "wsh({}(1,A,B))", "sh({}(1,A,B))"],
        "multi_a" | "sortedmulti_a" => vec!["{}(1,A,B)", "tr(A,{}(1,B,C))"],
        "expr_raw_pkh" => vec!["c:{}(da39a3ee5e6b4b0d3255bfef95601890afd80709)"],
        "wsh" => vec!["{}(pk(A))", "sh({}(pk(A)))"],
        "sh" => vec!["{}(wsh(pk(A)))", "{}(pk(A))"],
        "wpkh" => vec!["{}(A)", "sh({}(A))"],
        "tr" => vec!["{}(A)", "{}(A,pk(B))"],
        "and" | "or" => vec!["{}(pk(A),pk(B))"],
        "UNSATISFIABLE" | "TRIVIAL" => vec!["or(pk(A),{})", "{}"],
        _ => vec!["{}:pk(A)", "wsh({}:pk(A))", "and_v(v:pk(A),{}:pk(B))"], // wrappers
    };
    v.into_iter().map(String::from).collect()
}

fn mangle(name: &str) -> Vec<String> {
    let mut v = vec![];
    let cs: Vec<char> = name.chars().collect();
    if cs.len() > 1 {
        v.push(cs[..cs.len() - 1].iter().collect());
        v.push(cs[1..].iter().collect());
    } else {
        v.push(String::new());
    }
    for x in ["x", "_", "0", "h", "_a", "s"] {
        v.push(format!("{}{}", name, x));
    }
    v.push(format!("x{}", name));
    v.push(format!("_{}", name));
    let flip: String = cs.iter().enumerate().map(|(i, c)| if i == 0 { if c.is_ascii_lowercase() { c.to_ascii_uppercase() } else { c.to_ascii_lowercase() } } else { *c }).collect();
    v.push(flip);
    v.push(name.to_ascii_uppercase());
    v.push(name.replace('_', ""));
    v.push(name.replace('_', "__"));
    v.push(format!("{}:", name));
    v.push(format!(":{}", name));
    v.push(format!("{}:{}", name, name));
    v.sort();
    v.dedup();
    v
}

pub fn number_strings() -> Vec<String> {
    let mut v: Vec<String> = vec![
        "", "0", "00", "000", "01", "001", "010", "+0", "-0", "+1", "-1", "++1", "1+", "1-", " 1", "1 ", "1_000", "1,000", "1.0", "1e3",
        "0x10", "0b1", "0o7", "１", "٣", "1٣", "١", "1a", "a1", "a", "1\u{0}", "1\n", "\t1", "0 ", "1'", "1h", "1H",
    ]
    .into_iter()
    .map(String::from)
    .collect();
    let pivots: [u64; 16] = [
        1, 9, 10, 16, 20, 21, 65535, 65536, 4194303, 4194304, 4194305, 499_999_999, 500_000_000, 500_000_001, 2147483647, 4294967295,
    ];
    for p in pivots {
        for d in [-1i64, 0, 1] {
            let n = p as i64 + d;
            if n >= 0 {
                v.push(n.to_string());
                v.push(format!("0{}", n));
                v.push(format!("+{}", n));
            }
        }
    }
    v.push("2147483648".into());
    v.push("2147483649".into());
    for len in 1..=12usize {
        v.push("9".repeat(len));
        v.push(format!("1{}", "0".repeat(len - 1)));
        v.push(format!("4{}", "2".repeat(len - 1)));
        v.push("0".repeat(len));
    }
    for s in ["4294967294", "4294967296", "4294967297", "42949672950", "04294967295", "18446744073709551615", "18446744073709551616", "340282366920938463463374607431768211456"] {
        v.push(s.into());
    }
    v.sort();
    v.dedup();
    v
}

/// every numeric position of the text formats
fn number_contexts() -> Vec<String> {
    vec![
        "and_v(v:pk(A),older({}))", "and_v(v:pk(A),after({}))", "older({})", "after({})", "thresh({},pk(A),s:pk(B))",
        "multi({},A,B)", "multi_a({},A,B)", "wsh(sortedmulti({},A,B))", "or({}@pk(A),1@pk(B))", "thresh({},pk(A),pk(B))",
        "and(pk(A),older({}))", "wsh(multi(2,@{}/**,@1/**))", "wsh(multi(2,@0/<{};1>/*,@1/**))",
    ]
    .into_iter()
    .map(String::from)
    .chain(vec![
        format!("{}/{{}}", XPUB), format!("{}/{{}}'", XPUB), format!("{}/{{}}h/*", XPUB), format!("{}/<{{}};1>/*", XPUB),
        format!("[d34db33f/{{}}']{}", PK), format!("wpkh({}/{{}}/*)", XPUB),
    ])
    .collect()
}

pub fn raw_corpus() -> Vec<(&'static str, String)> {
    let mut out: Vec<(&'static str, String)> = vec![];
    // short
    let alpha: Vec<&str> = vec!["a", "0", "(", ")", "{", "}", ",", "#", ":", "@", "/", "*", "'", "[", "]", "<", ">", ";", " ", "é"];
    out.push(("short", String::new()));
    for a in &alpha {
        out.push(("short", a.to_string()));
        for b in &alpha {
            out.push(("short", format!("{}{}", a, b)));
            for c in &alpha {
                out.push(("short", format!("{}{}{}", a, b, c)));
            }
        }
    }
    let shorts = short_templates();
    let longs = long_templates();
    // cslen
    for body in shorts.iter().take(24).chain(longs.iter().skip(6)) {
        if body.contains('#') { continue; }
        let cs = crate::c10::impl_checksum(body);
        if cs.len() != 8 || !cs.is_ascii() { continue; }
        for k in 0..=9usize {
            let ext = format!("{}q", cs);
            out.push(("cslen", format!("{}#{}", body, &ext[..k])));
            out.push(("cslen", format!("{}#{}", body, "q".repeat(k))));
            out.push(("cslen", format!("{}#{}", body, &"QPZRY9X8G"[..k])));
        }
        out.push(("cslen", format!("{}#{}#{}", body, cs, cs)));
        out.push(("cslen", format!("#{}{}", cs, body)));
        out.push(("cslen", format!("{}#{} ", body, cs)));
        out.push(("cslen", format!("{} #{}", body, cs)));
    }
    // hashpos + charclass
    for (long, set) in [(false, &shorts), (true, &longs)] {
        for t in set.iter() {
            let chars: Vec<char> = t.chars().collect();
            for p in positions(&chars, long) {
                let mut r = chars.clone(); r[p] = '#'; out.push(("hashpos", r.iter().collect()));
                let mut r = chars.clone(); r.insert(p, '#'); out.push(("hashpos", r.iter().collect()));
                for rep in CLASS_REPS {
                    if rep.chars().next() == Some(chars[p]) { continue; }
                    let mut r = chars.clone(); r.splice(p..p + 1, rep.chars()); out.push(("charclass", r.iter().collect()));
                }
                for rep in INSERT_REPS {
                    let mut r = chars.clone(); r.splice(p..p, rep.chars()); out.push(("charclass", r.iter().collect()));
                }
                let mut r = chars.clone(); r.remove(p); out.push(("charclass", r.iter().collect()));
                if p + 1 < chars.len() { let mut r = chars.clone(); r.swap(p, p + 1); out.push(("charclass", r.iter().collect())); }
            }
            let mut r = chars.clone(); r.push('#'); out.push(("hashpos", r.iter().collect()));
        }
    }
    // depth ±1 around each limit
    for d in [401usize, 402, 403, 404, 405] {
        // pure nesting, miniscript-shaped nesting, wrapper towers (no parentheses: tree height only)
        out.push(("depth", format!("{}pk(A){}", "or_i(0,".repeat(d - 1), ")".repeat(d - 1))));
        out.push(("depth", format!("{}pk(A){}", "and_v(v:pk(B),".repeat(d - 1), ")".repeat(d - 1))));
        out.push(("depth", format!("wsh({}pk(A){})", "or_i(0,".repeat(d - 2), ")".repeat(d - 2))));
        out.push(("depth", format!("tr(A,{}pk(B){})", "or_i(0,".repeat(d - 2), ")".repeat(d - 2))));
        out.push(("depth", format!("{}:pk(A)", "n".repeat(d - 1))));
        out.push(("depth", format!("wsh({}:pk(A))", "vc".repeat((d - 1) / 2))));
        out.push(("depth", format!("{}pk(A){}", "or(1@pk(B),1@".repeat(d - 1), ")".repeat(d - 1))));
        out.push(("depth", format!("{}pk(A){}", "and(pk(B),".repeat(d - 1), ")".repeat(d - 1))));
        out.push(("depth", format!("{}pk(A){}", "thresh(1,".repeat(d - 1), ")".repeat(d - 1))));
    }
    for d in [126usize, 127, 128, 129, 130] {
        // tap tree depth: the leaf `pk(B)` sits at depth d
        out.push(("depth", format!("tr(A,{}pk(B){})", "{pk(C),".repeat(d), "}".repeat(d))));
        out.push(("depth", format!("tr(A,{}pk(B){})", "{".repeat(d), ",pk(C)}".repeat(d))));
    }
    for n in [0usize, 1, 2, 3, 15, 16, 17, 19, 20, 21, 22] {
        let keys: Vec<String> = (0..n).map(|i| format!("K{}", i)).collect();
        for k in [0usize, 1, n.saturating_sub(1), n, n + 1] {
            out.push(("depth", format!("multi({},{})", k, keys.join(","))));
            out.push(("depth", format!("wsh(sortedmulti({},{}))", k, keys.join(","))));
            out.push(("depth", format!("sh(multi({},{}))", k, keys.join(","))));
            out.push(("depth", format!("multi_a({},{})", k, keys.join(","))));
            let pks: Vec<String> = keys.iter().enumerate().map(|(i, x)| if i == 0 { format!("pk({})", x) } else { format!("s:pk({})", x) }).collect();
            out.push(("depth", format!("thresh({},{})", k, pks.join(","))));
            let pol: Vec<String> = keys.iter().map(|x| format!("pk({})", x)).collect();
            out.push(("depth", format!("thresh({},{})", k, pol.join(","))));
        }
    }
    for n in [998usize, 999, 1000] {
        let keys: Vec<String> = (0..n).map(|i| format!("K{}", i)).collect();
        out.push(("depth", format!("multi_a(1,{})", keys.join(","))));
        out.push(("depth", format!("tr(A,multi_a({},{}))", n, keys.join(","))));
    }
    // names
    for name in NAMES {
        for ctx in name_contexts(name) {
            for m in mangle(name) {
                out.push(("names", ctx.replace("{}", &m)));
            }
        }
    }
    // numbers
    let nums = number_strings();
    for ctx in number_contexts() {
        for n in &nums {
            out.push(("numbers", ctx.replace("{}", n)));
        }
    }
    // designated strings (accepted today, one known defect each: F15 bare `c:pk_h`)
    out.push(("designated", "c:pk_h(A)".into()));
    out.push(("designated", format!("c:pk_h({})", PK)));
    out.sort();
    out.dedup();
    out
}

fn ok<T, E>(r: Result<T, E>) -> bool { r.is_ok() }

/// EVERY text entry point of the library (rule R1): each `FromStr`, `from_str_insane`,
/// `from_str_with_validation_params`, `FromTree::from_tree` on a parsed tree, `parse_descriptor`
pub fn routes() -> Vec<(&'static str, fn(&str) -> bool)> {
    macro_rules! fs { ($t:ty) => { (|s: &str| ok(<$t>::from_str(s))) as fn(&str) -> bool }; }
    macro_rules! ft { ($t:ty) => { (|s: &str| match Tree::from_str(s) { Ok(t) => ok(<$t as FromTree>::from_tree(t.root())), Err(_) => false }) as fn(&str) -> bool }; }
    vec![
        ("Tree", (|s: &str| ok(Tree::from_str(s))) as fn(&str) -> bool),
        ("Descriptor<String>", fs!(Descriptor<String>)),
        ("Descriptor<DescriptorPublicKey>", fs!(Descriptor<DescriptorPublicKey>)),
        ("Descriptor<DefiniteDescriptorKey>", fs!(Descriptor<DefiniteDescriptorKey>)),
        ("Descriptor::parse_descriptor", |s: &str| {
            let secp = miniscript::bitcoin::secp256k1::Secp256k1::signing_only();
            ok(Descriptor::<DescriptorPublicKey>::parse_descriptor(&secp, s))
        }),
        ("Wsh<String>", fs!(Wsh<String>)),
        ("Wpkh<String>", fs!(Wpkh<String>)),
        ("Sh<String>", fs!(Sh<String>)),
        ("Pkh<String>", fs!(Pkh<String>)),
        ("Bare<String>", fs!(Bare<String>)),
        ("Tr<String>", fs!(Tr<String>)),
        ("Tr<DescriptorPublicKey>", fs!(Tr<DescriptorPublicKey>)),
        ("Wsh<DescriptorPublicKey>", fs!(Wsh<DescriptorPublicKey>)),
        ("Miniscript<String,BareCtx>", fs!(Miniscript<String, BareCtx>)),
        ("Miniscript<String,Legacy>", fs!(Miniscript<String, Legacy>)),
        ("Miniscript<String,Segwitv0>", fs!(Miniscript<String, Segwitv0>)),
        ("Miniscript<String,Tap>", fs!(Miniscript<String, Tap>)),
        ("Miniscript<DescriptorPublicKey,Segwitv0>", fs!(Miniscript<DescriptorPublicKey, Segwitv0>)),
        ("Miniscript<DescriptorPublicKey,Tap>", fs!(Miniscript<DescriptorPublicKey, Tap>)),
        ("Miniscript<String,Segwitv0>::from_str_insane", |s: &str| ok(Miniscript::<String, Segwitv0>::from_str_insane(s))),
        ("Miniscript<String,Tap>::from_str_insane", |s: &str| ok(Miniscript::<String, Tap>::from_str_insane(s))),
        ("Miniscript<String,Legacy>::from_str_insane", |s: &str| ok(Miniscript::<String, Legacy>::from_str_insane(s))),
        ("Miniscript<String,Segwitv0>::from_str_with_validation_params(MAX)", |s: &str| {
            ok(Miniscript::<String, Segwitv0>::from_str_with_validation_params(s, &ValidationParams::MAX))
        }),
        ("Miniscript<String,Tap>::from_str_with_validation_params(MAX)", |s: &str| {
            ok(Miniscript::<String, Tap>::from_str_with_validation_params(s, &ValidationParams::MAX))
        }),
        ("Miniscript<String,Segwitv0>::from_tree", ft!(Miniscript<String, Segwitv0>)),
        ("Miniscript<String,Tap>::from_tree", ft!(Miniscript<String, Tap>)),
        ("Descriptor<String>::from_tree", ft!(Descriptor<String>)),
        ("Tr<String>::from_tree", ft!(Tr<String>)),
        ("Concrete<String>::from_tree", ft!(Concrete<String>)),
        ("Semantic<String>::from_tree", ft!(Semantic<String>)),
        ("Concrete<String>", fs!(Concrete<String>)),
        ("Concrete<DescriptorPublicKey>", fs!(Concrete<DescriptorPublicKey>)),
        ("Semantic<String>", fs!(Semantic<String>)),
        ("Semantic<DescriptorPublicKey>", fs!(Semantic<DescriptorPublicKey>)),
        ("DescriptorPublicKey", fs!(DescriptorPublicKey)),
        ("DescriptorSecretKey", fs!(DescriptorSecretKey)),
        ("DefiniteDescriptorKey", fs!(DefiniteDescriptorKey)),
        ("WalletPolicy", fs!(WalletPolicy)),
        ("verify_checksum", |s: &str| ok(miniscript::descriptor::checksum::verify_checksum(s))),
        ("checksum::Engine::input", |s: &str| { let mut e = miniscript::descriptor::checksum::Engine::new(); let r = e.input(s); let _ = e.checksum(); ok(r) }),
        ("parse_num", |s: &str| ok(miniscript::expression::parse_num(s))),
        ("parse_num_nonzero", |s: &str| ok(miniscript::expression::parse_num_nonzero(s, "x"))),
    ]
}

/// "ok" / failure class of `parse ∘ Display` on the object a parser ACCEPTED for `s`; None = refused
fn rt_generic<T>(s: &str) -> Option<&'static str>
where
    T: FromStr + std::fmt::Display + PartialEq,
{
    let x = T::from_str(s).ok()?;
    let s2 = x.to_string();
    Some(match T::from_str(&s2) {
        Err(_) => "reparse-failed",
        Ok(y) => {
            if y != x { "not-equal" } else if y.to_string() != s2 { "not-a-fixed-point" } else { "ok" }
        }
    })
}

/// round-trip routes (rule R1 for C10): every text type whose values print and compare
pub fn rt_routes() -> Vec<(&'static str, fn(&str) -> Option<&'static str>)> {
    macro_rules! rt { ($t:ty) => { (|s: &str| rt_generic::<$t>(s)) as fn(&str) -> Option<&'static str> }; }
    vec![
        ("Descriptor<String>", rt!(Descriptor<String>)),
        ("Descriptor<DescriptorPublicKey>", rt!(Descriptor<DescriptorPublicKey>)),
        ("Descriptor<DefiniteDescriptorKey>", rt!(Descriptor<DefiniteDescriptorKey>)),
        ("Wsh<String>", rt!(Wsh<String>)),
        ("Wpkh<String>", rt!(Wpkh<String>)),
        ("Sh<String>", rt!(Sh<String>)),
        ("Pkh<String>", rt!(Pkh<String>)),
        ("Bare<String>", rt!(Bare<String>)),
        ("Tr<String>", rt!(Tr<String>)),
        ("Tr<DescriptorPublicKey>", rt!(Tr<DescriptorPublicKey>)),
        ("Miniscript<String,BareCtx>", rt!(Miniscript<String, BareCtx>)),
        ("Miniscript<String,Legacy>", rt!(Miniscript<String, Legacy>)),
        ("Miniscript<String,Segwitv0>", rt!(Miniscript<String, Segwitv0>)),
        ("Miniscript<String,Tap>", rt!(Miniscript<String, Tap>)),
        ("Miniscript<DescriptorPublicKey,Segwitv0>", rt!(Miniscript<DescriptorPublicKey, Segwitv0>)),
        ("Miniscript<DescriptorPublicKey,Tap>", rt!(Miniscript<DescriptorPublicKey, Tap>)),
        ("Concrete<String>", rt!(Concrete<String>)),
        ("Concrete<DescriptorPublicKey>", rt!(Concrete<DescriptorPublicKey>)),
        ("Semantic<String>", rt!(Semantic<String>)),
        ("DescriptorPublicKey", rt!(DescriptorPublicKey)),
        ("DescriptorSecretKey", rt!(DescriptorSecretKey)),
        ("DefiniteDescriptorKey", rt!(DefiniteDescriptorKey)),
        ("Miniscript<String,Segwitv0>::from_str_insane", |s: &str| {
            let x = Miniscript::<String, Segwitv0>::from_str_insane(s).ok()?;
            let s2 = x.to_string();
            Some(match Miniscript::<String, Segwitv0>::from_str_insane(&s2) {
                Err(_) => "reparse-failed",
                Ok(y) => if y != x { "not-equal" } else if y.to_string() != s2 { "not-a-fixed-point" } else { "ok" },
            })
        }),
        ("Miniscript<String,Tap>::from_str_insane", |s: &str| {
            let x = Miniscript::<String, Tap>::from_str_insane(s).ok()?;
            let s2 = x.to_string();
            Some(match Miniscript::<String, Tap>::from_str_insane(&s2) {
                Err(_) => "reparse-failed",
                Ok(y) => if y != x { "not-equal" } else if y.to_string() != s2 { "not-a-fixed-point" } else { "ok" },
            })
        }),
    ]
}

/// run `f` under catch_unwind: Some(result) or None on panic
pub fn guarded<R>(f: impl FnOnce() -> R) -> Option<R> { catch_unwind(AssertUnwindSafe(f)).ok() }

use std::collections::BTreeMap;
use std::fs::File;
use std::io::{BufWriter, Write};

/// SplitMix64: the single source of randomness (seeded from VERIF_SEED).
pub struct Rng(pub u64);
impl Rng {
    pub fn next(&mut self) -> u64 {
        self.0 = self.0.wrapping_add(0x9E3779B97F4A7C15);
        let mut z = self.0;
        z = (z ^ (z >> 30)).wrapping_mul(0xBF58476D1CE4E5B9);
        z = (z ^ (z >> 27)).wrapping_mul(0x94D049BB133111EB);
        z ^ (z >> 31)
    }
    pub fn below(&mut self, n: usize) -> usize { (self.next() % (n as u64)) as usize }
    pub fn coin(&mut self) -> bool { self.next() & 1 == 1 }
    pub fn pick<'a, T>(&mut self, xs: &'a [T]) -> &'a T { &xs[self.below(xs.len())] }
}

/// Output sink: ops.txt / impl.txt / stats.json in the output directory.
pub struct Out {
    ops: BufWriter<File>,
    imp: BufWriter<File>,
    dir: String,
    pub n_lines: u64,
    pub hist: BTreeMap<String, u64>,
    pub samples: Vec<String>,
    pub notes: BTreeMap<String, String>,
    /// C11 panic sweep: keep only `D` and `J nopanic` lines of the sub-run, count the rest
    pub sweep: bool,
    /// in a sweep, also keep lines of the sub-run that carry a PANIC token (off for modules whose
    /// entry points are not C11 input channels, e.g. the policy compiler)
    pub sweep_tokens: bool,
    pub swept: u64,
}

impl Out {
    pub fn new(dir: &str) -> Self {
        std::fs::create_dir_all(dir).unwrap();
        Out {
            ops: BufWriter::new(File::create(format!("{}/ops.txt", dir)).unwrap()),
            imp: BufWriter::new(File::create(format!("{}/impl.txt", dir)).unwrap()),
            dir: dir.to_string(),
            n_lines: 0,
            hist: BTreeMap::new(),
            samples: Vec::new(),
            notes: BTreeMap::new(),
            sweep: false,
            sweep_tokens: true,
            swept: 0,
        }
    }
    /// one request line and the implementation's answer
    pub fn line(&mut self, op: &str, ans: &str) {
        debug_assert!(!op.contains('\n') && !ans.contains('\n'));
        if self.sweep && !(op.starts_with("D ") || op.starts_with("J nopanic")) {
            // every swept line is one (or more) library call made under catch_unwind
            self.swept += 1;
            let key = format!("swept {}", op.split(' ').take(2).collect::<Vec<_>>().join(" "));
            *self.hist.entry(key).or_insert(0) += 1;
            // a module that reports a caught panic on one of its own lines (token PANIC / PANIC:…
            // in the request or in the library's answer) must not lose it in the sweep
            let has_panic = |t: &str| t.split(|c: char| c == ' ' || c == ';' || c == ',' || c == '|').any(|w| w == "PANIC" || w.starts_with("PANIC:") || w.starts_with("PANIC("));
            // (typed constructor arguments are not one of C11's input channels: C12's `keyonly` /
            // `keyok` lines, where Descriptor::new_pk(<x-only>) is a recorded observation, stay out)
            let constructor_line = op.starts_with("C keyonly") || op.starts_with("J keyok");
            if self.sweep_tokens && !constructor_line && (has_panic(op) || has_panic(ans)) {
                let tag: String = op.split(' ').filter(|w| *w != "PANIC").collect::<Vec<_>>().join("_");
                let short: String = tag.chars().take(400).collect();
                writeln!(self.ops, "J nopanic swept-line {} PANIC", short).unwrap();
                writeln!(self.imp, "ok").unwrap();
                self.n_lines += 1;
            }
            return;
        }
        writeln!(self.ops, "{}", op).unwrap();
        writeln!(self.imp, "{}", ans).unwrap();
        self.n_lines += 1;
        let key = op.split(' ').take(2).collect::<Vec<_>>().join(" ");
        let c = self.hist.entry(key).or_insert(0);
        *c += 1;
        if *c <= 2 && self.samples.len() < 40 {
            self.samples.push(format!("{} => {}", op, ans));
        }
    }
    pub fn count(&mut self, key: &str) { *self.hist.entry(key.to_string()).or_insert(0) += 1; }
    pub fn note(&mut self, k: &str, v: String) { self.notes.insert(k.to_string(), v); }
    pub fn finish(mut self) {
        self.ops.flush().unwrap();
        self.imp.flush().unwrap();
        let mut f = File::create(format!("{}/stats.json", self.dir)).unwrap();
        let esc = |s: &str| s.replace('\\', "\\\\").replace('"', "\\\"");
        write!(f, "{{\"lines\":{},\"hist\":{{", self.n_lines).unwrap();
        let mut first = true;
        for (k, v) in &self.hist {
            if !first { write!(f, ",").unwrap(); }
            first = false;
            write!(f, "\"{}\":{}", esc(k), v).unwrap();
        }
        write!(f, "}},\"notes\":{{").unwrap();
        first = true;
        for (k, v) in &self.notes {
            if !first { write!(f, ",").unwrap(); }
            first = false;
            write!(f, "\"{}\":\"{}\"", esc(k), esc(v)).unwrap();
        }
        write!(f, "}},\"samples\":[").unwrap();
        first = true;
        for s in &self.samples {
            if !first { write!(f, ",").unwrap(); }
            first = false;
            write!(f, "\"{}\"", esc(s)).unwrap();
        }
        writeln!(f, "]}}").unwrap();
    }
}

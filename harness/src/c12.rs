//! C12: accepted scripts obey their context; validation switches mean what they say.
//!
//! Finite part (exhaustive): `ValidationParams::{intersect, entails, eq}` on all 2^15 switch
//! vectors (one partner each, rotating), on all pairs of vectors that differ from
//! MAX/SANE/CONSENSUS in at most one (quick) / two (thorough) switches, on random pairs, with
//! limits drawn from {0, L-1, L, L+1, MAX}; the eleven named constants.
//! Scripts: the typed enumerator (all base types, all four contexts) plus a stress list
//! (non-B top levels, wrong key kinds, `multi` in tap / `multi_a` elsewhere, `d:`/`or_i` in
//! bare/legacy, k = 0, k > n, n = 21 / 1000, locks 0 / 2^31, duplicates, mixed time locks, raw
//! pkh, scripts around 520 / 3600 / 10000 bytes, depth 402 / 403, > 201 opcodes, multipath keys).
//! Every AST goes through `from_ast`, `validate` under single-switch flips of MAX / SANE /
//! CONSENSUS / Ctx::SANE / Ctx::CONSENSUS and under each limit at its own figure -1/0/+1, the
//! wrapper constructors, the string parsers and `decode*`.
//!   C lines: the Lean MODEL answers the same question;
//!   J lines: the Lean SPECIFICATION (`ctxOK`, `hasDefect_X`) judges what the library did.
//! Every library call runs under `catch_unwind`; a panic is the answer `PANIC`.
use std::collections::{BTreeMap, HashMap};
use std::panic::{catch_unwind, AssertUnwindSafe};
use std::str::FromStr;
use std::sync::Arc;

use miniscript::bitcoin::hashes::{hash160, ripemd160, sha256, Hash};
use miniscript::bitcoin::secp256k1::XOnlyPublicKey;
use miniscript::bitcoin::PublicKey;
use miniscript::descriptor::{Bare, Sh, TapTree, Tr, Wsh};
use miniscript::miniscript::types::Base;
use miniscript::{
    hash256, AbsLockTime, BareCtx, Descriptor, DescriptorPublicKey, Legacy, Miniscript,
    MiniscriptKey, RelLockTime, ScriptContext, Segwitv0, Tap, Terminal, Threshold, ValidationError,
    ValidationParams,
};

use crate::ast::{self, full_key, hash_value, hex, raw_pkh, xonly_key, CtxK, Node, HK};
use crate::common::{Out, Rng};

type Dpk = DescriptorPublicKey;

fn guard<T>(f: impl FnOnce() -> T) -> Option<T> { catch_unwind(AssertUnwindSafe(f)).ok() }

/// every line goes through here: a guarded library call that panicked shows up as the token
/// PANIC in the answer (C lines) or in the op (J lines carrying library verdicts); each such
/// event is ALSO emitted as `J nopanic <the line> PANIC` so that it is a judged failure of its
/// own - except `Descriptor::new_pk(<x-only>)`, which is the recorded observation.
fn ln(out: &mut Out, op: &str, ans: &str) {
    out.line(op, ans);
    let panicked = ans == "PANIC" || op.split(' ').any(|t| t == "PANIC");
    if panicked && !op.starts_with("J nopanic") && !op.contains("Descriptor::new_pk") {
        let what: String = op.split(' ').filter(|t| *t != "PANIC").collect::<Vec<_>>().join(" ");
        out.line(&format!("J nopanic {} PANIC", what), "ok");
    }
}

/* ------------------------------------------------------------------ parameters */

const N_SW: usize = 15;
const SW_NAMES: [&str; N_SW] = [
    "compressed_keys", "duplicate_keys", "dup_if", "malleability", "multi", "multi_a",
    "mixed_time_locks", "or_i", "raw_pkh", "sigless_branch", "non_b", "uncompressed_keys",
    "unsatisfiable", "x_only_keys", "inconsistent_multipath_keys",
];

fn get_sw(p: &ValidationParams, i: usize) -> bool {
    match i {
        0 => p.allow_compressed_keys, 1 => p.allow_duplicate_keys, 2 => p.allow_dup_if,
        3 => p.allow_malleability, 4 => p.allow_multi, 5 => p.allow_multi_a,
        6 => p.allow_mixed_time_locks, 7 => p.allow_or_i, 8 => p.allow_raw_pkh,
        9 => p.allow_sigless_branch, 10 => p.allow_non_b, 11 => p.allow_uncompressed_keys,
        12 => p.allow_unsatisfiable, 13 => p.allow_x_only_keys,
        _ => p.allow_inconsistent_multipath_keys,
    }
}
fn set_sw(p: &mut ValidationParams, i: usize, v: bool) {
    match i {
        0 => p.allow_compressed_keys = v, 1 => p.allow_duplicate_keys = v, 2 => p.allow_dup_if = v,
        3 => p.allow_malleability = v, 4 => p.allow_multi = v, 5 => p.allow_multi_a = v,
        6 => p.allow_mixed_time_locks = v, 7 => p.allow_or_i = v, 8 => p.allow_raw_pkh = v,
        9 => p.allow_sigless_branch = v, 10 => p.allow_non_b = v, 11 => p.allow_uncompressed_keys = v,
        12 => p.allow_unsatisfiable = v, 13 => p.allow_x_only_keys = v,
        _ => p.allow_inconsistent_multipath_keys = v,
    }
}
fn get_lim(p: &ValidationParams, i: usize) -> usize {
    match i { 0 => p.max_opcode_count, 1 => p.max_script_size, 2 => p.max_witness_items, 3 => p.max_exec_stack_size, _ => p.max_recursive_depth }
}
fn set_lim(p: &mut ValidationParams, i: usize, v: usize) {
    match i { 0 => p.max_opcode_count = v, 1 => p.max_script_size = v, 2 => p.max_witness_items = v, 3 => p.max_exec_stack_size = v, _ => p.max_recursive_depth = v }
}
const LIM_NAMES: [&str; 5] = ["opcode_count", "script_size", "witness_items", "exec_stack_size", "recursive_depth"];

fn show_lim(n: usize) -> String { if n == usize::MAX { "M".into() } else { n.to_string() } }
fn show_params(p: &ValidationParams) -> String {
    let mut s = String::new();
    for i in 0..N_SW { s.push(if get_sw(p, i) { '1' } else { '0' }); }
    for i in 0..5 { s.push(':'); s.push_str(&show_lim(get_lim(p, i))); }
    s
}
fn from_bits(bits: u32, lims: [usize; 5]) -> ValidationParams {
    let mut p = ValidationParams::MAX;
    for i in 0..N_SW { set_sw(&mut p, i, bits >> i & 1 == 1); }
    for i in 0..5 { set_lim(&mut p, i, lims[i]); }
    p
}

fn ctx_const(ctx: CtxK, sane: bool) -> ValidationParams {
    match (ctx, sane) {
        (CtxK::Bare, false) => BareCtx::CONSENSUS, (CtxK::Bare, true) => BareCtx::SANE,
        (CtxK::Legacy, false) => Legacy::CONSENSUS, (CtxK::Legacy, true) => Legacy::SANE,
        (CtxK::Segwitv0, false) => Segwitv0::CONSENSUS, (CtxK::Segwitv0, true) => Segwitv0::SANE,
        (CtxK::Tap, false) => Tap::CONSENSUS, (CtxK::Tap, true) => Tap::SANE,
    }
}

fn named_consts() -> Vec<(String, ValidationParams)> {
    let mut v = vec![
        ("MAX".to_string(), ValidationParams::MAX),
        ("SANE".to_string(), ValidationParams::SANE),
        ("CONSENSUS".to_string(), ValidationParams::CONSENSUS),
    ];
    for c in CtxK::ALL {
        v.push((format!("{}.CONSENSUS", c.name()), ctx_const(c, false)));
        v.push((format!("{}.SANE", c.name()), ctx_const(c, true)));
    }
    v
}

fn lattice_line(out: &mut Out, p: &ValidationParams, q: &ValidationParams) {
    let (sp, sq) = (show_params(p), show_params(q));
    let i = guard(|| show_params(&p.intersect(q))).unwrap_or("PANIC".into());
    ln(out, &format!("C vp-intersect {} {}", sp, sq), &i);
    let e = guard(|| if p.entails(q) { "1" } else { "0" }).unwrap_or("PANIC");
    ln(out, &format!("C vp-entails {} {}", sp, sq), e);
    let e = guard(|| if p.eq(q) { "1" } else { "0" }).unwrap_or("PANIC");
    ln(out, &format!("C vp-eq {} {}", sp, sq), e);
    // judged against the component-wise order: intersect is the meet, entails is <=
    let ent = guard(|| if p.entails(q) { "1" } else { "0" }).unwrap_or("PANIC");
    ln(out, &format!("J vp-order {} {} {} {}", sp, sq, i, ent), "ok");
}

fn lim_choices(rng: &mut Rng, i: usize) -> usize {
    // limits around the constants that occur in the library's tables
    let base = [201usize, 3600, 100, 1000, 402][i];
    let alt = [201usize, 520, 100, 1000, 402][i];
    match rng.below(7) {
        0 => 0, 1 => base - 1, 2 => base, 3 => base + 1, 4 => usize::MAX,
        5 => alt, _ => if i == 1 { 10000 } else { usize::MAX },
    }
}

fn lattice(out: &mut Out, thorough: bool, rng: &mut Rng) {
    for (name, p) in named_consts() {
        ln(out, &format!("C vp-const {}", name), &show_params(&p));
    }
    // vectors near the constants
    let bases = [ValidationParams::MAX, ValidationParams::SANE, ValidationParams::CONSENSUS];
    let mut near: Vec<ValidationParams> = named_consts().into_iter().map(|x| x.1).collect();
    for b in bases {
        for i in 0..N_SW {
            let mut p = b; set_sw(&mut p, i, !get_sw(&b, i)); near.push(p);
            if thorough {
                for j in (i + 1)..N_SW {
                    let mut q = p; set_sw(&mut q, j, !get_sw(&b, j)); near.push(q);
                }
            }
        }
        for i in 0..5 {
            for v in [0usize, 1, 200, 201, 202, 519, 520, 521, 3599, 3600, 3601, 402, 403, usize::MAX - 1] {
                let mut p = b; set_lim(&mut p, i, v); near.push(p);
            }
        }
    }
    out.note("lattice_near_vectors", near.len().to_string());
    if thorough {
        // all pairs of the <=1-flip vectors, sampled pairs of the rest
        for p in near.iter() { for q in near.iter() { if rng.below(6) == 0 { lattice_line(out, p, q); } } }
    } else {
        for p in near.iter() { for q in near.iter() { if rng.below(12) == 0 { lattice_line(out, p, q); } } }
    }
    // every one of the 2^15 switch vectors, with a rotating partner
    let partners: Vec<ValidationParams> = named_consts().into_iter().map(|x| x.1).collect();
    for bits in 0u32..(1 << N_SW) {
        let lims = [lim_choices(rng, 0), lim_choices(rng, 1), lim_choices(rng, 2), lim_choices(rng, 3), lim_choices(rng, 4)];
        let p = from_bits(bits, lims);
        let q = if bits % 3 == 0 {
            let l2 = [lim_choices(rng, 0), lim_choices(rng, 1), lim_choices(rng, 2), lim_choices(rng, 3), lim_choices(rng, 4)];
            from_bits(rng.next() as u32 & 0x7fff, l2)
        } else { partners[bits as usize % partners.len()] };
        let (sp, sq) = (show_params(&p), show_params(&q));
        if bits % 2 == 0 {
            ln(out, &format!("C vp-intersect {} {}", sp, sq), &show_params(&p.intersect(&q)));
            ln(out, &format!("C vp-entails {} {}", sp, sq), if p.entails(&q) { "1" } else { "0" });
        } else {
            ln(out, &format!("C vp-intersect {} {}", sq, sp), &show_params(&q.intersect(&p)));
            ln(out, &format!("C vp-entails {} {}", sq, sp), if q.entails(&p) { "1" } else { "0" });
        }
        if bits % 64 == 0 { ln(out, &format!("C vp-eq {} {}", sp, sp), if p.eq(&p) { "1" } else { "0" }); }
    }
    let n_rand = if thorough { 100_000 } else { 6_000 };
    for _ in 0..n_rand {
        let l1 = [lim_choices(rng, 0), lim_choices(rng, 1), lim_choices(rng, 2), lim_choices(rng, 3), lim_choices(rng, 4)];
        let p = from_bits(rng.next() as u32 & 0x7fff, l1);
        // partner: often a tightening / loosening of p so that `entails` is true reasonably often
        let mut q = p;
        match rng.below(4) {
            0 => { for _ in 0..3 { let i = rng.below(N_SW); set_sw(&mut q, i, false); } let i = rng.below(5); set_lim(&mut q, i, get_lim(&p, i) / 2); }
            1 => { for _ in 0..3 { let i = rng.below(N_SW); set_sw(&mut q, i, true); } let i = rng.below(5); set_lim(&mut q, i, usize::MAX); }
            2 => {}
            _ => { let l2 = [lim_choices(rng, 0), lim_choices(rng, 1), lim_choices(rng, 2), lim_choices(rng, 3), lim_choices(rng, 4)]; q = from_bits(rng.next() as u32 & 0x7fff, l2); }
        }
        lattice_line(out, &p, &q);
    }
}

/* ------------------------------------------------------------------ keys */

const XPUB: &str = "xpub661MyMwAqRbcFtXgS5sYJABqqG9YLmC4Q1Rdap9gSE8NqtwybGhePY2gZ29ESFjqJoCu1Rupje8YtGqsefD265TMg7usUDFdp6W1EGMcet8";

fn key_string(id: u32) -> String {
    match id {
        0..=99 => hex(&full_key(id).to_bytes()),
        100..=199 => hex(&full_key(id).to_bytes()),
        200..=299 => hex(&xonly_key(id).serialize()),
        300..=309 => format!("{}/{}/<0;1>/*", XPUB, id),
        310..=319 => format!("{}/{}/<0;1;2>/*", XPUB, id),
        320..=329 => format!("{}/{}/*", XPUB, id),
        _ => hex(&full_key(id % 100).to_bytes()),
    }
}

pub trait PkOf: MiniscriptKey<Sha256 = sha256::Hash, Hash256 = hash256::Hash, Ripemd160 = ripemd160::Hash, Hash160 = hash160::Hash> + Sized {
    fn of(id: u32) -> Option<Self>;
    fn id_of(&self) -> Option<u32>;
}
fn dpk_table() -> &'static (HashMap<u32, Dpk>, HashMap<String, u32>) {
    static T: std::sync::OnceLock<(HashMap<u32, Dpk>, HashMap<String, u32>)> = std::sync::OnceLock::new();
    T.get_or_init(|| {
        let mut a = HashMap::new();
        let mut b = HashMap::new();
        for id in (0..100).chain(100..200).chain(200..300).chain(300..304).chain(310..314).chain(320..323) {
            let s = key_string(id);
            let k = Dpk::from_str(&s).unwrap();
            b.insert(k.to_string(), id);
            a.insert(id, k);
        }
        (a, b)
    })
}
impl PkOf for Dpk {
    fn of(id: u32) -> Option<Self> { dpk_table().0.get(&id).cloned() }
    fn id_of(&self) -> Option<u32> { dpk_table().1.get(&self.to_string()).cloned() }
}
impl PkOf for PublicKey {
    fn of(id: u32) -> Option<Self> { if id < 200 { Some(full_key(id)) } else { None } }
    fn id_of(&self) -> Option<u32> { (0..200).find(|i| full_key(*i) == *self) }
}
impl PkOf for XOnlyPublicKey {
    fn of(id: u32) -> Option<Self> { if (200..300).contains(&id) { Some(xonly_key(id)) } else { None } }
    fn id_of(&self) -> Option<u32> { (200..300).find(|i| xonly_key(*i) == *self) }
}

fn emit_defs(out: &mut Out) {
    let dummy33 = full_key(0).to_bytes();
    for id in (0..100).chain(100..110).chain(200..300).chain(300..304).chain(310..314).chain(320..323) {
        let ser: Vec<u8> = match id {
            0..=199 => full_key(id).to_bytes(),
            200..=299 => xonly_key(id).serialize().to_vec(),
            _ => dummy33.clone(),
        };
        let sort: Vec<u8> = match id { 0..=199 => crate::ast::bip67_sort(&full_key(id)), _ => ser.clone() };
        let pkh = hash160::Hash::hash(&ser);
        ln(out, &format!("D key {} {} {} {}", id, hex(&ser), hex(&sort), hex(pkh.as_byte_array())), "ok");
    }
    for kind in HK::ALL {
        for h in 0..4 {
            ln(out, &format!("D hash {} {} {} {}", kind.name(), h, hex(&hash_value(kind, h)), hex(&ast::preimage(h))), "ok");
        }
    }
    for h in (0..4).chain(100..104).chain(200..204) {
        ln(out, &format!("D rawpkh {} {}", h, hex(raw_pkh(h).as_byte_array())), "ok");
    }
}

/* ------------------------------------------------------------------ AST <-> library */

fn to_ms<Pk: PkOf, Ctx: ScriptContext>(n: &Node) -> Result<Miniscript<Pk, Ctx>, String> {
    use Node::*;
    let sub = |x: &Node| -> Result<Arc<Miniscript<Pk, Ctx>>, String> { Ok(Arc::new(to_ms::<Pk, Ctx>(x)?)) };
    let keys = |v: &Vec<u32>| -> Result<Vec<Pk>, String> { v.iter().map(|i| Pk::of(*i).ok_or("nokey".to_string())).collect() };
    let key = |k: &u32| Pk::of(*k).ok_or("nokey".to_string());
    let t: Terminal<Pk, Ctx> = match n {
        True => Terminal::True,
        False => Terminal::False,
        PkK(k) => Terminal::PkK(key(k)?),
        PkH(k) => Terminal::PkH(key(k)?),
        RawPkH(h) => Terminal::RawPkH(raw_pkh(*h)),
        After(n) => Terminal::After(AbsLockTime::from_consensus(*n).map_err(|e| e.to_string())?),
        Older(n) => Terminal::Older(RelLockTime::from_consensus(*n).map_err(|e| e.to_string())?),
        Hash(HK::Sha256, h) => Terminal::Sha256(sha256::Hash::from_slice(&hash_value(HK::Sha256, *h)).unwrap()),
        Hash(HK::Hash256, h) => Terminal::Hash256(hash256::Hash::from_slice(&hash_value(HK::Hash256, *h)).unwrap()),
        Hash(HK::Ripemd160, h) => Terminal::Ripemd160(ripemd160::Hash::from_slice(&hash_value(HK::Ripemd160, *h)).unwrap()),
        Hash(HK::Hash160, h) => Terminal::Hash160(hash160::Hash::from_slice(&hash_value(HK::Hash160, *h)).unwrap()),
        Alt(x) => Terminal::Alt(sub(x)?),
        Swap(x) => Terminal::Swap(sub(x)?),
        Check(x) => Terminal::Check(sub(x)?),
        DupIf(x) => Terminal::DupIf(sub(x)?),
        Verify(x) => Terminal::Verify(sub(x)?),
        NonZero(x) => Terminal::NonZero(sub(x)?),
        ZeroNotEqual(x) => Terminal::ZeroNotEqual(sub(x)?),
        AndV(a, b) => Terminal::AndV(sub(a)?, sub(b)?),
        AndB(a, b) => Terminal::AndB(sub(a)?, sub(b)?),
        AndOr(a, b, c) => Terminal::AndOr(sub(a)?, sub(b)?, sub(c)?),
        OrB(a, b) => Terminal::OrB(sub(a)?, sub(b)?),
        OrD(a, b) => Terminal::OrD(sub(a)?, sub(b)?),
        OrC(a, b) => Terminal::OrC(sub(a)?, sub(b)?),
        OrI(a, b) => Terminal::OrI(sub(a)?, sub(b)?),
        Thresh(k, xs) => {
            let mut v = Vec::with_capacity(xs.len());
            for x in xs { v.push(sub(x)?); }
            Terminal::Thresh(Threshold::new(*k, v).map_err(|e| e.to_string())?)
        }
        Multi(k, v) => Terminal::Multi(Threshold::new(*k, keys(v)?).map_err(|e| e.to_string())?),
        SortedMulti(k, v) => Terminal::SortedMulti(Threshold::new(*k, keys(v)?).map_err(|e| e.to_string())?),
        MultiA(k, v) => Terminal::MultiA(Threshold::new(*k, keys(v)?).map_err(|e| e.to_string())?),
        SortedMultiA(k, v) => Terminal::SortedMultiA(Threshold::new(*k, keys(v)?).map_err(|e| e.to_string())?),
    };
    Miniscript::from_ast(t).map_err(|e| e.to_string())
}

/// the public-API routes that bypass `from_consensus` / `from_ast`: `older(0)` through
/// `RelLockTime::ZERO`; with `ctor`, every node that has an unchecked public constructor
/// (`Miniscript::pk`, `pkh`, `pk_k`, `pk_h`, `expr_raw_pkh`, `after`, `older`, hashes, `TRUE`,
/// `FALSE`, `multi`, `sortedmulti`, `multi_a`, `sortedmulti_a`) is built with it
fn to_ms_api<Pk: PkOf, Ctx: ScriptContext>(n: &Node, ctor: bool) -> Result<Miniscript<Pk, Ctx>, String> {
    use Node::*;
    let sub = |x: &Node| -> Result<Arc<Miniscript<Pk, Ctx>>, String> { Ok(Arc::new(to_ms_api::<Pk, Ctx>(x, ctor)?)) };
    let keys = |v: &Vec<u32>| -> Result<Vec<Pk>, String> { v.iter().map(|i| Pk::of(*i).ok_or("nokey".to_string())).collect() };
    let key = |k: &u32| Pk::of(*k).ok_or("nokey".to_string());
    let rel = |n: u32| -> Result<RelLockTime, String> { if n == 0 { Ok(RelLockTime::ZERO) } else { RelLockTime::from_consensus(n).map_err(|e| e.to_string()) } };
    if ctor {
        match n {
            True => return Ok(Miniscript::TRUE),
            False => return Ok(Miniscript::FALSE),
            PkK(k) => return Ok(Miniscript::pk_k(key(k)?)),
            PkH(k) => return Ok(Miniscript::pk_h(key(k)?)),
            RawPkH(h) => return Ok(Miniscript::expr_raw_pkh(raw_pkh(*h))),
            After(n) => return Ok(Miniscript::after(AbsLockTime::from_consensus(*n).map_err(|e| e.to_string())?)),
            Older(n) => return Ok(Miniscript::older(rel(*n)?)),
            Hash(HK::Sha256, h) => return Ok(Miniscript::sha256(sha256::Hash::from_slice(&hash_value(HK::Sha256, *h)).unwrap())),
            Hash(HK::Hash256, h) => return Ok(Miniscript::hash256(hash256::Hash::from_slice(&hash_value(HK::Hash256, *h)).unwrap())),
            Hash(HK::Ripemd160, h) => return Ok(Miniscript::ripemd160(ripemd160::Hash::from_slice(&hash_value(HK::Ripemd160, *h)).unwrap())),
            Hash(HK::Hash160, h) => return Ok(Miniscript::hash160(hash160::Hash::from_slice(&hash_value(HK::Hash160, *h)).unwrap())),
            Multi(k, v) => return Ok(Miniscript::multi(Threshold::new(*k, keys(v)?).map_err(|e| e.to_string())?)),
            SortedMulti(k, v) => return Ok(Miniscript::sortedmulti(Threshold::new(*k, keys(v)?).map_err(|e| e.to_string())?)),
            MultiA(k, v) => return Ok(Miniscript::multi_a(Threshold::new(*k, keys(v)?).map_err(|e| e.to_string())?)),
            SortedMultiA(k, v) => return Ok(Miniscript::sortedmulti_a(Threshold::new(*k, keys(v)?).map_err(|e| e.to_string())?)),
            Check(x) => match &**x {
                PkK(k) => return Ok(Miniscript::pk(key(k)?)),
                PkH(k) => return Ok(Miniscript::pkh(key(k)?)),
                _ => {}
            },
            _ => {}
        }
    }
    let t: Terminal<Pk, Ctx> = match n {
        True => Terminal::True,
        False => Terminal::False,
        PkK(k) => Terminal::PkK(key(k)?),
        PkH(k) => Terminal::PkH(key(k)?),
        RawPkH(h) => Terminal::RawPkH(raw_pkh(*h)),
        After(n) => Terminal::After(AbsLockTime::from_consensus(*n).map_err(|e| e.to_string())?),
        Older(n) => Terminal::Older(rel(*n)?),
        Hash(HK::Sha256, h) => Terminal::Sha256(sha256::Hash::from_slice(&hash_value(HK::Sha256, *h)).unwrap()),
        Hash(HK::Hash256, h) => Terminal::Hash256(hash256::Hash::from_slice(&hash_value(HK::Hash256, *h)).unwrap()),
        Hash(HK::Ripemd160, h) => Terminal::Ripemd160(ripemd160::Hash::from_slice(&hash_value(HK::Ripemd160, *h)).unwrap()),
        Hash(HK::Hash160, h) => Terminal::Hash160(hash160::Hash::from_slice(&hash_value(HK::Hash160, *h)).unwrap()),
        Alt(x) => Terminal::Alt(sub(x)?),
        Swap(x) => Terminal::Swap(sub(x)?),
        Check(x) => Terminal::Check(sub(x)?),
        DupIf(x) => Terminal::DupIf(sub(x)?),
        Verify(x) => Terminal::Verify(sub(x)?),
        NonZero(x) => Terminal::NonZero(sub(x)?),
        ZeroNotEqual(x) => Terminal::ZeroNotEqual(sub(x)?),
        AndV(a, b) => Terminal::AndV(sub(a)?, sub(b)?),
        AndB(a, b) => Terminal::AndB(sub(a)?, sub(b)?),
        AndOr(a, b, c) => Terminal::AndOr(sub(a)?, sub(b)?, sub(c)?),
        OrB(a, b) => Terminal::OrB(sub(a)?, sub(b)?),
        OrD(a, b) => Terminal::OrD(sub(a)?, sub(b)?),
        OrC(a, b) => Terminal::OrC(sub(a)?, sub(b)?),
        OrI(a, b) => Terminal::OrI(sub(a)?, sub(b)?),
        Thresh(k, xs) => {
            let mut v = Vec::with_capacity(xs.len());
            for x in xs { v.push(sub(x)?); }
            Terminal::Thresh(Threshold::new(*k, v).map_err(|e| e.to_string())?)
        }
        Multi(k, v) => Terminal::Multi(Threshold::new(*k, keys(v)?).map_err(|e| e.to_string())?),
        SortedMulti(k, v) => Terminal::SortedMulti(Threshold::new(*k, keys(v)?).map_err(|e| e.to_string())?),
        MultiA(k, v) => Terminal::MultiA(Threshold::new(*k, keys(v)?).map_err(|e| e.to_string())?),
        SortedMultiA(k, v) => Terminal::SortedMultiA(Threshold::new(*k, keys(v)?).map_err(|e| e.to_string())?),
    };
    Miniscript::from_ast(t).map_err(|e| e.to_string())
}

fn from_ms<Pk: PkOf, Ctx: ScriptContext>(ms: &Miniscript<Pk, Ctx>) -> Option<Node> {
    let b = |x: &Arc<Miniscript<Pk, Ctx>>| -> Option<Box<Node>> { Some(Box::new(from_ms(x)?)) };
    let ks = |t: &[Pk]| -> Option<Vec<u32>> { t.iter().map(|k| k.id_of()).collect() };
    let hid = |kind: HK, bytes: &[u8]| -> Option<u32> { (0..4).find(|h| hash_value(kind, *h) == bytes) };
    Some(match &ms.node {
        Terminal::True => Node::True,
        Terminal::False => Node::False,
        Terminal::PkK(k) => Node::PkK(k.id_of()?),
        Terminal::PkH(k) => Node::PkH(k.id_of()?),
        Terminal::RawPkH(h) => Node::RawPkH((0..300).find(|i| raw_pkh(*i) == *h)?),
        Terminal::After(n) => Node::After(n.to_consensus_u32()),
        Terminal::Older(n) => Node::Older(n.to_consensus_u32()),
        Terminal::Sha256(h) => Node::Hash(HK::Sha256, hid(HK::Sha256, h.as_byte_array())?),
        Terminal::Hash256(h) => Node::Hash(HK::Hash256, hid(HK::Hash256, h.as_byte_array())?),
        Terminal::Ripemd160(h) => Node::Hash(HK::Ripemd160, hid(HK::Ripemd160, h.as_byte_array())?),
        Terminal::Hash160(h) => Node::Hash(HK::Hash160, hid(HK::Hash160, h.as_byte_array())?),
        Terminal::Alt(x) => Node::Alt(b(x)?),
        Terminal::Swap(x) => Node::Swap(b(x)?),
        Terminal::Check(x) => Node::Check(b(x)?),
        Terminal::DupIf(x) => Node::DupIf(b(x)?),
        Terminal::Verify(x) => Node::Verify(b(x)?),
        Terminal::NonZero(x) => Node::NonZero(b(x)?),
        Terminal::ZeroNotEqual(x) => Node::ZeroNotEqual(b(x)?),
        Terminal::AndV(x, y) => Node::AndV(b(x)?, b(y)?),
        Terminal::AndB(x, y) => Node::AndB(b(x)?, b(y)?),
        Terminal::AndOr(x, y, z) => Node::AndOr(b(x)?, b(y)?, b(z)?),
        Terminal::OrB(x, y) => Node::OrB(b(x)?, b(y)?),
        Terminal::OrD(x, y) => Node::OrD(b(x)?, b(y)?),
        Terminal::OrC(x, y) => Node::OrC(b(x)?, b(y)?),
        Terminal::OrI(x, y) => Node::OrI(b(x)?, b(y)?),
        Terminal::Thresh(t) => {
            let mut v = vec![];
            for x in t.iter() { v.push(from_ms(x)?); }
            Node::Thresh(t.k(), v)
        }
        Terminal::Multi(t) => Node::Multi(t.k(), ks(t.data())?),
        Terminal::SortedMulti(t) => Node::SortedMulti(t.k(), ks(t.data())?),
        Terminal::MultiA(t) => Node::MultiA(t.k(), ks(t.data())?),
        Terminal::SortedMultiA(t) => Node::SortedMultiA(t.k(), ks(t.data())?),
    })
}

/// the miniscript text of an AST (wrappers merged: `vc:pk_k(K)`); also defined for ASTs no
/// `Terminal` can be built for (k = 0, lock 0, ...)
fn ms_text(n: &Node) -> String {
    use Node::*;
    let ks = |v: &Vec<u32>| v.iter().map(|k| key_string(*k)).collect::<Vec<_>>().join(",");
    let mut wraps = String::new();
    let mut cur = n;
    loop {
        match cur {
            Alt(x) => { wraps.push('a'); cur = x; }
            Swap(x) => { wraps.push('s'); cur = x; }
            Check(x) => { wraps.push('c'); cur = x; }
            DupIf(x) => { wraps.push('d'); cur = x; }
            Verify(x) => { wraps.push('v'); cur = x; }
            NonZero(x) => { wraps.push('j'); cur = x; }
            ZeroNotEqual(x) => { wraps.push('n'); cur = x; }
            _ => break,
        }
    }
    let inner = match cur {
        True => "1".to_string(), False => "0".to_string(),
        PkK(k) => format!("pk_k({})", key_string(*k)),
        PkH(k) => format!("pk_h({})", key_string(*k)),
        RawPkH(h) => format!("expr_raw_pkh({})", hex(raw_pkh(*h).as_byte_array())),
        After(n) => format!("after({})", n), Older(n) => format!("older({})", n),
        Hash(kind, h) => format!("{}({})", kind.name(), hex(&hash_value(*kind, *h))),
        AndV(a, b) => format!("and_v({},{})", ms_text(a), ms_text(b)),
        AndB(a, b) => format!("and_b({},{})", ms_text(a), ms_text(b)),
        AndOr(a, b, c) => format!("andor({},{},{})", ms_text(a), ms_text(b), ms_text(c)),
        OrB(a, b) => format!("or_b({},{})", ms_text(a), ms_text(b)),
        OrD(a, b) => format!("or_d({},{})", ms_text(a), ms_text(b)),
        OrC(a, b) => format!("or_c({},{})", ms_text(a), ms_text(b)),
        OrI(a, b) => format!("or_i({},{})", ms_text(a), ms_text(b)),
        Thresh(k, xs) => format!("thresh({},{})", k, xs.iter().map(ms_text).collect::<Vec<_>>().join(",")),
        Multi(k, v) => format!("multi({},{})", k, ks(v)),
        SortedMulti(k, v) => format!("sortedmulti({},{})", k, ks(v)),
        MultiA(k, v) => format!("multi_a({},{})", k, ks(v)),
        SortedMultiA(k, v) => format!("sortedmulti_a({},{})", k, ks(v)),
        _ => unreachable!(),
    };
    if wraps.is_empty() { inner } else { format!("{}:{}", wraps, inner) }
}

fn verr_name(e: &ValidationError) -> String {
    use ValidationError::*;
    match e {
        DuplicateKeys => "DuplicateKeys".into(), IllegalDupIf => "IllegalDupIf".into(),
        IllegalMulti => "IllegalMulti".into(), IllegalMultiA => "IllegalMultiA".into(),
        IllegalOrI => "IllegalOrI".into(), IllegalRawPkh => "IllegalRawPkh".into(),
        Malleable => "Malleable".into(), MaxOpCountExceeded { .. } => "MaxOpCountExceeded".into(),
        MaxScriptSizeExceeded { .. } => "MaxScriptSizeExceeded".into(),
        MaxWitnessItemsExceeded { .. } => "MaxWitnessItemsExceeded".into(),
        MaxExecStackSizeExceeded { .. } => "MaxExecStackSizeExceeded".into(),
        MaxRecursiveDepthExceeded { .. } => "MaxRecursiveDepthExceeded".into(),
        MixedTimeLocks => "MixedTimeLocks".into(),
        MultipathKeyLenMismatch { .. } => "MultipathKeyLenMismatch".into(),
        NonBase(_) => "NonBase".into(), SiglessBranch => "SiglessBranch".into(),
        Key(k) => { let d = format!("{:?}", k); d.split('(').next().unwrap_or("Key").to_string() }
        Unsatisfiable => "Unsatisfiable".into(),
    }
}
fn verdict(r: Option<Result<(), ValidationError>>) -> String {
    match r { None => "PANIC".into(), Some(Ok(())) => "ok".into(), Some(Err(e)) => format!("ERR:{}", verr_name(&e)) }
}
fn okerr<T, E>(r: Option<Result<T, E>>) -> &'static str {
    match r { None => "PANIC", Some(Ok(_)) => "ok", Some(Err(_)) => "ERR" }
}
fn okerr_ref<T, E>(r: &Option<Result<T, E>>) -> &'static str {
    match r { None => "PANIC", Some(Ok(_)) => "ok", Some(Err(_)) => "ERR" }
}

/* ------------------------------------------------------------------ suspects / budgets */

fn contains(n: &Node, f: &dyn Fn(&Node) -> bool) -> bool {
    use Node::*;
    if f(n) { return true; }
    match n {
        Alt(x) | Swap(x) | Check(x) | DupIf(x) | Verify(x) | NonZero(x) | ZeroNotEqual(x) => contains(x, f),
        AndV(a, b) | AndB(a, b) | OrB(a, b) | OrD(a, b) | OrC(a, b) | OrI(a, b) => contains(a, f) || contains(b, f),
        AndOr(a, b, c) => contains(a, f) || contains(b, f) || contains(c, f),
        Thresh(_, xs) => xs.iter().any(|x| contains(x, f)),
        _ => false,
    }
}
fn wrong_kind(ctx: CtxK, id: u32) -> bool {
    match ctx {
        CtxK::Bare | CtxK::Legacy => (200..300).contains(&id),
        CtxK::Segwitv0 => (100..300).contains(&id),
        CtxK::Tap => (100..200).contains(&id),
    }
}
/// rules the harness EXPECTS may fail for this input (only used to keep the number of known
/// failing judge lines bounded; the judge still evaluates every other rule on every input).
/// After the fixes 8a19a019 / 4cd8ebfa / a3413640 / 2d0df974 / f6816493 the only class left is
/// "cond": `Sh::new` / `sh(..)` deliberately accept `d:` / `or_i` (F13).  Non-B tops, wrong key
/// kinds, wrong multisig flavour are judged on EVERY accepted input again.
fn suspects(ctx: CtxK, n: &Node, _base_b: bool) -> Vec<&'static str> {
    let mut v = vec![];
    if matches!(ctx, CtxK::Bare | CtxK::Legacy) && contains(n, &|x| matches!(x, Node::DupIf(_) | Node::OrI(..))) { v.push("cond"); }
    // the classes below are only ever ACCEPTED through the public-API routes (unchecked leaf
    // constructors, RelLockTime::ZERO); every parser / checked constructor refuses them
    let mut ks = vec![]; n.keys(&mut ks);
    if ks.iter().any(|k| wrong_kind(ctx, *k)) { v.push("keys"); }
    let multi = contains(n, &|x| matches!(x, Node::Multi(..) | Node::SortedMulti(..)));
    let multi_a = contains(n, &|x| matches!(x, Node::MultiA(..) | Node::SortedMultiA(..)));
    if (ctx == CtxK::Tap && multi) || (ctx != CtxK::Tap && multi_a) { v.push("multi"); }
    if contains(n, &|x| matches!(x, Node::Older(0))) { v.push("range"); }
    v
}

struct Budget { left: BTreeMap<String, usize>, per: usize }
impl Budget {
    fn take(&mut self, key: String) -> bool {
        let per = self.per;
        let e = self.left.entry(key).or_insert(per);
        if *e == 0 { false } else { *e -= 1; true }
    }
}

/// judge lines for an input the library accepted through `entry`
fn judge_accept(out: &mut Out, bud: &mut Budget, entry: &str, ctx: CtxK, n: &Node, wire: &str, base_b: bool) {
    let mut sus = suspects(ctx, n, base_b);
    if entry.starts_with("fromast") { sus.retain(|r| *r != "top" && *r != "cond"); }
    // older(0) is only known to get through on the unchecked-constructor route; everywhere else
    // the range rule stays inside the ctxok line (a decoder or parser letting it in is NEW)
    if !(entry.contains(":api-ctor") || entry.starts_with("fromast/ctor")) { sus.retain(|r| *r != "range"); }
    // the unchecked leaf constructors also skip the size comparison of from_ast (F20): a bare
    // Miniscript::multi over 15+ keys is larger than a P2SH redeem script may be
    if entry.starts_with("fromast/ctor") {
        if let Node::Multi(_, v) | Node::SortedMulti(_, v) | Node::MultiA(_, v) | Node::SortedMultiA(_, v) = n { if v.len() >= 15 { sus.push("size"); } }
    }
    let skip = if sus.is_empty() { "-".to_string() } else { sus.join(",") };
    ln(out, &format!("J ctxok {} {} {} {}", entry, ctx.name(), skip, wire), "ok");
    for r in sus {
        // a translated descriptor inherits F13 from its source (`Sh` re-wraps without `Sh::new`);
        // the rule stays skipped in the ctxok line, no separate line per translator
        if r == "cond" && entry.starts_with("translate/") { continue; }
        if bud.take(format!("{} {} {}", r, entry, ctx.name())) {
            // `range` can only be suspect because of older(0): its own rule name, so that the
            // finding line names exactly that class
            let rule = if r == "range" { "lock0" } else { r };
            // F13 (sh accepts d:/or_i) is listed per entry point: keep the route out of that line
            let e = if r == "cond" { entry.split(":api-").next().unwrap_or(entry) } else { entry };
            ln(out, &format!("J ctxrule {} {} {} {}", rule, e, ctx.name(), wire), "ok");
        } else { out.count("ctxrule-suspect-over-budget"); }
    }
}

/* ------------------------------------------------------------------ one AST through everything */

struct Opts { full_params: bool, strings: bool, switches: bool, routes: bool }

fn param_variants(ctx: CtxK) -> Vec<ValidationParams> {
    let mut v = vec![];
    for b in [ValidationParams::MAX, ValidationParams::SANE, ValidationParams::CONSENSUS, ctx_const(ctx, true), ctx_const(ctx, false)] {
        v.push(b);
        for i in 0..N_SW { let mut p = b; set_sw(&mut p, i, !get_sw(&b, i)); v.push(p); }
    }
    v
}

fn figures<Pk: MiniscriptKey, Ctx: ScriptContext>(ms: &Miniscript<Pk, Ctx>) -> [Option<usize>; 5] {
    let sat = ms.ext.sat_data;
    [
        sat.map(|d| ms.ext.static_ops + d.max_exec_op_count),
        Some(ms.script_size()),
        sat.map(|d| d.max_witness_stack_count + 1),
        sat.map(|d| d.max_witness_stack_count + d.max_exec_stack_count),
        Some(ms.ext.tree_height),
    ]
}

fn run_ast_ctx<Ctx: ScriptContext>(out: &mut Out, bud: &mut Budget, ctx: CtxK, n: &Node, o: &Opts, rng: &mut Rng)
where Ctx::Key: PkOf + miniscript::ToPublicKey {
    let wire = n.wire();
    let cn = ctx.name();
    // 1. from_ast, bottom-up
    let built = guard(|| to_ms::<Dpk, Ctx>(n));
    ln(out, &format!("C accept fromast {} {}", cn, wire), okerr_ref(&built));
    let ms = match built { Some(Ok(ms)) => Some(ms), _ => None };
    let base_b = ms.as_ref().map(|m| m.ty.corr.base == Base::B).unwrap_or(false);
    if let Some(ms) = &ms {
        out.count(&format!("constructed {} base={:?}", cn, ms.ty.corr.base));
        judge_accept(out, bud, "fromast", ctx, n, &wire, base_b);
        // observation (outside the statement: the switch compares `Pk` values): the same public
        // key in two encodings (compressed / uncompressed / x-only of one point) is no duplicate
        {
            let mut ks = vec![]; n.keys(&mut ks);
            let same_point = ks.iter().enumerate().any(|(i, a)| *a < 300 && ks[..i].iter().any(|b| *b < 300 && b != a && b % 100 == a % 100));
            if same_point && !guard(|| ms.has_repeated_keys()).unwrap_or(true) {
                out.count("observation: one public key in two encodings is not reported as a duplicate key");
                out.note(&format!("observation dup-encodings {}", cn), format!("{} in {}: has_repeated_keys() = false although two of its keys are the same point", wire.chars().take(120).collect::<String>(), cn));
            }
        }
        // 2. validate under parameter variants
        let variants = param_variants(ctx);
        for (i, p) in variants.iter().enumerate() {
            if !o.full_params && i % 16 != 0 && rng.below(8) != 0 { continue; }
            let r = verdict(guard(|| ms.validate(p)));
            ln(out, &format!("C validate {} {} {}", cn, show_params(p), wire), &r);
        }
        if rng.below(4) == 0 {
            let p = variants[rng.below(variants.len())];
            let r = verdict(guard(|| ms.validate_non_top_level(&p)));
            ln(out, &format!("C vnt {} {} {}", cn, show_params(&p), wire), &r);
        }
        // monotonicity on this script: accepted under P∩Q => accepted under P and under Q
        for _ in 0..4 {
            let p = variants[rng.below(variants.len())];
            let mut q = variants[rng.below(variants.len())];
            if rng.coin() { let li = rng.below(5); if let Some(f) = figures(ms)[li] { set_lim(&mut q, li, f + rng.below(2)); } }
            let r = p.intersect(&q);
            let (vr, vp, vq) = (verdict(guard(|| ms.validate(&r))), verdict(guard(|| ms.validate(&p))), verdict(guard(|| ms.validate(&q))));
            ln(out, &format!("J mono {} {} {} {} {} {}", cn, show_params(&r), show_params(&p), wire, vr, vp), "ok");
            ln(out, &format!("J mono {} {} {} {} {} {}", cn, show_params(&r), show_params(&q), wire, vr, vq), "ok");
        }
        // the Lean side can only measure the real script when every key is of the kind the context
        // serialises as is (x-only in tap, full keys elsewhere; multipath atoms have no bytes)
        let native_keys = { let mut ks = vec![]; n.keys(&mut ks); ks.iter().all(|k| if ctx == CtxK::Tap { (200..300).contains(k) } else { *k < 200 }) };
        // limits at the script's own figures -1 / 0 / +1 (and the judge for each)
        let figs = figures(ms);
        for (li, base) in [(0usize, ValidationParams::MAX), (1, ValidationParams::MAX), (2, ValidationParams::MAX), (3, ValidationParams::MAX), (4, ValidationParams::MAX), (rng.below(5), ctx_const(ctx, true))] {
            let f = figs[li];
            let around: Vec<usize> = match f { Some(f) => vec![f.saturating_sub(1), f, f + 1], None => vec![0, 1] };
            let with = verdict(guard(|| ms.validate(&{ let mut b = base; if li != 4 { set_lim(&mut b, li, usize::MAX) }; b })));
            for l in around {
                if li == 4 && l > 402 { continue; }
                let mut p = base; set_lim(&mut p, li, l);
                let without = verdict(guard(|| ms.validate(&p)));
                ln(out, &format!("C validate {} {} {}", cn, show_params(&p), wire), &without);
                if base.eq(&ValidationParams::MAX) && li == 1 && native_keys {
                    // the REAL length: the Lean side encodes the script itself and measures it
                    ln(out, &format!("J limitsize {} {} {} {} {}", cn, show_lim(l), wire, with, without), "ok");
                }
                if base.eq(&ValidationParams::MAX) {
                    let fs = match f { Some(f) => f.to_string(), None => "-".into() };
                    ln(out, &format!("J limit {} {} {} {} {} {} {}", LIM_NAMES[li], cn, show_lim(l), wire, fs, with, without), "ok");
                }
            }
        }
        // switches: judge
        if o.switches {
            for base in [ValidationParams::MAX, { let mut p = ValidationParams::MAX; p.allow_x_only_keys = false; p }, { let mut p = ValidationParams::MAX; p.allow_compressed_keys = false; p }] {
                let is_max = base.eq(&ValidationParams::MAX);
                let with = verdict(guard(|| ms.validate(&base)));
                for i in 0..N_SW {
                    if !is_max && i != 0 && i != 13 { continue; }
                    if !get_sw(&base, i) { continue; }
                    let mut p = base; set_sw(&mut p, i, false);
                    let without = verdict(guard(|| ms.validate(&p)));
                    ln(out, &format!("J switch {} {} {} {} {} {}", SW_NAMES[i], cn, show_params(&base), wire, with, without), "ok");
                }
            }
        }
        // switches judged from the context's SANE side as well: for every switch X that Ctx::SANE
        // has off, "SANE with X allowed" vs "SANE" - a script whose ONLY defect is X is accepted by
        // the first and refused by the second (R2: the designated one-defect corpus lives on this)
        if o.switches {
            let sane = ctx_const(ctx, true);
            let without = verdict(guard(|| ms.validate(&sane)));
            for i in 0..N_SW {
                if get_sw(&sane, i) { continue; }
                let mut base = sane; set_sw(&mut base, i, true);
                let with = verdict(guard(|| ms.validate(&base)));
                ln(out, &format!("J switch {} {} {} {} {} {}", SW_NAMES[i], cn, show_params(&base), wire, with, without), "ok");
            }
        }
        // R4: a deep clone is the same miniscript for validate
        if o.switches {
            if let Some(c) = guard(|| ms.clone()) {
                for p in [ctx_const(ctx, true), ctx_const(ctx, false)] {
                    ln(out, &format!("C validate {} {} {}", cn, show_params(&p), wire), &verdict(guard(|| c.validate(&p))));
                }
            } else { ln(out, &format!("C validate {} {} {}", cn, show_params(&ctx_const(ctx, true)), wire), "PANIC"); }
        }
        // R1: translate_pk outputs, compiler-free
        if o.routes { translate_routes::<Ctx>(out, bud, ctx, n, ms); }
        // 3. wrapper constructors
        wrappers::<Ctx>(out, bud, ctx, n, &wire, ms, base_b);
    }
    // 4. strings
    if o.strings {
        let s = ms_text(n);
        let sane = guard(|| Miniscript::<Dpk, Ctx>::from_str(&s));
        ln(out, &format!("C accept ms_sane/from_str {} {}", cn, wire), okerr_ref(&sane));
        if let Some(Ok(m)) = &sane { judge_accept(out, bud, "ms_sane/from_str", ctx, n, &wire, m.ty.corr.base == Base::B); }
        let insane = guard(|| Miniscript::<Dpk, Ctx>::from_str_insane(&s));
        ln(out, &format!("C accept ms_insane/from_str_insane {} {}", cn, wire), okerr_ref(&insane));
        if let Some(Ok(m)) = &insane { judge_accept(out, bud, "ms_insane/from_str_insane", ctx, n, &wire, m.ty.corr.base == Base::B); }
        let cons = guard(|| Miniscript::<Dpk, Ctx>::from_str_with_validation_params(&s, &Ctx::CONSENSUS));
        ln(out, &format!("C accept ms_consensus/from_str_params {} {}", cn, wire), okerr_ref(&cons));
        if let Some(Ok(m)) = &cons { judge_accept(out, bud, "ms_consensus/from_str_params", ctx, n, &wire, m.ty.corr.base == Base::B); }
        // descriptor strings
        let mut descs: Vec<(&str, String)> = vec![];
        match ctx {
            CtxK::Bare => descs.push(("desc/bare", s.clone())),
            CtxK::Legacy => descs.push(("desc/sh", format!("sh({})", s))),
            CtxK::Segwitv0 => { descs.push(("desc/wsh", format!("wsh({})", s))); descs.push(("desc/sh_wsh", format!("sh(wsh({}))", s))); }
            CtxK::Tap => descs.push(("desc/tr", format!("tr({},{})", key_string(299), s))),
        }
        for (entry, d) in descs {
            let r = guard(|| Descriptor::<Dpk>::from_str(&d));
            let v = okerr(r);
            ln(out, &format!("C accept {} {} {}", entry, cn, wire), v);
            if v == "ok" { judge_accept(out, bud, entry, ctx, n, &wire, base_b); }
            // T4: what the descriptor parser accepts, the miniscript parser with Ctx::CONSENSUS accepts
            let class = if matches!(ctx, CtxK::Bare | CtxK::Legacy) && contains(n, &|x| matches!(x, Node::DupIf(_) | Node::OrI(..))) { "cond" }
                else { "plain" };
            if class == "plain" || bud.take(format!("t4 {} {}", class, cn)) {
                ln(out, &format!("J t4 {} {} {} {} {}", class, entry, wire, v, okerr_ref(&cons)), "ok");
            }
        }
        if ctx == CtxK::Tap {
            let d = format!("tr({},{})", key_string(299), s);
            let r = guard(|| Tr::<Dpk>::from_str(&d));
            let v = okerr(r);
            ln(out, &format!("C accept tr_str/Tr::from_str {} {}", cn, wire), v);
            if v == "ok" { judge_accept(out, bud, "tr_str/Tr::from_str", ctx, n, &wire, base_b); }
        }
    }
    // 5. decode (native key type of the context); a Legacy-encoded script is also decoded as
    //    Segwitv0 and Bare (uncompressed keys reach the unchecked pk_k / multi leaves that way)
    if let Some(Ok(native)) = guard(|| to_ms::<Ctx::Key, Ctx>(n)) {
        let script = native.encode();
        decode_lines::<Ctx>(out, bud, ctx, &script, &wire, rng, "own");
        if ctx == CtxK::Legacy {
            decode_lines::<Segwitv0>(out, bud, CtxK::Segwitv0, &script, &wire, rng, "from-legacy");
            decode_lines::<BareCtx>(out, bud, CtxK::Bare, &script, &wire, rng, "from-legacy");
        }
    }
}

fn decode_verdict<T>(r: Option<Result<T, miniscript::Error>>) -> String {
    match r {
        None => "PANIC".into(),
        Some(Ok(_)) => "ok".into(),
        Some(Err(miniscript::Error::Validation(e))) => format!("ERR:{}", verr_name(&e)),
        Some(Err(_)) => "ERR".into(),
    }
}

fn decode_lines<Ctx: ScriptContext>(out: &mut Out, bud: &mut Budget, ctx: CtxK, script: &miniscript::bitcoin::Script, orig_wire: &str, rng: &mut Rng, tag: &str)
where Ctx::Key: PkOf {
    let cn = ctx.name();
    // the AST the decoder sees (pk_h becomes expr_raw_pkh, sortedmulti becomes multi, ...)
    let dec = match guard(|| Miniscript::<Ctx::Key, Ctx>::decode_with_validation_params(script, &ValidationParams::MAX)) {
        Some(Ok(d)) => { ln(out, &format!("C decodemax {} {} {}", cn, orig_wire, tag), "ok"); d }
        Some(Err(_)) => { ln(out, &format!("C decodemax {} {} {}", cn, orig_wire, tag), "ERR"); return; }
        None => { ln(out, &format!("C decodemax {} {} {}", cn, orig_wire, tag), "PANIC"); return; }
    };
    let dn = match from_ms(&dec) { Some(n) => n, None => { out.count("decode-unmapped"); return; } };
    let dw = dn.wire();
    ln(out, &format!("C decodevp {} {} {} {}", cn, show_params(&ValidationParams::MAX), dw, tag), "ok");
    if tag == "own" {
        let r = guard(|| Miniscript::<Ctx::Key, Ctx>::decode(script));
        ln(out, &format!("C accept ms_sane/decode {} {}", cn, dw), okerr_ref(&r));
        if let Some(Ok(m)) = &r { judge_accept(out, bud, "ms_sane/decode", ctx, &dn, &dw, m.ty.corr.base == Base::B); }
        let r = guard(|| Miniscript::<Ctx::Key, Ctx>::decode_consensus(script));
        ln(out, &format!("C accept ms_consensus/decode_consensus {} {}", cn, dw), okerr_ref(&r));
        if let Some(Ok(m)) = &r { judge_accept(out, bud, "ms_consensus/decode_consensus", ctx, &dn, &dw, m.ty.corr.base == Base::B); }
    }
    // decode_with_validation_params under the named parameter sets and single-switch flips:
    // must equal "decode, then validate" (the model validates the decoded AST)
    let variants = param_variants(ctx);
    let mut ps: Vec<ValidationParams> = vec![ctx_const(ctx, false), ctx_const(ctx, true), ValidationParams::SANE, ValidationParams::CONSENSUS];
    for _ in 0..3 { ps.push(variants[rng.below(variants.len())]); }
    { let mut p = ctx_const(ctx, false); let li = rng.below(5); if let Some(f) = figures(&dec)[li] { set_lim(&mut p, li, f.saturating_sub(rng.below(2))); } ps.push(p); }
    for p in ps {
        let r = guard(|| Miniscript::<Ctx::Key, Ctx>::decode_with_validation_params(script, &p));
        let accepted = matches!(r, Some(Ok(_)));
        ln(out, &format!("C decodevp {} {} {} {}", cn, show_params(&p), dw, tag), &decode_verdict(r));
        // what a decoder accepts under the context's own parameters obeys the context
        if accepted && (p.eq(&ctx_const(ctx, false)) || p.eq(&ctx_const(ctx, true))) && tag != "own" {
            judge_accept(out, bud, "ms_consensus/decode_with_validation_params", ctx, &dn, &dw, dec.ty.corr.base == Base::B);
        }
    }
}

/// key-id maps used as translators: identity, to uncompressed, to x-only, to compressed, to multipath
struct IdMap(fn(u32) -> u32);
impl miniscript::Translator<Dpk> for IdMap {
    type TargetPk = Dpk;
    type Error = ();
    fn pk(&mut self, pk: &Dpk) -> Result<Dpk, ()> { let id = pk.id_of().ok_or(())?; Dpk::of((self.0)(id)).ok_or(()) }
    miniscript::translate_hash_clone!(Dpk, Dpk, ());
}
fn map_node(n: &Node, f: fn(u32) -> u32) -> Node {
    use Node::*;
    let b = |x: &Node| Box::new(map_node(x, f));
    let ks = |v: &Vec<u32>| v.iter().map(|k| f(*k)).collect::<Vec<u32>>();
    match n {
        PkK(k) => PkK(f(*k)), PkH(k) => PkH(f(*k)),
        Multi(k, v) => Multi(*k, ks(v)), SortedMulti(k, v) => SortedMulti(*k, ks(v)),
        MultiA(k, v) => MultiA(*k, ks(v)), SortedMultiA(k, v) => SortedMultiA(*k, ks(v)),
        Alt(x) => Alt(b(x)), Swap(x) => Swap(b(x)), Check(x) => Check(b(x)), DupIf(x) => DupIf(b(x)), Verify(x) => Verify(b(x)),
        NonZero(x) => NonZero(b(x)), ZeroNotEqual(x) => ZeroNotEqual(b(x)),
        AndV(x, y) => AndV(b(x), b(y)), AndB(x, y) => AndB(b(x), b(y)), AndOr(x, y, z) => AndOr(b(x), b(y), b(z)),
        OrB(x, y) => OrB(b(x), b(y)), OrD(x, y) => OrD(b(x), b(y)), OrC(x, y) => OrC(b(x), b(y)), OrI(x, y) => OrI(b(x), b(y)),
        Thresh(k, xs) => Thresh(*k, xs.iter().map(|x| map_node(x, f)).collect()),
        other => other.clone(),
    }
}
const KEY_MAPS: [(&str, fn(u32) -> u32); 4] = [
    ("id", |k| k),
    ("to-uncompressed", |k| if k < 100 { k + 100 } else { k }),
    ("to-xonly", |k| if k < 100 { k + 200 } else { k }),
    ("to-compressed", |k| if (100..300).contains(&k) { k % 100 } else { k }),
];

/// `Miniscript::translate_pk` and the descriptor wrapper's `translate_pk` (which re-wraps the
/// translated miniscript WITHOUT `Self::new`): whatever comes out is again an accepted object
fn translate_routes<Ctx: ScriptContext>(out: &mut Out, bud: &mut Budget, ctx: CtxK, n: &Node, ms: &Miniscript<Dpk, Ctx>) {
    let cn = ctx.name();
    if n.size() > 40 { return; }
    for (name, f) in KEY_MAPS {
        let tn = map_node(n, f);
        if name != "id" && tn == *n { continue; }
        let tw = tn.wire();
        let r = guard(|| ms.translate_pk(&mut IdMap(f)));
        let v = match &r { None => "PANIC", Some(Ok(_)) => "ok", Some(Err(_)) => "ERR" };
        ln(out, &format!("C accept fromast/Miniscript::translate_pk:{} {} {}", name, cn, tw), v);
        if let Some(Ok(t)) = &r { judge_accept(out, bud, &format!("fromast/Miniscript::translate_pk:{}", name), ctx, &tn, &tw, t.ty.corr.base == Base::B); }
        // through the descriptor (every arm that holds a miniscript)
        let base_b = ms.ty.corr.base == Base::B;
        let descs: Vec<(&str, Option<Descriptor<Dpk>>)> = match ctx {
            CtxK::Segwitv0 => { let m = guard(|| to_ms::<Dpk, Segwitv0>(n)).and_then(|r| r.ok());
                vec![("Wsh", m.clone().and_then(|m| Descriptor::new_wsh(m).ok())), ("ShWsh", m.and_then(|m| Descriptor::new_sh_wsh(m).ok()))] }
            CtxK::Legacy => { let m = guard(|| to_ms::<Dpk, Legacy>(n)).and_then(|r| r.ok()); vec![("Sh", m.and_then(|m| Descriptor::new_sh(m).ok()))] }
            CtxK::Bare => { let m = guard(|| to_ms::<Dpk, BareCtx>(n)).and_then(|r| r.ok()); vec![("Bare", m.and_then(|m| Descriptor::new_bare(m).ok()))] }
            CtxK::Tap => { let m = guard(|| to_ms::<Dpk, Tap>(n)).and_then(|r| r.ok());
                vec![("Tr", m.and_then(|m| Descriptor::new_tr(Dpk::of(299).unwrap(), Some(TapTree::leaf(m))).ok()))] }
        };
        for (arm, d) in descs {
            let d = match d { Some(d) => d, None => continue };
            let r = guard(|| d.translate_pk(&mut IdMap(f)));
            let v = match &r { None => "PANIC", Some(Ok(_)) => "ok", Some(Err(_)) => "ERR" };
            // Tr::translate_pk goes through Tr::new (leaf validated); the others only re-wrap
            let entry = if arm == "Tr" { "tr_new" } else { "fromast" };
            ln(out, &format!("C accept {}/Descriptor::{}::translate_pk:{} {} {}", entry, arm, name, cn, tw), v);
            if v == "ok" { judge_accept(out, bud, &format!("translate/Descriptor::{}::translate_pk:{}", arm, name), ctx, &tn, &tw, base_b); }
        }
    }
}

/// R3: scripts no encoder of the library produces (out-of-range locks and thresholds written by
/// hand); whatever `decode*` accepts must obey the context
fn raw_scripts(out: &mut Out, bud: &mut Budget) {
    use miniscript::bitcoin::blockdata::opcodes::all as op;
    use miniscript::bitcoin::script::Builder;
    let k = |i: u32| full_key(i);
    let mut list: Vec<(&str, miniscript::bitcoin::ScriptBuf)> = vec![];
    let pkv = |b: Builder, i: u32| b.push_key(&k(i)).push_opcode(op::OP_CHECKSIGVERIFY);
    list.push(("older0", pkv(Builder::new(), 0).push_int(0).push_opcode(op::OP_CSV).into_script()));
    list.push(("after0", pkv(Builder::new(), 0).push_int(0).push_opcode(op::OP_CLTV).into_script()));
    list.push(("older2^31", pkv(Builder::new(), 0).push_int(0x8000_0000).push_opcode(op::OP_CSV).into_script()));
    list.push(("after2^31", pkv(Builder::new(), 0).push_int(0x8000_0000).push_opcode(op::OP_CLTV).into_script()));
    list.push(("older-nonminimal", pkv(Builder::new(), 0).push_slice([10u8, 0]).push_opcode(op::OP_CSV).into_script()));
    list.push(("multi-k0", Builder::new().push_int(0).push_key(&k(0)).push_key(&k(1)).push_int(2).push_opcode(op::OP_CHECKMULTISIG).into_script()));
    list.push(("multi-k3of2", Builder::new().push_int(3).push_key(&k(0)).push_key(&k(1)).push_int(2).push_opcode(op::OP_CHECKMULTISIG).into_script()));
    { let mut b = Builder::new().push_int(1); for i in 0..21 { b = b.push_key(&k(i)); } list.push(("multi-n21", b.push_int(21).push_opcode(op::OP_CHECKMULTISIG).into_script())); }
    list.push(("multi-n-mismatch", Builder::new().push_int(1).push_key(&k(0)).push_key(&k(1)).push_int(3).push_opcode(op::OP_CHECKMULTISIG).into_script()));
    let th = |kk: i64| Builder::new().push_key(&k(0)).push_opcode(op::OP_CHECKSIG).push_opcode(op::OP_SWAP).push_key(&k(1)).push_opcode(op::OP_CHECKSIG).push_opcode(op::OP_ADD).push_int(kk).push_opcode(op::OP_EQUAL).into_script();
    list.push(("thresh-k0", th(0))); list.push(("thresh-k3of2", th(3))); list.push(("thresh-k2of2", th(2)));
    list.push(("pk-uncompressed", Builder::new().push_key(&k(100)).push_opcode(op::OP_CHECKSIG).into_script()));
    list.push(("pk-32-bytes", Builder::new().push_slice(xonly_key(200).serialize()).push_opcode(op::OP_CHECKSIG).into_script()));
    list.push(("empty", Builder::new().into_script()));
    list.push(("trailing", Builder::new().push_key(&k(0)).push_opcode(op::OP_CHECKSIG).push_opcode(op::OP_DROP).into_script()));
    fn go<Ctx: ScriptContext>(out: &mut Out, bud: &mut Budget, ctx: CtxK, name: &str, sc: &miniscript::bitcoin::Script) where Ctx::Key: PkOf {
        for (entry, r) in [
            ("ms_sane/decode:raw", guard(|| Miniscript::<Ctx::Key, Ctx>::decode(sc))),
            ("ms_consensus/decode_consensus:raw", guard(|| Miniscript::<Ctx::Key, Ctx>::decode_consensus(sc))),
            ("ms_consensus/decode_with_validation_params(MAX):raw", guard(|| Miniscript::<Ctx::Key, Ctx>::decode_with_validation_params(sc, &ValidationParams::MAX))),
        ] {
            match r {
                None => ln(out, &format!("J nopanic {} {} {} PANIC", entry, ctx.name(), name), "ok"),
                Some(Err(_)) => out.count(&format!("raw-script-refused {}", name)),
                Some(Ok(m)) => match from_ms(&m) {
                    Some(dn) => {
                        let dw = dn.wire();
                        // MAX ("anything goes") is not a context's parameter set: nothing is claimed
                        // about what it lets through; the model line below still covers it
                        if !entry.contains("MAX") { judge_accept(out, bud, entry, ctx, &dn, &dw, m.ty.corr.base == Base::B); }
                        ln(out, &format!("C decodevp {} {} {} raw-{}", ctx.name(), show_params(&ValidationParams::MAX), dw, name), "ok");
                    }
                    None => out.count("raw-script-accepted-unmapped"),
                },
            }
        }
    }
    for (name, sc) in &list {
        go::<Legacy>(out, bud, CtxK::Legacy, name, sc);
        go::<Segwitv0>(out, bud, CtxK::Segwitv0, name, sc);
        go::<BareCtx>(out, bud, CtxK::Bare, name, sc);
        go::<Tap>(out, bud, CtxK::Tap, name, sc);
    }
}

/// R1: compiler outputs are accepted objects too - judged by the context rules
fn compiler_outputs(out: &mut Out, bud: &mut Budget) {
    use miniscript::policy::Concrete;
    for ctx in CtxK::ALL {
        let b = if ctx == CtxK::Tap { 200 } else { 0 };
        let key = |i: u32| key_string(b + i);
        let h = hex(&hash_value(HK::Sha256, 0));
        let pols = vec![
            format!("pk({})", key(0)),
            format!("and(pk({}),older(10))", key(0)),
            format!("or(pk({}),and(pk({}),sha256({})))", key(0), key(1), h),
            format!("thresh(2,pk({}),pk({}),pk({}))", key(0), key(1), key(2)),
            format!("or(99@pk({}),1@and(pk({}),after(100)))", key(0), key(1)),
            format!("or(pk({}),or(pk({}),and(pk({}),older(4194305))))", key(0), key(1), key(2)),
            format!("thresh(2,pk({}),pk({}),and(pk({}),older(10)))", key(0), key(1), key(2)),
        ];
        for ps in pols {
            let pol = match Concrete::<Dpk>::from_str(&ps) { Ok(p) => p, Err(_) => { out.count("compile-policy-unparsed"); continue; } };
            fn one<Ctx: ScriptContext>(out: &mut Out, bud: &mut Budget, ctx: CtxK, pol: &Concrete<Dpk>) {
                match guard(|| pol.compile::<Ctx>()) {
                    None => ln(out, &format!("J nopanic compile/Concrete::compile {} {} PANIC", ctx.name(), pol.to_string().replace(' ', "")), "ok"),
                    Some(Err(_)) => out.count(&format!("compile-refused {}", ctx.name())),
                    Some(Ok(m)) => match from_ms(&m) {
                        Some(dn) => { let dw = dn.wire(); judge_accept(out, bud, "compile/Concrete::compile", ctx, &dn, &dw, m.ty.corr.base == Base::B);
                            ln(out, &format!("C accept ms_sane/compile-output {} {}", ctx.name(), dw), okerr(guard(|| m.validate(&Ctx::SANE)))); }
                        None => out.count("compile-output-unmapped"),
                    },
                }
            }
            match ctx {
                CtxK::Bare => one::<BareCtx>(out, bud, ctx, &pol), CtxK::Legacy => one::<Legacy>(out, bud, ctx, &pol),
                CtxK::Segwitv0 => one::<Segwitv0>(out, bud, ctx, &pol), CtxK::Tap => one::<Tap>(out, bud, ctx, &pol),
            }
        }
    }
}

/// R2: one script per validation switch whose ONLY defect (relative to Ctx::SANE) is that switch,
/// and R5: combinators over the casts `t:` / `l:` / `u:` (and_v(X,1), or_i(0,X), or_i(X,0))
fn switch_and_cast_corpus(ctx: CtxK) -> Vec<Node> {
    use Node::*;
    let b = if ctx == CtxK::Tap { 200 } else { 0 };
    let (k0, k1, k2, k3) = (b, b + 1, b + 2, b + 3);
    let t = |x: Node| and_v(v(x), True);          // t:v:X
    let l = |x: Node| OrI(bx(False), bx(x));      // l:X
    let u = |x: Node| OrI(bx(x), bx(False));      // u:X
    let mut c = vec![
        // duplicate keys only (every pair of occurrence kinds)
        and_v(v(pk(k0)), pk(k0)), and_v(v(pkh(k0)), pk(k0)), and_v(v(pkh(k0)), pkh(k0)),
        OrD(bx(pk(k0)), bx(and_v(v(pkh(k0)), Older(10)))),
        // mixed time locks only (every pair of units, signed)
        and_v(v(pk(k0)), and_v(v(After(100)), After(500_000_001))), and_v(v(pk(k0)), and_v(v(Older(10)), Older(4_194_305))),
        Thresh(3, vec![pk(k0), Swap(bx(l(ZeroNotEqual(bx(Older(10)))))), Swap(bx(l(ZeroNotEqual(bx(Older(4_194_305))))))]),
        // raw pkh only, sigless only, malleable only, non-B only, unsatisfiable (allowed by SANE)
        and_v(v(Check(bx(RawPkH(b)))), pk(k1)),
        Older(10), OrD(bx(pk(k0)), bx(Older(10))), and_v(v(Hash(HK::Sha256, 0)), Older(10)),
        OrD(bx(pk(k0)), bx(AndB(bx(Hash(HK::Sha256, 0)), bx(Alt(bx(Hash(HK::Hash160, 1))))))),
        AndOr(bx(Hash(HK::Sha256, 0)), bx(pk(k0)), bx(pk(k1))),
        v(pk(k0)), PkK(k0), Alt(bx(pk(k0))),
        and_v(v(pk(k0)), False), OrD(bx(pk(k0)), bx(False)),
        // multipath mismatch only
        and_v(v(pk(300)), pk(310)), and_v(v(pk(300)), pk(301)),
        // d: / or_i only (defects in Bare / Legacy), multisig flavours
        OrI(bx(pk(k0)), bx(pk(k1))), and_v(v(pk(k0)), OrD(bx(pk(k1)), bx(DupIf(bx(v(pk(k2))))))),
        and_v(v(pk(k0)), Multi(1, vec![k1, k2])), and_v(v(pk(k0)), MultiA(1, vec![k1, k2])),
    ];
    // casts under combinators and wrappers
    for x in [pk(k1), pkh(k1), Hash(HK::Sha256, 0), Multi(1, vec![k2, k3]), MultiA(1, vec![k2, k3])] {
        c.extend([
            and_v(v(pk(k0)), t(x.clone())), OrD(bx(u(pk(k0))), bx(x.clone())), OrD(bx(pk(k0)), bx(l(x.clone()))),
            AndB(bx(pk(k0)), bx(Alt(bx(u(x.clone()))))), AndB(bx(l(pk(k0))), bx(Alt(bx(x.clone())))),
            OrB(bx(u(pk(k0))), bx(Alt(bx(l(x.clone()))))), AndOr(bx(u(pk(k0))), bx(t(x.clone())), bx(pk(k3))),
            Thresh(2, vec![u(pk(k0)), Alt(bx(l(x.clone()))), Swap(bx(pk(k3)))]),
            NonZero(bx(u(x.clone()))), ZeroNotEqual(bx(l(x.clone()))), OrC(bx(u(pk(k0))), bx(v(t(x.clone())))),
            and_v(v(t(x.clone())), pk(k0)), and_v(OrC(bx(u(pk(k0))), bx(v(x.clone()))), True),
        ]);
    }
    c.extend([l(Older(10)), u(Older(10)), and_v(v(pk(k0)), l(After(100))), OrD(bx(pk(k0)), bx(t(Older(10)))),
        DupIf(bx(v(t(Older(10))))), and_v(v(pk(k0)), DupIf(bx(v(Older(10)))))]);
    // TWO locks of one opcode in EVERY ordered pair of child positions of every combinator, for
    // every ordered pair of units (height/time, time/height, and the unmixed controls): the
    // timelock summary of a combinator depends on WHICH children share a path (and-combined) and
    // which are alternatives (or-combined).  A lock-carrying child that is B/dissatisfiable for the
    // guard positions: j:and_v(v:pk,n:LOCK); W for the thresh / and_b / or_b tails: a: of it.
    let guard = |key: u32, lock: Node| NonZero(bx(and_v(v(pk(key)), ZeroNotEqual(bx(lock)))));
    let signed = |key: u32, lock: Node| and_v(v(pk(key)), lock);
    let locks: [(fn(u32) -> Node, u32, u32); 2] = [(|n| Older(n), 10, 4_194_305), (|n| After(n), 100, 500_000_001)];
    for (mk, h, tm) in locks {
        for (a, b2) in [(h, tm), (tm, h), (h, h + 1), (tm, tm + 1)] {
            let (ga, gb) = (guard(k0, mk(a)), guard(k1, mk(b2)));
            let (sa, sb) = (signed(k0, mk(a)), signed(k1, mk(b2)));
            c.extend([
                // andor(X,Y,Z): (X,Y) share a path, (X,Z) do not, (Y,Z) do not
                AndOr(bx(ga.clone()), bx(sb.clone()), bx(pk(k2))),
                AndOr(bx(ga.clone()), bx(pk(k2)), bx(sb.clone())),
                AndOr(bx(pk(k2)), bx(sa.clone()), bx(sb.clone())),
                // or_*(X,Z): alternatives; and_*(X,Y): one path
                OrD(bx(ga.clone()), bx(sb.clone())), OrB(bx(ga.clone()), bx(Alt(bx(gb.clone())))), OrI(bx(sa.clone()), bx(sb.clone())),
                and_v(OrC(bx(ga.clone()), bx(v(sb.clone()))), pk(k2)),
                and_v(v(sa.clone()), sb.clone()), AndB(bx(sa.clone()), bx(Alt(bx(sb.clone())))),
                // thresh: k = n (one path), k = 1 (alternatives), 1 < k < n (some pairs share a path)
                Thresh(2, vec![ga.clone(), Alt(bx(gb.clone()))]), Thresh(1, vec![ga.clone(), Alt(bx(gb.clone()))]),
                Thresh(2, vec![ga.clone(), Alt(bx(gb.clone())), Swap(bx(pk(k2)))]),
                Thresh(2, vec![pk(k2), Alt(bx(ga.clone())), Alt(bx(gb.clone()))]),
                // one level down: the pair split between a combinator and its grandchild
                AndOr(bx(ga.clone()), bx(OrD(bx(pk(k2)), bx(sb.clone()))), bx(pk(k3))),
                AndOr(bx(ga.clone()), bx(pk(k3)), bx(OrD(bx(pk(k2)), bx(sb.clone())))),
                OrD(bx(pk(k3)), bx(AndOr(bx(ga.clone()), bx(sb.clone()), bx(pk(k2))))),
            ]);
        }
    }
    c
}

fn wrappers<Ctx: ScriptContext>(out: &mut Out, bud: &mut Budget, ctx: CtxK, n: &Node, wire: &str, _ms: &Miniscript<Dpk, Ctx>, base_b: bool) {
    let cn = ctx.name();
    let mut emit = |out: &mut Out, bud: &mut Budget, entry: &str, v: &'static str| {
        ln(out, &format!("C accept {} {} {}", entry, cn, wire), v);
        if v == "ok" { judge_accept(out, bud, entry, ctx, n, wire, base_b); }
    };
    match ctx {
        CtxK::Segwitv0 => {
            if let Some(Ok(ms)) = guard(|| to_ms::<Dpk, Segwitv0>(n)) {
                emit(out, bud, "wrapper/Wsh::new", okerr(guard(|| Wsh::new(ms.clone()))));
                emit(out, bud, "wrapper/Sh::new_wsh", okerr(guard(|| Sh::new_wsh(ms.clone()))));
                emit(out, bud, "wrapper/Descriptor::new_wsh", okerr(guard(|| Descriptor::new_wsh(ms.clone()))));
                emit(out, bud, "wrapper/Descriptor::new_sh_wsh", okerr(guard(|| Descriptor::new_sh_wsh(ms.clone()))));
            }
        }
        CtxK::Legacy => {
            if let Some(Ok(ms)) = guard(|| to_ms::<Dpk, Legacy>(n)) {
                emit(out, bud, "wrapper/Sh::new", okerr(guard(|| Sh::new(ms.clone()))));
                emit(out, bud, "wrapper/Descriptor::new_sh", okerr(guard(|| Descriptor::new_sh(ms.clone()))));
            }
        }
        CtxK::Bare => {
            if let Some(Ok(ms)) = guard(|| to_ms::<Dpk, BareCtx>(n)) {
                emit(out, bud, "wrapper/Bare::new", okerr(guard(|| Bare::new(ms.clone()))));
                emit(out, bud, "wrapper/Descriptor::new_bare", okerr(guard(|| Descriptor::new_bare(ms.clone()))));
            }
        }
        CtxK::Tap => {
            if let Some(Ok(ms)) = guard(|| to_ms::<Dpk, Tap>(n)) {
                let ik = Dpk::of(299).unwrap();
                emit(out, bud, "tr_new/Tr::new", okerr(guard(|| Tr::new(ik.clone(), Some(TapTree::leaf(ms.clone()))))));
                emit(out, bud, "tr_new/Descriptor::new_tr", okerr(guard(|| Descriptor::new_tr(ik.clone(), Some(TapTree::leaf(ms.clone()))))));
            }
        }
    }
}

fn run_ast(out: &mut Out, bud: &mut Budget, ctx: CtxK, n: &Node, o: &Opts, rng: &mut Rng) {
    match ctx {
        CtxK::Bare => run_ast_ctx::<BareCtx>(out, bud, ctx, n, o, rng),
        CtxK::Legacy => run_ast_ctx::<Legacy>(out, bud, ctx, n, o, rng),
        CtxK::Segwitv0 => run_ast_ctx::<Segwitv0>(out, bud, ctx, n, o, rng),
        CtxK::Tap => run_ast_ctx::<Tap>(out, bud, ctx, n, o, rng),
    }
}

/* ------------------------------------------------------------------ stress list */

fn bx(n: Node) -> Box<Node> { Box::new(n) }
fn pk(k: u32) -> Node { Node::Check(bx(Node::PkK(k))) }
fn pkh(k: u32) -> Node { Node::Check(bx(Node::PkH(k))) }
fn v(n: Node) -> Node { Node::Verify(bx(n)) }
fn and_v(a: Node, b: Node) -> Node { Node::AndV(bx(a), bx(b)) }

/// `and_v(v:pk(k0), and_v(v:pk(k1), ... pk(kn)))` with `n` keys
fn chain(keys: &[u32]) -> Node {
    let mut cur = pk(*keys.last().unwrap());
    for k in keys[..keys.len() - 1].iter().rev() { cur = and_v(v(pk(*k)), cur); }
    cur
}
fn n_wrap(depth: usize, inner: Node) -> Node {
    let mut cur = inner;
    for _ in 0..depth { cur = Node::ZeroNotEqual(bx(cur)); }
    cur
}

fn stress(ctx: CtxK) -> Vec<Node> {
    use Node::*;
    let good: Vec<u32> = match ctx { CtxK::Tap => (200..230).collect(), _ => (0..30).collect() };
    let (k0, k1, k2) = (good[0], good[1], good[2]);
    let mut l = vec![];
    // regression for F17 (fixed): 522 real bytes; pk_cost used to be 515, so from_ast's 520-byte check let it through
    if ctx == CtxK::Legacy {
        let mut cur = pk(0);
        for k in (100u32..107).rev() { cur = and_v(v(pk(k)), cur); }
        for _ in 0..6 { cur = and_v(v(Older(10)), cur); }
        l.push(cur);
    }
    // non-B top levels
    l.extend([PkK(k0), PkH(k0), RawPkH(0), v(pk(k0)), Alt(bx(pk(k0))), Swap(bx(pk(k0))), v(Older(10)),
        OrC(bx(pk(k0)), bx(v(pk(k1)))), and_v(v(pk(k0)), PkK(k1)), OrI(bx(PkK(k0)), bx(PkK(k1))),
        AndOr(bx(pk(k0)), bx(PkK(k1)), bx(PkK(k2))), and_v(v(pk(k0)), v(pk(k1)))]);
    // key kinds: every kind through pk_k, pk_h, multi / multi_a
    for k in [0u32, 1, 100, 101, 200, 201] {
        l.push(pk(k)); l.push(pkh(k));
        l.push(and_v(v(pkh(k)), pk(k0)));
        l.push(Multi(1, vec![k, k0])); l.push(SortedMulti(1, vec![k0, k]));
        l.push(MultiA(1, vec![k, k0])); l.push(SortedMultiA(2, vec![k0, k]));
    }
    // multisig flavour, conditionals
    l.extend([Multi(2, vec![k0, k1, k2]), MultiA(2, vec![k0, k1, k2]), and_v(v(pk(k0)), Multi(1, vec![k1, k2])),
        and_v(v(pk(k0)), MultiA(1, vec![k1, k2])),
        OrI(bx(pk(k0)), bx(pk(k1))), and_v(v(pk(k0)), DupIf(bx(v(Older(10))))), OrI(bx(pk(k0)), bx(False)),
        AndB(bx(pk(k0)), bx(Alt(bx(DupIf(bx(v(pk(k1))))))))]);
    // thresholds out of range
    let w = |k: u32| Swap(bx(pk(k)));
    l.extend([Thresh(0, vec![pk(k0), w(k1)]), Thresh(3, vec![pk(k0), w(k1)]), Thresh(2, vec![pk(k0), w(k1)]), Thresh(1, vec![pk(k0)]),
        Multi(0, vec![k0, k1]), Multi(3, vec![k0, k1]), MultiA(0, vec![k0, k1]), MultiA(3, vec![k0, k1]),
        Multi(1, good[..20].to_vec()), Multi(1, good[..21].to_vec()), Multi(20, good[..20].to_vec()),
        MultiA(1, good[..21].to_vec())]);
    if ctx == CtxK::Tap {
        let many = |n: usize| (0..n).map(|i| 200 + (i % 100) as u32).collect::<Vec<u32>>();
        l.extend([MultiA(1, many(999)), MultiA(1, many(1000)), MultiA(999, many(999)), SortedMultiA(2, many(1000))]);
    }
    // locks
    for n in [0u32, 1, 499_999_999, 500_000_000, 0x7fff_ffff, 0x8000_0000, 0xffff_ffff] {
        l.push(and_v(v(pk(k0)), After(n))); l.push(and_v(v(pk(k0)), Older(n)));
    }
    l.extend([and_v(v(pk(k0)), Older(4_194_304)), and_v(v(pk(k0)), Older(65_535)), and_v(v(pk(k0)), Older(0x0040_ffff))]);
    // duplicates, mixed time locks (also through a poisoned branch), raw pkh, sigless, malleable, unsatisfiable
    l.extend([and_v(v(pk(k0)), pk(k0)), and_v(v(pkh(k0)), pk(k0)), and_v(v(pk(k0)), Multi(1, vec![k0, k1])),
        and_v(v(After(100)), After(500_000_001)), and_v(v(Older(10)), Older(4_194_305)),
        and_v(v(pk(k0)), and_v(v(After(100)), After(500_000_001))),
        OrD(bx(pk(k0)), bx(and_v(v(Older(10)), Older(4_194_305)))),
        and_v(v(Older(10)), and_v(v(Older(4_194_305)), False)),
        and_v(v(After(100)), and_v(v(After(500_000_001)), False)),
        AndOr(bx(pk(k0)), bx(and_v(v(Older(10)), and_v(v(Older(4_194_305)), False))), bx(pk(k1))),
        Thresh(2, vec![pk(k0), Swap(bx(pk(k1))), Alt(bx(and_v(v(Older(10)), and_v(v(Older(4_194_305)), False))))]),
        Check(bx(RawPkH(0))), and_v(v(Check(bx(RawPkH(1)))), pk(k0)),
        True, False, and_v(v(pk(k0)), False), Older(10), OrI(bx(pk(k0)), bx(Older(10))),
        OrD(bx(pk(k0)), bx(Hash(HK::Sha256, 0))), AndB(bx(Hash(HK::Sha256, 0)), bx(Alt(bx(Hash(HK::Hash160, 1))))),
        OrB(bx(Hash(HK::Sha256, 0)), bx(Alt(bx(Hash(HK::Hash160, 1)))))]);
    // multipath keys
    l.extend([and_v(v(pk(300)), pk(301)), and_v(v(pk(300)), pk(310)), and_v(v(pk(300)), and_v(v(pk(k0)), pk(311))),
        Multi(1, vec![300, 310]), MultiA(1, vec![300, 310]), and_v(v(pkh(310)), pk(311)), and_v(v(pkh(310)), pk(300))]);
    // sizes around 520 / 3600 / 10000 bytes (35 resp. 34 bytes per key)
    if ctx != CtxK::Tap {
        for nk in [14usize, 15, 16, 102, 103, 104, 285, 286, 287] {
            let keys: Vec<u32> = (0..nk).map(|i| (i % 30) as u32).collect();
            l.push(chain(&keys));
        }
    } else {
        let keys: Vec<u32> = (0..300).map(|i| 200 + (i % 30) as u32).collect();
        l.push(chain(&keys));
    }
    // cell 3: order inside TimelockInfo::combine_threshold (time-then-height, no-mix controls)
    l.extend([and_v(v(After(500_000_001)), After(100)), and_v(v(Older(4_194_305)), Older(10)),
        OrI(bx(Older(10)), bx(Older(4_194_305))),
        Thresh(1, vec![Older(10), Alt(bx(Older(4_194_305)))]),
        Thresh(2, vec![Older(10), Alt(bx(Older(4_194_305))), Swap(bx(pk(k0)))]),
        Thresh(2, vec![Older(4_194_305), Alt(bx(Older(10))), Swap(bx(pk(k0)))]),
        and_v(v(After(500_000_001)), Older(10)), and_v(v(Older(4_194_305)), After(100)),
        and_v(v(pk(k0)), and_v(v(Older(4_194_305)), Older(10))),
        AndB(bx(After(500_000_001)), bx(Alt(bx(After(100))))),
        and_v(v(pk(k0)), Older(65_536)), and_v(v(pk(k0)), Older(1 << 21)), and_v(v(pk(k0)), Older((1 << 22) | 0)),
    ]);
    // cell 4: the size comparisons inside from_ast, exactly at and one byte over 520 / 3600 / 10000
    // (35 bytes per `v:pk`, 3 per `v:older(10)`), bare multi with n = 3 / 4
    if ctx != CtxK::Tap {
        for (a, b) in [(14usize, 10usize), (13, 22), (102, 10), (101, 22), (284, 20), (283, 32)] {
            let keys: Vec<u32> = (0..a).map(|i| (i % 30) as u32).collect();
            let mut cur = chain(&keys);
            for _ in 0..b { cur = and_v(v(Older(10)), cur); }
            l.push(cur);
        }
        l.extend([Multi(1, vec![k0, k1, k2]), Multi(1, vec![k0, k1, k2, 3]), SortedMulti(2, vec![k0, k1, k2, 3]), Multi(4, vec![k0, k1, k2, 3])]);
    }
    // cell 5: what counts as a duplicate key (Pk values are compared): one point in two encodings,
    // a raw hash of a key that also occurs, the same key twice inside multi
    l.extend([and_v(v(pk(0)), pk(200)), and_v(v(pk(0)), pk(100)), and_v(v(pkh(0)), pk(100)),
        and_v(v(Check(bx(RawPkH(0)))), pk(0)), and_v(v(Check(bx(RawPkH(k0)))), pk(k0)),
        Multi(2, vec![k0, k0]), Multi(2, vec![k0, k1, k0]), MultiA(2, vec![k0, k0]), SortedMulti(1, vec![k1, k1]),
        and_v(v(pk(k0)), Multi(1, vec![k1, k1]))]);
    // cell 6: a plain xpub (num_der_paths = 1) next to multipath keys, sortedmulti with multipath keys
    l.extend([and_v(v(pk(320)), pk(300)), and_v(v(pk(300)), and_v(v(pk(320)), pk(310))), and_v(v(pk(320)), pk(321)),
        and_v(v(pk(300)), and_v(v(pk(320)), pk(301))), SortedMulti(1, vec![300, 310]), SortedMulti(2, vec![300, 320, 301]),
        SortedMultiA(1, vec![300, 310]), Multi(2, vec![320, 300, 310])]);
    // cell 6: witness items 99 / 100 / 101 (Segwitv0::SANE allows 100): 4 x multi(20 of 20) + pk's,
    // all keys distinct so that the sane duplicate-key check does not fire first
    if ctx != CtxK::Tap {
        for n_pk in [14usize, 15, 16] {
            let mut cur = pk(80 + n_pk as u32);
            for i in 0..(n_pk - 1) { cur = and_v(v(pk(80 + i as u32)), cur); }
            for g in 0..4u32 { cur = and_v(v(Multi(20, (g * 20..g * 20 + 20).collect())), cur); }
            l.push(cur);
        }
    }
    // depth and op count
    for d in [199usize, 200, 201, 210, 400, 401, 402, 403] { l.push(n_wrap(d, pk(k0))); }
    l
}

/* ------------------------------------------------------------------ API routes (cells 1, 2) */

fn api_cases(ctx: CtxK) -> Vec<Node> {
    use Node::*;
    let good: Vec<u32> = match ctx { CtxK::Tap => (200..210).collect(), _ => (0..10).collect() };
    let (k0, k1, k2) = (good[0], good[1], good[2]);
    let mut l = vec![];
    // every key kind in every key position, alone and below a checked parent
    for k in [0u32, 100, 200, 300] {
        l.extend([pk(k), pkh(k), PkK(k), PkH(k), and_v(v(pk(k)), pk(k0 + 5)), and_v(v(pkh(k)), pk(k0 + 5)),
            OrD(bx(pk(k0 + 5)), bx(pkh(k))),
            Multi(1, vec![k, k0 + 5]), Multi(2, vec![k, k0 + 5, k0 + 6]), SortedMulti(1, vec![k0 + 5, k]),
            MultiA(1, vec![k, k0 + 5]), SortedMultiA(2, vec![k0 + 5, k]),
            and_v(v(pk(k0 + 5)), Multi(1, vec![k, k0 + 6])), and_v(v(pk(k0 + 5)), MultiA(1, vec![k, k0 + 6]))]);
    }
    // three x-only keys in a bare-template multi; wrong multisig flavour
    l.extend([Multi(2, vec![200, 201, 202]), Multi(1, vec![k0, k1, k2]), MultiA(2, vec![k0, k1, k2]),
        Multi(1, vec![k0, k1, k2, k0 + 3])]);
    // locks that exist only through the public constants / unchecked constructors, and legal odd ones
    for n in [0u32, 1, 65_535, 65_536, 1 << 21, 1 << 22, (1 << 22) | 1, 0x7fff_ffff] {
        l.extend([Older(n), and_v(v(pk(k0)), Older(n)), OrD(bx(pk(k0)), bx(and_v(v(pk(k1)), Older(n)))),
            Thresh(2, vec![pk(k0), Swap(bx(pk(k1))), Swap(bx(OrI(bx(False), bx(ZeroNotEqual(bx(Older(n)))))))])]);
    }
    l.extend([True, False, and_v(v(pk(k0)), After(1)), and_v(v(pk(k0)), Hash(HK::Sha256, 0)), Check(bx(RawPkH(0))),
        OrI(bx(pk(k0)), bx(pk(k1))), and_v(v(pk(k0)), DupIf(bx(v(Older(10)))))]);
    l
}

/// one AST through the API routes: `from_ast` (top), `validate(&Ctx::CONSENSUS)` and the wrappers
fn run_api(out: &mut Out, bud: &mut Budget, ctx: CtxK, n: &Node) {
    for ctor in [false, true] {
        let route = if ctor { "ctor" } else { "checked" };
        match ctx {
            CtxK::Bare => run_api_ctx::<BareCtx>(out, bud, ctx, n, ctor, route),
            CtxK::Legacy => run_api_ctx::<Legacy>(out, bud, ctx, n, ctor, route),
            CtxK::Segwitv0 => run_api_ctx::<Segwitv0>(out, bud, ctx, n, ctor, route),
            CtxK::Tap => run_api_ctx::<Tap>(out, bud, ctx, n, ctor, route),
        }
    }
}

fn run_api_ctx<Ctx: ScriptContext>(out: &mut Out, bud: &mut Budget, ctx: CtxK, n: &Node, ctor: bool, route: &str) {
    let wire = n.wire();
    let cn = ctx.name();
    let built = guard(|| to_ms_api::<Dpk, Ctx>(n, ctor));
    let mut emit = |out: &mut Out, bud: &mut Budget, entry: &str, what: &str, v: &'static str, base_b: bool| {
        ln(out, &format!("C acceptapi {} {} {} {}", route, entry, cn, wire), v);
        if v == "ok" {
            let name = if entry == "fromast" && route == "ctor" { "fromast/ctor:Miniscript-leaf-constructors".to_string() }
                else if entry == "fromast" { "fromast/from_ast:api-checked".to_string() }
                else { format!("{}/{}:api-{}", entry, what, route) };
            judge_accept(out, bud, &name, ctx, n, &wire, base_b);
        }
    };
    let ms = match &built { Some(Ok(ms)) => ms, other => { emit(out, bud, "fromast", "build", okerr_ref(other), false); return; } };
    let base_b = ms.ty.corr.base == Base::B;
    emit(out, bud, "fromast", "build", "ok", base_b);
    emit(out, bud, "ms_consensus", "validate(Ctx::CONSENSUS)", okerr(guard(|| ms.validate(&Ctx::CONSENSUS))), base_b);
    emit(out, bud, "ms_sane", "validate(Ctx::SANE)", okerr(guard(|| ms.validate(&Ctx::SANE))), base_b);
    match ctx {
        CtxK::Segwitv0 => if let Some(Ok(m)) = guard(|| to_ms_api::<Dpk, Segwitv0>(n, ctor)) {
            emit(out, bud, "wrapper", "Wsh::new", okerr(guard(|| Wsh::new(m.clone()))), base_b);
            emit(out, bud, "wrapper", "Sh::new_wsh", okerr(guard(|| Sh::new_wsh(m.clone()))), base_b);
            emit(out, bud, "wrapper", "Descriptor::new_wsh", okerr(guard(|| Descriptor::new_wsh(m.clone()))), base_b);
            emit(out, bud, "wrapper", "Descriptor::new_sh_wsh", okerr(guard(|| Descriptor::new_sh_wsh(m.clone()))), base_b);
        },
        CtxK::Legacy => if let Some(Ok(m)) = guard(|| to_ms_api::<Dpk, Legacy>(n, ctor)) {
            emit(out, bud, "wrapper", "Sh::new", okerr(guard(|| Sh::new(m.clone()))), base_b);
            emit(out, bud, "wrapper", "Descriptor::new_sh", okerr(guard(|| Descriptor::new_sh(m.clone()))), base_b);
        },
        CtxK::Bare => if let Some(Ok(m)) = guard(|| to_ms_api::<Dpk, BareCtx>(n, ctor)) {
            emit(out, bud, "wrapper", "Bare::new", okerr(guard(|| Bare::new(m.clone()))), base_b);
            emit(out, bud, "wrapper", "Descriptor::new_bare", okerr(guard(|| Descriptor::new_bare(m.clone()))), base_b);
        },
        CtxK::Tap => if let Some(Ok(m)) = guard(|| to_ms_api::<Dpk, Tap>(n, ctor)) {
            let ik = Dpk::of(299).unwrap();
            emit(out, bud, "tr_new", "Tr::new", okerr(guard(|| Tr::new(ik.clone(), Some(TapTree::leaf(m.clone()))))), base_b);
            emit(out, bud, "tr_new", "Descriptor::new_tr", okerr(guard(|| Descriptor::new_tr(ik.clone(), Some(TapTree::leaf(m.clone()))))), base_b);
        },
    }
}

/* ------------------------------------------------------------------ new_sortedmulti */

fn sortedmulti(out: &mut Out, bud: &mut Budget) {
    // permanent regression cases for F15: uncompressed / x-only keys, 20 keys (684 bytes > 520 in sh)
    for (k, ids) in [(1usize, vec![0u32, 1]), (2, vec![0, 1, 2]), (1, vec![100, 0]), (1, vec![200, 0]), (1, (0..20).collect::<Vec<u32>>()), (1, (0..15).collect::<Vec<u32>>()), (0, vec![0, 1]), (3, vec![0, 1]), (1, (0..21).collect::<Vec<u32>>())] {
        let keys: Vec<Dpk> = ids.iter().map(|i| Dpk::of(*i).unwrap()).collect();
        let node = Node::SortedMulti(k, ids.clone());
        let wire = node.wire();
        let idstr = ids.iter().map(|i| i.to_string()).collect::<Vec<_>>().join(",");
        let th = guard(|| Threshold::<Dpk, 20>::new(k, keys.clone()));
        let th = match th { Some(Ok(t)) => Some(t), _ => None };
        let mk = |f: &dyn Fn(Threshold<Dpk, 20>) -> bool| -> &'static str {
            match &th { None => "ERR", Some(t) => match guard(|| f(t.clone())) { None => "PANIC", Some(true) => "ok", Some(false) => "ERR" } }
        };
        for (entry, ctx, v) in [
            ("sortedmulti/Wsh::new_sortedmulti", CtxK::Segwitv0, mk(&|t| Wsh::new_sortedmulti(t).is_ok())),
            ("sortedmulti/Sh::new_sortedmulti", CtxK::Legacy, mk(&|t| Sh::new_sortedmulti(t).is_ok())),
            ("sortedmulti/Sh::new_wsh_sortedmulti", CtxK::Segwitv0, mk(&|t| Sh::new_wsh_sortedmulti(t).is_ok())),
            ("sortedmulti/Descriptor::new_wsh_sortedmulti", CtxK::Segwitv0, mk(&|t| Descriptor::new_wsh_sortedmulti(t).is_ok())),
            ("sortedmulti/Descriptor::new_sh_sortedmulti", CtxK::Legacy, mk(&|t| Descriptor::new_sh_sortedmulti(t).is_ok())),
            ("sortedmulti/Descriptor::new_sh_wsh_sortedmulti", CtxK::Segwitv0, mk(&|t| Descriptor::new_sh_wsh_sortedmulti(t).is_ok())),
        ] {
            ln(out, &format!("C sortedmulti-new {} {} {} {}", ctx.name(), k, idstr, entry), v);
            if v == "ok" { judge_accept(out, bud, entry, ctx, &node, &wire, true); } else { out.count("sortedmulti-rejected"); }
        }
    }
}

/* ------------------------------------------------------------------ key-only descriptors */

fn key_only(out: &mut Out) {
    use miniscript::descriptor::{Pkh, Wpkh};
    // compressed, uncompressed, x-only, multipath xpub
    for id in [0u32, 1, 100, 101, 200, 201, 300, 310] {
        let k = Dpk::of(id).unwrap();
        let ks = key_string(id);
        let mut emit = |out: &mut Out, kind: &str, entry: &str, v: &'static str| {
            ln(out, &format!("C keyonly {} {} {}", kind, id, entry), v);
            ln(out, &format!("J keyok {} {} {} {}", entry, kind, id, v), "ok");
            if v == "PANIC" {
                // outside C12's statement (a panic is not an acceptance): observation only
                out.count("observation: constructor panics instead of returning an error");
                out.note(&format!("observation {}({})", entry, id), format!("{} with key id {} ({}) panics instead of returning an error", entry, id, key_string(id)));
            }
        };
        emit(out, "pkh", "Pkh::new", okerr(guard(|| Pkh::new(k.clone()))));
        emit(out, "pkh", "Descriptor::new_pkh", okerr(guard(|| Descriptor::new_pkh(k.clone()))));
        emit(out, "pkh", "Pkh::from_str", okerr(guard(|| Pkh::<Dpk>::from_str(&format!("pkh({})", ks)))));
        emit(out, "pkh", "Descriptor::from_str", okerr(guard(|| Descriptor::<Dpk>::from_str(&format!("pkh({})", ks)))));
        emit(out, "wpkh", "Wpkh::new", okerr(guard(|| Wpkh::new(k.clone()))));
        emit(out, "wpkh", "Descriptor::new_wpkh", okerr(guard(|| Descriptor::new_wpkh(k.clone()))));
        emit(out, "wpkh", "Wpkh::from_str", okerr(guard(|| Wpkh::<Dpk>::from_str(&format!("wpkh({})", ks)))));
        emit(out, "wpkh", "Descriptor::from_str", okerr(guard(|| Descriptor::<Dpk>::from_str(&format!("wpkh({})", ks)))));
        emit(out, "sh_wpkh", "Sh::new_wpkh", okerr(guard(|| Sh::new_wpkh(k.clone()))));
        emit(out, "sh_wpkh", "Descriptor::new_sh_wpkh", okerr(guard(|| Descriptor::new_sh_wpkh(k.clone()))));
        emit(out, "sh_wpkh", "Sh::from_str", okerr(guard(|| Sh::<Dpk>::from_str(&format!("sh(wpkh({}))", ks)))));
        emit(out, "sh_wpkh", "Descriptor::from_str", okerr(guard(|| Descriptor::<Dpk>::from_str(&format!("sh(wpkh({}))", ks)))));
        emit(out, "pk", "Descriptor::new_pk", match guard(|| Descriptor::new_pk(k.clone())) { Some(_) => "ok", None => "PANIC" });
        emit(out, "pk", "Bare::from_str", okerr(guard(|| Bare::<Dpk>::from_str(&format!("pk({})", ks)))));
        emit(out, "pk", "Descriptor::from_str", okerr(guard(|| Descriptor::<Dpk>::from_str(&format!("pk({})", ks)))));
        emit(out, "tr", "Tr::new", okerr(guard(|| Tr::new(k.clone(), None))));
        emit(out, "tr", "Descriptor::new_tr", okerr(guard(|| Descriptor::new_tr(k.clone(), None))));
        emit(out, "tr", "Tr::from_str", okerr(guard(|| Tr::<Dpk>::from_str(&format!("tr({})", ks)))));
        emit(out, "tr", "Descriptor::from_str", okerr(guard(|| Descriptor::<Dpk>::from_str(&format!("tr({})", ks)))));
    }
}

/* ------------------------------------------------------------------ taproot trees */

#[derive(Clone)]
enum TT { Leaf(Node), Br(Box<TT>, Box<TT>) }
impl TT {
    fn wire(&self) -> String { match self { TT::Leaf(n) => n.wire(), TT::Br(l, r) => format!("{{{},{}}}", l.wire(), r.wire()) } }
    fn text(&self) -> String { match self { TT::Leaf(n) => ms_text(n), TT::Br(l, r) => format!("{{{},{}}}", l.text(), r.text()) } }
    /// bottom-up through the public API; None = a leaf cannot be built, Some(Err) = depth error
    fn build(&self) -> Option<Result<TapTree<Dpk>, ()>> {
        // iterative post-order (trees are up to 129 deep)
        enum W<'a> { Visit(&'a TT), Combine }
        let mut work = vec![W::Visit(self)];
        let mut stack: Vec<TapTree<Dpk>> = vec![];
        while let Some(w) = work.pop() {
            match w {
                W::Visit(TT::Leaf(n)) => { let ms = to_ms::<Dpk, Tap>(n).ok()?; stack.push(TapTree::leaf(ms)); }
                W::Visit(TT::Br(l, r)) => { work.push(W::Combine); work.push(W::Visit(r)); work.push(W::Visit(l)); }
                W::Combine => { let r = stack.pop().unwrap(); let l = stack.pop().unwrap(); match TapTree::combine(l, r) { Ok(t) => stack.push(t), Err(_) => return Some(Err(())) } }
            }
        }
        Some(Ok(stack.pop().unwrap()))
    }
}

fn tr_trees(out: &mut Out, thorough: bool, rng: &mut Rng) {
    use Node::*;
    let good: Vec<Node> = vec![pk(200), pk(201), and_v(v(pk(202)), Older(10)), MultiA(1, vec![203, 204]), and_v(v(pk(205)), Hash(HK::Sha256, 0)),
        OrD(bx(pk(206)), bx(pk(207))), pk(0) /* compressed key = its x-only key */];
    let bad: Vec<Node> = vec![PkK(200), v(pk(200)), pk(100), pkh(100), Multi(1, vec![200, 201]), and_v(v(pk(200)), Older(0)),
        and_v(v(pk(200)), pk(200)) /* duplicate keys: SANE only */, True /* sigless: SANE only */, Check(bx(RawPkH(200))) /* raw pkh: SANE only */];
    let ik = Dpk::of(299).unwrap();
    let mut trees: Vec<TT> = vec![];
    let leaf = |rng: &mut Rng, p_bad: usize| -> TT { if rng.below(100) < p_bad { TT::Leaf(bad[rng.below(bad.len())].clone()) } else { TT::Leaf(good[rng.below(good.len())].clone()) } };
    fn rand_shape(rng: &mut Rng, n: usize, leaf: &dyn Fn(&mut Rng) -> TT) -> TT {
        if n == 1 { return leaf(rng); }
        let l = 1 + rng.below(n - 1);
        TT::Br(Box::new(rand_shape(rng, l, leaf)), Box::new(rand_shape(rng, n - l, leaf)))
    }
    let n_rand = if thorough { 400 } else { 90 };
    for i in 0..n_rand {
        let n = 2 + rng.below(7);
        let p_bad = if i % 3 == 0 { 0 } else { 18 };
        trees.push(rand_shape(rng, n, &|r: &mut Rng| leaf(r, p_bad)));
    }
    // every bad leaf once in a two-leaf tree, on either side
    for b in &bad { trees.push(TT::Br(Box::new(TT::Leaf(good[0].clone())), Box::new(TT::Leaf(b.clone())))); trees.push(TT::Br(Box::new(TT::Leaf(b.clone())), Box::new(TT::Leaf(good[1].clone())))); }
    // caterpillars around the depth limit, both directions, and one with a bad deepest leaf
    for d in [126usize, 127, 128, 129, 130] {
        for left in [true, false] {
            let mut t = TT::Leaf(pk(200 + (d % 50) as u32));
            for i in 0..d { let l = TT::Leaf(pk(200 + (i % 90) as u32)); t = if left { TT::Br(Box::new(t), Box::new(l)) } else { TT::Br(Box::new(l), Box::new(t)) }; }
            trees.push(t);
        }
    }
    { let mut t = TT::Leaf(PkK(200)); for i in 0..128 { t = TT::Br(Box::new(TT::Leaf(pk(200 + (i % 90) as u32))), Box::new(t)); } trees.push(t); }
    // balanced, 64 leaves
    { let mut level: Vec<TT> = (0..64).map(|i| TT::Leaf(pk(200 + i as u32))).collect();
      while level.len() > 1 { level = level.chunks(2).map(|c| TT::Br(Box::new(c[0].clone()), Box::new(c[1].clone()))).collect(); }
      trees.push(level.pop().unwrap()); }
    out.note("tr_trees", trees.len().to_string());
    for t in &trees {
        let w = t.wire();
        let mut emit = |out: &mut Out, entry: &str, v: &'static str| {
            ln(out, &format!("C traccept {} {}", entry, w), v);
            if v == "ok" { ln(out, &format!("J trok {} {}", entry, w), "ok"); }
        };
        match guard(|| t.build()) {
            None => emit(out, "tr_new/TapTree::combine+Tr::new", "PANIC"),
            Some(None) => out.count("tr-tree-leaf-not-constructible"),
            Some(Some(Err(()))) => { emit(out, "tr_new/TapTree::combine+Tr::new", "ERR"); out.count("tr-tree-combine-depth-error"); }
            Some(Some(Ok(tree))) => {
                emit(out, "tr_new/TapTree::combine+Tr::new", okerr(guard(|| Tr::new(ik.clone(), Some(tree.clone())))));
                emit(out, "tr_new/Descriptor::new_tr", okerr(guard(|| Descriptor::new_tr(ik.clone(), Some(tree.clone())))));
            }
        }
        let s = format!("tr({},{})", key_string(299), t.text());
        emit(out, "tr_str/Tr::from_str", okerr(guard(|| Tr::<Dpk>::from_str(&s))));
        emit(out, "desc/Descriptor::from_str", okerr(guard(|| Descriptor::<Dpk>::from_str(&s))));
    }
}

/* ------------------------------------------------------------------ run */

pub fn run(out: &mut Out, thorough: bool, seed: u64) {
    let mut rng = Rng(seed ^ 0xC12C12);
    emit_defs(out);
    lattice(out, thorough, &mut rng);
    let mut bud = Budget { left: BTreeMap::new(), per: 8 };
    let mut total = 0usize;
    for ctx in CtxK::ALL {
        // stress list: everything, all parameter variants
        let st = stress(ctx);
        out.note(&format!("stress_{}", ctx.name()), st.len().to_string());
        for n in &st {
            let big = n.size() > 60;
            run_ast(out, &mut bud, ctx, n, &Opts { full_params: !big, strings: true, switches: true, routes: true }, &mut rng);
        }
        // the shared dimension corpus (all hash kinds, both lock units, lock pairs in both orders,
        // thresholds with lock children, surplus multisig, raw hashes, uncompressed keys), every tier
        let corpus = ast::dimension_corpus(ctx);
        out.note(&format!("corpus_{}", ctx.name()), corpus.len().to_string());
        for n in &corpus {
            run_ast(out, &mut bud, ctx, n, &Opts { full_params: true, strings: true, switches: true, routes: true }, &mut rng);
            run_api(out, &mut bud, ctx, n);
        }
        // the FULL set of wrapper towers (the dimension corpus carries a thin slice only) through the
        // validate / switch / limit streams (no strings, no routes: those see the thin slice)
        let towers = ast::wrapper_towers(ctx);
        out.note(&format!("wrapper_towers_{}", ctx.name()), towers.len().to_string());
        for n in &towers {
            run_ast(out, &mut bud, ctx, n, &Opts { full_params: false, strings: false, switches: true, routes: false }, &mut rng);
        }
        // R2 / R5: one-defect scripts per switch, combinators over casts
        let sc = switch_and_cast_corpus(ctx);
        out.note(&format!("switch_cast_corpus_{}", ctx.name()), sc.len().to_string());
        for n in &sc {
            run_ast(out, &mut bud, ctx, n, &Opts { full_params: true, strings: true, switches: true, routes: true }, &mut rng);
            run_api(out, &mut bud, ctx, n);
        }
        // public-API routes that bypass from_consensus / from_ast
        let api = api_cases(ctx);
        out.note(&format!("api_cases_{}", ctx.name()), api.len().to_string());
        for n in &api { run_api(out, &mut bud, ctx, n); }
        for n in st.iter() { run_api(out, &mut bud, ctx, n); }
        // typed enumeration, all base types
        let atoms = ast::default_atoms(ctx, !thorough);
        let (depth, quota) = if thorough { (4, 30) } else { (3, 8) };
        let en = ast::enumerate(ctx, &atoms, depth, quota, &mut rng);
        out.note(&format!("enumerated_{}", ctx.name()), en.len().to_string());
        for (i, t) in en.iter().enumerate() {
            total += 1;
            t.node.count_frags(out);
            let full = thorough || i % 5 == 0;
            run_ast(out, &mut bud, ctx, &t.node, &Opts { full_params: full, strings: true, switches: true, routes: i % 5 == 0 }, &mut rng);
            if i % 7 == 0 { run_api(out, &mut bud, ctx, &t.node); }
        }
    }
    sortedmulti(out, &mut bud);
    key_only(out);
    tr_trees(out, thorough, &mut rng);
    raw_scripts(out, &mut bud);
    compiler_outputs(out, &mut bud);
    out.note("domain", format!("{} enumerated ASTs (all base types, 4 contexts, depth 3) + stress lists + dimension corpus (incl. wrapper towers) + one-defect-per-switch and cast-tower corpus, each through from_ast / validate (MAX-side and SANE-side switch flips, limits at the own figures, real-length size judge) / strings / decode / wrappers / API routes / translate_pk / clone; key-only descriptors; multi-leaf tr; hand-written raw scripts; compiler outputs; 2^15 switch vectors", total));
    out.note("distinct_nontrivial", total.to_string());
}

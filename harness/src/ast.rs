//! Neutral AST exchanged with the Lean side, conversion to real `Miniscript<Pk, Ctx>` values,
//! atom tables (keys, hashes) and generators (bounded-exhaustive and random, both typed by
//! asking the real library).
use std::sync::Arc;

use miniscript::bitcoin::hashes::{hash160, ripemd160, sha256, Hash};
use miniscript::bitcoin::secp256k1::{self, Secp256k1, SecretKey, XOnlyPublicKey};
use miniscript::bitcoin::PublicKey;
use miniscript::miniscript::types::{Base, Input};
use miniscript::{
    hash256, AbsLockTime, BareCtx, Legacy, Miniscript, MiniscriptKey, RelLockTime, ScriptContext,
    Segwitv0, Tap, Terminal, Threshold,
};

use crate::common::{Out, Rng};

#[derive(Clone, Copy, Debug, PartialEq, Eq, Hash, PartialOrd, Ord)]
pub enum HK { Sha256, Hash256, Ripemd160, Hash160 }
impl HK {
    pub fn name(self) -> &'static str {
        match self { HK::Sha256 => "sha256", HK::Hash256 => "hash256", HK::Ripemd160 => "ripemd160", HK::Hash160 => "hash160" }
    }
    pub const ALL: [HK; 4] = [HK::Sha256, HK::Hash256, HK::Ripemd160, HK::Hash160];
}

#[derive(Clone, Debug, PartialEq, Eq, Hash, PartialOrd, Ord)]
pub enum Node {
    True, False,
    PkK(u32), PkH(u32), RawPkH(u32),
    After(u32), Older(u32),
    Hash(HK, u32),
    Alt(Box<Node>), Swap(Box<Node>), Check(Box<Node>), DupIf(Box<Node>), Verify(Box<Node>),
    NonZero(Box<Node>), ZeroNotEqual(Box<Node>),
    AndV(Box<Node>, Box<Node>), AndB(Box<Node>, Box<Node>), AndOr(Box<Node>, Box<Node>, Box<Node>),
    OrB(Box<Node>, Box<Node>), OrD(Box<Node>, Box<Node>), OrC(Box<Node>, Box<Node>), OrI(Box<Node>, Box<Node>),
    Thresh(usize, Vec<Node>),
    Multi(usize, Vec<u32>), SortedMulti(usize, Vec<u32>), MultiA(usize, Vec<u32>), SortedMultiA(usize, Vec<u32>),
}

impl Node {
    /// wire form (no spaces)
    pub fn wire(&self) -> String {
        use Node::*;
        fn ks(v: &[u32]) -> String { v.iter().map(|k| k.to_string()).collect::<Vec<_>>().join(",") }
        match self {
            True => "1".into(), False => "0".into(),
            PkK(k) => format!("pk_k({})", k), PkH(k) => format!("pk_h({})", k),
            RawPkH(h) => format!("raw_pkh({})", h),
            After(n) => format!("after({})", n), Older(n) => format!("older({})", n),
            Hash(kind, h) => format!("{}({})", kind.name(), h),
            Alt(x) => format!("a({})", x.wire()), Swap(x) => format!("s({})", x.wire()),
            Check(x) => format!("c({})", x.wire()), DupIf(x) => format!("d({})", x.wire()),
            Verify(x) => format!("v({})", x.wire()), NonZero(x) => format!("j({})", x.wire()),
            ZeroNotEqual(x) => format!("n({})", x.wire()),
            AndV(a, b) => format!("and_v({},{})", a.wire(), b.wire()),
            AndB(a, b) => format!("and_b({},{})", a.wire(), b.wire()),
            AndOr(a, b, c) => format!("andor({},{},{})", a.wire(), b.wire(), c.wire()),
            OrB(a, b) => format!("or_b({},{})", a.wire(), b.wire()),
            OrD(a, b) => format!("or_d({},{})", a.wire(), b.wire()),
            OrC(a, b) => format!("or_c({},{})", a.wire(), b.wire()),
            OrI(a, b) => format!("or_i({},{})", a.wire(), b.wire()),
            Thresh(k, xs) => format!("thresh({},{})", k, xs.iter().map(|x| x.wire()).collect::<Vec<_>>().join(",")),
            Multi(k, v) => format!("multi({},{})", k, ks(v)),
            SortedMulti(k, v) => format!("sortedmulti({},{})", k, ks(v)),
            MultiA(k, v) => format!("multi_a({},{})", k, ks(v)),
            SortedMultiA(k, v) => format!("sortedmulti_a({},{})", k, ks(v)),
        }
    }
    pub fn size(&self) -> usize {
        use Node::*;
        match self {
            Alt(x) | Swap(x) | Check(x) | DupIf(x) | Verify(x) | NonZero(x) | ZeroNotEqual(x) => 1 + x.size(),
            AndV(a, b) | AndB(a, b) | OrB(a, b) | OrD(a, b) | OrC(a, b) | OrI(a, b) => 1 + a.size() + b.size(),
            AndOr(a, b, c) => 1 + a.size() + b.size() + c.size(),
            Thresh(_, xs) => 1 + xs.iter().map(|x| x.size()).sum::<usize>(),
            _ => 1,
        }
    }
    pub fn frag_name(&self) -> &'static str {
        use Node::*;
        match self {
            True => "1", False => "0", PkK(_) => "pk_k", PkH(_) => "pk_h", RawPkH(_) => "raw_pkh",
            After(_) => "after", Older(_) => "older", Hash(k, _) => k.name(),
            Alt(_) => "a", Swap(_) => "s", Check(_) => "c", DupIf(_) => "d", Verify(_) => "v",
            NonZero(_) => "j", ZeroNotEqual(_) => "n", AndV(..) => "and_v", AndB(..) => "and_b",
            AndOr(..) => "andor", OrB(..) => "or_b", OrD(..) => "or_d", OrC(..) => "or_c", OrI(..) => "or_i",
            Thresh(..) => "thresh", Multi(..) => "multi", SortedMulti(..) => "sortedmulti",
            MultiA(..) => "multi_a", SortedMultiA(..) => "sortedmulti_a",
        }
    }
    pub fn count_frags(&self, out: &mut Out) {
        use Node::*;
        out.count(&format!("frag {}", self.frag_name()));
        match self {
            Alt(x) | Swap(x) | Check(x) | DupIf(x) | Verify(x) | NonZero(x) | ZeroNotEqual(x) => x.count_frags(out),
            AndV(a, b) | AndB(a, b) | OrB(a, b) | OrD(a, b) | OrC(a, b) | OrI(a, b) => { a.count_frags(out); b.count_frags(out) }
            AndOr(a, b, c) => { a.count_frags(out); b.count_frags(out); c.count_frags(out) }
            Thresh(_, xs) => for x in xs { x.count_frags(out) },
            _ => {}
        }
    }
    /// key ids appearing (with multiplicity, pre-order)
    pub fn keys(&self, acc: &mut Vec<u32>) {
        use Node::*;
        match self {
            PkK(k) | PkH(k) => acc.push(*k),
            Multi(_, v) | SortedMulti(_, v) | MultiA(_, v) | SortedMultiA(_, v) => acc.extend(v.iter().cloned()),
            Alt(x) | Swap(x) | Check(x) | DupIf(x) | Verify(x) | NonZero(x) | ZeroNotEqual(x) => x.keys(acc),
            AndV(a, b) | AndB(a, b) | OrB(a, b) | OrD(a, b) | OrC(a, b) | OrI(a, b) => { a.keys(acc); b.keys(acc) }
            AndOr(a, b, c) => { a.keys(acc); b.keys(acc); c.keys(acc) }
            Thresh(_, xs) => for x in xs { x.keys(acc) },
            _ => {}
        }
    }
    pub fn has_rawpkh(&self) -> bool { let mut v = vec![]; self.rawpkhs(&mut v); !v.is_empty() }
    /// raw key-hash atoms appearing
    pub fn rawpkhs(&self, acc: &mut Vec<u32>) {
        use Node::*;
        match self {
            RawPkH(h) => acc.push(*h),
            Alt(x) | Swap(x) | Check(x) | DupIf(x) | Verify(x) | NonZero(x) | ZeroNotEqual(x) => x.rawpkhs(acc),
            AndV(a, b) | AndB(a, b) | OrB(a, b) | OrD(a, b) | OrC(a, b) | OrI(a, b) => { a.rawpkhs(acc); b.rawpkhs(acc) }
            AndOr(a, b, c) => { a.rawpkhs(acc); b.rawpkhs(acc); c.rawpkhs(acc) }
            Thresh(_, xs) => for x in xs { x.rawpkhs(acc) },
            _ => {}
        }
    }
    pub fn hashes(&self, acc: &mut Vec<(HK, u32)>) {
        use Node::*;
        match self {
            Hash(k, h) => acc.push((*k, *h)),
            Alt(x) | Swap(x) | Check(x) | DupIf(x) | Verify(x) | NonZero(x) | ZeroNotEqual(x) => x.hashes(acc),
            AndV(a, b) | AndB(a, b) | OrB(a, b) | OrD(a, b) | OrC(a, b) | OrI(a, b) => { a.hashes(acc); b.hashes(acc) }
            AndOr(a, b, c) => { a.hashes(acc); b.hashes(acc); c.hashes(acc) }
            Thresh(_, xs) => for x in xs { x.hashes(acc) },
            _ => {}
        }
    }
    pub fn locks(&self, after: &mut Vec<u32>, older: &mut Vec<u32>) {
        use Node::*;
        match self {
            After(n) => after.push(*n), Older(n) => older.push(*n),
            Alt(x) | Swap(x) | Check(x) | DupIf(x) | Verify(x) | NonZero(x) | ZeroNotEqual(x) => x.locks(after, older),
            AndV(a, b) | AndB(a, b) | OrB(a, b) | OrD(a, b) | OrC(a, b) | OrI(a, b) => { a.locks(after, older); b.locks(after, older) }
            AndOr(a, b, c) => { a.locks(after, older); b.locks(after, older); c.locks(after, older) }
            Thresh(_, xs) => for x in xs { x.locks(after, older) },
            _ => {}
        }
    }
}

/* ---------------------------------------------------------------- atoms */

#[derive(Clone, Copy, Debug, PartialEq, Eq, Hash, PartialOrd, Ord)]
pub enum CtxK { Bare, Legacy, Segwitv0, Tap }
impl CtxK {
    pub fn name(self) -> &'static str {
        match self { CtxK::Bare => "bare", CtxK::Legacy => "legacy", CtxK::Segwitv0 => "segwitv0", CtxK::Tap => "tap" }
    }
    pub const ALL: [CtxK; 4] = [CtxK::Bare, CtxK::Legacy, CtxK::Segwitv0, CtxK::Tap];
}

pub fn secret(i: u32) -> SecretKey {
    // deterministic, valid scalars
    let mut b = [0u8; 32];
    b[31] = (i % 200 + 1) as u8;
    b[30] = 0x5a;
    b[0] = 0x01;
    SecretKey::from_slice(&b).unwrap()
}

/// key id ↦ real key.  0..99 compressed, 100..199 uncompressed, 200..299 x-only (same secret
/// as id mod 100).
fn base_keys() -> &'static Vec<secp256k1::PublicKey> {
    static T: std::sync::OnceLock<Vec<secp256k1::PublicKey>> = std::sync::OnceLock::new();
    T.get_or_init(|| {
        let secp = Secp256k1::new();
        (0..100).map(|i| secp256k1::PublicKey::from_secret_key(&secp, &secret(i))).collect()
    })
}
pub fn full_key(id: u32) -> PublicKey {
    PublicKey { inner: base_keys()[(id % 100) as usize], compressed: !(100..200).contains(&id) }
}
pub fn xonly_key(id: u32) -> XOnlyPublicKey { base_keys()[(id % 100) as usize].x_only_public_key().0 }

pub fn preimage(h: u32) -> [u8; 32] {
    let mut p = [0u8; 32];
    for (i, b) in p.iter_mut().enumerate() { *b = (h as u8).wrapping_mul(31).wrapping_add(i as u8 ^ 0xa5); }
    p
}
pub fn hash_value(kind: HK, h: u32) -> Vec<u8> {
    let p = preimage(h);
    match kind {
        HK::Sha256 => sha256::Hash::hash(&p).to_byte_array().to_vec(),
        HK::Hash256 => hash256::Hash::hash(&p).to_byte_array().to_vec(),
        HK::Ripemd160 => ripemd160::Hash::hash(&p).to_byte_array().to_vec(),
        HK::Hash160 => hash160::Hash::hash(&p).to_byte_array().to_vec(),
    }
}
/// raw pkh atom h ↦ hash160 of compressed key h (so that a public key for it exists)
/// raw pkh atom: hash160 of the serialisation of key `h` (compressed for h < 200, x-only above)
pub fn raw_pkh(h: u32) -> hash160::Hash {
    if h >= 200 { hash160::Hash::hash(&xonly_key(h).serialize()) } else { hash160::Hash::hash(&full_key(h).to_bytes()) }
}

pub fn hex(b: &[u8]) -> String {
    if b.is_empty() { return "-".into(); }
    let mut s = String::with_capacity(b.len() * 2);
    for x in b { s.push_str(&format!("{:02x}", x)); }
    s
}

/// sort column of a `D key` line: BIP67 order on the compressed encoding; the two encodings of
/// one point are told apart by a trailing flag byte (compressed first), as they are pushed
/// differently
pub fn bip67_sort(k: &miniscript::bitcoin::PublicKey) -> Vec<u8> {
    let mut sort = k.inner.serialize().to_vec();
    sort.push(if k.compressed { 0 } else { 1 });
    sort
}

/// `D` lines: atom tables for the driver.
pub fn emit_defs(out: &mut Out) {
    for id in (0..10).chain(100..104) {
        let k = full_key(id);
        let ser = k.to_bytes();
        let sort = bip67_sort(&k);
        let pkh = hash160::Hash::hash(&ser);
        out.line(&format!("D key {} {} {} {}", id, hex(&ser), hex(&sort), hex(pkh.as_byte_array())), "ok");
    }
    for id in 200..210 {
        let k = xonly_key(id);
        let ser = k.serialize();
        let pkh = hash160::Hash::hash(&ser);
        out.line(&format!("D key {} {} {} {}", id, hex(&ser), hex(&ser), hex(pkh.as_byte_array())), "ok");
    }
    for kind in HK::ALL {
        for h in 0..4 {
            out.line(&format!("D hash {} {} {} {}", kind.name(), h, hex(&hash_value(kind, h)), hex(&preimage(h))), "ok");
        }
    }
    for h in (0..4).chain(100..104).chain(200..204) {
        out.line(&format!("D rawpkh {} {}", h, hex(raw_pkh(h).as_byte_array())), "ok");
    }
}

/* ------------------------------------------------------ conversion to real Miniscript */

pub trait KeyOf: MiniscriptKey<Sha256 = sha256::Hash, Hash256 = hash256::Hash, Ripemd160 = ripemd160::Hash, Hash160 = hash160::Hash>
    + miniscript::ToPublicKey
{
    fn of(id: u32) -> Self;
}
impl KeyOf for PublicKey { fn of(id: u32) -> Self { full_key(id) } }
impl KeyOf for XOnlyPublicKey { fn of(id: u32) -> Self { xonly_key(id) } }

pub type MsErr = String;

pub fn to_ms<Pk: KeyOf, Ctx: ScriptContext>(n: &Node) -> Result<Miniscript<Pk, Ctx>, MsErr> {
    use Node::*;
    let sub = |x: &Node| -> Result<Arc<Miniscript<Pk, Ctx>>, MsErr> { Ok(Arc::new(to_ms::<Pk, Ctx>(x)?)) };
    // own prefix for type errors (callers tell them from context / limit rejections): taken from the
    // variant, not from the wording of the library's message
    let e = |e: miniscript::Error| match e { miniscript::Error::TypeCheck(_) => format!("typecheck: {}", e), other => format!("rejected: {}", other) };
    let thr = |k: usize, v: &Vec<u32>| -> Result<Vec<Pk>, MsErr> { let _ = k; Ok(v.iter().map(|i| Pk::of(*i)).collect()) };
    let t: Terminal<Pk, Ctx> = match n {
        True => Terminal::True,
        False => Terminal::False,
        PkK(k) => Terminal::PkK(Pk::of(*k)),
        PkH(k) => Terminal::PkH(Pk::of(*k)),
        RawPkH(h) => Terminal::RawPkH(raw_pkh(*h)),
        After(n) => Terminal::After(AbsLockTime::from_consensus(*n).map_err(|e| e.to_string())?),
        Older(n) => Terminal::Older(RelLockTime::from_consensus(*n).map_err(|e| e.to_string())?),
        Hash(HK::Sha256, h) => Terminal::Sha256(sha256::Hash::from_slice(&hash_value(HK::Sha256, *h)).unwrap()),
        Hash(HK::Hash256, h) => Terminal::Hash256(hash256::Hash::from_slice(&hash_value(HK::Hash256, *h)).unwrap()),
        Hash(HK::Ripemd160, h) => Terminal::Ripemd160(ripemd160::Hash::from_slice(&hash_value(HK::Ripemd160, *h)).unwrap()),
        Hash(HK::Hash160, h) => Terminal::Hash160(hash160::Hash::from_slice(&hash_value(HK::Hash160, *h)).unwrap()),
        Alt(x) => Terminal::Alt(sub(x)?),
        Swap(x) => Terminal::Swap(sub(x)?),
        Check(x) => Terminal::Check(sub(x)?),
        DupIf(x) => Terminal::DupIf(sub(x)?),
        Verify(x) => Terminal::Verify(sub(x)?),
        NonZero(x) => Terminal::NonZero(sub(x)?),
        ZeroNotEqual(x) => Terminal::ZeroNotEqual(sub(x)?),
        AndV(a, b) => Terminal::AndV(sub(a)?, sub(b)?),
        AndB(a, b) => Terminal::AndB(sub(a)?, sub(b)?),
        AndOr(a, b, c) => Terminal::AndOr(sub(a)?, sub(b)?, sub(c)?),
        OrB(a, b) => Terminal::OrB(sub(a)?, sub(b)?),
        OrD(a, b) => Terminal::OrD(sub(a)?, sub(b)?),
        OrC(a, b) => Terminal::OrC(sub(a)?, sub(b)?),
        OrI(a, b) => Terminal::OrI(sub(a)?, sub(b)?),
        Thresh(k, xs) => {
            let mut v = Vec::with_capacity(xs.len());
            for x in xs { v.push(sub(x)?); }
            Terminal::Thresh(Threshold::new(*k, v).map_err(|e| e.to_string())?)
        }
        Multi(k, v) => Terminal::Multi(Threshold::new(*k, thr(*k, v)?).map_err(|e| e.to_string())?),
        SortedMulti(k, v) => Terminal::SortedMulti(Threshold::new(*k, thr(*k, v)?).map_err(|e| e.to_string())?),
        MultiA(k, v) => Terminal::MultiA(Threshold::new(*k, thr(*k, v)?).map_err(|e| e.to_string())?),
        SortedMultiA(k, v) => Terminal::SortedMultiA(Threshold::new(*k, thr(*k, v)?).map_err(|e| e.to_string())?),
    };
    Miniscript::from_ast(t).map_err(e)
}

/// Run `$body` with type aliases `Pk`/`Ctx` bound according to the runtime context.
#[macro_export]
macro_rules! with_ctx {
    ($ctx:expr, $f:ident ( $($arg:expr),* )) => {
        match $ctx {
            $crate::ast::CtxK::Bare => $f::<miniscript::bitcoin::PublicKey, miniscript::BareCtx>($($arg),*),
            $crate::ast::CtxK::Legacy => $f::<miniscript::bitcoin::PublicKey, miniscript::Legacy>($($arg),*),
            $crate::ast::CtxK::Segwitv0 => $f::<miniscript::bitcoin::PublicKey, miniscript::Segwitv0>($($arg),*),
            $crate::ast::CtxK::Tap => $f::<miniscript::bitcoin::secp256k1::XOnlyPublicKey, miniscript::Tap>($($arg),*),
        }
    };
}

/// Designated fragments for the input classes that the quota enumeration over the small quick-tier
/// atoms does not reach (each was the hiding place of a seeded change or of an audit finding):
/// uncompressed keys in every key position, one point in both encodings, all hash kinds, both lock
/// units, two DISTINCT locks of one unit on one path, thresholds with lock children, multisig
/// with surplus signatures, one-child thresholds, raw key hashes (incl. of uncompressed keys).
/// All are accepted by `from_ast` in `ctx` (callers filter by `to_ms` anyway).
pub fn dimension_corpus(ctx: CtxK) -> Vec<Node> {
    use Node::*;
    let tap = ctx == CtxK::Tap;
    let b = if tap { 200 } else { 0 };
    let bx = |n: Node| Box::new(n);
    let pk = |i: u32| Check(bx(PkK(b + i)));
    let pkh = |i: u32| Check(bx(PkH(b + i)));
    let v = |n: Node| Verify(bx(n));
    let mut c: Vec<Node> = vec![];
    // hashes: all four kinds, satisfied and dissatisfied positions
    for (i, k) in HK::ALL.iter().enumerate() {
        c.push(AndV(bx(v(pk(0))), bx(Hash(*k, i as u32))));
        c.push(OrD(bx(pk(0)), bx(AndV(bx(v(pk(1))), bx(Hash(*k, i as u32))))));
        c.push(AndB(bx(pk(0)), bx(Alt(bx(Hash(*k, i as u32))))));
        c.push(Thresh(2, vec![pk(0), Swap(bx(pk(1))), Alt(bx(Hash(*k, i as u32)))]));
    }
    // both lock units; two distinct locks of one unit on one path, both orders
    for (x, y) in [(100u32, 200u32), (200, 100), (500_000_001, 500_000_100), (500_000_100, 500_000_001)] {
        c.push(AndV(bx(v(pk(0))), bx(AndV(bx(v(After(x))), bx(After(y))))));
        c.push(AndV(bx(v(After(x))), bx(AndV(bx(v(pk(0))), bx(After(y))))));
    }
    for (x, y) in [(10u32, 20u32), (20, 10), (4_194_305, 4_194_400), (4_194_400, 4_194_305), (65_546, 20)] {
        c.push(AndV(bx(v(pk(0))), bx(AndV(bx(v(Older(x))), bx(Older(y))))));
        c.push(AndB(bx(AndV(bx(v(pk(0))), bx(Older(x)))), bx(Alt(bx(AndV(bx(v(pk(1))), bx(Older(y))))))));
    }
    c.push(OrD(bx(pk(0)), bx(AndV(bx(v(pk(1))), bx(After(500_000_001))))));
    c.push(OrD(bx(pk(0)), bx(AndV(bx(v(pk(1))), bx(Older(4_194_305))))));
    c.push(OrI(bx(AndV(bx(v(pk(0))), bx(After(100)))), bx(AndV(bx(v(pk(1))), bx(After(500_000_001))))));
    // thresholds with lock children (sane shapes: s:l:n:after / older)
    let sln = |n: Node| Swap(bx(OrI(bx(False), bx(ZeroNotEqual(bx(n))))));
    c.push(Thresh(2, vec![pk(0), Swap(bx(pk(1))), sln(After(100))]));
    c.push(Thresh(2, vec![pk(0), Swap(bx(pk(1))), sln(Older(10))]));
    c.push(Thresh(2, vec![pk(0), Swap(bx(pk(1))), sln(Older(10)), sln(After(200))]));
    c.push(Thresh(3, vec![pk(0), sln(After(100)), sln(After(200))]));
    c.push(Thresh(1, vec![pk(0)]));
    c.push(Thresh(1, vec![AndV(bx(v(pk(0))), bx(Older(10)))]));
    // multisig with surplus signatures / wide
    let ks = |v: &[u32]| v.iter().map(|i| b + i).collect::<Vec<u32>>();
    if tap {
        c.push(MultiA(2, ks(&[0, 1, 2, 3, 4])));
        c.push(MultiA(4, ks(&[0, 1, 2, 3])));
        c.push(SortedMultiA(3, ks(&[9, 8, 1, 0, 5])));
    } else {
        c.push(Multi(2, ks(&[0, 1, 2, 3, 4])));
        c.push(Multi(4, ks(&[0, 1, 2, 3])));
        c.push(SortedMulti(3, ks(&[9, 8, 1, 0, 5])));
    }
    // raw key hashes
    let rp = |h: u32| Check(bx(RawPkH(h)));
    c.push(rp(b));
    c.push(OrD(bx(rp(b)), bx(pk(1))));
    c.push(AndV(bx(v(rp(b))), bx(pk(1))));
    // uncompressed keys (legal in Bare / Legacy only; elsewhere from_ast refuses them)
    if matches!(ctx, CtxK::Bare | CtxK::Legacy) {
        let upk = |i: u32| Check(bx(PkK(100 + i)));
        let upkh = |i: u32| Check(bx(PkH(100 + i)));
        c.push(upk(0));
        c.push(upkh(0));
        c.push(AndV(bx(v(pk(0))), bx(upk(1))));
        c.push(OrB(bx(upkh(0)), bx(Alt(bx(pk(1))))));       // pk_h dissatisfied: 65-byte key pushed
        c.push(OrD(bx(upk(0)), bx(pk(0))));                   // one point in both encodings
        c.push(Multi(1, vec![100, 0, 101]));
        c.push(Multi(2, vec![100, 1, 101, 2]));
        c.push(SortedMulti(2, vec![3, 101, 2]));
        c.push(SortedMulti(1, vec![0, 100]));
        c.push(Thresh(2, vec![upk(0), Swap(bx(pkh(1))), Swap(bx(upkh(2)))]));
        c.push(rp(100));
        c.push(OrD(bx(rp(100)), bx(pk(1))));
        c.push(AndV(bx(v(rp(100))), bx(pk(0))));
    }
    let _ = pkh;
    c.extend(wrapper_towers_thin(ctx));
    c
}

fn base_of_node<Pk: KeyOf, Ctx: ScriptContext>(n: &Node) -> Option<miniscript::miniscript::types::Base> {
    to_ms::<Pk, Ctx>(n).ok().map(|m| m.ty.corr.base)
}

/// Every tower of two or three wrappers (a s c d v j n, in every order) over every atom kind that
/// the context's type rules accept, embedded in a satisfiable B-typed script: each wrapper's
/// accounting depends on properties set by the wrapper below it (`has_free_verify`, `pk_cost`,
/// stack bounds), which single wrappers over atoms do not exercise.
pub fn wrapper_towers(ctx: CtxK) -> Vec<Node> { towers(ctx, false) }

/// the slice of `wrapper_towers` that is part of `dimension_corpus` (consumers that pay seconds per
/// script): every tower of height two, towers of height three topped by `v:`, one embedding each
pub fn wrapper_towers_thin(ctx: CtxK) -> Vec<Node> { towers(ctx, true) }

fn towers(ctx: CtxK, thin: bool) -> Vec<Node> {
    use miniscript::miniscript::types::Base;
    use Node::*;
    let tap = ctx == CtxK::Tap;
    let b = if tap { 200 } else { 0 };
    let bx = |n: Node| Box::new(n);
    let pk = |i: u32| Check(bx(PkK(b + i)));
    let atoms: Vec<Node> = vec![
        PkK(b), PkH(b), pk(0), Check(bx(PkH(b))),
        if tap { MultiA(1, vec![b, b + 1]) } else { Multi(1, vec![b, b + 1]) },
        Hash(HK::Sha256, 0), Older(10), After(100), True,
        Thresh(1, vec![pk(0), Swap(bx(pk(1)))]),
        AndV(bx(Verify(bx(pk(0)))), bx(pk(1))),
    ];
    let wrap = |w: u8, x: Node| -> Node {
        match w { 0 => Alt(bx(x)), 1 => Swap(bx(x)), 2 => Check(bx(x)), 3 => DupIf(bx(x)), 4 => Verify(bx(x)), 5 => NonZero(bx(x)), _ => ZeroNotEqual(bx(x)) }
    };
    let base_of = |n: &Node| -> Option<Base> { with_ctx!(ctx, base_of_node(n)) };
    let mut out: Vec<Node> = vec![];
    let mut seen = std::collections::BTreeSet::new();
    for a in &atoms {
        for w1 in 0..7u8 {
            let x1 = wrap(w1, a.clone());
            if base_of(&x1).is_none() { continue; }
            for w2 in 0..7u8 {
                let x2 = wrap(w2, x1.clone());
                if base_of(&x2).is_none() { continue; }
                let mut tops = vec![x2.clone()];
                for w3 in 0..7u8 { if thin && w3 != 4 { continue; } let x3 = wrap(w3, x2.clone()); if base_of(&x3).is_some() { tops.push(x3); } }
                for t in tops {
                    let emb: Vec<Node> = match base_of(&t) {
                        Some(Base::B) => vec![t.clone(), AndV(bx(Verify(bx(pk(7)))), bx(t.clone())), OrD(bx(pk(7)), bx(t.clone()))],
                        Some(Base::V) => vec![AndV(bx(t.clone()), bx(pk(7))), AndV(bx(t.clone()), bx(True))],
                        Some(Base::W) => vec![AndB(bx(pk(7)), bx(t.clone())), OrB(bx(pk(7)), bx(t.clone())), Thresh(1, vec![pk(7), t.clone()])],
                        Some(Base::K) => vec![Check(bx(t.clone()))],
                        None => vec![],
                    };
                    for e in emb.into_iter().take(if thin { 1 } else { 9 }) { if base_of(&e) == Some(Base::B) && seen.insert(e.wire()) { out.push(e); } }
                }
            }
        }
    }
    out
}

/// key ids usable in a context
pub fn ctx_keys(ctx: CtxK, n: usize) -> Vec<u32> {
    match ctx {
        CtxK::Tap => (200..200 + n as u32).collect(),
        _ => (0..n as u32).collect(),
    }
}

/* ------------------------------------------------------ generators */

/// what the generators need to know about an accepted fragment
#[derive(Clone)]
pub struct Typed {
    pub node: Node,
    pub base: Base,
    pub input: Input,
    pub d: bool,
    pub u: bool,
}

fn typed<Pk: KeyOf, Ctx: ScriptContext>(n: Node) -> Option<Typed> {
    let ms = to_ms::<Pk, Ctx>(&n).ok()?;
    Some(Typed { node: n, base: ms.ty.corr.base, input: ms.ty.corr.input, d: ms.ty.corr.dissatisfiable, u: ms.ty.corr.unit })
}

pub struct Atoms {
    pub keys: Vec<u32>,
    pub unc_keys: Vec<u32>,
    pub hashes: Vec<(HK, u32)>,
    pub afters: Vec<u32>,
    pub olders: Vec<u32>,
}

pub fn default_atoms(ctx: CtxK, small: bool) -> Atoms {
    let nk = if small { 2 } else { 3 };
    Atoms {
        keys: ctx_keys(ctx, nk),
        unc_keys: if matches!(ctx, CtxK::Bare | CtxK::Legacy) && !small { vec![100] } else { vec![] },
        hashes: if small { vec![(HK::Sha256, 0), (HK::Ripemd160, 1)] } else { vec![(HK::Sha256, 0), (HK::Hash160, 1), (HK::Hash256, 2), (HK::Ripemd160, 3)] },
        afters: if small { vec![100] } else { vec![100, 500_000_001] },
        olders: if small { vec![10] } else { vec![10, 4_194_305] },
    }
}

fn leaves_generic<Pk: KeyOf, Ctx: ScriptContext>(ctx: CtxK, a: &Atoms) -> Vec<Typed> {
    let mut v = vec![Node::True, Node::False];
    for k in a.keys.iter().chain(a.unc_keys.iter()) { v.push(Node::PkK(*k)); v.push(Node::PkH(*k)); }
    for (kind, h) in &a.hashes { v.push(Node::Hash(*kind, *h)); }
    for n in &a.afters { v.push(Node::After(*n)); }
    for n in &a.olders { v.push(Node::Older(*n)); }
    let ks = &a.keys;
    if ks.len() >= 2 {
        if ctx == CtxK::Tap {
            v.push(Node::MultiA(1, ks[..2].to_vec()));
            v.push(Node::MultiA(2, ks[..2].to_vec()));
            v.push(Node::SortedMultiA(1, vec![ks[1], ks[0]]));
            // listing order, x-only order (208,201,209) and compressed-encoding order
            // (201,209,208: the parity byte comes first) all differ
            let b = ks[0] / 100 * 100;
            v.push(Node::SortedMultiA(2, vec![b + 9, b + 8, b + 1]));
        } else {
            v.push(Node::Multi(1, ks[..2].to_vec()));
            v.push(Node::Multi(2, ks[..2].to_vec()));
            v.push(Node::SortedMulti(1, vec![ks[1], ks[0]]));
            // listing order, compressed order (1,9,8) and x-only order (8,1,9) all differ
            v.push(Node::SortedMulti(2, vec![9, 8, 1]));
        }
    }
    v.into_iter().filter_map(typed::<Pk, Ctx>).collect()
}

/// One growth step with a QUOTA per fragment kind, so that every wrapper / combinator is
/// represented (a plain cross product is dominated by the kinds with the most candidates).
fn grow_generic<Pk: KeyOf, Ctx: ScriptContext>(old: &[Typed], newest: &[Typed], quota: usize, rng: &mut Rng) -> Vec<Typed> {
    use std::collections::BTreeMap;
    let bx = |t: &Typed| Box::new(t.node.clone());
    let mut cands: BTreeMap<&'static str, Vec<Node>> = BTreeMap::new();
    let mut push = |k: &'static str, n: Node| cands.entry(k).or_default().push(n);
    for x in newest {
        match x.base {
            Base::B => {
                push("a", Node::Alt(bx(x)));
                if matches!(x.input, Input::One | Input::OneNonZero) { push("s", Node::Swap(bx(x))); }
                push("v", Node::Verify(bx(x)));
                if matches!(x.input, Input::OneNonZero | Input::AnyNonZero) { push("j", Node::NonZero(bx(x))); }
                push("n", Node::ZeroNotEqual(bx(x)));
            }
            Base::K => push("c", Node::Check(bx(x))),
            Base::V => { if x.input == Input::Zero { push("d", Node::DupIf(bx(x))); } }
            Base::W => {}
        }
    }
    let all: Vec<&Typed> = old.iter().chain(newest.iter()).collect();
    let n_old = old.len();
    for (i, x) in all.iter().enumerate() {
        for (j, y) in all.iter().enumerate() {
            if i < n_old && j < n_old { continue; }
            use Base::*;
            match (x.base, y.base) {
                (V, B) => push("and_v:B", Node::AndV(bx(x), bx(y))),
                (V, K) => push("and_v:K", Node::AndV(bx(x), bx(y))),
                (V, V) => push("and_v:V", Node::AndV(bx(x), bx(y))),
                _ => {}
            }
            match (x.base, y.base) {
                (B, W) => {
                    push("and_b", Node::AndB(bx(x), bx(y)));
                    // no typing pre-filter here: the LIBRARY decides what is well-typed (a
                    // mutation that widens a typing rule must be able to show up)
                    push("or_b", Node::OrB(bx(x), bx(y)));
                }
                (B, B) => {
                    push("or_d", Node::OrD(bx(x), bx(y)));
                    push("or_i:B", Node::OrI(bx(x), bx(y)));
                }
                (B, V) => push("or_c", Node::OrC(bx(x), bx(y))),
                (V, V) => push("or_i:V", Node::OrI(bx(x), bx(y))),
                (K, K) => push("or_i:K", Node::OrI(bx(x), bx(y))),
                _ => {}
            }
        }
    }
    // thresholds and andor: random draws (the full products are cubic)
    // 3 of 4 draws use children that satisfy the documented requirements (so that enough
    // candidates are accepted), 1 of 4 draws any B / W child and lets the library decide
    let bs_du: Vec<&&Typed> = all.iter().filter(|t| t.base == Base::B && t.d && t.u).collect();
    let ws_du: Vec<&&Typed> = all.iter().filter(|t| t.base == Base::W && t.d && t.u).collect();
    let bs_any: Vec<&&Typed> = all.iter().filter(|t| t.base == Base::B).collect();
    let ws_any: Vec<&&Typed> = all.iter().filter(|t| t.base == Base::W).collect();
    let bs = &bs_du;
    let ws = &ws_du;
    if !bs.is_empty() && !ws.is_empty() {
        for _ in 0..quota * 3 {
            let n = 2 + rng.below(3);
            let loose = rng.below(4) == 0 && !ws_any.is_empty();
            let (bsel, wsel) = if loose { (&bs_any, &ws_any) } else { (bs, ws) };
            let mut v = vec![bsel[rng.below(bsel.len())].node.clone()];
            for _ in 1..n { v.push(wsel[rng.below(wsel.len())].node.clone()); }
            let k = 1 + rng.below(n);
            push("thresh", Node::Thresh(k, v));
        }
    }
    let others: Vec<&&Typed> = all.iter().filter(|t| t.base != Base::W).collect();
    if !bs.is_empty() {
        for _ in 0..quota * 6 {
            let a = if rng.below(4) == 0 { bs_any[rng.below(bs_any.len())] } else { bs[rng.below(bs.len())] };
            let y = others[rng.below(others.len())];
            let z = others[rng.below(others.len())];
            if y.base != z.base { continue; }
            let k = match y.base { Base::B => "andor:B", Base::K => "andor:K", _ => "andor:V" };
            push(k, Node::AndOr(bx(a), bx(y), bx(z)));
        }
    }
    drop(push);
    let mut out = vec![];
    for (_k, mut v) in cands {
        // Fisher-Yates with the seeded rng, then take accepted up to the quota
        for i in (1..v.len()).rev() { let j = rng.below(i + 1); v.swap(i, j); }
        let mut got = 0;
        for n in v {
            if got >= quota { break; }
            if let Some(t) = typed::<Pk, Ctx>(n) { out.push(t); got += 1; }
        }
    }
    out
}

fn enumerate_generic<Pk: KeyOf, Ctx: ScriptContext>(ctx: CtxK, atoms: &Atoms, depth: usize, quota: usize, rng: &mut Rng) -> Vec<Typed> {
    let mut old: Vec<Typed> = vec![];
    let mut newest = leaves_generic::<Pk, Ctx>(ctx, atoms);
    for d in 0..depth {
        // level 1 is (nearly) complete, deeper levels are quota-sampled per fragment kind
        let q = if d == 0 { quota * 8 } else { quota };
        let lim = 120;
        let old_view: Vec<Typed> = if old.len() > lim {
            let n = old.len();
            old.iter().filter(|_| rng.below(n) < lim).cloned().collect()
        } else { old.clone() };
        let new_view: Vec<Typed> = if newest.len() > lim {
            let n = newest.len();
            newest.iter().filter(|_| rng.below(n) < lim).cloned().collect()
        } else { newest.clone() };
        let grown = grow_generic::<Pk, Ctx>(&old_view, &new_view, q, rng);
        old.extend(newest.drain(..));
        newest = grown;
    }
    old.extend(newest);
    old
}

/// all fragments (every base type) accepted by `from_ast` up to `depth` wrapper/combinator
/// levels over `atoms`, with at most `quota` accepted fragments per fragment kind and level (8x on level 1)
pub fn enumerate(ctx: CtxK, atoms: &Atoms, depth: usize, quota: usize, rng: &mut Rng) -> Vec<Typed> {
    with_ctx!(ctx, enumerate_generic(ctx, atoms, depth, quota, rng))
}

/// random, larger, well-typed fragment of base B (type-directed growth with retries)
pub fn random_b(ctx: CtxK, rng: &mut Rng, target_size: usize) -> Option<Node> {
    let atoms = default_atoms(ctx, false);
    let pool = enumerate(ctx, &atoms, 1, 40, rng);
    let mut pool: Vec<Typed> = pool;
    let want = target_size;
    for _ in 0..(want * 4) {
        // pick two/three random members and try a random combinator
        let a = pool[rng.below(pool.len())].clone();
        let b = pool[rng.below(pool.len())].clone();
        let c = pool[rng.below(pool.len())].clone();
        let bx = |t: &Typed| Box::new(t.node.clone());
        let cand = match rng.below(14) {
            0 => Node::AndV(bx(&a), bx(&b)),
            1 => Node::AndB(bx(&a), bx(&b)),
            2 => Node::OrB(bx(&a), bx(&b)),
            3 => Node::OrD(bx(&a), bx(&b)),
            4 => Node::OrC(bx(&a), bx(&b)),
            5 => Node::OrI(bx(&a), bx(&b)),
            6 => Node::AndOr(bx(&a), bx(&b), bx(&c)),
            7 => Node::Thresh(1 + rng.below(3), vec![a.node.clone(), b.node.clone(), c.node.clone()]),
            8 => Node::Alt(bx(&a)),
            9 => Node::Swap(bx(&a)),
            10 => Node::Verify(bx(&a)),
            11 => Node::Check(bx(&a)),
            12 => Node::DupIf(bx(&a)),
            _ => if rng.coin() { Node::NonZero(bx(&a)) } else { Node::ZeroNotEqual(bx(&a)) },
        };
        if cand.size() > want * 2 { continue; }
        let t = match ctx {
            CtxK::Bare => typed::<PublicKey, BareCtx>(cand),
            CtxK::Legacy => typed::<PublicKey, Legacy>(cand),
            CtxK::Segwitv0 => typed::<PublicKey, Segwitv0>(cand),
            CtxK::Tap => typed::<XOnlyPublicKey, Tap>(cand),
        };
        if let Some(t) = t { pool.push(t); }
    }
    // largest B-typed member not exceeding the target too much
    pool.iter().filter(|t| t.base == Base::B).max_by_key(|t| { let s = t.node.size(); if s <= want * 2 { s } else { 0 } }).map(|t| t.node.clone())
}

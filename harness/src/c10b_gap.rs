//! C10 coverage extensions (sub-module of c10b):
//!   J rtsane   round trip through the DEFAULT parsers (`Miniscript::from_str`, `Descriptor::from_str`); the Lean
//!              entry-point model decides whether the object must parse back (sane) or must be refused
//!   J rtpol    policies with real keys (bitcoin::PublicKey, DescriptorPublicKey) and both lock units
//!   J wpfromdesc / wptemplate / wpinto / wpback   BIP-388 wallet policies against Spec/Bip388.lean
//!   J keyform  BIP-380/389 key expression grammar (Spec/KeyExpr.lean): valid forms must be accepted
//!   J numarg   numeric arguments against the Lean `parse_num` model + ranges
//!   J nopanic  near-valid / absurd inputs to every FromStr incl. the per-wrapper ones
use std::panic::{catch_unwind, AssertUnwindSafe};
use std::str::FromStr;
use std::sync::Arc;
use miniscript::ScriptContext as _;

use miniscript::bitcoin::secp256k1::XOnlyPublicKey;
use miniscript::bitcoin::PublicKey;
use miniscript::descriptor::{Bare, DefiniteDescriptorKey, DescriptorSecretKey, Pkh, Sh, Tr, WalletPolicy, Wpkh, Wsh};
use miniscript::policy::{Concrete, Semantic};
use miniscript::{
    AbsLockTime, BareCtx, Descriptor, DescriptorPublicKey, Legacy, Miniscript, MiniscriptKey, RelLockTime, Segwitv0, Tap,
    Threshold,
};

use super::{err_class, from_ms, guard, key_forms, mutate, verdict, KeyMaterial};
use crate::ast::{self, CtxK, Node, HK};
use crate::c10::hex;
use crate::common::{Out, Rng};

/* ------------------------------------------------------------ gap 3: the default parsers */

macro_rules! sane_ms_impl {
    ($name:ident, $pk:ty, $ctx:ty) => {
        fn $name(n: &Node) -> Option<String> {
            let ms = ast::to_ms::<$pk, $ctx>(n).ok()?;
            let s = ms.to_string();
            Some(guard(|| {
                let y = match Miniscript::<$pk, $ctx>::from_str(&s) { Ok(y) => y, Err(_) => return "reject".into() };
                match from_ms(&y) { Some(m) if m == *n => {} _ => return "fail:ast-differs".into() }
                if y != ms { return "fail:lib-eq".into(); }
                if y.to_string() != s { return "fail:not-fixed-point".into(); }
                if y.encode() != ms.encode() { return "fail:script-differs".into(); }
                "pass".into()
            }))
        }
    };
}
sane_ms_impl!(sane_ms_bare, PublicKey, BareCtx);
sane_ms_impl!(sane_ms_legacy, PublicKey, Legacy);
sane_ms_impl!(sane_ms_segwit, PublicKey, Segwitv0);
sane_ms_impl!(sane_ms_tap, XOnlyPublicKey, Tap);

fn inner_node<Pk: MiniscriptKey + super::Atom>(d: &Descriptor<Pk>) -> Option<Node> {
    use miniscript::descriptor::ShInner;
    match d {
        Descriptor::Bare(b) => from_ms(b.as_inner()),
        Descriptor::Wsh(w) => from_ms(w.as_inner()),
        Descriptor::Sh(s) => match s.as_inner() { ShInner::Ms(m) => from_ms(m), _ => None },
        Descriptor::Tr(t) => { let mut l = t.leaves(); let a = l.next()?; if l.next().is_some() { return None; } from_ms(a.miniscript()) }
        _ => None,
    }
}

macro_rules! sane_desc_impl {
    ($name:ident, $pk:ty, $ctx:ty, $fmt:expr) => {
        fn $name(n: &Node) -> Option<String> {
            let ms = ast::to_ms::<$pk, $ctx>(n).ok()?;
            let text = format!($fmt, ms);
            Some(guard(|| {
                let d = match Descriptor::<$pk>::from_str(&text) { Ok(d) => d, Err(_) => return "reject".into() };
                match inner_node(&d) { Some(m) if m == *n => {} _ => return "fail:structure-differs".into() }
                let s = d.to_string();
                match Descriptor::<$pk>::from_str(&s) {
                    Ok(d2) => { if d2 != d { return "fail:lib-eq".into(); } if d2.to_string() != s { return "fail:not-fixed-point".into(); }
                                if inner_node(&d2).as_ref() != Some(n) { return "fail:second-structure-differs".into(); } }
                    Err(e) => return format!("fail:reparse:{}", err_class(&e.to_string())),
                }
                "pass".into()
            }))
        }
    };
}
sane_desc_impl!(sane_desc_bare, PublicKey, BareCtx, "{}");
sane_desc_impl!(sane_desc_sh, PublicKey, Legacy, "sh({})");
sane_desc_impl!(sane_desc_wsh, PublicKey, Segwitv0, "wsh({})");

fn sane_desc_tr(n: &Node) -> Option<String> {
    let ms = ast::to_ms::<XOnlyPublicKey, Tap>(n).ok()?;
    let text = format!("tr({},{})", ast::xonly_key(209), ms);
    Some(guard(|| {
        let d = match Descriptor::<XOnlyPublicKey>::from_str(&text) { Ok(d) => d, Err(_) => return "reject".into() };
        match inner_node(&d) { Some(m) if m == *n => {} _ => return "fail:structure-differs".into() }
        let s = d.to_string();
        match Descriptor::<XOnlyPublicKey>::from_str(&s) {
            Ok(d2) => { if d2 != d { return "fail:lib-eq".into(); } if d2.to_string() != s { return "fail:not-fixed-point".into(); } }
            Err(e) => return format!("fail:reparse:{}", err_class(&e.to_string())),
        }
        "pass".into()
    }))
}

/// one object through `Miniscript::from_str` and `Descriptor::from_str`
pub fn emit_rtsane(out: &mut Out, ctx: CtxK, n: &Node, with_desc: bool) {
    let t = match ctx { CtxK::Bare => sane_ms_bare(n), CtxK::Legacy => sane_ms_legacy(n), CtxK::Segwitv0 => sane_ms_segwit(n), CtxK::Tap => sane_ms_tap(n) };
    if let Some(tok) = t {
        out.count(&format!("rtsane ms {}", if tok.starts_with("fail") { tok.as_str() } else { tok.as_str() }));
        out.line(&format!("J rtsane ms_sane/from_str {} {} {}", ctx.name(), n.wire(), tok), "ok");
    }
    if !with_desc { return; }
    // `bare(c:pk_h(K))` reads back as the pkh() descriptor: judged once in the descriptor part (F15)
    if ctx == CtxK::Bare && matches!(n, Node::Check(x) if matches!(**x, Node::PkH(_))) { return; }
    let t = match ctx { CtxK::Bare => sane_desc_bare(n), CtxK::Legacy => sane_desc_sh(n), CtxK::Segwitv0 => sane_desc_wsh(n), CtxK::Tap => sane_desc_tr(n) };
    if let Some(tok) = t {
        out.count(&format!("rtsane desc {}", tok));
        out.line(&format!("J rtsane desc/Descriptor::from_str {} {} {}", ctx.name(), n.wire(), tok), "ok");
    }
}

/* ------------------------------------------------------------ gap 2: policies, real keys, both lock units */

#[derive(Clone, Debug, PartialEq)]
pub enum P {
    Unsat, Triv, Key(u32), After(u32), Older(u32), Hash(HK, u32),
    And(Vec<P>), Or(Vec<(usize, P)>), Thresh(usize, Vec<P>),
}
impl P {
    fn wire(&self) -> String {
        match self {
            P::Unsat => "UNSATISFIABLE".into(), P::Triv => "TRIVIAL".into(),
            P::Key(k) => format!("pk({})", k), P::After(n) => format!("after({})", n), P::Older(n) => format!("older({})", n),
            P::Hash(k, h) => format!("{}({})", k.name(), h),
            P::And(v) => format!("and({})", v.iter().map(|x| x.wire()).collect::<Vec<_>>().join(",")),
            P::Or(v) => format!("or({})", v.iter().map(|(w, x)| format!("{}@{}", w, x.wire())).collect::<Vec<_>>().join(",")),
            P::Thresh(k, v) => format!("thresh({},{})", k, v.iter().map(|x| x.wire()).collect::<Vec<_>>().join(",")),
        }
    }
}

const AFTERS: [u32; 8] = [1, 100, 499_999_999, 500_000_000, 500_000_001, 1_700_000_000, 2_147_483_647, 65_536];
/// heights, 512-second units, and values carrying bits outside the BIP68 mask (still valid `RelLockTime`s)
const OLDERS: [u32; 9] = [1, 144, 65_535, 4_194_305, 4_259_839, 65_541, 4_194_309 + 65_536, 0x7fff_ffff, 1 << 30];

fn p_leaf(rng: &mut Rng) -> P {
    match rng.below(10) {
        0 => P::Unsat, 1 => P::Triv,
        2 | 3 => P::After(*rng.pick(&AFTERS)), 4 | 5 => P::Older(*rng.pick(&OLDERS)),
        6 => P::Hash(*rng.pick(&HK::ALL), rng.below(4) as u32),
        _ => P::Key(rng.below(6) as u32),
    }
}
fn p_conc(rng: &mut Rng, depth: usize) -> P {
    if depth == 0 || rng.below(4) == 0 { return p_leaf(rng); }
    match rng.below(3) {
        0 => P::And(vec![p_conc(rng, depth - 1), p_conc(rng, depth - 1)]),
        1 => P::Or(vec![(1 + rng.below(9), p_conc(rng, depth - 1)), (1 + rng.below(999), p_conc(rng, depth - 1))]),
        _ => { let n = 1 + rng.below(4); P::Thresh(1 + rng.below(n), (0..n).map(|_| p_conc(rng, depth - 1)).collect()) }
    }
}
fn p_sem(rng: &mut Rng, depth: usize) -> P {
    if depth == 0 || rng.below(4) == 0 { return p_leaf(rng); }
    let n = 2 + rng.below(3);
    P::Thresh(1 + rng.below(n), (0..n).map(|_| p_sem(rng, depth - 1)).collect())
}

/// a key type with a table id <-> key and its four hash types built from the atom tables
pub trait PolKey: miniscript::FromStrKey + Clone {
    const NAME: &'static str;
    fn key(id: u32) -> Self;
    fn sha(h: u32) -> Self::Sha256;
    fn h256(h: u32) -> Self::Hash256;
    fn rip(h: u32) -> Self::Ripemd160;
    fn h160(h: u32) -> Self::Hash160;
}
macro_rules! real_hashes {
    () => {
        fn sha(h: u32) -> Self::Sha256 { <Self::Sha256 as FromStr>::from_str(&super::real_hash(HK::Sha256, h)).ok().unwrap() }
        fn h256(h: u32) -> Self::Hash256 { <Self::Hash256 as FromStr>::from_str(&super::real_hash(HK::Hash256, h)).ok().unwrap() }
        fn rip(h: u32) -> Self::Ripemd160 { <Self::Ripemd160 as FromStr>::from_str(&super::real_hash(HK::Ripemd160, h)).ok().unwrap() }
        fn h160(h: u32) -> Self::Hash160 { <Self::Hash160 as FromStr>::from_str(&super::real_hash(HK::Hash160, h)).ok().unwrap() }
    };
}
impl PolKey for String {
    const NAME: &'static str = "string";
    fn key(id: u32) -> Self { format!("K{}", id) }
    real_hashes!();
}
impl PolKey for PublicKey {
    const NAME: &'static str = "pubkey";
    fn key(id: u32) -> Self { if id == 5 { ast::full_key(100) } else { ast::full_key(id) } }
    real_hashes!();
}
thread_local! { static DPK: std::cell::RefCell<Vec<DescriptorPublicKey>> = std::cell::RefCell::new(vec![]); }
impl PolKey for DescriptorPublicKey {
    const NAME: &'static str = "descriptorkey";
    fn key(id: u32) -> Self { DPK.with(|t| t.borrow()[id as usize % t.borrow().len()].clone()) }
    real_hashes!();
}

fn to_conc<K: PolKey>(p: &P) -> Option<Concrete<K>> {
    Some(match p {
        P::Unsat => Concrete::Unsatisfiable, P::Triv => Concrete::Trivial, P::Key(k) => Concrete::Key(K::key(*k)),
        P::After(n) => Concrete::After(AbsLockTime::from_consensus(*n).ok()?), P::Older(n) => Concrete::Older(RelLockTime::from_consensus(*n).ok()?),
        P::Hash(HK::Sha256, h) => Concrete::Sha256(K::sha(*h)), P::Hash(HK::Hash256, h) => Concrete::Hash256(K::h256(*h)),
        P::Hash(HK::Ripemd160, h) => Concrete::Ripemd160(K::rip(*h)), P::Hash(HK::Hash160, h) => Concrete::Hash160(K::h160(*h)),
        P::And(v) => Concrete::And(v.iter().map(|x| to_conc::<K>(x).map(Arc::new)).collect::<Option<Vec<_>>>()?),
        P::Or(v) => Concrete::Or(v.iter().map(|(w, x)| to_conc::<K>(x).map(|c| (*w, Arc::new(c)))).collect::<Option<Vec<_>>>()?),
        P::Thresh(k, v) => Concrete::Thresh(Threshold::new(*k, v.iter().map(|x| to_conc::<K>(x).map(Arc::new)).collect::<Option<Vec<_>>>()?).ok()?),
    })
}
fn to_sem<K: PolKey>(p: &P) -> Option<Semantic<K>> {
    Some(match p {
        P::Unsat => Semantic::Unsatisfiable, P::Triv => Semantic::Trivial, P::Key(k) => Semantic::Key(K::key(*k)),
        P::After(n) => Semantic::After(AbsLockTime::from_consensus(*n).ok()?), P::Older(n) => Semantic::Older(RelLockTime::from_consensus(*n).ok()?),
        P::Hash(HK::Sha256, h) => Semantic::Sha256(K::sha(*h)), P::Hash(HK::Hash256, h) => Semantic::Hash256(K::h256(*h)),
        P::Hash(HK::Ripemd160, h) => Semantic::Ripemd160(K::rip(*h)), P::Hash(HK::Hash160, h) => Semantic::Hash160(K::h160(*h)),
        P::Thresh(k, v) => Semantic::Thresh(Threshold::new(*k, v.iter().map(|x| to_sem::<K>(x).map(Arc::new)).collect::<Option<Vec<_>>>()?).ok()?),
        _ => return None,
    })
}
fn key_id<K: PolKey>(k: &K) -> Option<u32> { let s = k.to_string(); (0..6).find(|i| K::key(*i).to_string() == s) }
fn hash_id(kind: HK, s: String) -> Option<u32> { (0..4).find(|h| super::real_hash(kind, *h) == s) }
fn from_conc<K: PolKey>(c: &Concrete<K>) -> Option<P> {
    Some(match c {
        Concrete::Unsatisfiable => P::Unsat, Concrete::Trivial => P::Triv, Concrete::Key(k) => P::Key(key_id(k)?),
        Concrete::After(t) => P::After(t.to_consensus_u32()), Concrete::Older(t) => P::Older(t.to_consensus_u32()),
        Concrete::Sha256(h) => P::Hash(HK::Sha256, hash_id(HK::Sha256, h.to_string())?), Concrete::Hash256(h) => P::Hash(HK::Hash256, hash_id(HK::Hash256, h.to_string())?),
        Concrete::Ripemd160(h) => P::Hash(HK::Ripemd160, hash_id(HK::Ripemd160, h.to_string())?), Concrete::Hash160(h) => P::Hash(HK::Hash160, hash_id(HK::Hash160, h.to_string())?),
        Concrete::And(v) => P::And(v.iter().map(|x| from_conc(x)).collect::<Option<Vec<_>>>()?),
        Concrete::Or(v) => P::Or(v.iter().map(|(w, x)| from_conc(x).map(|p| (*w, p))).collect::<Option<Vec<_>>>()?),
        Concrete::Thresh(t) => P::Thresh(t.k(), t.iter().map(|x| from_conc(x)).collect::<Option<Vec<_>>>()?),
    })
}
fn from_sem<K: PolKey>(c: &Semantic<K>) -> Option<P> {
    Some(match c {
        Semantic::Unsatisfiable => P::Unsat, Semantic::Trivial => P::Triv, Semantic::Key(k) => P::Key(key_id(k)?),
        Semantic::After(t) => P::After(t.to_consensus_u32()), Semantic::Older(t) => P::Older(t.to_consensus_u32()),
        Semantic::Sha256(h) => P::Hash(HK::Sha256, hash_id(HK::Sha256, h.to_string())?), Semantic::Hash256(h) => P::Hash(HK::Hash256, hash_id(HK::Hash256, h.to_string())?),
        Semantic::Ripemd160(h) => P::Hash(HK::Ripemd160, hash_id(HK::Ripemd160, h.to_string())?), Semantic::Hash160(h) => P::Hash(HK::Hash160, hash_id(HK::Hash160, h.to_string())?),
        Semantic::Thresh(t) => P::Thresh(t.k(), t.iter().map(|x| from_sem(x)).collect::<Option<Vec<_>>>()?),
    })
}

fn rt_conc<K: PolKey>(out: &mut Out, p: &P) {
    let x = match to_conc::<K>(p) { Some(x) => x, None => return };
    let s = x.to_string();
    let tok = guard(|| {
        let y = match Concrete::<K>::from_str(&s) {
            Ok(y) => y,
            Err(miniscript::Error::ConcretePolicy(miniscript::policy::concrete::PolicyError::HeightTimelockCombination)) => return "reject:timelock-mix".into(),
            Err(e) => return format!("fail:parse-err:{}", err_class(&e.to_string())),
        };
        match from_conc(&y) { Some(q) if q == *p => {} _ => return "fail:structure-differs".into() }
        if y != x { return "fail:lib-eq".into(); }
        if y.to_string() != s { return "fail:not-fixed-point".into(); }
        "pass".into()
    });
    out.line(&format!("J alttext concrete-{} {} {}", K::NAME, hex(&s), hex(&guard(|| format!("{:#}", x)))), "ok");
    out.count(&format!("rtpol concrete-{} {}", K::NAME, tok));
    out.line(&format!("J rtpol concrete-{} {} {} {}", K::NAME, p.wire(), hex(&s), tok), "ok");
}
fn rt_sem<K: PolKey>(out: &mut Out, p: &P) {
    let x = match to_sem::<K>(p) { Some(x) => x, None => return };
    let s = x.to_string();
    let tok = guard(|| {
        let y = match Semantic::<K>::from_str(&s) { Ok(y) => y, Err(e) => return format!("fail:parse-err:{}", err_class(&e.to_string())) };
        match from_sem(&y) { Some(q) if q == *p => {} _ => return "fail:structure-differs".into() }
        if y != x { return "fail:lib-eq".into(); }
        if y.to_string() != s { return "fail:not-fixed-point".into(); }
        "pass".into()
    });
    out.line(&format!("J alttext semantic-{} {} {}", K::NAME, hex(&s), hex(&guard(|| format!("{:#}", x)))), "ok");
    out.count(&format!("rtpol semantic-{} {}", K::NAME, tok));
    out.line(&format!("J rtpol semantic-{} {} {} {}", K::NAME, p.wire(), hex(&s), tok), "ok");
}

fn init_dpk(out: &mut Out, km: &KeyMaterial) {
    if DPK.with(|t| !t.borrow().is_empty()) { return; }
    DPK.with(|t| {
        let v: Vec<DescriptorPublicKey> = (0..6usize).map(|i| super::key_or_fallback(out, &key_forms(km, i, false, false)[[0usize, 4, 7, 14, 15, 17][i]], false)).collect();
        *t.borrow_mut() = v;
    });
}

pub fn run_policies_real(out: &mut Out, thorough: bool, rng: &mut Rng, km: &KeyMaterial) {
    init_dpk(out, km);
    let n = if thorough { 1500 } else { 150 };
    for i in 0..n {
        let c = p_conc(rng, 1 + i % 4);
        let s = p_sem(rng, 1 + i % 3);
        match i % 3 {
            0 => { rt_conc::<String>(out, &c); rt_sem::<String>(out, &s); }
            1 => { rt_conc::<PublicKey>(out, &c); rt_sem::<PublicKey>(out, &s); }
            _ => { rt_conc::<DescriptorPublicKey>(out, &c); rt_sem::<DescriptorPublicKey>(out, &s); }
        }
    }
    // every lock value alone and in both kinds of conjunction / disjunction
    for a in AFTERS { for o in OLDERS {
        let pair = [P::After(a), P::Older(o)];
        rt_conc::<String>(out, &P::And(pair.to_vec()));
        rt_conc::<PublicKey>(out, &P::Or(vec![(1, pair[0].clone()), (2, pair[1].clone())]));
        rt_sem::<DescriptorPublicKey>(out, &P::Thresh(2, vec![pair[0].clone(), pair[1].clone(), P::Key(1)]));
    } }
    for (i, a) in AFTERS.iter().enumerate() { for b in &AFTERS[i + 1..] {
        rt_conc::<DescriptorPublicKey>(out, &P::And(vec![P::After(*a), P::Or(vec![(1, P::After(*b)), (1, P::Key(0))])]));
        rt_conc::<String>(out, &P::Thresh(2, vec![P::After(*a), P::After(*b), P::Key(2)]));
    } }
    for (i, a) in OLDERS.iter().enumerate() { for b in &OLDERS[i + 1..] {
        rt_conc::<PublicKey>(out, &P::And(vec![P::Older(*a), P::Older(*b)]));
        rt_conc::<String>(out, &P::And(vec![P::Key(0), P::And(vec![P::Older(*a), P::Or(vec![(3, P::Older(*b)), (1, P::Unsat)])])]));
    } }
}

/* ------------------------------------------------------------ gap 1: BIP-388 wallet policies */

const WP_SKELETONS: &[&str] = &[
    "pkh(#)", "wpkh(#)", "sh(wpkh(#))", "tr(#)", "wsh(multi(2,#,#))", "wsh(sortedmulti(2,#,#,#))", "sh(wsh(multi(1,#,#)))",
    "tr(#,{pk(#),pk(#)})", "tr(#,multi_a(2,#,#))", "wsh(and_v(v:pk(#),or_d(pk(#),older(12960))))",
    "wsh(or_d(pk(#),and_v(v:pkh(#),older(5))))", "sh(multi(2,#,#,#))", "tr(#,{{pk(#),multi_a(2,#,#)},and_v(v:pk(#),after(100))})",
    "wsh(thresh(2,pk(#),s:pk(#),s:pk(#),sln:older(144)))", "wsh(andor(pk(#),sha256(1111111111111111111111111111111111111111111111111111111111111111),pk(#)))",
    // hash fragments of every kind with NON-symmetric values (the four hash translators in both directions)
    "wsh(and_v(v:pk(#),hash256(0102030405060708090a0b0c0d0e0f101112131415161718191a1b1c1d1e1f20)))",
    "wsh(and_v(v:pk(#),ripemd160(0102030405060708090a0b0c0d0e0f1011121314)))",
    "wsh(and_v(v:pk(#),hash160(a0a1a2a3a4a5a6a7a8a9aaabacadaeafb0b1b2b3)))",
    "wsh(and_v(v:pk(#),sha256(fffefdfcfbfaf9f8f7f6f5f4f3f2f1f0efeeedecebeae9e8e7e6e5e4e3e2e1e0)))",
    "tr(#,{and_v(v:pk(#),hash256(fffefdfcfbfaf9f8f7f6f5f4f3f2f1f0efeeedecebeae9e8e7e6e5e4e3e2e1e0)),and_v(v:pk(#),ripemd160(a0a1a2a3a4a5a6a7a8a9aaabacadaeafb0b1b2b3))})",
    "sh(wsh(thresh(2,pk(#),s:pk(#),a:sha256(0102030405060708090a0b0c0d0e0f101112131415161718191a1b1c1d1e1f20),a:hash160(0102030405060708090a0b0c0d0e0f1011121314))))",
];

fn fill(skel: &str, items: &[String]) -> String {
    let mut out = String::new();
    let mut i = 0;
    for c in skel.chars() { if c == '#' { out.push_str(&items[i]); i += 1; } else { out.push(c); } }
    out
}
fn n_slots(skel: &str) -> usize { skel.chars().filter(|c| *c == '#').count() }

/// key information items: extended keys with and without origin (the text `Display` prints)
fn wp_keys(km: &KeyMaterial) -> Vec<String> {
    let mut v = vec![];
    for (i, x) in km.xpubs.iter().enumerate() {
        v.push(format!("[d34db33f/48'/0'/{}']{}", i, x));
        v.push(x.clone());
    }
    v.push(format!("[0a0b0c0d/84'/1'/0'/2]{}", km.tpub));
    v
}
fn pair_text(a: u32, b: u32) -> String { format!("/<{};{}>/*", a, b) }

fn lib_template_str(d: &str) -> Option<String> { catch_unwind(AssertUnwindSafe(|| WalletPolicy::from_str(d).ok().map(|w| w.to_string()))).unwrap_or(Some("PANIC".into())) }
fn hex_or_err(s: &Option<String>) -> String { match s { Some(s) => hex(s), None => "ERR".into() } }

/// `Some(expected)`: a fixed probe of a class that goes BEYOND C10's statement (BIP-388 conformance): the J line is
/// written only while the library agrees with the specification's answer, otherwise the case is an OBSERVATION
/// (counted, never a failure).  `None`: generated case of a class whose probe agrees today.
type Expect<'a> = Option<Option<&'a str>>;
fn judge_or_observe(out: &mut Out, line: String, lib: &Option<String>, expected: Expect, obs: &str) {
    match expected {
        Some(e) if lib.as_deref() != e => {
            out.count(&format!("observation: wallet-policy {}", obs));
        }
        _ => out.line(&line, "ok"),
    }
}

/// C10 proper: every `WalletPolicy` VALUE the library hands out prints a text that parses back to the same template
/// (the text of a wallet policy is its template; key information is not part of it) and printing is a fixed point
fn wp_value_token(w: &WalletPolicy) -> String {
    guard(|| {
        let s = w.to_string();
        let w2 = match WalletPolicy::from_str(&s) { Ok(w2) => w2, Err(_) => return "fail:own-display-unparseable".into() };
        let tpl = |x: &WalletPolicy| { let d = format!("{:?}", x); d.split(", key_info:").next().unwrap_or("").to_string() };
        if tpl(&w2) != tpl(w) { return "fail:template-differs".into(); }
        if w2.to_string() != s { return "fail:not-fixed-point".into(); }
        "pass".into()
    })
}
fn wp_value_rt(out: &mut Out, input: &str, d: Option<&Descriptor<DescriptorPublicKey>>) {
    let mut toks = vec![];
    if let Ok(Ok(w)) = catch_unwind(AssertUnwindSafe(|| WalletPolicy::from_str(input))) { toks.push(wp_value_token(&w)); }
    if let Some(d) = d { if let Ok(Ok(w)) = catch_unwind(AssertUnwindSafe(|| WalletPolicy::from_descriptor(d))) { toks.push(wp_value_token(&w)); } }
    if toks.is_empty() { return; }
    let tok = toks.iter().find(|t| *t != "pass").cloned().unwrap_or_else(|| "pass".into());
    out.count(&format!("rt walletpolicy-value {}", tok));
    out.line(&format!("J rt walletpolicy-value {} {}", hex(input), tok), "ok");
}

fn wp_judge_descriptor(out: &mut Out, text: &str, class: &str) { wp_judge_descriptor_r(out, text, class, None) }
fn wp_judge_descriptor_r(out: &mut Out, text: &str, class: &str, expected: Expect) {
    // the descriptor itself must be valid; `{:#}` is the text without checksum
    let d = match Descriptor::<DescriptorPublicKey>::from_str(text) { Ok(d) => d, Err(_) => { out.count(&format!("wp {} descriptor-rejected", class)); return; } };
    let canon = format!("{:#}", d);
    let by_str = lib_template_str(&canon);
    let by_api = catch_unwind(AssertUnwindSafe(|| WalletPolicy::from_descriptor(&d).ok().map(|w| w.to_string()))).unwrap_or(Some("PANIC".into()));
    out.count(&format!("wp {} fromdesc {}", class, if by_api.is_some() { "template" } else { "ERR" }));
    judge_or_observe(out, format!("J wpfromdesc from_descriptor {} {}", hex(&canon), hex_or_err(&by_api)), &by_api, expected, class);
    judge_or_observe(out, format!("J wpfromdesc from_str {} {}", hex(&canon), hex_or_err(&by_str)), &by_str, expected, class);
    // from_descriptor then into_descriptor: the identity (not claimed by C10; passes today)
    let back = catch_unwind(AssertUnwindSafe(|| WalletPolicy::from_descriptor(&d).ok().and_then(|w| w.into_descriptor().ok()).map(|b| format!("{:#}", b)))).unwrap_or(Some("PANIC".into()));
    if by_api.is_some() { out.line(&format!("J wpback {} {}", hex(&canon), hex_or_err(&back)), "ok"); }
    wp_value_rt(out, &canon, Some(&d));
}

fn wp_judge_template(out: &mut Out, t: &str, class: &str) { wp_judge_template_r(out, t, class, None) }
fn wp_judge_template_r(out: &mut Out, t: &str, class: &str, expected: Expect) {
    let printed = lib_template_str(t);
    out.count(&format!("wp {} template {}", class, if printed.is_some() { "accepted" } else { "ERR" }));
    judge_or_observe(out, format!("J wptemplate {} {}", hex(t), hex_or_err(&printed)), &printed, expected, class);
    wp_value_rt(out, t, None);
}

/// template + BIP-388 key vector (key information items WITHOUT derivation) -> descriptor
fn wp_judge_into(out: &mut Out, t: &str, keys: &[String], class: &str, expected: Expect) {
    let r = catch_unwind(AssertUnwindSafe(|| {
        let mut w = WalletPolicy::from_str(t).ok()?;
        let ks: Vec<DescriptorPublicKey> = keys.iter().map(|k| DescriptorPublicKey::from_str(k)).collect::<Result<_, _>>().ok()?;
        w.set_key_info(&ks).ok()?;
        w.into_descriptor().ok().map(|d| format!("{:#}", d))
    })).unwrap_or(Some("PANIC".into()));
    out.count(&format!("wp {} into {}", class, if r.is_some() { "descriptor" } else { "ERR" }));
    judge_or_observe(out, format!("J wpinto {} {} {}", hex(t), hex(&keys.join(",")), hex_or_err(&r)), &r, expected, class);
}

pub fn run_wallet_gen(out: &mut Out, thorough: bool, rng: &mut Rng, km: &KeyMaterial) {
    let keys = wp_keys(km);
    let (k0, k1, k2) = (&keys[0], &keys[2], &keys[5]);
    // --- fixed probes: one per class in which the library may deviate from BIP-388; a class joins the
    // generated stream only while its probe agrees with the specification
    // W1 repeated key, disjoint pairs: same placeholder
    let rep_desc = format!("wsh(multi(2,{}/<0;1>/*,{}/<0;1>/*,{}/<2;3>/*))", k0, k1, k1);
    wp_judge_descriptor_r(out, &rep_desc, "W1-repeated-key-gets-a-new-placeholder", Some(Some("wsh(multi(2,@0/**,@1/**,@1/<2;3>/*))")));
    wp_judge_descriptor_r(out, &format!("wsh(or_d(pk({}/<0;1>/*),and_v(v:pkh({}/<2;3>/*),older(5))))", k0, k0), "W1-repeated-key-gets-a-new-placeholder",
        Some(Some("wsh(or_d(pk(@0/**),and_v(v:pkh(@0/<2;3>/*),older(5))))")));
    let w1_ok = lib_template_str(&rep_desc).as_deref() == Some("wsh(multi(2,@0/**,@1/**,@1/<2;3>/*))");
    // W2 repeated placeholder other than @0
    for t in ["wsh(multi(2,@0/**,@1/**,@1/<2;3>/*))", "wsh(multi(2,@0/**,@1/**,@0/<2;3>/*))"] {
        wp_judge_template_r(out, t, "W2-valid-template-with-repeated-placeholder-refused", Some(Some(t)));
    }
    let w2_ok = lib_template_str("wsh(multi(2,@0/**,@1/**,@1/<2;3>/*))").is_some() && lib_template_str("wsh(multi(2,@0/**,@1/**,@0/<2;3>/*))").is_some();
    // W3 descriptors without a BIP-388 template (no multipath / three paths / unordered pair / hardened wildcard / no wildcard / step after the pair)
    let w3_forms = ["/0/*", "/<0;1;2>/*", "/<1;0>/*", "/<0;1>/*h", "/<0;1>", "/<0;1>/7/*", ""];
    let mut w3_ok = true;
    for (fi, f) in w3_forms.iter().enumerate() {
        let d = format!("wpkh({}{})", k0, f);
        let _ = fi;
        wp_judge_descriptor_r(out, &d, "W3-descriptor-without-a-template-accepted", Some(None));
        if lib_template_str(&d).is_some() { w3_ok = false; }
    }
    // W4 placeholder index spellings
    let mut w4_ok = true;
    for t in ["wpkh(@0x/**)", "wpkh(@00/**)", "wpkh(@0abc/<0;1>/*)"] {
        wp_judge_template_r(out, t, "W4-placeholder-index-spelling-accepted", Some(None));
        if lib_template_str(t).is_some() { w4_ok = false; }
    }
    // W6 the first placeholder must be @0
    wp_judge_template_r(out, "wpkh(@1/**)", "W6-first-placeholder-not-@0-accepted", Some(None));
    wp_judge_template_r(out, "wsh(multi(2,@1/**,@2/**))", "W6-first-placeholder-not-@0-accepted", Some(None));
    let w6_ok = lib_template_str("wpkh(@1/**)").is_none() && lib_template_str("wsh(multi(2,@1/**,@2/**))").is_none();
    // W5 template + key information items -> descriptor
    let probe_keys = vec![k0.clone(), k1.clone()];
    let e1 = format!("wsh(multi(2,{}/<0;1>/*,{}/<4;5>/*))", k0, k1);
    let e2 = format!("wsh(multi(2,{}/<0;1>/*,{}/<2;3>/*,{}/<0;1>/*))", k0, k0, k1);
    wp_judge_into(out, "wsh(multi(2,@0/**,@1/<4;5>/*))", &probe_keys, "W5-into_descriptor-drops-the-derivation", Some(Some(&e1)));
    wp_judge_into(out, "wsh(multi(2,@0/**,@0/<2;3>/*,@1/**))", &probe_keys, "W5-into_descriptor-drops-the-derivation", Some(Some(&e2)));
    let w5_ok = {
        let r = catch_unwind(AssertUnwindSafe(|| {
            let mut w = WalletPolicy::from_str("wsh(multi(2,@0/**,@1/<4;5>/*))").ok()?;
            w.set_key_info(&[DescriptorPublicKey::from_str(k0).ok()?, DescriptorPublicKey::from_str(k1).ok()?]).ok()?;
            w.into_descriptor().ok().map(|d| format!("{:#}", d))
        })).unwrap_or(None);
        r == Some(format!("wsh(multi(2,{}/<0;1>/*,{}/<4;5>/*))", k0, k1))
    };
    out.note("c10b_wallet_policy_classes", format!("repeated-key={} repeated-placeholder={} untemplatable-rejected={} index-spelling={} into-descriptor={} first-placeholder={}", w1_ok, w2_ok, w3_ok, w4_ok, w5_ok, w6_ok));
    let _ = k2;

    // --- the placeholder rules one by one (fixed texts; valid and invalid)
    for t in ["wpkh(@0/<0;1>/*)", "wpkh(@0/<7;9>/*)", "wsh(multi(2,@0/**,@0/<2;3>/*,@1/**))", "wsh(multi(2,@0/<0;1>/*,@1/<0;1>/*))", "wpkh(@0/<0;2147483647>/*)",
              "wpkh(@0/<3;3>/*)", "wpkh(@0/<1;0>/*)", "wpkh(@0/<0;1;2>/*)", "wpkh(@0/0/*)", "wpkh(@0/<0;1>/*h)", "wpkh(@0/<0h;1h>/*)", "wpkh(@0/<0;1>/*')", "wpkh(@0/<0;1>)", "wpkh(@0/<0;1>/2/*)",
              "wsh(multi(2,@1/**,@0/**))", "wsh(multi(2,@0/**,@2/**))", "wsh(multi(2,@0/**,@0/**))", "wsh(multi(2,@0/**,@0/<1;2>/*))", "wsh(multi(2,@0/<2;3>/*,@0/<3;4>/*))",
              "wpkh(@4294967296/**)", "wpkh(@/**)", "wpkh(@0)", "wpkh(@0/)", "wpkh(@0/<0;2147483648>/*)", "wpkh(@0/<;1>/*)", "wpkh(@0/<0;>/*)", "wpkh(0/**)", "wpkh(@-1/**)"] {
        wp_judge_template(out, t, "rules");
    }
    // --- generated descriptors
    let n = if thorough { 1500 } else { 150 };
    for i in 0..n {
        // every skeleton at least once in every tier, then random ones
        let skel = if i < WP_SKELETONS.len() { WP_SKELETONS[i] } else { WP_SKELETONS[rng.below(WP_SKELETONS.len())] };
        let slots = n_slots(skel);
        // key per slot: distinct keys; with w1_ok also repeated ones (fresh disjoint pair)
        let mut order: Vec<usize> = (0..keys.len()).collect();
        for j in (1..order.len()).rev() { let r = rng.below(j + 1); order.swap(j, r); }
        let mut items = vec![]; let mut tmpl_items = vec![]; let mut used: Vec<(usize, u32, u32)> = vec![]; let mut vec_keys: Vec<usize> = vec![];
        for s in 0..slots {
            let ki = if w1_ok && s > 0 && rng.below(3) == 0 { used[rng.below(used.len())].0 } else { order[s % order.len()] };
            // a pair disjoint from the pairs already used with this key
            let mut a; let mut b;
            loop {
                a = if rng.below(3) == 0 { rng.below(40) as u32 } else { 0 }; b = a + 1 + (if rng.below(4) == 0 { rng.below(1000) as u32 } else { 0 });
                if rng.below(50) == 0 { b = 2147483647; }
                if used.iter().all(|(k, c, d)| *k != ki || (a != *c && a != *d && b != *c && b != *d)) { break; }
            }
            used.push((ki, a, b));
            if !vec_keys.contains(&ki) { vec_keys.push(ki); }
            let idx = vec_keys.iter().position(|k| *k == ki).unwrap();
            items.push(format!("{}{}", keys[ki], pair_text(a, b)));
            tmpl_items.push(if (a, b) == (0, 1) && rng.coin() { format!("@{}/**", idx) } else { format!("@{}{}", idx, pair_text(a, b)) });
        }
        let repeated = vec_keys.len() < slots;
        let d = fill(skel, &items);
        wp_judge_descriptor(out, &d, if repeated { "gen-repeated" } else { "gen" });
        // the template written by hand (long and short forms), and its variants
        let t = fill(skel, &tmpl_items);
        if !repeated || w2_ok { wp_judge_template(out, &t, "gen"); }
        if w5_ok && (!repeated || w2_ok) {
            let kv: Vec<String> = vec_keys.iter().map(|k| keys[*k].clone()).collect();
            wp_judge_into(out, &t, &kv, "gen", None);
        }
        if i % 2 == 0 && !repeated {
            // broken placeholder rules (the descriptor skeleton stays valid)
            let mut v = tmpl_items.clone();
            let j = if w6_ok || v.len() == 1 { rng.below(v.len()) } else { 1 + rng.below(v.len() - 1) };
            let class = match rng.below(7) {
                0 if slots >= 2 => { v.swap(0, slots - 1); "gen-bad-order" }
                1 if w6_ok || j > 0 => { v[j] = v[j].replacen(&format!("@{}", j), &format!("@{}", j + 1 + rng.below(3)), 1); "gen-bad-skip" }
                2 if slots >= 2 => { let first = v[0].clone(); v[slots - 1] = first; "gen-bad-overlap" }
                3 => { let a = 1 + rng.below(9); v[j] = format!("@{}/<{};{}>/*", j, a, if rng.coin() { a } else { rng.below(a) }); "gen-bad-pair-order" }
                4 => { v[j] = format!("@{}/<0;1;2>/*", j); "gen-bad-three-paths" }
                5 => { v[j] = format!("@{}/{}/*", j, rng.below(3)); "gen-bad-no-multipath" }
                _ => { v[j] = format!("@{}/<0h;1h>/*", j); "gen-bad-hardened" }
            };
            wp_judge_template(out, &fill(skel, &v), class);
        }
        if w3_ok && i % 5 == 0 {
            let mut it = items.clone();
            let j = rng.below(it.len());
            it[j] = format!("{}{}", keys[order[j % order.len()]], w3_forms[rng.below(w3_forms.len())]);
            wp_judge_descriptor(out, &fill(skel, &it), "gen-no-template");
        }
        if w4_ok && i % 7 == 0 {
            let mut v = tmpl_items.clone();
            v[0] = v[0].replacen("@0", ["@00", "@0x", "@+0", "@ 0"][rng.below(4)], 1);
            wp_judge_template(out, &fill(skel, &v), "gen-bad-index-spelling");
        }
    }
}

/* ------------------------------------------------------------ gap 4: key expression forms, judged */

pub fn run_keyforms(out: &mut Out, km: &KeyMaterial) {
    let x = &km.xpubs[0]; let t = &km.tpub; let p = &km.xprvs[0];
    let c = ast::full_key(1).to_string(); let u = ast::full_key(101).to_string(); let xo = ast::xonly_key(202).to_string();
    let origins = ["", "[d34db33f]", "[00000000/0]", "[ffffffff/44'/0'/0']", "[0a0b0c0d/44h/0h/0h]", "[d34db33f/2147483647'/0/1h/2]", "[d34db33f/44'/0h]"];
    let derivs = ["", "/0", "/0/1/2", "/2147483647", "/0'", "/0h", "/1h/2'/3", "/*", "/*'", "/*h", "/0/*", "/0h/*h", "/<0;1>", "/<0;1>/*", "/<0;1;2>/*", "/<7;9>/3/*",
                  "/4/<0h;1h>/*", "/<0';1'>/*'", "/<2147483646;2147483647>/*", "/1/2/3/4/5/6/7/8/9/10/*"];
    let mut pubs: Vec<String> = vec![];
    for o in origins {
        for k in [&c, &u, &xo] { pubs.push(format!("{}{}", o, k)); }
        for d in derivs { pubs.push(format!("{}{}{}", o, x, d)); }
    }
    for d in derivs { pubs.push(format!("{}{}", t, d)); }
    // spellings OUTSIDE the grammar (not judged, only run): upper case, `H`, leading zeros, m/ prefix
    pubs.extend([c.to_uppercase(), format!("[D34DB33F]{}", c), format!("{}/0H", x), format!("{}/*H", x), format!("{}/00/1", x), format!("m/0/{}", x), format!("[d34db33f/m/0]{}", c),
                 format!("{}/<0;1>/<2;3>/*", x), format!("{}/<0>/*", x), format!("{}//0", x), format!("{}/*/0", x), format!("{}/2147483648", x)]);
    let mut n_ok = 0; let mut n_rej = 0;
    for k in &pubs {
        let v = match verdict(|| DescriptorPublicKey::from_str(k)) { "ok" => "accepted", "err" => "rejected", _ => "PANIC" };
        if v == "accepted" { n_ok += 1 } else { n_rej += 1 }
        out.line(&format!("J keyform pub {} {}", hex(k), v), "ok");
        // the same key inside a descriptor (contexts in which every key kind is legal)
        let d = if k.ends_with(&xo) && k.len() <= 64 + 40 { format!("tr({})", k) } else { format!("pkh({})", k) };
        let v = match verdict(|| Descriptor::<DescriptorPublicKey>::from_str(&d)) { "ok" => "accepted", "err" => "rejected", _ => "PANIC" };
        if !(d.starts_with("pkh(") && k.ends_with(&xo)) { out.line(&format!("J keyform pub-in-descriptor {} {}", hex(k), v), "ok"); }
    }
    let mut secs: Vec<String> = vec![];
    for o in origins {
        for w in &km.wifs { secs.push(format!("{}{}", o, w)); }
        for d in derivs { secs.push(format!("{}{}{}", o, p, d)); }
    }
    for k in &secs {
        let v = match verdict(|| DescriptorSecretKey::from_str(k)) { "ok" => "accepted", "err" => "rejected", _ => "PANIC" };
        if v == "accepted" { n_ok += 1 } else { n_rej += 1 }
        out.line(&format!("J keyform sec {} {}", hex(k), v), "ok");
        let d = format!("wpkh({})", k);
        let v = match verdict(|| Descriptor::parse_descriptor(&km.secp, &d)) { "ok" => "accepted", "err" => "rejected", _ => "PANIC" };
        out.line(&format!("J keyform sec-in-parse_descriptor {} {}", hex(k), v), "ok");
    }
    out.note("c10b_keyforms", format!("{} accepted, {} rejected", n_ok, n_rej));
}

/* ------------------------------------------------------------ gap 5: numbers, absurd and near-valid inputs */

const NUMS: &[&str] = &["0", "1", "2", "3", "4", "5", "00", "01", "001", "+1", "-1", "+0", "1+", "2147483647", "2147483648", "4294967295", "4294967296", "4294967297",
    "18446744073709551615", "18446744073709551616", "340282366920938463463374607431768211456", "99999999999999999999999999999999", "0x10", "0b1", "1e3", "1.0", "１", "١", "1_0", "1 ", "-",
    "65541", "4194309", "500000000", "16777216", "1073741824"];

fn numarg_verdict(pos: &str, n: &str) -> String {
    guard(|| match pos {
        "after" => match Miniscript::<String, Segwitv0>::from_str_insane(&format!("after({})", n)) {
            Ok(m) => match m.as_inner() { miniscript::Terminal::After(t) => format!("accepted:{}", t.to_consensus_u32()), _ => "accepted:?".into() }, Err(_) => "rejected".into() },
        "older" => match Miniscript::<String, Segwitv0>::from_str_insane(&format!("older({})", n)) {
            Ok(m) => match m.as_inner() { miniscript::Terminal::Older(t) => format!("accepted:{}", t.to_consensus_u32()), _ => "accepted:?".into() }, Err(_) => "rejected".into() },
        "thresh3" => match Miniscript::<String, Segwitv0>::from_str_insane(&format!("thresh({},pk(A),s:pk(B),s:pk(C))", n)) {
            Ok(m) => match m.as_inner() { miniscript::Terminal::Thresh(t) => format!("accepted:{}", t.k()), _ => "accepted:?".into() }, Err(_) => "rejected".into() },
        "multi3" => match Miniscript::<String, Segwitv0>::from_str_insane(&format!("multi({},A,B,C)", n)) {
            Ok(m) => match m.as_inner() { miniscript::Terminal::Multi(t) => format!("accepted:{}", t.k()), _ => "accepted:?".into() }, Err(_) => "rejected".into() },
        "cthresh3" => match Concrete::<String>::from_str(&format!("thresh({},pk(A),pk(B),pk(C))", n)) {
            Ok(Concrete::Thresh(t)) => format!("accepted:{}", t.k()), Ok(_) => "accepted:?".into(), Err(_) => "rejected".into() },
        "semthresh4" => match Semantic::<String>::from_str(&format!("thresh({},pk(A),pk(B),pk(C),pk(D))", n)) {
            Ok(Semantic::Thresh(t)) => format!("accepted:{}", t.k()), Ok(_) => "accepted:?".into(), Err(_) => "rejected".into() },
        _ => match Concrete::<String>::from_str(&format!("or({}@pk(A),pk(B))", n)) {
            Ok(Concrete::Or(v)) => format!("accepted:{}", v[0].0), Ok(_) => "accepted:?".into(), Err(_) => "rejected".into() },
    })
}

pub fn run_numargs(out: &mut Out) {
    for pos in ["after", "older", "thresh3", "multi3", "cthresh3", "semthresh4", "weight"] {
        for n in NUMS {
            let v = numarg_verdict(pos, n);
            out.count(&format!("numarg {} {}", pos, if v.starts_with("accepted") { "accepted" } else { v.as_str() }));
            out.line(&format!("J numarg {} {} {}", pos, hex(n), v), "ok");
        }
    }
}

fn nopanic_all(out: &mut Out, m: &str, km: &KeyMaterial, every: bool, i: usize) {
    type D = DescriptorPublicKey;
    let calls: Vec<(&str, &'static str)> = vec![
        ("definitekey-fromstr", verdict(|| DefiniteDescriptorKey::from_str(m))),
        ("tr-fromstr", verdict(|| Tr::<D>::from_str(m))),
        ("wsh-fromstr", verdict(|| Wsh::<D>::from_str(m))),
        ("sh-fromstr", verdict(|| Sh::<D>::from_str(m))),
        ("bare-fromstr", verdict(|| Bare::<D>::from_str(m))),
        ("pkh-fromstr", verdict(|| Pkh::<D>::from_str(m))),
        ("wpkh-fromstr", verdict(|| Wpkh::<D>::from_str(m))),
        ("desc-fromstr", verdict(|| Descriptor::<D>::from_str(m))),
        ("desc-string-fromstr", verdict(|| Descriptor::<String>::from_str(m))),
        ("key-fromstr", verdict(|| D::from_str(m))),
        ("seckey-fromstr", verdict(|| DescriptorSecretKey::from_str(m))),
        ("parse-descriptor", verdict(|| Descriptor::parse_descriptor(&km.secp, m))),
        ("walletpolicy-fromstr", verdict(|| WalletPolicy::from_str(m))),
        ("concrete-fromstr", verdict(|| Concrete::<String>::from_str(m))),
        ("concrete-key-fromstr", verdict(|| Concrete::<D>::from_str(m))),
        ("semantic-fromstr", verdict(|| Semantic::<String>::from_str(m))),
        ("ms-segwit-fromstr", verdict(|| Miniscript::<String, Segwitv0>::from_str_insane(m))),
        ("ms-tap-fromstr", verdict(|| Miniscript::<D, Tap>::from_str(m))),
    ];
    for (op, v) in calls {
        out.count(&format!("malformed {} {}", op, v));
        if v == "PANIC" || every || i % 10 == 0 { out.line(&format!("J nopanic {} {} {}", op, hex(m), v), "ok"); }
    }
}

pub fn run_absurd(out: &mut Out, thorough: bool, rng: &mut Rng, km: &KeyMaterial, descs: &[String]) {
    let x = &km.xpubs[0]; let hk = ast::full_key(0).to_string();
    let mut inputs: Vec<String> = vec![];
    for n in NUMS {
        inputs.push(format!("thresh({},pk(A),pk(B))", n));
        inputs.push(format!("or({}@pk(A),{}@pk(B))", n, n));
        inputs.push(format!("wsh(multi({},{},{}))", n, hk, x));
        inputs.push(format!("wsh(and_v(v:pk({}),older({})))", hk, n));
        inputs.push(format!("tr({},multi_a({},{}/*))", x, n, x));
        inputs.push(format!("{}/{}/*", x, n));
        inputs.push(format!("[d34db33f/{}']{}", n, hk));
        inputs.push(format!("{}/<{};1>/*", x, n));
        inputs.push(format!("wpkh(@{}/**)", n));
    }
    inputs.push("thresh(0)".into()); inputs.push("thresh(1)".into()); inputs.push("thresh()".into()); inputs.push("thresh(4294967296,pk(A))".into());
    inputs.push("or(18446744073709551615@pk(A),18446744073709551615@pk(B))".into());
    inputs.push("or(4294967295@pk(A),4294967295@pk(B),4294967295@pk(C))".into());
    inputs.push("and()".into()); inputs.push("or()".into()); inputs.push("multi()".into()); inputs.push("multi(1)".into()); inputs.push("sortedmulti(0)".into());
    // deep key origin and long derivations
    let deep: String = (0..300).map(|i| format!("/{}'", i)).collect();
    inputs.push(format!("[ffffffff{}]{}", deep, hk));
    inputs.push(format!("wpkh([ffffffff{}]{}{}/*)", deep, x, deep.replace('\'', "")));
    inputs.push(format!("{}{}", x, (0..256).map(|i| format!("/{}", i)).collect::<String>()));
    // 1000-child multipath
    let many: String = (0..1000).map(|i| i.to_string()).collect::<Vec<_>>().join(";");
    inputs.push(format!("{}/<{}>/*", x, many));
    inputs.push(format!("wsh(multi(1,{}/<{}>/*,{}/<0;1>/*))", x, many, km.xpubs[1]));
    inputs.push(format!("tr({}/<{}>/*)", x, many));
    inputs.push(format!("{}/<0;1>/<{}>/*", x, many));
    // checksum over non-ASCII / odd characters
    for body in ["wpkh(é)", "pk(A)é", "wsh(pk(\u{1F600}))", "tr(\u{0})", "wpkh(A)#\u{e9}\u{e9}\u{e9}\u{e9}", "pk(A)#é2345678", "pk(A)##12345678", "pk(A)#1234567", "pk(A)#123456789", "#", "a#", "\u{7f}", "pk(A) ", "pk(\tA)"] {
        inputs.push(body.to_string());
    }
    // many children / long flat lists
    inputs.push(format!("wsh(multi(1{}))", (0..25).map(|_| format!(",{}", hk)).collect::<String>()));
    inputs.push(format!("tr({},multi_a(1{}))", x, (0..1000).map(|_| format!(",{}", x)).collect::<String>()));
    inputs.push(format!("thresh(1{})", (0..2000).map(|i| format!(",pk(K{})", i)).collect::<String>()));
    inputs.push(format!("or({})", (0..500).map(|i| format!("{}@pk(K{})", i, i)).collect::<Vec<_>>().join(",")));
    for (i, m) in inputs.iter().enumerate() { nopanic_all(out, m, km, i % 4 == 0 || m.len() < 80, i); }
    // mutated descriptors to the per-wrapper parsers
    let n = if thorough { 6000 } else { 600 };
    if !descs.is_empty() {
        for i in 0..n {
            let m = mutate(&descs[rng.below(descs.len())], rng);
            nopanic_all(out, &m, km, false, i);
        }
    }
}

/* ------------------------------------------------------------ descriptor wrappers vs Model/DescDisplay.lean */

#[derive(Clone, Debug)]
pub enum TapW { Leaf(Node), Node(Box<TapW>, Box<TapW>) }
#[derive(Clone, Debug)]
pub enum DescW { Bare(Node), Pkh(u32), Wpkh(u32), Sh(Node), ShWpkh(u32), ShWsh(Node), Wsh(Node), Tr(u32, Option<TapW>) }
impl TapW {
    fn wire(&self) -> String { match self { TapW::Leaf(n) => format!("leaf({})", n.wire()), TapW::Node(l, r) => format!("node({},{})", l.wire(), r.wire()) } }
}
impl DescW {
    fn wire(&self) -> String {
        match self {
            DescW::Bare(n) => format!("bare({})", n.wire()), DescW::Pkh(k) => format!("pkh({})", k), DescW::Wpkh(k) => format!("wpkh({})", k),
            DescW::Sh(n) => format!("sh({})", n.wire()), DescW::ShWpkh(k) => format!("shwpkh({})", k), DescW::ShWsh(n) => format!("shwsh({})", n.wire()),
            DescW::Wsh(n) => format!("wsh({})", n.wire()), DescW::Tr(k, None) => format!("tr({})", k), DescW::Tr(k, Some(t)) => format!("tr({},{})", k, t.wire()),
        }
    }
}

fn ms_ids<Pk: ast::KeyOf + super::Atom, Ctx: miniscript::ScriptContext>(n: &Node) -> Option<Miniscript<String, Ctx>> {
    ast::to_ms::<Pk, Ctx>(n).ok()?.translate_pk(&mut super::ToIds).ok()
}
fn tap_ids(t: &TapW) -> Option<miniscript::descriptor::TapTree<String>> {
    use miniscript::descriptor::TapTree;
    match t {
        TapW::Leaf(n) => Some(TapTree::leaf(ms_ids::<XOnlyPublicKey, Tap>(n)?)),
        TapW::Node(l, r) => TapTree::combine(tap_ids(l)?, tap_ids(r)?).ok(),
    }
}
fn desc_ids(d: &DescW) -> Option<Descriptor<String>> {
    match d {
        DescW::Bare(n) => Descriptor::new_bare(ms_ids::<PublicKey, BareCtx>(n)?).ok(),
        DescW::Pkh(k) => Descriptor::new_pkh(k.to_string()).ok(),
        DescW::Wpkh(k) => Descriptor::new_wpkh(k.to_string()).ok(),
        DescW::Sh(n) => Descriptor::new_sh(ms_ids::<PublicKey, Legacy>(n)?).ok(),
        DescW::ShWpkh(k) => Descriptor::new_sh_wpkh(k.to_string()).ok(),
        DescW::ShWsh(n) => Descriptor::new_sh_wsh(ms_ids::<PublicKey, Segwitv0>(n)?).ok(),
        DescW::Wsh(n) => Descriptor::new_wsh(ms_ids::<PublicKey, Segwitv0>(n)?).ok(),
        DescW::Tr(k, None) => Descriptor::new_tr(k.to_string(), None).ok(),
        DescW::Tr(k, Some(t)) => Descriptor::new_tr(k.to_string(), Some(tap_ids(t)?)).ok(),
    }
}

/// the library's descriptor over id strings → wire (own structural walk)
fn desc_to_wire(d: &Descriptor<String>) -> Option<String> {
    use miniscript::descriptor::ShInner;
    fn rebuild(items: &[(u8, Node)], idx: &mut usize, depth: u8) -> Option<TapW> {
        if *idx >= items.len() { return None; }
        if items[*idx].0 == depth { let n = items[*idx].1.clone(); *idx += 1; return Some(TapW::Leaf(n)); }
        if items[*idx].0 < depth { return None; }
        let l = rebuild(items, idx, depth + 1)?; let r = rebuild(items, idx, depth + 1)?;
        Some(TapW::Node(Box::new(l), Box::new(r)))
    }
    let k = |s: &String| super::canon_u32(s);
    Some(match d {
        Descriptor::Bare(b) => DescW::Bare(from_ms(b.as_inner())?),
        Descriptor::Pkh(p) => DescW::Pkh(k(p.as_inner())?),
        Descriptor::Wpkh(p) => DescW::Wpkh(k(p.as_inner())?),
        Descriptor::Sh(sh) => match sh.as_inner() {
            ShInner::Wsh(w) => DescW::ShWsh(from_ms(w.as_inner())?),
            ShInner::Wpkh(p) => DescW::ShWpkh(k(p.as_inner())?),
            ShInner::Ms(m) => DescW::Sh(from_ms(m)?),
        },
        Descriptor::Wsh(w) => DescW::Wsh(from_ms(w.as_inner())?),
        Descriptor::Tr(t) => {
            let ik = k(t.internal_key())?;
            let items: Vec<(u8, Node)> = t.leaves().map(|l| from_ms(l.miniscript()).map(|n| (l.depth(), n))).collect::<Option<Vec<_>>>()?;
            if items.is_empty() { DescW::Tr(ik, None) } else {
                // a leaf/depth list that is not the pre-order of a binary tree is a malformed OBJECT, not a parse error
                let mut idx = 0;
                match rebuild(&items, &mut idx, 0) {
                    Some(tree) if idx == items.len() => DescW::Tr(ik, Some(tree)),
                    _ => return Some("MALFORMED-TAPTREE-OBJECT".to_string()),
                }
            }
        }
    }.wire())
}

fn descparse_impl(s: &str) -> String {
    guard(|| {
        let top = match miniscript::expression::Tree::from_str(s) { Ok(t) => t, Err(_) => return "ERR".into() };
        match <Descriptor<String> as miniscript::expression::FromTree>::from_tree(top.root()) {
            Ok(d) => desc_to_wire(&d).unwrap_or_else(|| "ERR".into()),
            Err(_) => "ERR".into(),
        }
    })
}

fn tap_shape(n_leaves: usize, rng: &mut Rng, leaves: &[Node]) -> TapW {
    if n_leaves <= 1 { return TapW::Leaf(leaves[rng.below(leaves.len())].clone()); }
    let k = match rng.below(3) { 0 => 1 + rng.below(n_leaves - 1), 1 => if rng.coin() { 1 } else { n_leaves - 1 }, _ => (n_leaves / 2).max(1) };
    TapW::Node(Box::new(tap_shape(k, rng, leaves)), Box::new(tap_shape(n_leaves - k, rng, leaves)))
}
fn tap_comb(depth: usize, rng: &mut Rng, leaves: &[Node]) -> TapW {
    let mut t = TapW::Leaf(leaves[rng.below(leaves.len())].clone());
    for _ in 0..depth {
        let o = TapW::Leaf(leaves[rng.below(leaves.len())].clone());
        t = if rng.coin() { TapW::Node(Box::new(t), Box::new(o)) } else { TapW::Node(Box::new(o), Box::new(t)) };
    }
    t
}

pub fn run_desc_model(out: &mut Out, thorough: bool, rng: &mut Rng, ms: &std::collections::BTreeMap<CtxK, Vec<(Node, String)>>) {
    let mut objs: Vec<DescW> = vec![];
    for k in [0u32, 1, 7, 9, 10, 4294967295] { objs.push(DescW::Pkh(k)); objs.push(DescW::Wpkh(k)); objs.push(DescW::ShWpkh(k)); objs.push(DescW::Tr(k, None)); }
    let cap = if thorough { 2500 } else { 300 };
    let pick = |ctx: CtxK| -> Vec<Node> {
        let pool = &ms[&ctx];
        let step = (pool.len() / cap).max(1);
        pool.iter().step_by(step).filter(|(_, s)| !s.contains("expr_raw")).map(|(n, _)| n.clone()).collect()
    };
    for n in pick(CtxK::Segwitv0) { objs.push(DescW::Wsh(n.clone())); objs.push(DescW::ShWsh(n)); }
    for n in pick(CtxK::Legacy) { objs.push(DescW::Sh(n)); }
    for n in pick(CtxK::Bare) { objs.push(DescW::Bare(n)); }
    // tap leaves: those the library accepts as a one-leaf tree
    let tap_leaves: Vec<Node> = pick(CtxK::Tap).into_iter().filter(|n| desc_ids(&DescW::Tr(1, Some(TapW::Leaf(n.clone())))).is_some()).collect();
    if !tap_leaves.is_empty() {
        for n in tap_leaves.iter().take(cap) { objs.push(DescW::Tr(2, Some(TapW::Leaf(n.clone())))); }
        for i in 2..(if thorough { 60 } else { 14 }) { objs.push(DescW::Tr(3, Some(tap_shape(i, rng, &tap_leaves)))); }
        for d in [1usize, 2, 30, 127, 128, 129] { objs.push(DescW::Tr(4, Some(tap_comb(d, rng, &tap_leaves)))); }
        // depth-128 bookkeeping: two sibling pairs at depth 128 under a spine of 126, pure combs to 128 on either side
        let lf = |i: usize| TapW::Leaf(tap_leaves[i % tap_leaves.len()].clone());
        let pair = |i: usize| TapW::Node(Box::new(lf(i)), Box::new(lf(i + 1)));
        let spine = |d: usize, right: bool, bottom: TapW| { let mut t = bottom; for i in 0..d { t = if right { TapW::Node(Box::new(lf(i)), Box::new(t)) } else { TapW::Node(Box::new(t), Box::new(lf(i))) }; } t };
        for right in [true, false] {
            objs.push(DescW::Tr(5, Some(spine(126, right, TapW::Node(Box::new(pair(0)), Box::new(pair(2)))))));
            objs.push(DescW::Tr(6, Some(spine(128, right, lf(7)))));
            objs.push(DescW::Tr(7, Some(spine(127, right, pair(4)))));
            objs.push(DescW::Tr(8, Some(spine(129, right, lf(1)))));   // too deep: not constructible, text refused
        }
    }
    // miniscript texts (id atoms) usable as tap leaves / inside wsh()
    let leaf_txt: Vec<String> = tap_leaves.iter().take(60).filter_map(|n| ms_ids::<XOnlyPublicKey, Tap>(n).map(|m| m.to_string())).collect();
    let seg_txt: Vec<String> = pick(CtxK::Segwitv0).iter().take(60).filter_map(|n| ms_ids::<PublicKey, Segwitv0>(n).map(|m| m.to_string())).collect();
    let mut printed: Vec<String> = vec![];
    for o in &objs {
        let d = match catch_unwind(AssertUnwindSafe(|| desc_ids(o))) { Ok(Some(d)) => d, _ => { out.count("descmodel not-constructible"); continue; } };
        let s = super::rawpkh_hex_to_ids(&format!("{:#}", d));
        out.count("descmodel object");
        out.line(&format!("C desctree {}", o.wire()), &s);
        out.line(&format!("C descparse {}", hex(&s)), &descparse_impl(&s));
        if printed.len() < 400 { printed.push(s); }
    }
    // not constructible through the API but parseable text forms (the parser decides), and mutations
    let n = if thorough { 8000 } else { 800 };
    for i in 0..n {
        if printed.is_empty() { break; }
        let base = &printed[rng.below(printed.len())];
        if base.len() > 2000 { continue; }
        let m = if i % 4 == 0 && !leaf_txt.is_empty() && !seg_txt.is_empty() {
            // near-valid wrapper / tap-tree grammar around VALID miniscript texts
            let tl = &leaf_txt[rng.below(leaf_txt.len())];
            let base = if rng.below(14) >= 5 && rng.below(14) <= 11 { tl } else { &seg_txt[rng.below(seg_txt.len())] };
            let base = if rng.coin() { tl } else { base };
            match rng.below(14) {
                0 => format!("sh({})", base), 1 => format!("wsh({})", base), 2 => format!("tr(0,{})", base), 3 => format!("tr(0,{{{},{}}})", base, base),
                4 => format!("sh(wsh({}))", base),
                // tap-tree grammar: branches with 1 / 3 / 0 children, named branch, round brackets, nested
                5 => format!("tr(0,{{{}}})", base), 6 => format!("tr(0,{{{},{},{}}})", base, base, base), 7 => "tr(0,{})".to_string(),
                8 => format!("tr(0,x{{{},{}}})", base, base), 9 => format!("tr(0,({},{}))", base, base),
                10 => format!("tr(0,{{{},{{{}}}}})", base, base), 11 => format!("tr(0,{},{})", base, base),
                12 => format!("wsh({},{})", base, base), _ => format!("sh(wpkh({}))", base),
            }
        } else { mutate(base, rng) };
        let ans = descparse_impl(&m);
        out.count(&format!("descmodel malformed {}", if ans == "ERR" { "ERR" } else if ans == "PANIC" { "PANIC" } else { "ok" }));
        out.line(&format!("C descparse {}", hex(&m)), &ans);
    }
}

/* ============================================================ input-class round */

use miniscript::bitcoin::bip32::{ChildNumber, DerivationPath, Fingerprint, Xpriv, Xpub};
use miniscript::descriptor::{DerivPaths, DescriptorMultiXKey, DescriptorXKey, SinglePriv, SinglePub, SinglePubKey, Wildcard};

fn dpath(s: &str) -> DerivationPath { if s.is_empty() { DerivationPath::from(Vec::<ChildNumber>::new()) } else { DerivationPath::from_str(&format!("m/{}", s)).unwrap() } }

type Origin = Option<(Fingerprint, DerivationPath)>;
fn origins() -> Vec<(&'static str, Origin)> {
    vec![("noorigin", None), ("fp", Some((Fingerprint::from([0xd3, 0x4d, 0xb3, 0x3f]), dpath("")))),
         ("fp0", Some((Fingerprint::from([0, 0, 0, 0x0a]), dpath("44'/0'/7")))), ("fph", Some((Fingerprint::from([0xff; 4]), dpath("2147483647'/0/1'"))))]
}
const WILDS: [(&str, Wildcard); 3] = [("none", Wildcard::None), ("star", Wildcard::Unhardened), ("starh", Wildcard::Hardened)];
const PATHS: [&str; 8] = ["", "0", "0/1/2", "0'", "1'/2/3'", "2147483647", "2147483647'", "5/6'/7"];
/// multipath alternatives that differ at exactly one step (first / middle / last; 2 or 3 alternatives; hardened ones)
const MPATHS: [&[&str]; 7] = [&["0", "1"], &["0/5", "1/5"], &["7/0/3", "7/1/3", "7/2/3"], &["0'", "1'"], &["4/0'", "4/1"], &["9/8/0", "9/8/2147483647"], &["2", "0", "1"]];

/// `from_str(to_string(k))` for a key VALUE built through the public structs (not through the parser)
fn rt_key_value<K: std::fmt::Debug + std::fmt::Display + PartialEq + FromStr>(out: &mut Out, kind: &str, label: &str, k: &K) {
    let s = match catch_unwind(AssertUnwindSafe(|| k.to_string())) { Ok(s) => s, Err(_) => {
        out.count(&format!("rt {} PANIC", kind));
        out.line(&format!("J rt {}-{} - PANIC-in-Display", kind, label), "ok"); return; } };
    let tok = guard(|| {
        let k2 = match K::from_str(&s) { Ok(k2) => k2, Err(_) => return "fail:own-display-unparseable".into() };
        if format!("{:?}", k2) != format!("{:?}", k) { return "fail:structure-differs".into(); }
        if k2 != *k { return "fail:lib-eq".into(); }
        if k2.to_string() != s { return "fail:not-fixed-point".into(); }
        "pass".into()
    });
    out.count(&format!("rt {} {}", kind, tok));
    out.line(&format!("J rt {}-{} {} {}", kind, label, hex(&s), tok), "ok");
    out.line(&format!("J alttext {}-{} {} {}", kind, label, hex(&s), hex(&guard(|| format!("{:#}", k)))), "ok");
}

pub fn run_key_values(out: &mut Out, km: &KeyMaterial) {
    let secp = &km.secp;
    let xprv = Xpriv::from_str(&km.xprvs[0]).unwrap();
    let tprv = Xpriv::new_master(miniscript::bitcoin::NetworkKind::Test, &[9u8; 32]).unwrap();
    let xpub = Xpub::from_priv(secp, &xprv);
    let tpub = Xpub::from_priv(secp, &tprv);
    // --- cell 1: public keys through the structs
    for (ol, o) in origins() {
        for (kl, key) in [("compressed", SinglePubKey::FullKey(ast::full_key(3))), ("uncompressed", SinglePubKey::FullKey(ast::full_key(102))), ("xonly", SinglePubKey::XOnly(ast::xonly_key(204)))] {
            rt_key_value(out, "key-api", &format!("single-{}-{}", kl, ol), &DescriptorPublicKey::Single(SinglePub { origin: o.clone(), key }));
        }
        for (wl, w) in WILDS {
            for (pi, p) in PATHS.iter().enumerate() {
                let xk = if pi % 3 == 2 { tpub } else { xpub };
                rt_key_value(out, "key-api", &format!("xpub-{}-{}-p{}", ol, wl, pi),
                    &DescriptorPublicKey::XPub(DescriptorXKey { origin: o.clone(), xkey: xk, derivation_path: dpath(p), wildcard: w }));
                rt_key_value(out, "seckey-api", &format!("xprv-{}-{}-p{}", ol, wl, pi),
                    &DescriptorSecretKey::XPrv(DescriptorXKey { origin: o.clone(), xkey: if pi % 3 == 2 { tprv } else { xprv }, derivation_path: dpath(p), wildcard: w }));
            }
            for (mi, m) in MPATHS.iter().enumerate() {
                let paths = DerivPaths::new(m.iter().map(|p| dpath(p)).collect()).unwrap();
                rt_key_value(out, "key-api", &format!("multixpub-{}-{}-m{}", ol, wl, mi),
                    &DescriptorPublicKey::MultiXPub(DescriptorMultiXKey { origin: o.clone(), xkey: xpub, derivation_paths: paths.clone(), wildcard: w }));
                // cell 2: MultiXPrv has its own wildcard printer
                rt_key_value(out, "seckey-api", &format!("multixprv-{}-{}-m{}", ol, wl, mi),
                    &DescriptorSecretKey::MultiXPrv(DescriptorMultiXKey { origin: o.clone(), xkey: if mi % 2 == 0 { xprv } else { tprv }, derivation_paths: paths, wildcard: w }));
            }
        }
        // cell 2: single secret keys: compressed / uncompressed (51-character WIF) / testnet
        use miniscript::bitcoin::{NetworkKind, PrivateKey};
        for (kl, pk) in [("wif", PrivateKey { compressed: true, network: NetworkKind::Main, inner: ast::secret(1) }),
                         ("wif-uncompressed", PrivateKey { compressed: false, network: NetworkKind::Main, inner: ast::secret(2) }),
                         ("wif-testnet", PrivateKey { compressed: true, network: NetworkKind::Test, inner: ast::secret(3) }),
                         ("wif-testnet-uncompressed", PrivateKey { compressed: false, network: NetworkKind::Test, inner: ast::secret(4) })] {
            rt_key_value(out, "seckey-api", &format!("{}-{}", kl, ol), &DescriptorSecretKey::Single(SinglePriv { origin: o.clone(), key: pk }));
        }
    }
    // --- cell 3: values whose multipath alternatives are NOT "differ at exactly one step, pairwise distinct"
    let x = &km.xpubs[0];
    // (a) multipath steps with REPEATED alternatives (refused since 3f2894f8; before, they were accepted and printed
    // as a different key) and pairwise distinct ones incl. hardened vs unhardened of the same index: every text is judged
    for t in ["/<0;0;1>/*", "/<5;5>/*", "/<1;1;1>", "/3/<7;7;8>", "/<0';0';1'>/*h", "/<0;0>", "/<0;1;0>/*", "/<0';0h>/*", "/<2;1;2>/9", "/<0h;1;0'>",
              "/<0;0h>/*", "/<0;0'>", "/<1;1h;2>/*", "/<0;1;2>/*", "/<2147483647;0>/*", "/4/<1';1>/5/*h"] {
        for (parser, text) in [("pub", format!("{}{}", x, t)), ("pub", format!("[d34db33f/1']{}{}", km.tpub, t)), ("sec", format!("{}{}", km.xprvs[0], t))] {
            let r = if parser == "pub" { catch_unwind(AssertUnwindSafe(|| DescriptorPublicKey::from_str(&text).map(|k| Some(k)).map_err(|_| ()))) }
                    else { catch_unwind(AssertUnwindSafe(|| DescriptorSecretKey::from_str(&text).map(|_| None).map_err(|_| ()))) };
            let label = format!("dup{}", t.replace('/', "_").replace('*', "w").replace('<', "").replace('>', "").replace(';', ".").replace('\'', "h"));
            match r {
                Ok(Ok(k)) => {
                    out.count("keymulti accepted");
                    out.line(&format!("J keymulti {} {} accepted", parser, hex(&text)), "ok");
                    if let Some(k) = k { rt_key_value(out, "key-parsed", &label, &k); }
                }
                Ok(Err(())) => { out.count("keymulti rejected"); out.line(&format!("J keymulti {} {} rejected", parser, hex(&text)), "ok"); }
                Err(_) => out.line(&format!("J nopanic key-fromstr {} PANIC", hex(&text)), "ok"),
            }
        }
    }
    // the same inside descriptors
    for d in [format!("wpkh({}/<0;0;1>/*)", x), format!("wsh(multi(1,{}/<0;1>/*,{}/<3;3>/*))", x, km.xpubs[1]), format!("tr({}/<0;1;0>/*)", x)] {
        let v = verdict(|| Descriptor::<DescriptorPublicKey>::from_str(&d));
        out.count(&format!("keymulti in-descriptor {}", v));
        // judged through the key text: the descriptor must be refused exactly because its key is
        out.line(&format!("J nopanic desc-fromstr {} {}", hex(&d), v), "ok");
        if v == "ok" { out.line(&format!("J rt desc {} fail:repeated-multipath-alternative-accepted", hex(&d)), "ok"); }
    }
    // (b) built through `DerivPaths::new`: one path only, two differing steps, different lengths, no step at all
    for (label, paths) in [("one-path", vec!["0/1"]), ("two-steps-differ", vec!["0/1", "2/3"]), ("shorter-second", vec!["0/1", "0"]), ("longer-second", vec!["0", "0/1"]),
                           ("differs-after-first-pair", vec!["0", "0", "1"]), ("no-steps", vec!["", ""])] {
        let k = DescriptorPublicKey::MultiXPub(DescriptorMultiXKey { origin: None, xkey: xpub, derivation_paths: DerivPaths::new(paths.iter().map(|p| dpath(p)).collect()).unwrap(), wildcard: Wildcard::Unhardened });
        rt_key_value(out, "key-api", &format!("multixpub-shape-{}", label), &k);
    }
    // --- cell 1: the two spellings of a hardened step / wildcard denote the same key
    let o = "[d34db33f/44'/0'/7']"; let oh = "[d34db33f/44h/0h/7h]";
    let pairs: Vec<(String, String)> = vec![
        (format!("{}/0'/1", x), format!("{}/0h/1", x)), (format!("{}/*'", x), format!("{}/*h", x)),
        (format!("{}{}/1'/*'", o, x), format!("{}{}/1h/*h", oh, x)), (format!("{}/<0';1'>/*", x), format!("{}/<0h;1h>/*", x)),
        (format!("{}/<0';1h>/2'/*h", x), format!("{}/<0h;1'>/2h/*'", x)), (format!("{}{}", o, ast::full_key(2)), format!("{}{}", oh, ast::full_key(2))),
        (format!("{}{}", o, ast::xonly_key(201)), format!("{}{}", oh, ast::xonly_key(201))),
    ];
    for (a, b) in &pairs {
        let tok = guard(|| match (DescriptorPublicKey::from_str(a), DescriptorPublicKey::from_str(b)) {
            (Ok(ka), Ok(kb)) => if format!("{:?}", ka) == format!("{:?}", kb) && ka == kb && ka.to_string() == kb.to_string() { "pass".into() } else { "fail:spellings-differ".into() },
            (Err(_), _) => "fail:apostrophe-form-rejected".into(), (_, Err(_)) => "fail:h-form-rejected".into(),
        });
        out.count(&format!("alias key {}", tok));
        out.line(&format!("J alias key {} {} {}", hex(a), hex(b), tok), "ok");
    }
    let p = &km.xprvs[0];
    for (a, b) in [(format!("{}/0'/*'", p), format!("{}/0h/*h", p)), (format!("{}{}/<3';4'>/*", o, p), format!("{}{}/<3h;4h>/*", oh, p))] {
        let tok = guard(|| match (DescriptorSecretKey::from_str(&a), DescriptorSecretKey::from_str(&b)) {
            (Ok(ka), Ok(kb)) => if format!("{:?}", ka) == format!("{:?}", kb) && ka == kb { "pass".into() } else { "fail:spellings-differ".into() },
            _ => "fail:rejected".to_string(),
        });
        out.line(&format!("J alias seckey {} {} {}", hex(&a), hex(&b), tok), "ok");
    }
}

/* ---- cell 2 / 4: descriptors with secret keys (every position, every wrapper) and hash fragments */

const H32A: &str = "0102030405060708090a0b0c0d0e0f101112131415161718191a1b1c1d1e1f20";
const H32B: &str = "fffefdfcfbfaf9f8f7f6f5f4f3f2f1f0efeeedecebeae9e8e7e6e5e4e3e2e1e0";
const H20A: &str = "0102030405060708090a0b0c0d0e0f1011121314";
const H20B: &str = "a0a1a2a3a4a5a6a7a8a9aaabacadaeafb0b1b2b3";

fn rt_desc_secret(out: &mut Out, km: &KeyMaterial, t: &str) {
    let tok = guard(|| {
        let (d, kmap) = match Descriptor::parse_descriptor(&km.secp, t) { Ok(x) => x, Err(e) => return format!("reject:{}", err_class(&e.to_string())) };
        let s = d.to_string_with_secret(&kmap);
        let (d2, kmap2) = match Descriptor::parse_descriptor(&km.secp, &s) { Ok(x) => x, Err(e) => return format!("fail:parse-err:{}", err_class(&e.to_string())) };
        if super::shape_desc(&d2) != super::shape_desc(&d) { return "fail:structure-differs".into(); }
        if d2 != d { return "fail:lib-eq".into(); }
        if format!("{:?}", kmap2) != format!("{:?}", kmap) || kmap2 != kmap { return "fail:keymap-differs".into(); }
        if d2.to_string_with_secret(&kmap2) != s { return "fail:not-fixed-point".into(); }
        // the secret text must contain every secret it was given (nothing silently replaced by its public key)
        if !s.starts_with(&t[..t.find('(').unwrap_or(0)]) { return "fail:wrapper-changed".into(); }
        "pass".into()
    });
    out.count(&format!("rt desc-secret {}", if tok.starts_with("reject") { "rejected-input" } else { tok.as_str() }));
    if !tok.starts_with("reject:") { out.line(&format!("J rt desc-secret {} {}", hex(t), tok), "ok"); }
}

pub fn run_secret_descriptors(out: &mut Out, km: &KeyMaterial) {
    use miniscript::bitcoin::{NetworkKind, PrivateKey};
    let (p, q) = (&km.xprvs[0], &km.xprvs[1]);
    let t = Xpriv::new_master(NetworkKind::Test, &[9u8; 32]).unwrap().to_string();
    let x = &km.xpubs[2];
    let w5 = PrivateKey { compressed: false, network: NetworkKind::Main, inner: ast::secret(2) }.to_wif();
    let wc = PrivateKey { compressed: true, network: NetworkKind::Test, inner: ast::secret(3) }.to_wif();
    let wk = &km.wifs[0];
    let texts = vec![
        format!("tr({}/*,pk({}/*))", p, q), format!("tr({},{{pk({}/<0;1>/*),pk({}/<0;1>/*)}})", x, p, q), format!("tr({}/<0;1>/*h)", p),
        format!("tr({},multi_a(1,{}/*,{}/0'/*'))", wk, p, t), format!("sh(multi(1,{},{}))", w5, x), format!("sh(multi(2,{},{}/1,{}))", wk, p, w5),
        format!("pk({})", w5), format!("pkh({})", wc), format!("pkh([d34db33f/1h]{}/<0;1>/*')", t), format!("multi(1,{},{})", w5, wk),
        format!("sh(wsh(sortedmulti(2,{}/<0;1>/*h,{}/<0;1>/*,{}/<2;3>/*)))", p, x, q), format!("wsh(pkh({}/<0;1;2>))", q),
        format!("sh(wpkh([ffffffff/2147483647']{}))", wk), format!("wpkh({}/2147483647'/0/*)", t),
        // cell 4: hash fragments next to secret keys (the KeyMap translators see a hash of every kind, none symmetric)
        format!("wsh(and_v(v:pk({}/*),hash256({})))", p, H32A), format!("wsh(and_v(v:pk({}/<0;1>/*h),ripemd160({})))", p, H20A),
        format!("wsh(and_v(v:pk({}),hash160({})))", wk, H20B), format!("sh(and_v(v:pk({}),sha256({})))", w5, H32B),
        format!("tr({},and_v(v:pk({}/*),hash256({})))", x, p, H32B),
        format!("wsh(thresh(2,pk({}/*),s:pk({}/*),a:sha256({}),a:hash256({}),a:ripemd160({}),a:hash160({})))", p, x, H32A, H32B, H20A, H20B),
    ];
    for t in &texts { rt_desc_secret(out, km, t); }
}

/* ---- cell 5: full keys in taproot, origin + uncompressed, Descriptor<DefiniteDescriptorKey> */

pub fn run_definite(out: &mut Out, km: &KeyMaterial) -> Vec<String> {
    let c2 = ast::full_key(1).to_string(); let c3 = ast::full_key(2).to_string();
    let c2 = if c2.starts_with("02") { c2 } else { let a = (0..10).map(|i| ast::full_key(i).to_string()).find(|s| s.starts_with("02")); a.unwrap_or(c2) };
    let c3 = if c3.starts_with("03") { c3 } else { let a = (0..10).map(|i| ast::full_key(i).to_string()).find(|s| s.starts_with("03")); a.unwrap_or(c3) };
    let u = ast::full_key(101).to_string(); let xo = ast::xonly_key(205).to_string();
    let (x, y) = (&km.xpubs[0], &km.xpubs[1]);
    let mut valid = vec![];
    let texts = vec![
        format!("tr({})", c2), format!("tr({})", c3), format!("tr([d34db33f/86'/0']{})", c3),
        format!("tr({},{{pk({}),pk([0a0b0c0d/1]{})}})", x, c3, c2), format!("tr({},{{pk({}),{{pk({}),multi_a(2,{},{},{}/*)}}}})", xo, c2, c3, c2, xo, y),
        format!("tr({}/*,and_v(v:pk({}),pk({})))", x, c2, xo),
        format!("pkh([d34db33f/0']{})", u), format!("sh(pk([00000000/44'/1']{}))", u), format!("pk([ffffffff]{})", u), format!("sh(multi(1,[d34db33f/0']{},{}))", u, c2),
        format!("multi(2,{},[d34db33f/7]{},{})", c3, u, c2),
    ];
    for t in &texts { super::desc_from_text(out, km, "desc-keykinds", t, &mut valid); }
    // Descriptor<DefiniteDescriptorKey>: derive, print, parse with the DEFINITE key parser
    let o = "[d34db33f/48'/0'/2']";
    let ranged = vec![
        format!("wpkh({}{}/1/*)", o, x), format!("wsh(multi(2,{}/0/*,{}{}/7/*,{}))", x, o, y, c2), format!("sh(wsh(and_v(v:pk({}/*),older(5))))", x),
        format!("tr({}{}/0/*,{{pk({}/1/*),pk({})}})", o, x, y, xo), format!("pkh({}{})", o, u), format!("tr({}/<0;1>/*,pk({}/<2;3>/*))", x, y),
        format!("wsh(or_d(pk([00000000/2147483647']{}/2147483647/*),and_v(v:pkh({}),hash160({}))))", x, c3, H20A),
    ];
    for t in &ranged {
        // every text below is valid and derivable by construction (no hardened step after an xpub): a refusal is judged
        let d = match Descriptor::<DescriptorPublicKey>::from_str(t) { Ok(d) => d, Err(e) => {
            out.line(&format!("J rt desc-definite {} reject:{}", hex(t), err_class(&e.to_string())), "ok"); continue; } };
        let singles = if d.is_multipath() { match d.clone().into_single_descriptors() { Ok(v) => v, Err(_) => {
            out.line(&format!("J rt desc-definite {} fail:into-single-descriptors", hex(t)), "ok"); continue; } } } else { vec![d] };
        for sd in singles {
            for idx in [0u32, 1, 2147483647] {
                let dd = match catch_unwind(AssertUnwindSafe(|| sd.at_derivation_index(idx))) { Ok(Ok(dd)) => dd, _ => {
                    out.count("rt desc-definite not-derivable");
                    out.line(&format!("J rt desc-definite {} fail:not-derivable-at-{}", hex(&sd.to_string()), idx), "ok"); continue; } };
                let s = dd.to_string();
                let tok = guard(|| {
                    let y = match Descriptor::<DefiniteDescriptorKey>::from_str(&s) { Ok(y) => y, Err(e) => return format!("fail:parse-err:{}", err_class(&e.to_string())) };
                    if super::shape_desc(&y) != super::shape_desc(&dd) { return "fail:structure-differs".into(); }
                    if y != dd { return "fail:lib-eq".into(); }
                    if y.to_string() != s { return "fail:not-fixed-point".into(); }
                    if y.script_pubkey() != dd.script_pubkey() { return "fail:script-differs".into(); }
                    // the same text through the general key parser denotes the same script
                    match Descriptor::<DescriptorPublicKey>::from_str(&s).ok().and_then(|g| g.at_derivation_index(0).ok()) {
                        Some(g) => if g.script_pubkey() != dd.script_pubkey() { return "fail:general-parser-script-differs".into(); },
                        None => return "fail:general-parser-rejects".into(),
                    }
                    "pass".into()
                });
                out.count(&format!("rt desc-definite {}", tok));
                out.line(&format!("J rt desc-definite {} {}", hex(&s), tok), "ok");
                if !sd.has_wildcard() { break; }
            }
        }
    }
    // a definite key with a hardened step after the xpub cannot exist; its text must be refused, not mangled
    for t in [format!("wpkh({}/0'/1)", x), format!("wpkh({}/*)", x), format!("wpkh({}/<0;1>/2)", x)] {
        let v = verdict(|| Descriptor::<DefiniteDescriptorKey>::from_str(&t));
        out.count(&format!("definite-refusal {}", v));
        out.line(&format!("J nopanic desc-definite-fromstr {} {}", hex(&t), v), "ok");
    }
    valid
}

/* ============================================================ route-and-state round */

/// the DESIGNATED corpus of a context: the hand corpus (every sugar shape, wrapper stacks, casts inside combinators,
/// refused-today scripts) and the shared `ast::dimension_corpus` (incl. `ast::wrapper_towers`)
pub fn designated(ctx: CtxK) -> Vec<Node> {
    let mut v = super::sugar_nodes(ctx);
    v.extend(ast::dimension_corpus(ctx));
    let mut seen = std::collections::BTreeSet::new();
    v.into_iter().filter(|n| super::constructible(ctx, n) && seen.insert(n.clone())).collect()
}

fn desc_rt_plain<Pk>(x: &Descriptor<Pk>) -> String
where Pk: miniscript::FromStrKey + miniscript::ToPublicKey {
    let s = x.to_string();
    guard(|| {
        let y = match Descriptor::<Pk>::from_str(&s) { Ok(y) => y, Err(e) => return format!("fail:parse-err:{}", err_class(&e.to_string())) };
        if super::shape_desc(&y) != super::shape_desc(x) { return "fail:structure-differs".into(); }
        if y != *x { return "fail:lib-eq".into(); }
        if y.to_string() != s { return "fail:not-fixed-point".into(); }
        let alt = format!("{:#}", x);
        if !s.starts_with(&alt) || s.len() != alt.len() + 9 { return "fail:checksum-form".into(); }
        match Descriptor::<Pk>::from_str(&alt) { Ok(z) => if z != *x { return "fail:nochecksum-differs".into(); }, Err(_) => return "fail:nochecksum-parse-err".into() }
        if y.script_pubkey() != x.script_pubkey() { return "fail:script-differs".into(); }
        "pass".into()
    })
}

/// R4: the same object after `script_pubkey()`, `address()`, `spend_info()` (cache filled) prints and parses as before
fn desc_used<Pk>(x: &Descriptor<Pk>, prev_used: Option<&Descriptor<Pk>>) -> String
where Pk: miniscript::FromStrKey + miniscript::ToPublicKey {
    guard(|| {
        let fresh = x.to_string();
        let fresh_dbg = format!("{:?}", x);
        let fresh_obj = match Descriptor::<Pk>::from_str(&fresh) { Ok(y) => y, Err(_) => return "fail:parse-err".into() };
        let _ = x.script_pubkey();
        let _ = x.address(miniscript::bitcoin::Network::Bitcoin);
        if let Descriptor::Tr(t) = x { let _ = t.spend_info(); let _ = t.spend_info(); }
        let cl = x.clone();
        if x.to_string() != fresh { return "fail:display-changed-after-use".into(); }
        if format!("{:?}", x) != fresh_dbg { return "fail:debug-changed-after-use".into(); }
        if format!("{:#}", x) != format!("{:#}", fresh_obj) { return "fail:alt-changed-after-use".into(); }
        if cl.to_string() != fresh { return "fail:clone-display-differs".into(); }
        let y = match Descriptor::<Pk>::from_str(&x.to_string()) { Ok(y) => y, Err(_) => return "fail:parse-err-after-use".into() };
        if y != *x || *x != y { return "fail:used-vs-parsed-lib-eq".into(); }
        if cl != *x { return "fail:used-vs-clone-lib-eq".into(); }
        // both USED: y after use
        let _ = y.script_pubkey(); if let Descriptor::Tr(t) = &y { let _ = t.spend_info(); }
        if y != *x { return "fail:both-used-lib-eq".into(); }
        if y.to_string() != fresh { return "fail:parsed-used-display".into(); }
        if let Some(p) = prev_used {
            // a DIFFERENT used object: equal exactly when the texts are equal
            if (p == x) != (p.to_string() == fresh) { return "fail:different-used-objects-compare-equal".into(); }
        }
        "pass".into()
    })
}

macro_rules! route_desc {
    ($out:expr, $km:expr, $tr:expr, $d:expr, $w:expr, $text:expr, $prev:expr, $i:expr) => {{
        let d = $d;
        let tok = desc_rt_plain(&d);
        $out.count(&format!("rt desc-ctor-{} {}", $w, tok));
        $out.line(&format!("J rt desc-ctor-{} {} {}", $w, hex(&d.to_string()), tok), "ok");
        let tok = desc_used(&d, $prev.as_ref());
        $out.count(&format!("rt desc-used-{} {}", $w, tok));
        $out.line(&format!("J rt desc-used-{} {} {}", $w, hex(&d.to_string()), tok), "ok");
        // translate_pk route: the same shape over descriptor keys of assorted forms
        if let Ok(Ok(t)) = catch_unwind(AssertUnwindSafe(|| d.translate_pk($tr))) {
            let s = t.to_string();
            let tok = super::rt_desc_token($km, &t, &s);
            $out.count(&format!("rt desc-translated-{} {}", $w, tok));
            $out.line(&format!("J rt desc-translated-{} {} {}", $w, hex(&s), tok), "ok");
            // derive / split routes
            let singles = if t.is_multipath() { t.clone().into_single_descriptors().unwrap_or_default() } else { vec![] };
            for sd in singles.iter() {
                let ss = sd.to_string();
                let tok = super::rt_desc_token($km, sd, &ss);
                $out.count(&format!("rt desc-single {}", tok));
                $out.line(&format!("J rt desc-single-{} {} {}", $w, hex(&ss), tok), "ok");
            }
            let base = singles.first().cloned().unwrap_or(t);
            if let Ok(Ok(dd)) = catch_unwind(AssertUnwindSafe(|| base.derived_descriptor(&$km.secp, 3))) {
                let tok = desc_rt_plain(&dd);
                $out.count(&format!("rt desc-derived {}", tok));
                $out.line(&format!("J rt desc-derived-{} {} {}", $w, hex(&dd.to_string()), tok), "ok");
            }
        }
        $text.push(d.to_string());
        *$prev = Some(d);
        let _ = $i;
    }};
}

fn inner_routes(out: &mut Out, s: &str, wrong_arms: bool) {
    type D = PublicKey;
    macro_rules! inner { ($arm:expr, $ty:ty, $x:expr) => {{
        let x = $x;
        let tok = guard(|| {
            if x.to_string() != s { return "fail:inner-display-differs-from-descriptor-display".into(); }
            match <$ty>::from_str(s) { Ok(y) => if y == *x && y.to_string() == s { "pass".into() } else { "fail:inner-parse-differs".into() }, Err(_) => "fail:inner-parse-err".into() }
        });
        out.count(&format!("rt inner-{} {}", $arm, tok));
        out.line(&format!("J rt inner-{} {} {}", $arm, hex(s), tok), "ok");
    }}; }
    let d = match Descriptor::<D>::from_str(s) { Ok(d) => d, Err(_) => return };
    match &d {
        Descriptor::Bare(b) => inner!("bare", Bare<D>, b), Descriptor::Pkh(p) => inner!("pkh", Pkh<D>, p), Descriptor::Wpkh(p) => inner!("wpkh", Wpkh<D>, p),
        Descriptor::Sh(x) => inner!("sh", Sh<D>, x), Descriptor::Wsh(x) => inner!("wsh", Wsh<D>, x), Descriptor::Tr(x) => inner!("tr", Tr<D>, x),
    }
    if wrong_arms {
        let body = &s[..s.len().saturating_sub(9)];
        for (p, v) in [("bare", verdict(|| Bare::<D>::from_str(body))), ("pkh", verdict(|| Pkh::<D>::from_str(body))), ("wpkh", verdict(|| Wpkh::<D>::from_str(body))),
                       ("sh", verdict(|| Sh::<D>::from_str(body))), ("wsh", verdict(|| Wsh::<D>::from_str(body))), ("tr", verdict(|| Tr::<D>::from_str(body)))] {
            let v = match v { "ok" => "accepted", "err" => "rejected", _ => "PANIC" };
            // `Pkh::from_tree` / `Wpkh::from_tree` never look at the NAME of the root node (`verify_terminal_parent` takes it
            // only as a description for error messages): any `name(KEY)` is read as pkh / wpkh.  Beyond C10's statement
            // (a text offered to the parser of ANOTHER type): an observation, judged only while the library refuses it
            let own = if body.starts_with("pkh(") { "pkh" } else if body.starts_with("wpkh(") { "wpkh" } else { "" };
            if (p == "pkh" || p == "wpkh") && p != own && v == "accepted" {
                out.count(&format!("observation: {}::from_str accepts a text with another root name ({}…)", if p == "pkh" { "Pkh" } else { "Wpkh" }, &body[..body.find('(').unwrap_or(0)]));
                continue;
            }
            out.line(&format!("J wrongarm {} {} {}", p, hex(body), v), "ok");
        }
    }
}

fn catalan_tapw(n: usize, leaves: &[Node], next: &mut usize) -> Vec<TapW> {
    fn shapes(n: usize) -> Vec<Vec<bool>> { // pre-order: true = inner node
        if n == 1 { return vec![vec![false]]; }
        let mut v = vec![];
        for k in 1..n { for l in shapes(k) { for r in shapes(n - k) { let mut s = vec![true]; s.extend(l.iter()); s.extend(r.iter()); v.push(s); } } }
        v
    }
    fn build(code: &[bool], i: &mut usize, leaves: &[Node], next: &mut usize) -> TapW {
        let inner = code[*i]; *i += 1;
        if inner { let l = build(code, i, leaves, next); let r = build(code, i, leaves, next); TapW::Node(Box::new(l), Box::new(r)) }
        else { let n = leaves[*next % leaves.len()].clone(); *next += 1; TapW::Leaf(n) }
    }
    shapes(n).iter().map(|c| build(c, &mut 0, leaves, next)).collect()
}

pub fn run_routes(out: &mut Out, thorough: bool, rng: &mut Rng, km: &KeyMaterial) {
    init_dpk(out, km);
    let mut tr = super::ToDescKeys {
        full: (0..10).map(|i| super::key_or_fallback(out, &key_forms(km, i, false, false)[[0usize, 4, 6, 8, 14, 15, 17, 2, 5, 20][i]], false)).collect(),
        xonly: (0..10).map(|i| super::key_or_fallback(out, &key_forms(km, i, true, false)[[0usize, 4, 6, 8, 14, 15, 17, 2, 5, 20][i]], true)).collect(),
    };
    let mut texts: Vec<String> = vec![];
    // --- the whole designated corpus through constructor / translate_pk / derive / split / used-state routes, every wrapper
    let mut n_insane = 0;
    for ctx in CtxK::ALL {
        let corpus = designated(ctx);
        out.note(&format!("c10b_designated_{}", ctx.name()), corpus.len().to_string());
        let mut prev_pk: Option<Descriptor<PublicKey>> = None;
        let mut prev_x: Option<Descriptor<XOnlyPublicKey>> = None;
        for (i, n) in corpus.iter().enumerate() {
            match ctx {
                CtxK::Segwitv0 => if let Ok(ms) = ast::to_ms::<PublicKey, Segwitv0>(n) {
                    if ms.validate(&Segwitv0::SANE).is_err() { n_insane += 1; }
                    if let Ok(d) = Descriptor::new_wsh(ms.clone()) { route_desc!(out, km, &mut tr, d, "wsh", texts, &mut prev_pk, i); }
                    if let Ok(d) = Descriptor::new_sh_wsh(ms) { route_desc!(out, km, &mut tr, d, "shwsh", texts, &mut prev_pk, i); }
                },
                CtxK::Legacy => if let Ok(ms) = ast::to_ms::<PublicKey, Legacy>(n) { if let Ok(d) = Descriptor::new_sh(ms) { route_desc!(out, km, &mut tr, d, "sh", texts, &mut prev_pk, i); } },
                CtxK::Bare => if let Ok(ms) = ast::to_ms::<PublicKey, BareCtx>(n) {
                    if matches!(n, Node::Check(x) if matches!(**x, Node::PkH(_))) { continue; }   // F15, judged once elsewhere
                    if let Ok(d) = Descriptor::new_bare(ms) { route_desc!(out, km, &mut tr, d, "bare", texts, &mut prev_pk, i); } },
                CtxK::Tap => if let Ok(ms) = ast::to_ms::<XOnlyPublicKey, Tap>(n) {
                    // `Descriptor::from_str` holds tap leaves to Tap::SANE; the constructor to Tap::CONSENSUS: only sane leaves have a text that parses back
                    if ms.validate(&Tap::SANE).is_err() { n_insane += 1; continue; }
                    if let Ok(d) = Descriptor::new_tr(ast::xonly_key(209), Some(miniscript::descriptor::TapTree::leaf(ms))) { route_desc!(out, km, &mut tr, d, "tr", texts, &mut prev_x, i); } },
            }
        }
    }
    out.note("c10b_routes_insane_leaves_skipped", n_insane.to_string());
    // single-key wrappers, both key kinds, all routes
    {
        let mut prev: Option<Descriptor<PublicKey>> = None;
        for k in [0u32, 3, 101] {
            let pk = ast::full_key(k);
            let mut ds = vec![Descriptor::new_pk(pk)];
            if let Ok(d) = Descriptor::new_pkh(pk) { ds.push(d); }
            if let Ok(d) = Descriptor::new_wpkh(pk) { ds.push(d); }
            if let Ok(d) = Descriptor::new_sh_wpkh(pk) { ds.push(d); }
            for d in ds { route_desc!(out, km, &mut tr, d, "key", texts, &mut prev, 0); }
        }
        let mut prevx: Option<Descriptor<XOnlyPublicKey>> = None;
        if let Ok(d) = Descriptor::new_tr(ast::xonly_key(203), None) { route_desc!(out, km, &mut tr, d, "tr-keyonly", texts, &mut prevx, 0); }
    }
    // --- the per-wrapper types: Display / FromStr of Bare, Pkh, Wpkh, Sh, Wsh, Tr; wrong-arm texts must be refused
    for (i, s) in texts.iter().enumerate() {
        if s.starts_with("tr(") { continue; }   // tr texts carry x-only keys; handled below with its own key type
        inner_routes(out, s, i % 4 == 0);
    }
    // --- every tap tree shape with up to 5 leaves + used state, over real x-only keys
    {
        let leaves: Vec<Node> = designated(CtxK::Tap).into_iter().filter(|n| ast::to_ms::<XOnlyPublicKey, Tap>(n).map(|m| m.validate(&Tap::SANE).is_ok()).unwrap_or(false)).collect();
        let mut next = 0usize;
        let mut prev: Option<Descriptor<XOnlyPublicKey>> = None;
        fn build(t: &TapW) -> Option<miniscript::descriptor::TapTree<XOnlyPublicKey>> {
            use miniscript::descriptor::TapTree;
            match t { TapW::Leaf(n) => Some(TapTree::leaf(ast::to_ms::<XOnlyPublicKey, Tap>(n).ok()?)), TapW::Node(l, r) => TapTree::combine(build(l)?, build(r)?).ok() }
        }
        if !leaves.is_empty() {
            for n in 1..=5 {
                for t in catalan_tapw(n, &leaves, &mut next) {
                    if let Some(tree) = build(&t) {
                        // constructor routes: TapTree::combine + Tr::new + Descriptor::Tr, and Descriptor::new_tr
                        let via_tr = Tr::new(ast::xonly_key(208), Some(tree.clone())).ok().map(Descriptor::Tr);
                        if let Ok(d) = Descriptor::new_tr(ast::xonly_key(208), Some(tree)) {
                            if let Some(v) = via_tr { if v.to_string() != d.to_string() || v != d { out.line(&format!("J rt desc-ctor-trnew {} fail:Tr::new-differs-from-new_tr", hex(&d.to_string())), "ok"); } }
                            // R4: the mirror image at the root, BOTH in the used state: equal exactly when the texts are
                            if let TapW::Node(l, r) = &t {
                                let m = TapW::Node(r.clone(), l.clone());
                                if let Some(Ok(dm)) = build(&m).map(|mt| Descriptor::new_tr(ast::xonly_key(208), Some(mt))) {
                                    let tok = guard(|| {
                                        let _ = d.script_pubkey(); let _ = dm.script_pubkey();
                                        if let (Descriptor::Tr(a), Descriptor::Tr(b)) = (&d, &dm) { let _ = a.spend_info(); let _ = b.spend_info(); }
                                        let same_text = d.to_string() == dm.to_string();
                                        if (d == dm) != same_text || (dm == d) != same_text { return "fail:mirrored-used-trees-compare-wrong".into(); }
                                        match Descriptor::<XOnlyPublicKey>::from_str(&dm.to_string()) { Ok(y) => if (y == d) != same_text { "fail:parsed-mirror-equals-original".into() } else { "pass".into() }, Err(_) => "fail:parse-err".into() }
                                    });
                                    out.line(&format!("J rt desc-used-mirror {} {}", hex(&d.to_string()), tok), "ok");
                                }
                            }
                            route_desc!(out, km, &mut tr, d, "tr-shape", texts, &mut prev, n);
                        }
                    }
                }
            }
        }
    }
    // --- compiler output
    {
        let n = if thorough { 400 } else { 50 };
        fn p_comp(rng: &mut Rng, depth: usize, next_key: &mut u32) -> P {
            if depth == 0 || rng.below(3) == 0 {
                return match rng.below(6) { 0 => P::Older(*rng.pick(&[1u32, 144, 65535])), 1 => P::After(*rng.pick(&[1u32, 100, 499_999_999])),
                    2 => P::Hash(*rng.pick(&HK::ALL), rng.below(4) as u32), _ => { *next_key += 1; P::Key((*next_key - 1) % 6) } };
            }
            match rng.below(3) {
                0 => P::And(vec![P::Key({ *next_key += 1; (*next_key - 1) % 6 }), p_comp(rng, depth - 1, next_key)]),
                1 => P::Or(vec![(1 + rng.below(9), P::Key({ *next_key += 1; (*next_key - 1) % 6 })), (1 + rng.below(9), p_comp(rng, depth - 1, next_key))]),
                _ => P::Thresh(2, vec![P::Key({ *next_key += 1; (*next_key - 1) % 6 }), p_comp(rng, depth - 1, next_key), P::Key({ *next_key += 1; (*next_key - 1) % 6 })]),
            }
        }
        for i in 0..n {
            let mut nk = 0u32;
            let p = p_comp(rng, 1 + i % 3, &mut nk);
            if nk > 6 { continue; }   // six distinct keys in the table
            if let Some(c) = to_conc::<PublicKey>(&p) {
                if let Ok(Ok(ms)) = catch_unwind(AssertUnwindSafe(|| c.compile::<Segwitv0>())) {
                    let s = ms.to_string();
                    let tok = guard(|| match Miniscript::<PublicKey, Segwitv0>::from_str(&s) {
                        Ok(y) => if y == ms && y.to_string() == s && y.encode() == ms.encode() { "pass".into() } else { "fail:differs".into() },
                        Err(e) => format!("fail:parse-err:{}", err_class(&e.to_string())) });
                    out.count(&format!("rt ms-compiled {}", tok));
                    out.line(&format!("J rt ms-compiled-segwitv0 {} {}", hex(&s), tok), "ok");
                    if let Ok(d) = Descriptor::new_wsh(ms) { let tok = desc_rt_plain(&d); out.line(&format!("J rt desc-compiled-wsh {} {}", hex(&d.to_string()), tok), "ok"); }
                }
                if let Ok(Ok(ms)) = catch_unwind(AssertUnwindSafe(|| c.compile::<Legacy>())) {
                    let s = ms.to_string();
                    let tok = guard(|| match Miniscript::<PublicKey, Legacy>::from_str(&s) {
                        Ok(y) => if y == ms && y.to_string() == s { "pass".into() } else { "fail:differs".into() }, Err(e) => format!("fail:parse-err:{}", err_class(&e.to_string())) });
                    out.line(&format!("J rt ms-compiled-legacy {} {}", hex(&s), tok), "ok");
                }
            }
            // key 5 of the descriptor-key table has three derivation paths, key 4 two: a policy using both compiles to a
            // descriptor that `from_str` refuses on purpose (multipath keys of different lengths)
            fn uses(p: &P, k: u32) -> bool { match p { P::Key(x) => *x == k, P::And(v) => v.iter().any(|x| uses(x, k)), P::Or(v) => v.iter().any(|(_, x)| uses(x, k)), P::Thresh(_, v) => v.iter().any(|x| uses(x, k)), _ => false } }
            if uses(&p, 5) { continue; }
            if let Some(c) = to_conc::<DescriptorPublicKey>(&p) {
                let unspendable = DescriptorPublicKey::from_str(&km.xpubs[3]).ok();
                if let Ok(Ok(d)) = catch_unwind(AssertUnwindSafe(|| c.compile_tr(unspendable))) {
                    let s = d.to_string();
                    let tok = super::rt_desc_token(km, &d, &s);
                    out.count(&format!("rt desc-compiled-tr {}", tok));
                    out.line(&format!("J rt desc-compiled-tr {} {}", hex(&s), tok), "ok");
                }
            }
        }
    }
}

/* ---- R3: the raw channel: every short string, and lengths one around each constant the key / descriptor parsers test */
pub fn run_raw_strings(out: &mut Out, km: &KeyMaterial) {
    let alpha = ['(', ')', '{', '}', ',', '#', ':', '@', '/', '*', '\'', 'h', '<', '>', ';', '[', ']', '0', '1', 'a', 'x', 'A', ' ', 'é'];
    let mut inputs: Vec<String> = vec![String::new()];
    for a in alpha { inputs.push(a.to_string()); for b in alpha { inputs.push(format!("{}{}", a, b)); } }
    for a in ['(', ',', '#', '@', '[', '<', '0', 'a'] { for b in ['(', ')', ',', '/', '*', '0', 'a'] { for c in [')', ',', '#', '>', ']', '0', 'a'] { inputs.push(format!("{}{}{}", a, b, c)); } } }
    let hexkey = ast::full_key(0).to_string(); let unc = ast::full_key(100).to_string(); let xo = ast::xonly_key(200).to_string();
    let x = &km.xpubs[0]; let p = &km.xprvs[0]; let w = &km.wifs[0];
    // one character short / long around 64, 66, 130 hex digits, 8-digit fingerprints, 111-character extended keys, 51/52-character WIF, 8-character checksums
    for k in [&hexkey, &unc, &xo] { inputs.push(k[..k.len() - 1].to_string()); inputs.push(format!("{}0", k)); inputs.push(format!("{}00", k)); inputs.push(k[1..].to_string()); }
    for fp in ["d34db33", "d34db33f", "d34db33f0", "", "d34db33g"] { inputs.push(format!("[{}]{}", fp, hexkey)); inputs.push(format!("[{}/0']{}", fp, x)); }
    for k in [x, p] { inputs.push(k[..k.len() - 1].to_string()); inputs.push(format!("{}1", k)); inputs.push(format!("{}/", k)); inputs.push(k[..4].to_string()); inputs.push(k[..5].to_string()); }
    inputs.push(w[..w.len() - 1].to_string()); inputs.push(format!("{}1", w));
    for cs in ["", "#", "#1", "#1234567", "#12345678", "#123456789"] { inputs.push(format!("wpkh({}){}", hexkey, cs)); inputs.push(format!("pk(A){}", cs)); }
    for m in ["pk()", "pk(,)", "wpkh()", "sh()", "wsh()", "tr()", "tr(,)", "tr({})", "multi()", "thresh()", "sh(wsh())", "sh(wpkh())", "and_v()", "a:", ":a", "a:b:c", "@0", "@0/**", "0@", "pk(@)", "older()", "after(0)"] { inputs.push(m.to_string()); }
    for (i, m) in inputs.iter().enumerate() { nopanic_all(out, m, km, i % 16 == 0, i); }
    out.note("c10b_raw_strings", inputs.len().to_string());
}

/* ---- `{:#}` of miniscripts over REAL keys: keys and lock times print as under `{}`; hashes are the designated probes */
pub fn run_alt_probes(out: &mut Out) {
    use Node::*;
    let bx = |n: Node| Box::new(n);
    let pk = |i: u32| Check(bx(PkK(i)));
    let mut probes: Vec<(&str, Node)> = vec![
        ("locks", AndV(bx(Verify(bx(pk(0)))), bx(AndV(bx(Verify(bx(After(100)))), bx(AndV(bx(Verify(bx(After(500000001)))), bx(Older(4194305)))))))),
        ("keys", OrD(bx(pk(1)), bx(AndV(bx(Verify(bx(Check(bx(PkH(2)))))), bx(Multi(1, vec![3, 4]))))))];
    for (name, kind) in [("sha256", HK::Sha256), ("hash256", HK::Hash256), ("ripemd160", HK::Ripemd160), ("hash160", HK::Hash160)] {
        probes.push((name, AndV(bx(Verify(bx(pk(0)))), bx(Hash(kind, 1)))));
    }
    probes.push(("rawpkh", Check(bx(RawPkH(0)))));
    for (name, n) in probes {
        if let Ok(ms) = ast::to_ms::<PublicKey, Segwitv0>(&n) {
            let d = ms.to_string(); let a = guard(|| format!("{:#}", ms)); let ta = guard(|| format!("{:#}", ms.as_inner()));
            out.line(&format!("J alttext ms-realkeys-{} {} {}", name, hex(&d), hex(&a)), "ok");
            out.line(&format!("J alttext terminal-realkeys-{} {} {}", name, hex(&d), hex(&ta)), "ok");
        }
    }
}

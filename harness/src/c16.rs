//! C16: descriptors map to the standard output scripts, addresses and derived keys.
//!
//! Part 1 (outputs): for every generated descriptor (all wrappers that exist in this version:
//! bare, pkh, wpkh, wsh, sh, sh(wsh), sh(wpkh), tr; miniscripts bounded-exhaustive + random)
//!   C spk / explicit / scriptcode / unsignedss / addrspk   the Lean model (real hashes) answers too;
//!   J outspec      the Lean SPECIFICATION (Spec/Outputs.lean) judges the library's four answers
//!                  for the output that commits to the library's explicit script / the key bytes;
//!   J rustoracle   spk-from-explicit (rust-bitcoin `to_p2sh/to_p2wsh/new_p2wpkh/new_p2pkh/
//!                  TaprootBuilder`), addr-4nets (`Address::script_pubkey`, string round trip,
//!                  address type, on all four networks), sighash (BIP143 / legacy digests over
//!                  `script_code()` vs over the independently built script code).
//! Part 2 (sortedmulti): all permutations (n <= 5) / 50 random permutations (n <= 20) of the key
//!   list in wsh / sh / sh(wsh) / nested / tr(sortedmulti_a) give one scriptPubKey, which equals
//!   a multisig script built by hand from the keys sorted by their serialisation.
//! Part 3 (keys): descriptors over a SYMBOLIC key language (S<id>, X<id>/path/*, M<id>{paths}/*,
//!   origins) are mapped to real `DescriptorPublicKey`s; `at_derivation_index`,
//!   `derive_at_index`, `into_definite`, `derived_descriptor`, `into_single_descriptors`,
//!   `find_derivation_index_for_spk` are rendered back into the symbolic language (derived keys by
//!   reverse lookup in a table of independently derived `Xpub::derive_pub` keys) and compared
//!   with the model; independent judges recompute every expectation from the symbolic keys.
use std::collections::{BTreeMap, HashMap};
use std::panic::{catch_unwind, AssertUnwindSafe};
use std::str::FromStr;
use std::sync::Arc;

use miniscript::bitcoin::bip32::{ChildNumber, DerivationPath, Fingerprint, Xpriv, Xpub};
use miniscript::bitcoin::hashes::{hash160, Hash};
use miniscript::bitcoin::key::CompressedPublicKey;
use miniscript::bitcoin::opcodes;
use miniscript::bitcoin::script::Builder;
use miniscript::bitcoin::secp256k1::{self, Secp256k1, XOnlyPublicKey};
use miniscript::bitcoin::sighash::{EcdsaSighashType, SighashCache};
use miniscript::bitcoin::taproot::TaprootBuilder;
use miniscript::bitcoin::{
    absolute, transaction, Address, AddressType, Amount, Network, OutPoint, PublicKey, ScriptBuf,
    Sequence, Transaction, TxIn, TxOut, Witness,
};
use miniscript::descriptor::{
    DerivPaths, DescriptorMultiXKey, DescriptorPublicKey, DescriptorXKey, SinglePub, SinglePubKey,
    TapTree, Wildcard,
};
use miniscript::miniscript::types::Base;
use miniscript::{
    hash256, translate_hash_clone, BareCtx, Descriptor, Legacy, Miniscript, MiniscriptKey,
    Segwitv0, Tap, Threshold, ToPublicKey, Translator,
};
use miniscript::bitcoin::hashes::{ripemd160, sha256};

use crate::ast::{self, full_key, hex, xonly_key, CtxK, KeyOf, Node};
use crate::common::{Out, Rng};

/* ------------------------------------------------------------------ shapes */

#[derive(Clone, Debug)]
pub enum Shape {
    Bare(Node),
    Pkh(u32),
    Wpkh(u32),
    Wsh(Node),
    Sh(Node),
    ShWsh(Node),
    ShWpkh(u32),
    Tr(u32, Vec<(u8, Node)>),
}

impl Shape {
    fn wire(&self) -> String {
        match self {
            Shape::Bare(n) => format!("bare({})", n.wire()),
            Shape::Pkh(k) => format!("pkh({})", k),
            Shape::Wpkh(k) => format!("wpkh({})", k),
            Shape::Wsh(n) => format!("wsh({})", n.wire()),
            Shape::Sh(n) => format!("sh({})", n.wire()),
            Shape::ShWsh(n) => format!("sh(wsh({}))", n.wire()),
            Shape::ShWpkh(k) => format!("sh(wpkh({}))", k),
            Shape::Tr(k, ls) => {
                let mut s = format!("tr({}", k);
                for (d, n) in ls { s.push_str(&format!(";{}:{}", d, n.wire())); }
                s.push(')');
                s
            }
        }
    }
    fn ty(&self) -> &'static str {
        match self {
            Shape::Bare(_) => "bare", Shape::Pkh(_) => "pkh", Shape::Wpkh(_) => "wpkh", Shape::Wsh(_) => "wsh",
            Shape::Sh(_) => "sh", Shape::ShWsh(_) => "shwsh", Shape::ShWpkh(_) => "shwpkh", Shape::Tr(..) => "tr",
        }
    }
    /// key atoms in `for_each_key` order (tr: leaves first, internal key last)
    fn atoms_pre(&self) -> Vec<u32> {
        let mut v = vec![];
        match self {
            Shape::Bare(n) | Shape::Wsh(n) | Shape::Sh(n) | Shape::ShWsh(n) => n.keys(&mut v),
            Shape::Pkh(k) | Shape::Wpkh(k) | Shape::ShWpkh(k) => v.push(*k),
            Shape::Tr(k, ls) => { for (_, n) in ls { n.keys(&mut v); } v.push(*k); }
        }
        v
    }
}

fn tree_from_depths<Pk: KeyOf>(ls: &[(u8, Node)], pos: &mut usize, d: u8) -> Result<TapTree<Pk>, String> {
    if *pos >= ls.len() { return Err("bad depth list".into()); }
    if ls[*pos].0 == d {
        let ms = ast::to_ms::<Pk, Tap>(&ls[*pos].1)?;
        *pos += 1;
        return Ok(TapTree::leaf(Arc::new(ms)));
    }
    if ls[*pos].0 < d { return Err("bad depth list".into()); }
    let l = tree_from_depths::<Pk>(ls, pos, d + 1)?;
    let r = tree_from_depths::<Pk>(ls, pos, d + 1)?;
    TapTree::combine(l, r).map_err(|e| e.to_string())
}

fn build<Pk: KeyOf>(shape: &Shape) -> Result<Descriptor<Pk>, String> {
    let e = |e: miniscript::Error| e.to_string();
    match shape {
        Shape::Bare(n) => Descriptor::new_bare(ast::to_ms::<Pk, BareCtx>(n)?).map_err(e),
        Shape::Pkh(k) => Descriptor::new_pkh(Pk::of(*k)).map_err(e),
        Shape::Wpkh(k) => Descriptor::new_wpkh(Pk::of(*k)).map_err(e),
        Shape::Wsh(n) => Descriptor::new_wsh(ast::to_ms::<Pk, Segwitv0>(n)?).map_err(e),
        Shape::Sh(n) => Descriptor::new_sh(ast::to_ms::<Pk, Legacy>(n)?).map_err(e),
        Shape::ShWsh(n) => Descriptor::new_sh_wsh(ast::to_ms::<Pk, Segwitv0>(n)?).map_err(e),
        Shape::ShWpkh(k) => Descriptor::new_sh_wpkh(Pk::of(*k)).map_err(e),
        Shape::Tr(k, ls) => {
            let tree = if ls.is_empty() { None } else {
                let mut pos = 0;
                let t = tree_from_depths::<Pk>(ls, &mut pos, 0)?;
                if pos != ls.len() { return Err("bad depth list".into()); }
                Some(t)
            };
            Descriptor::new_tr(Pk::of(*k), tree).map_err(e)
        }
    }
}

fn hx(s: &ScriptBuf) -> String { hex(s.as_bytes()) }
fn hx_res(r: Result<ScriptBuf, miniscript::Error>) -> String { match r { Ok(s) => hx(&s), Err(_) => "ERR".into() } }
fn verdict(r: Result<(), String>) -> String { match r { Ok(()) => "pass".into(), Err(e) => format!("fail:{}", e.replace(' ', "_")) } }

/* ------------------------------------------------------------------ part 1: outputs */

/// scriptPubKey rebuilt with rust-bitcoin only, from the explicit script / the key
fn oracle_spk<Pk: KeyOf>(shape: &Shape, d: &Descriptor<Pk>, secp: &Secp256k1<secp256k1::All>) -> Result<ScriptBuf, String> {
    let expl = || d.explicit_script().map_err(|e| e.to_string());
    let wpkh = |k: u32| -> Result<ScriptBuf, String> {
        let c = CompressedPublicKey::try_from(Pk::of(k).to_public_key()).map_err(|e| e.to_string())?;
        Ok(ScriptBuf::new_p2wpkh(&c.wpubkey_hash()))
    };
    Ok(match shape {
        Shape::Bare(_) => expl()?,
        Shape::Pkh(k) => ScriptBuf::new_p2pkh(&Pk::of(*k).to_public_key().pubkey_hash()),
        Shape::Wpkh(k) => wpkh(*k)?,
        Shape::Wsh(_) => expl()?.to_p2wsh(),
        Shape::Sh(_) => expl()?.to_p2sh(),
        Shape::ShWsh(_) => expl()?.to_p2wsh().to_p2sh(),
        Shape::ShWpkh(k) => {
            let r = wpkh(*k)?;
            if r != expl()? { return Err("explicit script of sh(wpkh) is not the p2wpkh program".into()); }
            r.to_p2sh()
        }
        Shape::Tr(k, _) => ScriptBuf::new_p2tr_tweaked(tr_output_key::<Pk>(*k, d, secp)?),
    })
}

/// Merkle root (hex, `-` for none) and output key, both from rust-bitcoin's TaprootBuilder / tap_tweak
fn tr_root_and_key<Pk: KeyOf>(k: u32, d: &Descriptor<Pk>, secp: &Secp256k1<secp256k1::All>) -> Result<(String, miniscript::bitcoin::key::TweakedPublicKey), String> {
    let ik = Pk::of(k).to_x_only_pubkey();
    let mut b = TaprootBuilder::new();
    let mut any = false;
    if let Descriptor::Tr(tr) = d {
        for leaf in tr.leaves() {
            any = true;
            b = b.add_leaf(leaf.depth(), leaf.miniscript().encode()).map_err(|e| e.to_string())?;
        }
    }
    if !any {
        let (ok, _) = miniscript::bitcoin::key::TapTweak::tap_tweak(ik, secp, None);
        return Ok(("-".into(), ok));
    }
    let info = b.finalize(secp, ik).map_err(|_| "taproot builder not finalizable".to_string())?;
    let root = info.merkle_root().map(|r| hex(r.as_byte_array())).unwrap_or_else(|| "-".into());
    Ok((root, info.output_key()))
}

fn tr_output_key<Pk: KeyOf>(k: u32, d: &Descriptor<Pk>, secp: &Secp256k1<secp256k1::All>) -> Result<miniscript::bitcoin::key::TweakedPublicKey, String> {
    let ik = Pk::of(k).to_x_only_pubkey();
    let mut b = TaprootBuilder::new();
    let mut any = false;
    if let Descriptor::Tr(tr) = d {
        for leaf in tr.leaves() {
            any = true;
            b = b.add_leaf(leaf.depth(), leaf.miniscript().encode()).map_err(|e| e.to_string())?;
        }
    }
    if !any {
        let (ok, _) = miniscript::bitcoin::key::TapTweak::tap_tweak(ik, secp, None);
        return Ok(ok);
    }
    let info = b.finalize(secp, ik).map_err(|_| "taproot builder not finalizable".to_string())?;
    Ok(info.output_key())
}

fn dummy_tx() -> Transaction {
    Transaction {
        version: transaction::Version::TWO,
        lock_time: absolute::LockTime::ZERO,
        input: vec![TxIn { previous_output: OutPoint::null(), script_sig: ScriptBuf::new(), sequence: Sequence::MAX, witness: Witness::new() }],
        output: vec![TxOut { value: Amount::from_sat(4321), script_pubkey: ScriptBuf::new() }],
    }
}

/// signature hash over `script_code()` == signature hash over the independently built code
fn oracle_sighash<Pk: KeyOf>(shape: &Shape, d: &Descriptor<Pk>) -> Result<(), String> {
    let tx = dummy_tx();
    let mut cache = SighashCache::new(&tx);
    let amt = Amount::from_sat(100_000);
    let code = match d.script_code() {
        Ok(c) => c,
        Err(_) => return if matches!(shape, Shape::Tr(..)) { Ok(()) } else { Err("script_code failed".into()) },
    };
    if matches!(shape, Shape::Tr(..)) { return Err("tr has a script code".into()); }
    for ty in [EcdsaSighashType::All, EcdsaSighashType::SinglePlusAnyoneCanPay] {
        match shape {
            Shape::Wpkh(k) | Shape::ShWpkh(k) => {
                let c = CompressedPublicKey::try_from(Pk::of(*k).to_public_key()).map_err(|e| e.to_string())?;
                let spk = ScriptBuf::new_p2wpkh(&c.wpubkey_hash());
                let a = cache.p2wsh_signature_hash(0, &code, amt, ty).map_err(|e| e.to_string())?;
                let b = cache.p2wpkh_signature_hash(0, &spk, amt, ty).map_err(|e| e.to_string())?;
                if a != b { return Err("bip143 digest over script_code != rust-bitcoin p2wpkh digest".into()); }
            }
            Shape::Wsh(_) | Shape::ShWsh(_) => {
                let ws = d.explicit_script().map_err(|e| e.to_string())?;
                let a = cache.p2wsh_signature_hash(0, &code, amt, ty).map_err(|e| e.to_string())?;
                let b = cache.p2wsh_signature_hash(0, &ws, amt, ty).map_err(|e| e.to_string())?;
                if a != b { return Err("bip143 digest over script_code != digest over witness script".into()); }
            }
            Shape::Bare(_) | Shape::Pkh(_) | Shape::Sh(_) => {
                let ind = match shape {
                    Shape::Pkh(k) => ScriptBuf::new_p2pkh(&Pk::of(*k).to_public_key().pubkey_hash()),
                    _ => d.explicit_script().map_err(|e| e.to_string())?,
                };
                let a = cache.legacy_signature_hash(0, &code, ty.to_u32()).map_err(|e| e.to_string())?;
                let b = cache.legacy_signature_hash(0, &ind, ty.to_u32()).map_err(|e| e.to_string())?;
                if a != b { return Err("legacy digest over script_code != digest over spk/redeem script".into()); }
            }
            Shape::Tr(..) => {}
        }
    }
    Ok(())
}

const NETS: [Network; 5] = [Network::Bitcoin, Network::Testnet, Network::Testnet4, Network::Signet, Network::Regtest];
fn net_name(n: Network) -> &'static str {
    match n { Network::Bitcoin => "bitcoin", Network::Testnet => "testnet", Network::Testnet4 => "testnet4", Network::Signet => "signet", _ => "regtest" }
}

fn oracle_addr<Pk: KeyOf>(shape: &Shape, d: &Descriptor<Pk>) -> Result<(), String> {
    let spk = d.script_pubkey();
    for net in NETS {
        match d.address(net) {
            Err(_) => { if !matches!(shape, Shape::Bare(_)) { return Err(format!("no address on {:?}", net)); } }
            Ok(a) => {
                if matches!(shape, Shape::Bare(_)) { return Err("bare descriptor has an address".into()); }
                if a.script_pubkey() != spk { return Err(format!("address spk differs on {:?}", net)); }
                let want = match shape {
                    Shape::Pkh(_) => AddressType::P2pkh,
                    Shape::Wpkh(_) => AddressType::P2wpkh,
                    Shape::Wsh(_) => AddressType::P2wsh,
                    Shape::Sh(_) | Shape::ShWsh(_) | Shape::ShWpkh(_) => AddressType::P2sh,
                    _ => AddressType::P2tr,
                };
                if a.address_type() != Some(want) { return Err(format!("address type {:?}", a.address_type())); }
                let back = Address::from_str(&a.to_string()).map_err(|e| e.to_string())?
                    .require_network(net).map_err(|e| e.to_string())?;
                if back.script_pubkey() != spk { return Err("address string round trip".into()); }
            }
        }
    }
    Ok(())
}

/// `xonly_leaves`: the keys of the wire are what the model's key table says (false only for tap
/// trees whose leaf keys are FULL keys of atoms 0..: the model would push 33 bytes)
/// the text route for the two concrete key types of the output part
trait ParseBack: MiniscriptKey + Sized { fn parse_desc(s: &str) -> Result<Descriptor<Self>, String>; }
impl ParseBack for PublicKey { fn parse_desc(s: &str) -> Result<Descriptor<Self>, String> { Descriptor::<PublicKey>::from_str(s).map_err(|e| e.to_string()) } }
impl ParseBack for XOnlyPublicKey { fn parse_desc(s: &str) -> Result<Descriptor<Self>, String> { Descriptor::<XOnlyPublicKey>::from_str(s).map_err(|e| e.to_string()) } }

fn emit_outputs<Pk: KeyOf + ParseBack>(out: &mut Out, shape: &Shape, secp: &Secp256k1<secp256k1::All>, model_keys: bool) -> bool {
    let w = shape.wire();
    let built = build::<Pk>(shape);
    // constructor verdict against the entry-point model: a false rejection is a C mismatch
    if model_keys { out.line(&format!("C build {}", w), if built.is_ok() { "OK" } else { "ERR" }); }
    let d = match built { Ok(d) => d, Err(_) => { out.count("rejected-by-constructor"); return false; } };
    out.count(&format!("type {}", shape.ty()));
    let is_tr = matches!(shape, Shape::Tr(..));
    let spk = d.script_pubkey();
    let expl = hx_res(d.explicit_script());
    let code = hx_res(d.script_code());
    let uss = hx(&d.unsigned_script_sig());
    if !is_tr {
        out.line(&format!("C spk {}", w), &hx(&spk));
        out.line(&format!("C addrspk {}", w), &match d.address(Network::Bitcoin) { Ok(a) => hx(&a.script_pubkey()), Err(_) => "ERR".into() });
    }
    out.line(&format!("C explicit {}", w), &expl);
    out.line(&format!("C scriptcode {}", w), &code);
    out.line(&format!("C unsignedss {}", w), &uss);
    // the specification judges the library's answers for the output committing to this data
    let data = match shape {
        Shape::Pkh(k) | Shape::Wpkh(k) | Shape::ShWpkh(k) => hex(&Pk::of(*k).to_public_key().to_bytes()),
        Shape::Tr(k, _) => match tr_output_key::<Pk>(*k, &d, secp) { Ok(k) => hex(&k.serialize()), Err(_) => "00".into() },
        _ => expl.clone(),
    };
    out.line(&format!("J outspec {} {} {} {} {} {}", shape.ty(), data, hx(&spk), expl, code, uss), "ok");
    // address strings on every network: model (C) and specification + Lean decoder (J)
    for net in NETS {
        if let Ok(a) = d.address(net) {
            if !is_tr { out.line(&format!("C addrstr {} {}", w, net_name(net)), &a.to_string()); }
            out.line(&format!("J addrspec {} {} {} {}", shape.ty(), net_name(net), data, a), "ok");
        } else if !is_tr {
            out.line(&format!("C addrstr {} {}", w, net_name(net)), "ERR");
        }
    }
    // taproot: the model computes the Merkle root itself; rust-bitcoin supplies root -> output key
    if let (Shape::Tr(k, _), true) = (shape, model_keys) {
        if let Ok((root, key)) = tr_root_and_key::<Pk>(*k, &d, secp) {
            out.line(&format!("C trspk {} {} {}", w, root, hex(&key.serialize())), &hx(&spk));
        }
    }
    let v = verdict(oracle_spk::<Pk>(shape, &d, secp).and_then(|s| if s == spk { Ok(()) } else { Err(format!("rebuilt {} != {}", hx(&s), hx(&spk))) }));
    out.line(&format!("J rustoracle spk-from-explicit {} {}", w, v), "ok");
    out.line(&format!("J rustoracle addr-4nets {} {}", w, verdict(oracle_addr::<Pk>(shape, &d))), "ok");
    out.line(&format!("J rustoracle sighash {} {}", w, verdict(oracle_sighash::<Pk>(shape, &d))), "ok");
    // R1: `Descriptor::desc_type` (every arm incl. the three `Sh` inner arms) and its `segwit_version`
    let dt = d.desc_type();
    out.line(&format!("C desctype {}", w), &format!("{:?}:{}", dt, match dt.segwit_version() { Some(v) => v.to_num().to_string(), None => "-".into() }));
    // … and judged against the wrapper the harness built (independent of the model)
    let want_dt = match shape { Shape::Bare(_) => "Bare:-", Shape::Pkh(_) => "Pkh:-", Shape::Wpkh(_) => "Wpkh:0", Shape::Wsh(_) => "Wsh:0",
        Shape::Sh(_) => "Sh:-", Shape::ShWsh(_) => "ShWsh:0", Shape::ShWpkh(_) => "ShWpkh:0", Shape::Tr(..) => "Tr:1" };
    let got_dt = format!("{:?}:{}", dt, match dt.segwit_version() { Some(v) => v.to_num().to_string(), None => "-".into() });
    out.line(&format!("J rustoracle desctype {} {}", w, verdict(if got_dt == want_dt { Ok(()) } else { Err(format!("{} for a {}", got_dt, want_dt)) })), "ok");
    // R1: the inner types' own methods (`Wsh::script_pubkey`, `Sh::inner_script`, `Pkh::address` …) give what
    // the `Descriptor::*` dispatch gives (whose values are judged above)
    out.line(&format!("J rustoracle inner-accessors {} {}", w, verdict(catch(|| oracle_inner::<Pk>(&d)).and_then(|x| x))), "ok");
    // R1: the TEXT route: the printed descriptor parsed by `Descriptor::from_str` is the same descriptor with the
    // same outputs.  (`from_str` may refuse what a constructor accepts - sanity of tap leaves -: C12's matter, counted.)
    match catch(|| Pk::parse_desc(&d.to_string())) {
        Ok(Ok(p)) => {
            let bare_pkh = p != d && matches!(shape, Shape::Bare(Node::Check(x)) if matches!(**x, Node::PkH(_))) && p.script_pubkey() == spk;
            // round-trip of the printed text is C10's claim; the outputs agree
            if bare_pkh { out.count("observation: bare(c:pk_h(K)) prints as pkh(K) and parses back as the Pkh descriptor (same scriptPubKey)"); }
            let v = if bare_pkh { Ok(()) } else if p != d { Err("parsed descriptor differs".to_string()) }
                else if p.script_pubkey() != spk || hx_res(p.explicit_script()) != expl || hx_res(p.script_code()) != code || hx(&p.unsigned_script_sig()) != uss { Err("outputs of the parsed descriptor differ".to_string()) }
                else { Ok(()) };
            out.line(&format!("J rustoracle from-str-route {} {}", w, verdict(v)), "ok");
        }
        Ok(Err(_)) => out.count("observation: from_str refuses a descriptor a constructor built"),
        Err(_) => out.line(&format!("J rustoracle from-str-route {} fail:PANIC", w), "ok"),
    }
    // R4: the USED object (spend-info cache filled, every accessor called) and its clone answer as the fresh one did
    let v = (|| -> Result<(), String> {
        let c = d.clone();
        for (what, x) in [("used", &d), ("clone-of-used", &c)] {
            if x.script_pubkey() != spk { return Err(format!("{} script_pubkey", what)); }
            if hx_res(x.explicit_script()) != expl || hx_res(x.script_code()) != code || hx(&x.unsigned_script_sig()) != uss { return Err(format!("{} accessors", what)); }
            if let Ok(a) = x.address(Network::Testnet4) { if a.script_pubkey() != spk { return Err(format!("{} address", what)); } }
        }
        let fresh = build::<Pk>(shape)?;
        if fresh != d || fresh.script_pubkey() != d.script_pubkey() { return Err("fresh vs used".into()); }
        Ok(())
    })();
    out.line(&format!("J rustoracle used-state {} {}", w, verdict(v)), "ok");
    true
}

/// the methods of `Bare`, `Pkh`, `Wpkh`, `Wsh`, `Sh`, `Tr` against the `Descriptor` dispatch
fn oracle_inner<Pk: KeyOf>(d: &Descriptor<Pk>) -> Result<(), String> {
    let spk = d.script_pubkey();
    let expl = d.explicit_script().ok();
    let code = d.script_code().ok();
    let addr = |n: Network| d.address(n).ok().map(|a| a.to_string());
    let chk = |what: &str, ok: bool| if ok { Ok(()) } else { Err(what.to_string()) };
    match d {
        Descriptor::Bare(b) => {
            chk("Bare::script_pubkey", b.script_pubkey() == spk)?;
            chk("Bare::inner_script", Some(b.inner_script()) == expl)?;
            chk("Bare::ecdsa_sighash_script_code", Some(b.ecdsa_sighash_script_code()) == code)
        }
        Descriptor::Pkh(p) => {
            chk("Pkh::script_pubkey", p.script_pubkey() == spk)?;
            chk("Pkh::inner_script", Some(p.inner_script()) == expl)?;
            chk("Pkh::ecdsa_sighash_script_code", Some(p.ecdsa_sighash_script_code()) == code)?;
            for n in NETS { chk("Pkh::address", Some(p.address(n).to_string()) == addr(n))?; }
            Ok(())
        }
        Descriptor::Wpkh(p) => {
            chk("Wpkh::script_pubkey", p.script_pubkey() == spk)?;
            chk("Wpkh::inner_script", Some(p.inner_script()) == expl)?;
            chk("Wpkh::ecdsa_sighash_script_code", Some(p.ecdsa_sighash_script_code()) == code)?;
            for n in NETS { chk("Wpkh::address", Some(p.address(n).to_string()) == addr(n))?; }
            Ok(())
        }
        Descriptor::Wsh(x) => {
            chk("Wsh::script_pubkey", x.script_pubkey() == spk)?;
            chk("Wsh::inner_script", Some(x.inner_script()) == expl)?;
            chk("Wsh::ecdsa_sighash_script_code", Some(x.ecdsa_sighash_script_code()) == code)?;
            for n in NETS { chk("Wsh::address", Some(x.address(n).to_string()) == addr(n))?; }
            Ok(())
        }
        Descriptor::Sh(x) => {
            chk("Sh::script_pubkey", x.script_pubkey() == spk)?;
            chk("Sh::inner_script", Some(x.inner_script()) == expl)?;
            chk("Sh::ecdsa_sighash_script_code", Some(x.ecdsa_sighash_script_code()) == code)?;
            chk("Sh::unsigned_script_sig", x.unsigned_script_sig() == d.unsigned_script_sig())?;
            for n in NETS { chk("Sh::address", Some(x.address(n).to_string()) == addr(n))?; }
            Ok(())
        }
        Descriptor::Tr(t) => {
            chk("Tr::script_pubkey", t.script_pubkey() == spk)?;
            for n in NETS { chk("Tr::address", Some(t.address(n).to_string()) == addr(n))?; }
            Ok(())
        }
    }
}

fn emit_shape(out: &mut Out, shape: &Shape, secp: &Secp256k1<secp256k1::All>) -> bool {
    if matches!(shape, Shape::Tr(..)) { emit_outputs::<XOnlyPublicKey>(out, shape, secp, true) } else { emit_outputs::<PublicKey>(out, shape, secp, true) }
}

fn extra_defs(out: &mut Out) {
    for id in (10..31).chain(104..108) {
        let k = full_key(id);
        let ser = k.to_bytes();
        let sort = k.inner.serialize();
        let pkh = hash160::Hash::hash(&ser);
        out.line(&format!("D key {} {} {} {}", id, hex(&ser), hex(&sort), hex(pkh.as_byte_array())), "ok");
    }
    for id in 210..221 {
        let ser = xonly_key(id).serialize();
        let pkh = hash160::Hash::hash(&ser);
        out.line(&format!("D key {} {} {} {}", id, hex(&ser), hex(&ser), hex(pkh.as_byte_array())), "ok");
    }
}

const TREE_SHAPES: [&[u8]; 6] = [&[0], &[1, 1], &[1, 2, 2], &[2, 2, 1], &[2, 2, 2, 2], &[1, 2, 3, 3]];

fn part_outputs(out: &mut Out, thorough: bool, rng: &mut Rng, secp: &Secp256k1<secp256k1::All>) -> u64 {
    let mut n = 0u64;
    // key-only descriptors over every key form (uncompressed keys are rejected by wpkh)
    for k in (0..10).chain(100..104) {
        for s in [Shape::Pkh(k), Shape::Wpkh(k), Shape::ShWpkh(k)] { if emit_shape(out, &s, secp) { n += 1; } }
    }
    for k in 200..210 { if emit_shape(out, &Shape::Tr(k, vec![]), secp) { n += 1; } }
    // cell 5: key-only taproot over FULL keys (Descriptor<bitcoin::PublicKey>), both parities
    for k in 0..10 { if emit_outputs::<PublicKey>(out, &Shape::Tr(k, vec![]), secp, true) { out.count("type tr over full keys"); n += 1; } }
    // cell 2: directed constructor expectations
    let mut expect = |out: &mut Out, s: Shape, accept: bool| {
        let ok = if matches!(s, Shape::Tr(..)) { build::<XOnlyPublicKey>(&s).is_ok() } else { build::<PublicKey>(&s).is_ok() };
        out.line(&format!("J buildexpect {} {} {}", s.wire(), if accept { "accept" } else { "reject" }, if ok { "OK" } else { "ERR" }), "ok");
        // R2: a case that is refused TODAY goes through every output judge the day a rule lets it through
        // (emit_shape also writes the `C build` line)
        emit_shape(out, &s, secp);
    };
    let cks = |n: u32| -> Vec<u32> { (0..n).collect() };
    let uks = |n: u32| -> Vec<u32> { (100..100 + n).collect() };
    expect(out, Shape::Pkh(100), true);
    expect(out, Shape::Sh(Node::Check(Box::new(Node::PkK(100)))), true);
    expect(out, Shape::Sh(Node::Check(Box::new(Node::PkH(101)))), true);
    expect(out, Shape::Bare(Node::Check(Box::new(Node::PkK(100)))), true);
    expect(out, Shape::Sh(Node::SortedMulti(2, cks(15))), true);       // 513-byte redeem script
    expect(out, Shape::Sh(Node::Multi(15, cks(15))), true);
    expect(out, Shape::Sh(Node::SortedMulti(1, uks(7))), true);        // 465 bytes
    expect(out, Shape::Sh(Node::Multi(7, uks(7))), true);
    expect(out, Shape::Wsh(Node::SortedMulti(20, cks(20))), true);
    expect(out, Shape::ShWsh(Node::Multi(1, cks(20))), true);
    expect(out, Shape::Sh(Node::SortedMulti(2, cks(16))), false);      // 547 bytes > 520
    expect(out, Shape::Sh(Node::Multi(1, cks(16))), false);
    expect(out, Shape::Sh(Node::SortedMulti(1, uks(8))), false);       // 531 bytes
    expect(out, Shape::Wsh(Node::SortedMulti(1, cks(21))), false);
    expect(out, Shape::Wpkh(100), false);
    expect(out, Shape::ShWpkh(100), false);
    expect(out, Shape::Wsh(Node::Check(Box::new(Node::PkK(100)))), false);
    expect(out, Shape::Wsh(Node::Check(Box::new(Node::PkH(100)))), false);
    expect(out, Shape::ShWsh(Node::SortedMulti(1, vec![0, 100])), false);
    expect(out, Shape::Wsh(Node::MultiA(1, vec![0, 1])), false);
    expect(out, Shape::Tr(200, vec![(0, Node::Multi(1, vec![200, 201]))]), false);
    let depth = if thorough { 3 } else { 2 };
    let quota = if thorough { 80 } else { 25 };
    let mut tap_pool: Vec<Node> = vec![];
    for ctx in CtxK::ALL {
        let atoms = ast::default_atoms(ctx, false);
        let mut frags: Vec<Node> = ast::enumerate(ctx, &atoms, depth, quota, rng).into_iter().filter(|t| t.base == Base::B).map(|t| t.node).collect();
        for _ in 0..(if thorough { 400 } else { 80 }) {
            let sz = 8 + rng.below(30);
            if let Some(nd) = ast::random_b(ctx, rng, sz) { frags.push(nd); }
        }
        // designated fragments (all hash kinds, both lock units, one-child thresholds, raw key hashes,
        // uncompressed keys in every key position …) in EVERY tier
        let corpus = ast::dimension_corpus(ctx);
        out.count(&format!("dimension-corpus {} {}", ctx.name(), corpus.len()));
        if ctx == CtxK::Tap {
            for (i, nd) in corpus.iter().enumerate() {
                if emit_shape(out, &Shape::Tr(200 + (i % 10) as u32, vec![(0, nd.clone())]), secp) { n += 1; }
                // cell 5: the same tree in a Descriptor<bitcoin::PublicKey> (internal key = FULL key i%10, both
                // parities; the leaf keys are the full keys whose x-only form the wire atoms 200.. denote)
                let s = Shape::Tr((i % 10) as u32, vec![(1, nd.clone()), (1, corpus[(i + 1) % corpus.len()].clone())]);
                if emit_outputs::<PublicKey>(out, &s, secp, true) { out.count("type tr over full keys"); n += 1; }
            }
        }
        frags.extend(corpus);
        for nd in frags {
            let shapes: Vec<Shape> = match ctx {
                CtxK::Bare => vec![Shape::Bare(nd)],
                CtxK::Legacy => vec![Shape::Sh(nd)],
                CtxK::Segwitv0 => vec![Shape::Wsh(nd.clone()), Shape::ShWsh(nd)],
                CtxK::Tap => { tap_pool.push(nd); vec![] }
            };
            for s in shapes { if emit_shape(out, &s, secp) { nd_count(out, &s); n += 1; } }
        }
    }
    // taproot: every tree shape, leaves drawn from the pool
    if !tap_pool.is_empty() {
        let rounds = if thorough { 300 } else { 60 };
        for r in 0..rounds {
            for ts in TREE_SHAPES {
                let leaves: Vec<(u8, Node)> = ts.iter().enumerate().map(|(i, d)| {
                    let nd = if r == 0 && i < tap_pool.len() { tap_pool[i].clone() } else { tap_pool[rng.below(tap_pool.len())].clone() };
                    (*d, nd)
                }).collect();
                let s = Shape::Tr(200 + rng.below(10) as u32, leaves);
                if emit_shape(out, &s, secp) { n += 1; }
            }
        }
    }
    n
}

fn nd_count(out: &mut Out, s: &Shape) {
    match s { Shape::Bare(n) | Shape::Wsh(n) | Shape::Sh(n) | Shape::ShWsh(n) => n.count_frags(out), _ => {} }
}

/* ------------------------------------------------------------------ part 2: sortedmulti */

fn permutations(n: usize) -> Vec<Vec<usize>> {
    fn go(cur: &mut Vec<usize>, used: &mut Vec<bool>, n: usize, out: &mut Vec<Vec<usize>>) {
        if cur.len() == n { out.push(cur.clone()); return; }
        for i in 0..n { if !used[i] { used[i] = true; cur.push(i); go(cur, used, n, out); cur.pop(); used[i] = false; } }
    }
    let mut out = vec![];
    go(&mut vec![], &mut vec![false; n], n, &mut out);
    out
}
fn shuffle<T>(v: &mut Vec<T>, rng: &mut Rng) { for i in (1..v.len()).rev() { let j = rng.below(i + 1); v.swap(i, j); } }

/// the multisig script built by hand from keys sorted by their serialisation
fn manual_multisig(k: usize, keys: &[u32]) -> ScriptBuf {
    let mut pks: Vec<PublicKey> = keys.iter().map(|i| full_key(*i)).collect();
    // BIP67 order of the compressed encodings; the same point in both forms: compressed first
    pks.sort_by_key(|p| (p.inner.serialize().to_vec(), !p.compressed));
    let mut b = Builder::new().push_int(k as i64);
    for p in &pks { b = b.push_key(p); }
    b.push_int(keys.len() as i64).push_opcode(opcodes::all::OP_CHECKMULTISIG).into_script()
}
fn manual_multi_a(k: usize, keys: &[u32]) -> ScriptBuf {
    let mut pks: Vec<XOnlyPublicKey> = keys.iter().map(|i| xonly_key(*i)).collect(); // id % 100 selects the key: same x-only key for full ids
    pks.sort_by_key(|p| p.serialize());
    let mut b = Builder::new();
    for (i, p) in pks.iter().enumerate() {
        b = b.push_x_only_key(p);
        b = b.push_opcode(if i == 0 { opcodes::all::OP_CHECKSIG } else { opcodes::all::OP_CHECKSIGADD });
    }
    b.push_int(k as i64).push_opcode(opcodes::all::OP_NUMEQUAL).into_script()
}

#[derive(Clone, Copy)]
#[derive(PartialEq)]
enum SmWrap { Wsh, Sh, ShWsh, NestedWsh, Tr, TrFull, ShMixed }

fn sm_shape(w: SmWrap, k: usize, keys: &[u32]) -> Shape {
    match w {
        SmWrap::Wsh => Shape::Wsh(Node::SortedMulti(k, keys.to_vec())),
        SmWrap::Sh | SmWrap::ShMixed => Shape::Sh(Node::SortedMulti(k, keys.to_vec())),
        SmWrap::ShWsh => Shape::ShWsh(Node::SortedMulti(k, keys.to_vec())),
        SmWrap::NestedWsh => Shape::Wsh(Node::AndV(Box::new(Node::Verify(Box::new(Node::SortedMulti(k, keys.to_vec())))), Box::new(Node::Check(Box::new(Node::PkK(9)))))),
        SmWrap::Tr => Shape::Tr(209, vec![(1, Node::SortedMultiA(k, keys.to_vec())), (1, Node::Check(Box::new(Node::PkK(208))))]),
        // tapscript over FULL keys (Descriptor<bitcoin::PublicKey>): the sort must still be by the x-only form
        SmWrap::TrFull => Shape::Tr(29, vec![(1, Node::SortedMultiA(k, keys.to_vec())), (1, Node::Check(Box::new(Node::PkK(28))))]),
    }
}
fn sm_spk(s: &Shape, full: bool) -> Result<(ScriptBuf, Option<ScriptBuf>), String> {
    if full {
        let d = build::<PublicKey>(s)?;
        let leaf = if let Descriptor::Tr(tr) = &d { tr.leaves().next().map(|l| l.miniscript().encode()) } else { None };
        return Ok((d.script_pubkey(), leaf));
    }
    if matches!(s, Shape::Tr(..)) {
        let d = build::<XOnlyPublicKey>(s)?;
        let leaf = if let Descriptor::Tr(tr) = &d { tr.leaves().next().map(|l| l.miniscript().encode()) } else { None };
        Ok((d.script_pubkey(), leaf))
    } else {
        let d = build::<PublicKey>(s)?;
        Ok((d.script_pubkey(), d.explicit_script().ok()))
    }
}

fn part_sortedmulti(out: &mut Out, thorough: bool, rng: &mut Rng, secp: &Secp256k1<secp256k1::All>) -> u64 {
    let mut n_cases = 0u64;
    let sizes: Vec<usize> = if thorough { (1..=20).collect() } else { vec![1, 2, 3, 4, 5, 7, 12, 15, 16, 20] };
    for w in [SmWrap::Wsh, SmWrap::Sh, SmWrap::ShWsh, SmWrap::NestedWsh, SmWrap::Tr, SmWrap::TrFull, SmWrap::ShMixed] {
        let full = w == SmWrap::TrFull;
        for &n in &sizes {
            let reps = if n <= 3 { 2 } else { 1 };
            for _ in 0..reps {
                let is_tr = matches!(w, SmWrap::Tr);
                let mut pool: Vec<u32> = if is_tr { (200..221).collect() } else { (0..21).collect() };
                if !is_tr && matches!(w, SmWrap::NestedWsh) { pool.retain(|k| *k != 9); }
                // compressed AND uncompressed keys, the same point in both forms included (0/100 … 5/105)
                if w == SmWrap::ShMixed { pool = (0..6).chain(100..106).collect(); if n > 5 { continue; } }
                if is_tr { pool.retain(|k| *k != 208 && *k != 209); }
                shuffle(&mut pool, rng);
                if n > pool.len() { continue; }
                let keys: Vec<u32> = pool[..n].to_vec();
                let k = 1 + rng.below(n);
                let base = sm_shape(w, k, &keys);
                let (spk0, expl0) = match sm_spk(&base, full) { Ok(x) => x, Err(_) => {
                    out.count("sortedmulti rejected-by-constructor");
                    // judged: the entry-point model must reject it too (sh: 16+ keys exceed 520 bytes)
                    if !full { out.line(&format!("C build {}", base.wire()), "ERR"); }
                    continue;
                } };
                n_cases += 1;
                out.count(&format!("sortedmulti n={}", n));
                let perms: Vec<Vec<usize>> = if n <= 5 { permutations(n) } else {
                    (0..50).map(|_| { let mut p: Vec<usize> = (0..n).collect(); shuffle(&mut p, rng); p }).collect()
                };
                let mut res: Result<(), String> = Ok(());
                for (pi, p) in perms.iter().enumerate() {
                    let pk: Vec<u32> = p.iter().map(|i| keys[*i]).collect();
                    let s = sm_shape(w, k, &pk);
                    match sm_spk(&s, full) {
                        Ok((spk, _)) => if spk != spk0 && res.is_ok() { res = Err(s.wire()); },
                        Err(e) => if res.is_ok() { res = Err(format!("{}:{}", s.wire(), e)); },
                    }
                    // model correspondence on a few of the permuted descriptors
                    if !full && (pi % 17 == 1 || pi + 1 == perms.len()) { emit_shape(out, &s, secp); }
                }
                out.line(&format!("J rustoracle sortperm {} {}", base.wire(), verdict(res)), "ok");
                // the script itself is the hand-built sorted multisig
                let manual = match w {
                    SmWrap::Tr | SmWrap::TrFull => Some(manual_multi_a(k, &keys)),
                    SmWrap::NestedWsh => None,
                    _ => Some(manual_multisig(k, &keys)),
                };
                if let Some(m) = manual {
                    let v = if Some(&m) == expl0.as_ref() { Ok(()) } else { Err(format!("manual {} != {}", hx(&m), expl0.as_ref().map(hx).unwrap_or_default())) };
                    out.line(&format!("J rustoracle sorted-bip67 {} {}", base.wire(), verdict(v)), "ok");
                }
            }
        }
    }
    // cell 6: the API constructors (`Descriptor::new_{wsh,sh,sh_wsh}_sortedmulti`) agree with the Terminal
    // form AND with the hand-built BIP67 script, for every k in 1..=n, n up to 15 (sh) / 20 (wsh),
    // and over mixed compressed / uncompressed keys (sh)
    let ctor_sets: Vec<(&str, Vec<u32>)> = vec![
        ("c1", vec![4]), ("c3", vec![2, 1, 0]), ("c7", (0..7).rev().collect()), ("c15", (0..15).rev().collect()),
        ("c20", (0..20).rev().collect()), ("mix4", vec![101, 3, 103, 1]), ("mix7", vec![100, 5, 105, 2, 102, 0, 6]),
    ];
    for (name, ids) in &ctor_sets {
        let n = ids.len();
        let keys: Vec<PublicKey> = ids.iter().map(|i| full_key(*i)).collect();
        let mixed = ids.iter().any(|i| *i >= 100);
        let ks: Vec<usize> = if thorough || n <= 7 { (1..=n).collect() } else { vec![1, 2, n / 2, n - 1, n] };
        for k in ks {
            let th = || Threshold::new(k, keys.clone()).map_err(|e| e.to_string());
            let e = |e: miniscript::Error| e.to_string();
            let manual = manual_multisig(k, ids);
            let mut r: Result<(), String> = Ok(());
            let mut check = |what: &str, ctor: Result<Descriptor<PublicKey>, String>, wrap: SmWrap, must_exist: bool| {
                if r.is_err() { return; }
                let terminal = build::<PublicKey>(&sm_shape(wrap, k, ids));
                match (ctor, terminal) {
                    (Ok(a), Ok(b)) => {
                        if a != b { r = Err(format!("{} differs from the Terminal form", what)); }
                        else if a.explicit_script().ok() != Some(manual.clone()) { r = Err(format!("{} script is not the hand-built BIP67 multisig", what)); }
                    }
                    (Err(_), Err(_)) => if must_exist { r = Err(format!("{} rejected", what)); },
                    (Ok(_), Err(e2)) => r = Err(format!("{} accepted but Terminal form rejected: {}", what, e2)),
                    (Err(e1), Ok(_)) => r = Err(format!("{} rejected but Terminal form accepted: {}", what, e1)),
                }
            };
            // wsh / sh(wsh): compressed keys only; sh: at most 15 compressed / 7 uncompressed-mixed keys fit 520 bytes
            check("new_wsh_sortedmulti", th().and_then(|t| Descriptor::new_wsh_sortedmulti(t).map_err(e)), SmWrap::Wsh, !mixed);
            check("new_sh_wsh_sortedmulti", th().and_then(|t| Descriptor::new_sh_wsh_sortedmulti(t).map_err(e)), SmWrap::ShWsh, !mixed);
            check("new_sh_sortedmulti", th().and_then(|t| Descriptor::new_sh_sortedmulti(t).map_err(e)), SmWrap::Sh, n <= 15 && (!mixed || n <= 7));
            drop(check);
            out.line(&format!("J rustoracle sortedmulti-ctors {} k={} {}", name, k, verdict(r)), "ok");
        }
    }
    // cell 6: a point and its negation (02X / 03X: equal x-only keys) in one sortedmulti_a over FULL keys: the
    // x-only sort keys tie and the pushes are identical, so every listing order gives the same output
    {
        let p = full_key(3);
        let neg = PublicKey::new(p.inner.negate(secp));
        let q = full_key(7);
        let ik = full_key(9);
        let mk = |order: &[PublicKey]| -> Result<Descriptor<PublicKey>, String> {
            let th = Threshold::new(2, order.to_vec()).map_err(|e| e.to_string())?;
            let ms = Miniscript::<PublicKey, Tap>::from_ast(miniscript::Terminal::SortedMultiA(th)).map_err(|e| e.to_string())?;
            Descriptor::new_tr(ik, Some(TapTree::leaf(Arc::new(ms)))).map_err(|e| e.to_string())
        };
        let orders: Vec<Vec<PublicKey>> = permutations(3).into_iter().map(|pm| pm.iter().map(|i| [p, neg, q][*i]).collect()).collect();
        let built: Vec<Result<Descriptor<PublicKey>, String>> = orders.iter().map(|o| mk(o)).collect();
        if built.iter().all(|b| b.is_err()) {
            // duplicate x-only keys may be refused by the leaf validation: not a C16 claim
            out.count("observation: tr(sortedmulti_a) over a point and its negation is rejected by the constructor");
        } else {
            let mut xs = vec![p.inner.x_only_public_key().0, neg.inner.x_only_public_key().0, q.inner.x_only_public_key().0];
            xs.sort_by_key(|x| x.serialize());
            let mut b = Builder::new();
            for (i, x) in xs.iter().enumerate() { b = b.push_x_only_key(x).push_opcode(if i == 0 { opcodes::all::OP_CHECKSIG } else { opcodes::all::OP_CHECKSIGADD }); }
            let manual = b.push_int(2).push_opcode(opcodes::all::OP_NUMEQUAL).into_script();
            let r = (|| -> Result<(), String> {
                let first = built[0].as_ref().map_err(|e| e.clone())?;
                for (i, d) in built.iter().enumerate() {
                    let d = d.as_ref().map_err(|e| format!("order {} rejected: {}", i, e))?;
                    if d.script_pubkey() != first.script_pubkey() { return Err(format!("order {} gives another scriptPubKey", i)); }
                    if let Descriptor::Tr(tr) = d {
                        if tr.leaves().next().map(|l| l.miniscript().encode()) != Some(manual.clone()) { return Err(format!("order {}: leaf is not the hand-built x-only sorted script", i)); }
                    }
                }
                Ok(())
            })();
            out.line(&format!("J rustoracle sortperm tr(9;0:sortedmulti_a(2,3,neg3,7)) {}", verdict(r)), "ok");
        }
    }
    // regression inputs of a former finding (fixed in /repo 2f8a2bb0): the same point listed compressed
    // and uncompressed used to keep its listing order; judged like every other case now
    for (a, b) in [(5u32, 105u32), (3, 103)] {
        let base = Shape::Sh(Node::SortedMulti(1, vec![a, b]));
        let other = Shape::Sh(Node::SortedMulti(1, vec![b, a]));
        let r = match (sm_spk(&base, false), sm_spk(&other, false)) {
            (Ok((x, _)), Ok((y, _))) => if x == y { Ok(()) } else { Err(other.wire()) },
            _ => Err("rejected".into()),
        };
        emit_shape(out, &base, secp);
        emit_shape(out, &other, secp);
        out.line(&format!("J rustoracle sortperm {} {}", base.wire(), verdict(r)), "ok");
        let m = manual_multisig(1, &[a, b]);
        let v = match sm_spk(&base, false) { Ok((_, Some(e))) if e == m => Ok(()), _ => Err("manual script differs".to_string()) };
        out.line(&format!("J rustoracle sorted-bip67 {} {}", base.wire(), verdict(v)), "ok");
    }
    n_cases
}

/* ------------------------------------------------------------------ part 3: symbolic keys */

#[derive(Clone, Copy, Debug, PartialEq, Eq, Hash, PartialOrd, Ord)]
enum Step { N(u32), H(u32) }
impl Step {
    fn wire(&self) -> String { match self { Step::N(i) => i.to_string(), Step::H(i) => format!("{}h", i) } }
    fn child(&self) -> ChildNumber {
        match self { Step::N(i) => ChildNumber::from_normal_idx(*i).unwrap(), Step::H(i) => ChildNumber::from_hardened_idx(*i).unwrap() }
    }
    fn of(c: &ChildNumber) -> Step { match c { ChildNumber::Normal { index } => Step::N(*index), ChildNumber::Hardened { index } => Step::H(*index) } }
}
#[derive(Clone, Copy, Debug, PartialEq, Eq)]
enum Wc { None, Unh, Hard }
type Origin = Option<(u32, Vec<Step>)>;

#[derive(Clone, Debug)]
enum SKey {
    Single { origin: Origin, id: u32 },
    X { origin: Origin, x: usize, path: Vec<Step>, wc: Wc },
    M { origin: Origin, x: usize, paths: Vec<Vec<Step>>, wc: Wc },
}

fn path_wire(p: &[Step]) -> String { p.iter().map(|s| s.wire()).collect::<Vec<_>>().join("/") }
fn path_suffix(p: &[Step]) -> String { p.iter().map(|s| format!("/{}", s.wire())).collect() }
fn wc_wire(w: Wc) -> &'static str { match w { Wc::None => "", Wc::Unh => "/*", Wc::Hard => "/*h" } }
fn origin_wire(o: &Origin) -> String { match o { None => String::new(), Some((f, p)) => format!("[F{}{}]", f, path_suffix(p)) } }

impl SKey {
    fn wire(&self) -> String {
        match self {
            SKey::Single { origin, id } => format!("{}S{}", origin_wire(origin), id),
            SKey::X { origin, x, path, wc } => format!("{}X{}{}{}", origin_wire(origin), x, path_suffix(path), wc_wire(*wc)),
            SKey::M { origin, x, paths, wc } => format!("{}M{}{{{}}}{}", origin_wire(origin), x,
                paths.iter().map(|p| if p.is_empty() { "m".to_string() } else { path_wire(p) }).collect::<Vec<_>>().join(";"), wc_wire(*wc)),
        }
    }
}

struct World {
    secp: Secp256k1<secp256k1::All>,
    xpubs: Vec<Xpub>,
    xprvs: Vec<Xpriv>,
    cache: HashMap<(usize, Vec<u32>), PublicKey>,
}
impl World {
    fn new() -> Self {
        let secp = Secp256k1::new();
        let mut xpubs = vec![];
        let mut xprvs = vec![];
        for i in 0..4u8 {
            let master = Xpriv::new_master(Network::Bitcoin, &[i + 1; 32]).unwrap();
            let xprv = if i == 3 { master.derive_priv(&secp, &[ChildNumber::from_hardened_idx(44).unwrap(), ChildNumber::from_normal_idx(1).unwrap()]).unwrap() } else { master };
            xpubs.push(Xpub::from_priv(&secp, &xprv));
            xprvs.push(xprv);
        }
        World { secp, xpubs, xprvs, cache: HashMap::new() }
    }
    /// independent BIP32 public derivation along normal indices
    fn derive(&mut self, x: usize, idx: &[u32]) -> PublicKey {
        if let Some(p) = self.cache.get(&(x, idx.to_vec())) { return *p; }
        let path: Vec<ChildNumber> = idx.iter().map(|i| ChildNumber::from_normal_idx(*i).unwrap()).collect();
        let pk = PublicKey::new(self.xpubs[x].derive_pub(&self.secp, &path).unwrap().public_key);
        self.cache.insert((x, idx.to_vec()), pk);
        pk
    }
}

fn fp(n: u32) -> Fingerprint { Fingerprint::from([0, 0, (n >> 8) as u8, n as u8]) }
fn dpath(p: &[Step]) -> DerivationPath { DerivationPath::from(p.iter().map(|s| s.child()).collect::<Vec<_>>()) }
fn real_origin(o: &Origin) -> Option<(Fingerprint, DerivationPath)> { o.as_ref().map(|(f, p)| (fp(*f), dpath(p))) }
fn real_wc(w: Wc) -> Wildcard { match w { Wc::None => Wildcard::None, Wc::Unh => Wildcard::Unhardened, Wc::Hard => Wildcard::Hardened } }

fn to_real(w: &World, k: &SKey) -> DescriptorPublicKey {
    match k {
        SKey::Single { origin, id } => DescriptorPublicKey::Single(SinglePub {
            origin: real_origin(origin),
            key: if *id >= 200 { SinglePubKey::XOnly(xonly_key(*id)) } else { SinglePubKey::FullKey(full_key(*id)) },
        }),
        SKey::X { origin, x, path, wc } => DescriptorPublicKey::XPub(DescriptorXKey {
            origin: real_origin(origin), xkey: w.xpubs[*x], derivation_path: dpath(path), wildcard: real_wc(*wc),
        }),
        SKey::M { origin, x, paths, wc } => DescriptorPublicKey::MultiXPub(DescriptorMultiXKey {
            origin: real_origin(origin), xkey: w.xpubs[*x],
            derivation_paths: DerivPaths::new(paths.iter().map(|p| dpath(p)).collect()).expect("non-empty"),
            wildcard: real_wc(*wc),
        }),
    }
}

fn render_origin(o: &Option<(Fingerprint, DerivationPath)>) -> String {
    match o {
        None => String::new(),
        Some((f, p)) => {
            let b = f.to_bytes();
            let n = ((b[2] as u32) << 8) | b[3] as u32;
            let steps: Vec<Step> = p.into_iter().map(Step::of).collect();
            format!("[F{}{}]", if b[0] == 0 && b[1] == 0 { n.to_string() } else { "?".into() }, path_suffix(&steps))
        }
    }
}
fn render_path(p: &DerivationPath) -> Vec<Step> { p.into_iter().map(Step::of).collect() }
fn render_wc(w: Wildcard) -> &'static str { match w { Wildcard::None => "", Wildcard::Unhardened => "/*", Wildcard::Hardened => "/*h" } }
fn render_x(w: &World, x: &Xpub) -> String { match w.xpubs.iter().position(|y| y == x) { Some(i) => i.to_string(), None => "?".into() } }
fn render_single(k: &SinglePubKey) -> String {
    match k {
        SinglePubKey::FullKey(pk) => match (0..200u32).find(|i| full_key(*i) == *pk) { Some(i) => format!("S{}", i), None => "S?".into() },
        SinglePubKey::XOnly(x) => match (200..300u32).find(|i| xonly_key(*i) == *x) { Some(i) => format!("S{}", i), None => "S?".into() },
    }
}
fn render_dpk(w: &World, k: &DescriptorPublicKey) -> String {
    match k {
        DescriptorPublicKey::Single(s) => format!("{}{}", render_origin(&s.origin), render_single(&s.key)),
        DescriptorPublicKey::XPub(x) => format!("{}X{}{}{}", render_origin(&x.origin), render_x(w, &x.xkey), path_suffix(&render_path(&x.derivation_path)), render_wc(x.wildcard)),
        DescriptorPublicKey::MultiXPub(x) => format!("{}M{}{{{}}}{}", render_origin(&x.origin), render_x(w, &x.xkey),
            x.derivation_paths.paths().iter().map(|p| { let s = render_path(p); if s.is_empty() { "m".to_string() } else { path_wire(&s) } }).collect::<Vec<_>>().join(";"),
            render_wc(x.wildcard)),
    }
}

/// a descriptor over symbolic keys
#[derive(Clone)]
struct KCase { shape: Shape, keys: BTreeMap<u32, SKey>, texts: Option<BTreeMap<u32, String>> }
impl KCase {
    fn wire(&self) -> String {
        format!("{}@{}", self.shape.wire(), self.keys.iter().map(|(a, k)| format!("{}={}", a, k.wire())).collect::<Vec<_>>().join(","))
    }
    fn is_tr(&self) -> bool { matches!(self.shape, Shape::Tr(..)) }
}

struct MapPk<'a, Pk, Q>(&'a dyn Fn(&Pk) -> Option<Q>);
impl<'a, Pk, Q> Translator<Pk> for MapPk<'a, Pk, Q>
where
    Pk: MiniscriptKey<Sha256 = sha256::Hash, Hash256 = hash256::Hash, Ripemd160 = ripemd160::Hash, Hash160 = hash160::Hash>,
    Q: MiniscriptKey<Sha256 = sha256::Hash, Hash256 = hash256::Hash, Ripemd160 = ripemd160::Hash, Hash160 = hash160::Hash>,
{
    type TargetPk = Q;
    type Error = String;
    fn pk(&mut self, pk: &Pk) -> Result<Q, String> { (self.0)(pk).ok_or_else(|| "unknown placeholder".to_string()) }
    translate_hash_clone!(Pk);
}

/// real descriptor: placeholder keys (atom ids) replaced through `f`
fn build_with<Q>(shape: &Shape, f: &dyn Fn(u32) -> Option<Q>) -> Result<Descriptor<Q>, String>
where Q: MiniscriptKey<Sha256 = sha256::Hash, Hash256 = hash256::Hash, Ripemd160 = ripemd160::Hash, Hash160 = hash160::Hash>
{
    if matches!(shape, Shape::Tr(..)) {
        let d = build::<XOnlyPublicKey>(shape)?;
        let g = |pk: &XOnlyPublicKey| (200..300u32).find(|i| xonly_key(*i) == *pk).and_then(|a| f(a));
        d.translate_pk(&mut MapPk(&g)).map_err(|e| format!("{:?}", e))
    } else {
        let d = build::<PublicKey>(shape)?;
        let g = |pk: &PublicKey| (0..100u32).find(|i| full_key(*i) == *pk).and_then(|a| f(a));
        d.translate_pk(&mut MapPk(&g)).map_err(|e| format!("{:?}", e))
    }
}

fn build_dpk(w: &World, c: &KCase) -> Result<Descriptor<DescriptorPublicKey>, String> {
    if let Some(t) = &c.texts { return desc_from_text(&c.shape, t); }
    build_with(&c.shape, &|a| c.keys.get(&a).map(|k| to_real(w, k)))
}

/// the descriptor TEXT with every key written out (`[fp/path]xpub…/1/<0;1>/*`), parsed by the library
fn desc_text(shape: &Shape, texts: &BTreeMap<u32, String>) -> Result<String, String> {
    let mut s = if matches!(shape, Shape::Tr(..)) { format!("{:#}", build::<XOnlyPublicKey>(shape)?) } else { format!("{:#}", build::<PublicKey>(shape)?) };
    // `bare(c:pk_h(K))` PRINTS as `pkh(K)`, which parses as the Pkh descriptor (same scriptPubKey, other type):
    // the bare form has no text of its own, so it cannot be offered through the text routes
    if matches!(shape, Shape::Bare(_)) && s.starts_with("pkh(") { return Err("bare c:pk_h has no text form".into()); }
    let atoms = shape.atoms_pre();
    for a in &atoms {
        let ph = if matches!(shape, Shape::Tr(..)) { xonly_key(*a).to_string() } else { full_key(*a).to_string() };
        s = s.replace(&ph, &format!("@@{}@@", a));
    }
    for a in &atoms { s = s.replace(&format!("@@{}@@", a), texts.get(a).ok_or("no text")?); }
    Ok(s)
}
fn desc_from_text(shape: &Shape, texts: &BTreeMap<u32, String>) -> Result<Descriptor<DescriptorPublicKey>, String> {
    let t = desc_text(shape, texts)?;
    catch(|| Descriptor::<DescriptorPublicKey>::from_str(&t).map_err(|e| e.to_string())).and_then(|x| x)
}

/// a key expression as BIP380/389 TEXT describes it: one optional `<a;b;…>` step between a prefix and a suffix
#[derive(Clone, Debug)]
struct TKey { origin: Origin, x: usize, pre: Vec<Step>, alts: Option<Vec<Step>>, post: Vec<Step>, wc: Wc, style: u8 }
impl TKey {
    /// the structured value the text denotes, built WITHOUT the parser
    fn skey(&self) -> SKey {
        match &self.alts {
            None => SKey::X { origin: self.origin.clone(), x: self.x, path: self.pre.iter().chain(self.post.iter()).cloned().collect(), wc: self.wc },
            Some(a) => SKey::M { origin: self.origin.clone(), x: self.x, wc: self.wc,
                paths: a.iter().map(|s| self.pre.iter().cloned().chain(std::iter::once(*s)).chain(self.post.iter().cloned()).collect()).collect() },
        }
    }
    /// style 0: `h` everywhere, 1: `'` everywhere, 2: alternating
    fn text(&self, w: &World) -> String {
        let mut n = 0usize;
        let style = self.style;
        let mut mark = move || -> &'static str { n += 1; match style { 0 => "h", 1 => "'", _ => if n % 2 == 0 { "h" } else { "'" } } };
        let mut step = |s: &Step, mark: &mut dyn FnMut() -> &'static str| match s { Step::N(i) => i.to_string(), Step::H(i) => format!("{}{}", i, mark()) };
        let mut t = String::new();
        if let Some((f, p)) = &self.origin {
            t.push_str(&format!("[{}", fp(*f)));
            for s in p { t.push('/'); t.push_str(&step(s, &mut mark)); }
            t.push(']');
        }
        t.push_str(&w.xpubs[self.x].to_string());
        for s in &self.pre { t.push('/'); t.push_str(&step(s, &mut mark)); }
        if let Some(a) = &self.alts {
            t.push_str("/<");
            t.push_str(&a.iter().map(|s| step(s, &mut mark)).collect::<Vec<_>>().join(";"));
            t.push('>');
        }
        for s in &self.post { t.push('/'); t.push_str(&step(s, &mut mark)); }
        match self.wc { Wc::None => {}, Wc::Unh => t.push_str("/*"), Wc::Hard => { t.push_str("/*"); t.push_str(mark()); } }
        t
    }
}
fn single_text(k: &SKey) -> Option<String> {
    if let SKey::Single { origin, id } = k {
        let o = match origin { None => String::new(), Some((f, p)) => format!("[{}{}]", fp(*f), p.iter().map(|s| match s { Step::N(i) => format!("/{}", i), Step::H(i) => format!("/{}h", i) }).collect::<String>()) };
        Some(format!("{}{}", o, if *id >= 200 { xonly_key(*id).to_string() } else { full_key(*id).to_string() }))
    } else { None }
}

/// cell 1: `DescriptorPublicKey::from_str(text)` against the structured value built without the parser
fn emit_keytext(out: &mut Out, w: &World, t: &TKey) {
    let text = t.text(w);
    let want = to_real(w, &t.skey());
    let v = match catch(|| DescriptorPublicKey::from_str(&text)).unwrap_or_else(|_| Err(miniscript::descriptor::DescriptorKeyParseError::MalformedKeyData(miniscript::descriptor::MalformedKeyDataKind::InvalidMultiIndexStep))) {
        Ok(k) => if k == want { Ok(()) } else { Err(format!("parsed {} from {}", render_dpk(w, &k), text.replace(&w.xpubs[t.x].to_string(), "X"))) },
        Err(e) => Err(format!("rejected: {}", e)),
    };
    out.line(&format!("J rustoracle keytext {} style={} {}", t.skey().wire(), t.style, verdict(v)), "ok");
}

/// keys of a real descriptor in `for_each_key` order (own walk: leaves, then internal key)
fn keys_pre<Q: MiniscriptKey>(d: &Descriptor<Q>) -> Vec<Q> {
    let mut v = vec![];
    match d {
        Descriptor::Bare(b) => v.extend(b.as_inner().iter_pk()),
        Descriptor::Pkh(p) => v.push(p.as_inner().clone()),
        Descriptor::Wpkh(p) => v.push(p.as_inner().clone()),
        Descriptor::Wsh(x) => v.extend(x.as_inner().iter_pk()),
        Descriptor::Sh(s) => match s.as_inner() {
            miniscript::descriptor::ShInner::Wsh(x) => v.extend(x.as_inner().iter_pk()),
            miniscript::descriptor::ShInner::Wpkh(p) => v.push(p.as_inner().clone()),
            miniscript::descriptor::ShInner::Ms(m) => v.extend(m.iter_pk()),
        },
        Descriptor::Tr(t) => {
            for l in t.leaves() { v.extend(l.miniscript().iter_pk()); }
            v.push(t.internal_key().clone());
        }
    }
    v
}

/// `atom=rendering` table (sorted, duplicates merged; conflicting renderings joined by `!`)
fn table<Q: MiniscriptKey>(shape: &Shape, d: &Descriptor<Q>, render: &mut dyn FnMut(&Q) -> String) -> String {
    let atoms = shape.atoms_pre();
    let keys = keys_pre(d);
    if atoms.len() != keys.len() { return format!("key-count-{}-vs-{}", keys.len(), atoms.len()); }
    let mut m: BTreeMap<u32, Vec<String>> = BTreeMap::new();
    for (a, k) in atoms.iter().zip(keys.iter()) {
        let r = render(k);
        let e = m.entry(*a).or_default();
        if !e.contains(&r) { e.push(r); }
    }
    m.iter().map(|(a, rs)| format!("{}={}", a, rs.join("!"))).collect::<Vec<_>>().join(",")
}

fn same_shape<A: MiniscriptKey, B: MiniscriptKey>(a: &Descriptor<A>, b: &Descriptor<B>) -> bool {
    // same wrapper and same text once every key is blanked
    fn blank<Q: MiniscriptKey>(d: &Descriptor<Q>) -> String {
        let mut s = format!("{:#}", d);
        let keys = keys_pre(d);
        let mut ks: Vec<String> = keys.iter().map(|k| k.to_string()).collect();
        ks.sort_by_key(|k| std::cmp::Reverse(k.len()));
        for k in ks { s = s.replace(&k, "K"); }
        s
    }
    blank(a) == blank(b)
}

fn err_name(e: &miniscript::descriptor::NonDefiniteKeyError) -> String { format!("{:?}", e) }

/// what the key expression denotes at index `i`, computed here from the symbolic form
fn expected_at(k: &SKey, i: u64) -> Option<(Option<usize>, Vec<u32>, u32)> {
    // (xpub, normal indices, single id)
    match k {
        SKey::Single { id, .. } => Some((None, vec![], *id)),
        SKey::X { x, path, wc, .. } => {
            let mut idx = vec![];
            for s in path { match s { Step::N(n) => idx.push(*n), Step::H(_) => return None } }
            match wc {
                Wc::None => {}
                Wc::Unh => { if i >= (1u64 << 31) { return None; } idx.push(i as u32); }
                Wc::Hard => return None,
            }
            Some((Some(*x), idx, 0))
        }
        SKey::M { .. } => None,
    }
}
fn sym_derived(e: &(Option<usize>, Vec<u32>, u32)) -> String {
    match e.0 { None => format!("S{}", e.2), Some(x) => format!("X{}{}", x, e.1.iter().map(|i| format!("/{}", i)).collect::<String>()) }
}
fn real_derived(w: &mut World, e: &(Option<usize>, Vec<u32>, u32)) -> PublicKey {
    match e.0 {
        None => if e.2 >= 200 { xonly_key(e.2).to_public_key() } else { full_key(e.2) },
        Some(x) => w.derive(x, &e.1),
    }
}

/// reverse-lookup table real derived key -> symbolic form: the expected key of every key
/// expression at this index and a neighbourhood of plausible WRONG answers (other alternatives,
/// other xpubs, index before the path, neighbouring indices, no index)
fn lookup_table(w: &mut World, c: &KCase, i: u64) -> HashMap<PublicKey, String> {
    let mut t: HashMap<PublicKey, String> = HashMap::new();
    let mut paths: Vec<Vec<u32>> = vec![vec![]];
    for k in c.keys.values() {
        let ps: Vec<&Vec<Step>> = match k { SKey::X { path, .. } => vec![path], SKey::M { paths, .. } => paths.iter().collect(), _ => vec![] };
        for p in ps {
            let idx: Vec<u32> = p.iter().map(|s| match s { Step::N(n) | Step::H(n) => *n }).collect();
            if !paths.contains(&idx) { paths.push(idx); }
        }
    }
    let ii = (i & 0x7fff_ffff) as u32;
    let mut cands: Vec<Vec<u32>> = vec![];
    for p in &paths {
        cands.push(p.clone());
        for j in [ii, ii.wrapping_add(1) & 0x7fff_ffff, ii.saturating_sub(1), 0] {
            let mut q = p.clone(); q.push(j); cands.push(q);
            let mut q = vec![j]; q.extend(p.iter()); cands.push(q);
        }
    }
    for x in 0..w.xpubs.len() {
        for p in &cands {
            let pk = w.derive(x, p);
            t.entry(pk).or_insert_with(|| format!("X{}{}", x, p.iter().map(|i| format!("/{}", i)).collect::<String>()));
        }
    }
    // the descriptor's own single keys take precedence
    for k in c.keys.values() {
        if let SKey::Single { id, .. } = k {
            let pk = if *id >= 200 { xonly_key(*id).to_public_key() } else { full_key(*id) };
            t.insert(pk, format!("S{}", id));
        }
    }
    // expected keys last (they win over neighbourhood aliases)
    for k in c.keys.values() {
        if let Some(e) = expected_at(k, i) { let pk = real_derived(w, &e); t.insert(pk, sym_derived(&e)); }
    }
    t
}

fn render_derived_desc(w: &mut World, c: &KCase, i: u64, d: &Descriptor<PublicKey>) -> String {
    let t = lookup_table(w, c, i);
    table(&c.shape, d, &mut |pk: &PublicKey| t.get(pk).cloned().unwrap_or_else(|| "?".into()))
}

/// the descriptor over independently derived plain keys (None if some key has no value at `i`)
fn independent_derived(w: &mut World, c: &KCase, i: u64) -> Option<Descriptor<PublicKey>> {
    let mut m: BTreeMap<u32, PublicKey> = BTreeMap::new();
    for (a, k) in &c.keys { let e = expected_at(k, i)?; m.insert(*a, real_derived(w, &e)); }
    build_with(&c.shape, &|a| m.get(&a).cloned()).ok()
}

/// cell 3: every output accessor of a `Descriptor<DefiniteDescriptorKey>` (keys derived lazily through
/// `ToPublicKey for DefiniteDescriptorKey`, sorted AFTER derivation) against the descriptor over
/// independently derived plain keys
fn definite_outputs(dd: &Descriptor<miniscript::descriptor::DefiniteDescriptorKey>, ind: &Descriptor<PublicKey>) -> Result<(), String> {
    if dd.script_pubkey() != ind.script_pubkey() { return Err("script_pubkey".into()); }
    if dd.explicit_script().ok() != ind.explicit_script().ok() { return Err("explicit_script".into()); }
    if dd.script_code().ok() != ind.script_code().ok() { return Err("script_code".into()); }
    if dd.unsigned_script_sig() != ind.unsigned_script_sig() { return Err("unsigned_script_sig".into()); }
    for net in [Network::Bitcoin, Network::Regtest] {
        if dd.address(net).ok().map(|a| a.to_string()) != ind.address(net).ok().map(|a| a.to_string()) { return Err(format!("address {:?}", net)); }
    }
    Ok(())
}

fn catch<T>(f: impl FnOnce() -> T) -> Result<T, String> { catch_unwind(AssertUnwindSafe(f)).map_err(|_| "PANIC".to_string()) }

fn emit_keys(out: &mut Out, w: &mut World, c: &KCase, indices: &[u64]) {
    let wire = c.wire();
    // cell 4: the constructor verdict is judged against the key kinds the context permits
    let plain_legacy = matches!(c.shape, Shape::Pkh(_) | Shape::Sh(_) | Shape::Bare(_));
    let is_tr = c.is_tr();
    let shape_atoms = c.shape.atoms_pre();
    let must_reject = c.keys.iter().filter(|(a, _)| shape_atoms.contains(a)).any(|(_, k)| match k {
        SKey::Single { id, .. } => ((100..200).contains(id) && !plain_legacy) || (*id >= 200 && !is_tr),
        _ => false,
    });
    let built = build_dpk(w, c);
    // the same key at two positions may be refused as a duplicate (sanity of tap leaves): no C16 claim either way
    let reals: Vec<DescriptorPublicKey> = shape_atoms.iter().filter_map(|a| c.keys.get(a)).map(|k| to_real(w, k)).collect();
    let dup = (0..reals.len()).any(|i| (0..i).any(|j| reals[i] == reals[j]));
    if dup { out.count("kdesc with a repeated key"); }
    // multipath keys of different arity: `Bare::translate_pk` re-runs the top-level arity check and refuses,
    // `Wsh` / `Sh` / `Tr::translate_pk` do not (into_single_descriptors refuses later): an API inconsistency
    // outside C16's statement -> observation, either verdict passes
    let ars: Vec<usize> = shape_atoms.iter().filter_map(|a| c.keys.get(a)).filter_map(|k| if let SKey::M { paths, .. } = k { Some(paths.len()) } else { None }).filter(|n| *n > 1).collect();
    let mixed_arity = ars.iter().any(|a| *a != ars[0]);
    if mixed_arity && built.is_err() { out.count("observation: a constructor (translate_pk into bare) refuses multipath keys of different arity that wsh/sh/tr accept"); }
    let v = match (&built, must_reject) {
        (Err(_), false) if dup || mixed_arity => Ok(()),
        (Ok(_), false) | (Err(_), true) => Ok(()),
        (Ok(_), true) => Err("a key kind the context forbids was accepted".to_string()),
        (Err(e), false) => Err(format!("rejected: {}", e)),
    };
    out.line(&format!("J rustoracle kbuild {} {}", wire, verdict(v)), "ok");
    let d = match built { Ok(d) => d, Err(_) => { out.count("kdesc rejected-by-constructor"); return; } };
    // cell 1: a case that carries key TEXT was parsed from it; it must be the structurally built descriptor
    if c.texts.is_some() {
        let mut plain = c.clone(); plain.texts = None;
        let v = match build_dpk(w, &plain) { Ok(p) => if p == d { Ok(()) } else { Err("the parsed descriptor is not the structurally built one".to_string()) }, Err(e) => Err(e) };
        out.line(&format!("J rustoracle desc-from-text {} {}", wire, verdict(v)), "ok");
    }
    out.count(&format!("kdesc type {}", c.shape.ty()));
    for k in c.keys.values() {
        out.count(match k { SKey::Single { id, .. } => if *id >= 200 { "key single-xonly" } else if *id >= 100 { "key single-uncompressed" } else { "key single-full" },
            SKey::X { wc: Wc::None, .. } => "key xpub", SKey::X { wc: Wc::Unh, .. } => "key xpub/*", SKey::X { .. } => "key xpub/*h",
            SKey::M { paths, .. } => match paths.len() { 1 => "key multi<1>", 2 => "key multi<2>", 3 => "key multi<3>", _ => "key multi<4+>" } });
    }
    let any_multi = c.keys.values().any(|k| matches!(k, SKey::M { .. }));
    let any_wild = c.keys.values().any(|k| matches!(k, SKey::X { wc, .. } | SKey::M { wc, .. } if *wc != Wc::None));
    out.line(&format!("C haswild {}", wire), &format!("{}{}", d.has_wildcard() as u8, d.is_multipath() as u8));
    let v = if d.has_wildcard() == any_wild && d.is_multipath() == any_multi { Ok(()) } else { Err("has_wildcard/is_multipath".to_string()) };
    out.line(&format!("J rustoracle haswild {} {}", wire, verdict(v)), "ok");
    // into_definite
    let r = catch(|| d.into_definite());
    let ans = match &r { Err(p) => p.clone(), Ok(Ok(dd)) => format!("ok:{}", table(&c.shape, dd, &mut |k| render_dpk(w, k.as_descriptor_public_key()))), Ok(Err(e)) => format!("err:{}", err_name(e)) };
    out.line(&format!("C definite {}", wire), &ans);
    if let Ok(Ok(dd)) = &r {
        let v = match independent_derived(w, c, 0) { Some(ind) => catch(|| definite_outputs(dd, &ind)).and_then(|x| x), None => Err("no independent descriptor".into()) };
        out.line(&format!("J rustoracle definite-outputs {} definite {}", wire, verdict(v)), "ok");
    }
    for &i in indices {
        if i > u32::MAX as u64 { continue; }
        let iu = i as u32;
        // at_derivation_index / derive_at_index
        #[allow(deprecated)]
        let r = catch(|| d.at_derivation_index(iu));
        let ans = match &r { Err(p) => p.clone(), Ok(Ok(dd)) => format!("ok:{}", table(&c.shape, dd, &mut |k| render_dpk(w, k.as_descriptor_public_key()))), Ok(Err(e)) => format!("err:{}", err_name(e)) };
        out.line(&format!("C atindex {} {}", wire, i), &ans);
        if let Ok(Ok(dd)) = &r {
            let v = if same_shape(&d, dd) { Ok(()) } else { Err("shape changed".to_string()) };
            out.line(&format!("J rustoracle atindex-shape {} {} {}", wire, i, verdict(v)), "ok");
            let v = match independent_derived(w, c, i) { Some(ind) => catch(|| definite_outputs(dd, &ind)).and_then(|x| x), None => Err("no independent descriptor".into()) };
            out.line(&format!("J rustoracle definite-outputs {} {} {}", wire, i, verdict(v)), "ok");
            // R4: `dd` is USED now (script_pubkey / address computed, taproot spend info cached): deriving from it,
            // from its clone, and deriving the source descriptor a second time give the independent keys again
            let ind = independent_derived(w, c, i);
            let v = catch(|| -> Result<(), String> {
                let ind = ind.as_ref().ok_or("no independent descriptor")?;
                let used = dd.derived_descriptor(&w.secp);
                if &used != ind || used.script_pubkey() != ind.script_pubkey() { return Err("derived_descriptor of a used definite descriptor".into()); }
                let cl = dd.clone();
                if cl.script_pubkey() != ind.script_pubkey() || &cl.derived_descriptor(&w.secp) != ind { return Err("clone of a used definite descriptor".into()); }
                #[allow(deprecated)]
                let again = d.at_derivation_index(iu).map_err(|e| format!("second derivation fails: {:?}", e))?;
                if &again != dd { return Err("second at_derivation_index differs".into()); }
                if again.script_pubkey() != ind.script_pubkey() { return Err("fresh second derivation vs used first".into()); }
                #[allow(deprecated)]
                let third = d.derived_descriptor(&w.secp, iu).map_err(|e| format!("{:?}", e))?;
                if &third != ind { return Err("derived_descriptor after use".into()); }
                Ok(())
            }).and_then(|x| x);
            out.line(&format!("J rustoracle derive-used-state {} {} {}", wire, i, verdict(v)), "ok");
        }
        let r2 = catch(|| d.derive_at_index(iu).into_result());
        let ans = match &r2 { Err(p) => p.clone(), Ok(Ok(dd)) => format!("ok:{}", table(&c.shape, dd, &mut |k| render_dpk(w, k.as_descriptor_public_key()))), Ok(Err(e)) => format!("err:{}", err_name(e)) };
        out.line(&format!("C deriveat {} {}", wire, i), &ans);
        // derived_descriptor
        #[allow(deprecated)]
        let r3 = catch(|| d.derived_descriptor(&w.secp, iu));
        let ans = match &r3 { Err(p) => p.clone(), Ok(Ok(dd)) => format!("ok:{}", render_derived_desc(w, c, i, dd)), Ok(Err(e)) => format!("err:{}", err_name(e)) };
        out.line(&format!("C derive {} {}", wire, i), &ans);
        // independent judge: exact failure condition, every key, and the output script
        let ind = independent_derived(w, c, i);
        let expect_ok = c.keys.values().all(|k| expected_at(k, i).is_some());
        let v = match (&r3, &ind) {
            (Err(_), _) => Err("panic".to_string()),
            (Ok(Ok(dd)), Some(id)) => {
                if !expect_ok { Err("derivation should fail".into()) }
                else if keys_pre(dd) != keys_pre(id) { Err("derived keys differ from Xpub::derive_pub".into()) }
                else if dd != id { Err("derived descriptor differs".into()) }
                else if dd.script_pubkey() != id.script_pubkey() { Err("spk differs".into()) }
                else { Ok(()) }
            }
            (Ok(Ok(_)), None) => Err("derivation should fail".into()),
            (Ok(Err(_)), Some(_)) => Err("derivation should succeed".into()),
            (Ok(Err(_)), None) => if expect_ok { Err("independent build failed".into()) } else { Ok(()) },
        };
        out.line(&format!("J rustoracle derive-independent {} {} {}", wire, i, verdict(v)), "ok");
    }
    // into_single_descriptors
    let r = catch(|| d.clone().into_single_descriptors());
    let ans = match &r { Err(p) => format!("err:{}", p), Ok(Ok(v)) => format!("ok:{}", v.iter().map(|x| table(&c.shape, x, &mut |k| render_dpk(w, k))).collect::<Vec<_>>().join("|")),
        Ok(Err(miniscript::Error::MultipathDescLenMismatch)) => "err:LenMismatch".into(), Ok(Err(e)) => format!("err:{}", e.to_string().replace(' ', "_")) };
    out.line(&format!("C split {}", wire), &ans);
    // manual selection: arity must be uniform (any mismatch, whichever key comes first, must be
    // rejected); descriptor j = every multipath key at alternative j
    let arities: Vec<usize> = c.shape.atoms_pre().iter().filter_map(|a| c.keys.get(a)).filter_map(|k| if let SKey::M { paths, .. } = k { Some(paths.len()) } else { None }).collect();
    let v: Result<(), String> = (|| {
        let res = match &r { Err(_) => return Err("panic".into()), Ok(x) => x };
        if arities.is_empty() {
            return match res { Ok(v) if v.len() == 1 && v[0] == d => Ok(()), _ => Err("single-path descriptor must split into itself".into()) };
        }
        let n = arities[0];
        if arities.iter().any(|a| *a != n) {
            return match res { Err(_) => Ok(()), Ok(v) => Err(format!("mismatching arities {:?} accepted ({} descriptors)", arities, v.len())) };
        }
        let v = match res { Ok(v) => v, Err(e) => return Err(format!("uniform arity {} rejected: {}", n, e)) };
        if v.len() != n { return Err(format!("{} descriptors for arity {}", v.len(), n)); }
        for j in 0..n {
            let mut sel = c.clone();
            sel.texts = None;
            for k in sel.keys.values_mut() {
                if let SKey::M { origin, x, paths, wc } = k.clone() { *k = SKey::X { origin, x, path: paths[j].clone(), wc }; }
            }
            let m = build_dpk(w, &sel)?;
            if m != v[j] { return Err(format!("descriptor {} is not the selection of alternative {}", j, j)); }
        }
        Ok(())
    })();
    out.line(&format!("J rustoracle split-manual {} {}", wire, verdict(v)), "ok");
}

fn emit_find(out: &mut Out, w: &mut World, c: &KCase, lo: u64, hi: u64, tgt: &str) {
    let d = match build_dpk(w, c) { Ok(d) => d, Err(_) => return };
    let any_wild = c.keys.values().any(|k| matches!(k, SKey::X { wc, .. } | SKey::M { wc, .. } if *wc != Wc::None));
    let tgt = if tgt == "self" && any_wild { "0" } else { tgt };
    // R3: `trunc:<t>` / `ext:<t>` = the scriptPubKey at index t without its last byte / with one more byte,
    // `empty` = the empty script, `foreign:<t>` = the same keys at index t under ANOTHER output type
    let at = |w: &mut World, t: &str| t.parse::<u64>().ok().and_then(|t| independent_derived(w, c, t)).map(|x| x.script_pubkey());
    let target: ScriptBuf = match tgt {
        "none" => ScriptBuf::from_bytes(vec![0x51]),
        "empty" => ScriptBuf::new(),
        t if t.starts_with("trunc:") => match at(w, &t[6..]) { Some(s) => { let mut b = s.to_bytes(); b.pop(); ScriptBuf::from_bytes(b) }, None => ScriptBuf::from_bytes(vec![0x51]) },
        t if t.starts_with("ext:") => match at(w, &t[4..]) { Some(s) => { let mut b = s.to_bytes(); b.push(0x00); ScriptBuf::from_bytes(b) }, None => ScriptBuf::from_bytes(vec![0x51]) },
        t if t.starts_with("foreign:") => {
            let other = match &c.shape {
                Shape::Wsh(n) => Shape::ShWsh(n.clone()), Shape::ShWsh(n) => Shape::Wsh(n.clone()), Shape::Sh(n) => Shape::Bare(n.clone()),
                Shape::Bare(n) => Shape::Sh(n.clone()), Shape::Pkh(k) => Shape::Wpkh(*k), Shape::Wpkh(k) => Shape::ShWpkh(*k), Shape::ShWpkh(k) => Shape::Pkh(*k),
                Shape::Tr(k, _) => Shape::Tr(*k, vec![]),
            };
            let oc = KCase { shape: other, keys: c.keys.clone(), texts: None };
            match t[8..].parse::<u64>().ok().and_then(|t| independent_derived(w, &oc, t)) { Some(x) if Some(x.script_pubkey()) != at(w, &t[8..]) => x.script_pubkey(), _ => ScriptBuf::from_bytes(vec![0x52]) }
        }
        "self" => match independent_derived(w, c, 0) { Some(x) => x.script_pubkey(), None => ScriptBuf::from_bytes(vec![0x51]) },
        t => match independent_derived(w, c, t.parse::<u64>().unwrap()) { Some(x) => x.script_pubkey(), None => ScriptBuf::from_bytes(vec![0x51]) },
    };
    let (l, h) = (lo as u32, hi as u32);
    let r = catch(|| d.find_derivation_index_for_spk(&w.secp, &target, l..h));
    let ans = match &r {
        Err(p) => p.clone(),
        Ok(Ok(Some((i, dd)))) => format!("ok:{}:{}", i, render_derived_desc(w, c, *i as u64, dd)),
        Ok(Ok(None)) => "ok:none".into(),
        Ok(Err(e)) => format!("err:{}", err_name(e)),
    };
    out.line(&format!("C findidx {} {} {} {}", c.wire(), lo, hi, tgt), &ans);
    // independent: least index in range whose independently derived spk matches; an index whose
    // derivation is impossible before that is an error
    let v: Result<(), String> = (|| {
        let res = match &r { Err(_) => return Err("panic".into()), Ok(x) => x };
        if !any_wild {
            let exp = independent_derived(w, c, 0);
            return match (res, exp) {
                (Ok(Some((0, dd))), Some(e)) if e.script_pubkey() == target && *dd == e => Ok(()),
                (Ok(None), Some(e)) if e.script_pubkey() != target => Ok(()),
                (Err(_), None) => Ok(()),
                _ => Err("non-wildcard result".into()),
            };
        }
        let mut i = lo;
        while i < hi {
            match independent_derived(w, c, i) {
                None => return if res.is_err() { Ok(()) } else { Err(format!("index {} cannot be derived but no error", i)) },
                Some(e) => if e.script_pubkey() == target {
                    return match res { Ok(Some((j, dd))) if *j as u64 == i && *dd == e => Ok(()), _ => Err(format!("least matching index is {}", i)) };
                },
            }
            i += 1;
        }
        match res { Ok(None) => Ok(()), _ => Err("no index in range matches".into()) }
    })();
    out.line(&format!("J rustoracle findidx {} {} {} {} {}", c.wire(), lo, hi, tgt, verdict(v)), "ok");
}

/* ---------- generators for symbolic keys */

const IDX: [u32; 6] = [0, 1, 2, 5, 44, 0x7fff_ffff];

fn gen_path(rng: &mut Rng, max: usize, hard_pct: usize) -> Vec<Step> {
    let n = rng.below(max + 1);
    (0..n).map(|_| { let i = *rng.pick(&IDX); if rng.below(100) < hard_pct { Step::H(i) } else { Step::N(i) } }).collect()
}
fn gen_origin(rng: &mut Rng) -> Origin { if rng.below(3) == 0 { Some((1 + rng.below(500) as u32, gen_path(rng, 2, 50))) } else { None } }
fn gen_wc(rng: &mut Rng, hard_pct: usize) -> Wc { match rng.below(100) { x if x < hard_pct => Wc::Hard, x if x < 60 => Wc::Unh, _ => Wc::None } }

/// `arity`: Some(n) forces multipath keys to n alternatives; `clean`: no hardened steps / wildcards
fn gen_key(rng: &mut Rng, tap: bool, multi_pct: usize, arity: Option<usize>, clean: bool, single_id: u32, unc_pct: usize) -> SKey {
    let hard = if clean { 0 } else { 8 };
    let r = rng.below(100);
    if r < multi_pct {
        let n = arity.unwrap_or(1 + rng.below(4));
        let common = gen_path(rng, 2, hard);
        let mut paths: Vec<Vec<Step>> = vec![];
        while paths.len() < n {
            let mut p = common.clone();
            p.push(if rng.below(100) < hard { Step::H(paths.len() as u32) } else { Step::N(paths.len() as u32 + rng.below(2) as u32 * 10) });
            if rng.below(4) == 0 { p.extend(gen_path(rng, 1, hard)); }
            if !paths.contains(&p) { paths.push(p); }
        }
        SKey::M { origin: gen_origin(rng), x: rng.below(4), paths, wc: gen_wc(rng, hard) }
    } else if r < multi_pct + 18 {
        let id = if rng.below(100) < unc_pct { 100 + single_id % 6 } else if tap && rng.coin() { 200 + single_id % 100 } else { single_id % 100 };
        SKey::Single { origin: gen_origin(rng), id }
    } else {
        SKey::X { origin: gen_origin(rng), x: rng.below(4), path: gen_path(rng, 3, hard), wc: gen_wc(rng, hard) }
    }
}

/// renumber the key atoms of a node with fresh consecutive ids starting at `next`
fn renumber(n: &Node, next: &mut u32) -> Node {
    use Node::*;
    let mut f = |_: &u32| { let a = *next; *next += 1; a };
    fn go(n: &Node, f: &mut dyn FnMut(&u32) -> u32) -> Node {
        use Node::*;
        let b = |x: &Node, f: &mut dyn FnMut(&u32) -> u32| Box::new(go(x, f));
        match n {
            PkK(k) => PkK(f(k)), PkH(k) => PkH(f(k)),
            Multi(k, v) => Multi(*k, v.iter().map(|x| f(x)).collect()),
            SortedMulti(k, v) => SortedMulti(*k, v.iter().map(|x| f(x)).collect()),
            MultiA(k, v) => MultiA(*k, v.iter().map(|x| f(x)).collect()),
            SortedMultiA(k, v) => SortedMultiA(*k, v.iter().map(|x| f(x)).collect()),
            Alt(x) => Alt(b(x, f)), Swap(x) => Swap(b(x, f)), Check(x) => Check(b(x, f)), DupIf(x) => DupIf(b(x, f)),
            Verify(x) => Verify(b(x, f)), NonZero(x) => NonZero(b(x, f)), ZeroNotEqual(x) => ZeroNotEqual(b(x, f)),
            AndV(x, y) => { let x = b(x, f); let y = b(y, f); AndV(x, y) }
            AndB(x, y) => { let x = b(x, f); let y = b(y, f); AndB(x, y) }
            OrB(x, y) => { let x = b(x, f); let y = b(y, f); OrB(x, y) }
            OrD(x, y) => { let x = b(x, f); let y = b(y, f); OrD(x, y) }
            OrC(x, y) => { let x = b(x, f); let y = b(y, f); OrC(x, y) }
            OrI(x, y) => { let x = b(x, f); let y = b(y, f); OrI(x, y) }
            AndOr(x, y, z) => { let x = b(x, f); let y = b(y, f); let z = b(z, f); AndOr(x, y, z) }
            Thresh(k, xs) => Thresh(*k, xs.iter().map(|x| go(x, f)).collect()),
            other => other.clone(),
        }
    }
    let _ = (True, False);
    go(n, &mut f)
}

fn key_shapes(rng: &mut Rng) -> Vec<Shape> {
    // miniscripts with 1..4 key positions in different structural places (translate order matters)
    let c = |k: u32| Node::Check(Box::new(Node::PkK(k)));
    let ch = |k: u32| Node::Check(Box::new(Node::PkH(k)));
    let v = |n: Node| Node::Verify(Box::new(n));
    let bx = |n: Node| Box::new(n);
    let seg: Vec<Node> = vec![
        c(0),
        Node::AndV(bx(v(c(0))), bx(c(1))),
        Node::AndV(bx(v(ch(0))), bx(Node::AndV(bx(v(c(1))), bx(Node::Older(10))))),
        Node::OrD(bx(c(0)), bx(Node::AndV(bx(v(c(1))), bx(c(2))))),
        Node::AndOr(bx(c(0)), bx(c(1)), bx(c(2))),
        Node::Multi(2, vec![0, 1, 2]),
        Node::SortedMulti(2, vec![0, 1, 2]),
        Node::OrI(bx(Node::AndV(bx(v(Node::Multi(1, vec![0, 1]))), bx(c(2)))), bx(c(3))),
        Node::Thresh(2, vec![c(0), Node::Swap(bx(c(1))), Node::Swap(bx(c(2)))]),
        Node::OrB(bx(c(0)), bx(Node::Alt(bx(Node::Multi(1, vec![1, 2]))))),
    ];
    let mut out = vec![Shape::Pkh(0), Shape::Wpkh(0), Shape::ShWpkh(0)];
    for n in &seg {
        // R1: every node under every wrapper arm (Wsh / Sh(Wsh) / Sh(Ms)), not a coin flip
        out.push(Shape::Wsh(n.clone()));
        out.push(Shape::ShWsh(n.clone()));
        out.push(Shape::Sh(n.clone()));
    }
    out.push(Shape::Bare(c(0)));
    out.push(Shape::Bare(Node::Multi(1, vec![0, 1])));
    out.push(Shape::Bare(ch(0)));
    out.push(Shape::Bare(Node::SortedMulti(2, vec![0, 1, 2])));
    // taproot: internal key + leaves (atoms 200..)
    let tl: Vec<Node> = vec![
        c(0), Node::AndV(bx(v(c(0))), bx(c(1))), Node::MultiA(2, vec![0, 1, 2]), Node::SortedMultiA(1, vec![0, 1]),
        Node::OrD(bx(c(0)), bx(Node::AndV(bx(v(ch(1))), bx(Node::After(100))))),
    ];
    out.push(Shape::Tr(200, vec![]));
    for ts in TREE_SHAPES {
        let mut next = 201u32;
        let leaves: Vec<(u8, Node)> = ts.iter().map(|d| (*d, renumber(rng.pick(&tl), &mut next))).collect();
        out.push(Shape::Tr(200, leaves));
    }
    out
}

/// `parse_descriptor` on a text whose keys are xprvs (hardened steps allowed: they are applied privately and
/// move into the origin), WIF keys and public keys; the expected public descriptor is built here with
/// rust-bitcoin's `derive_priv` / `Xpub::from_priv`; `to_string_with_secret` must give the text back
fn emit_secret_route(out: &mut Out, w: &mut World, rng: &mut Rng, shape: &Shape) {
    use miniscript::bitcoin::PrivateKey;
    let tap = matches!(shape, Shape::Tr(..));
    let unc_ok = matches!(shape, Shape::Pkh(_) | Shape::Sh(_) | Shape::Bare(_));
    let mut texts: BTreeMap<u32, String> = BTreeMap::new();
    let mut want: BTreeMap<u32, DescriptorPublicKey> = BTreeMap::new();
    let mut n_secret = 0usize;
    let mut seen: Vec<String> = vec![];
    for (j, a) in shape.atoms_pre().iter().enumerate() {
        let j32 = j as u32;
        match (j + rng.below(2)) % 4 {
            0 | 1 => {
                // xprv/path[/*]; hardened steps up to the last hardened one are derived privately
                let x = (j + rng.below(4)) % 4;
                let path: Vec<Step> = match rng.below(4) { 0 => vec![Step::N(j32)], 1 => vec![Step::H(j32), Step::N(1)], 2 => vec![Step::N(2), Step::H(j32), Step::N(3)], _ => vec![] };
                let wc = if rng.coin() { Wc::Unh } else { Wc::None };
                let origin: Origin = if rng.below(3) == 0 { Some((90 + j32, vec![Step::H(84)])) } else { None };
                let t = TKey { origin: origin.clone(), x, pre: path.clone(), alts: None, post: vec![], wc, style: 1 };
                let text = t.text(w).replace(&w.xpubs[x].to_string(), &w.xprvs[x].to_string());
                let last_h = path.iter().rposition(|s| matches!(s, Step::H(_))).map(|p| p + 1).unwrap_or(0);
                let hard: Vec<ChildNumber> = path[..last_h].iter().map(|s| s.child()).collect();
                let xprv = w.xprvs[x].derive_priv(&w.secp, &hard).unwrap();
                let o = match (&origin, hard.is_empty()) {
                    (Some((f, p)), _) => Some((fp(*f), DerivationPath::from(p.iter().map(|s| s.child()).chain(hard.iter().cloned()).collect::<Vec<_>>()))),
                    (None, false) => Some((w.xprvs[x].fingerprint(&w.secp), DerivationPath::from(hard.clone()))),
                    (None, true) => None,
                };
                want.insert(*a, DescriptorPublicKey::XPub(DescriptorXKey { origin: o, xkey: Xpub::from_priv(&w.secp, &xprv), derivation_path: dpath(&path[last_h..]), wildcard: real_wc(wc) }));
                if !seen.contains(&text) { seen.push(text.clone()); n_secret += 1; }
                texts.insert(*a, text);
            }
            2 => {
                // WIF single key (compressed, or uncompressed where the context permits)
                let id = if unc_ok && rng.coin() { 100 + j32 % 6 } else { 20 + j32 };
                let pk = full_key(id);
                let sk = PrivateKey { compressed: pk.compressed, network: miniscript::bitcoin::NetworkKind::Main, inner: ast::secret(id % 100) };
                let text = sk.to_wif();
                want.insert(*a, DescriptorPublicKey::Single(SinglePub { origin: None, key: SinglePubKey::FullKey(pk) }));
                if !seen.contains(&text) { seen.push(text.clone()); n_secret += 1; }
                texts.insert(*a, text);
            }
            _ => {
                // a public key next to the secret ones
                let k = if tap { SKey::Single { origin: None, id: 230 + j32 } } else { SKey::X { origin: None, x: j % 4, path: vec![Step::N(7)], wc: Wc::Unh } };
                texts.insert(*a, match &k { SKey::Single { .. } => single_text(&k).unwrap(), _ => TKey { origin: None, x: j % 4, pre: vec![Step::N(7)], alts: None, post: vec![], wc: Wc::Unh, style: 1 }.text(w) });
                want.insert(*a, to_real(w, &k));
            }
        }
    }
    let text = match desc_text(shape, &texts) { Ok(t) => t, Err(_) => return };
    let label = format!("{}#{}", shape.wire(), texts.values().map(|t| if t.starts_with("xprv") || t.contains("]xprv") { "x" } else if t.len() < 60 { "w" } else { "p" }).collect::<String>());
    let v = catch(|| -> Result<(), String> {
        let (d, km) = Descriptor::<DescriptorPublicKey>::parse_descriptor(&w.secp, &text).map_err(|e| format!("parse_descriptor: {}", e))?;
        let expect = build_with(shape, &|a| want.get(&a).cloned())?;
        if d != expect { return Err("public descriptor is not the one rust-bitcoin's private derivation gives".into()); }
        if km.len() != n_secret { return Err(format!("key map has {} entries for {} secret keys", km.len(), n_secret)); }
        let back = d.to_string_with_secret(&km);
        let back = back.split('#').next().unwrap_or("").to_string();
        if back != text { return Err("to_string_with_secret does not give the text back".into()); }
        // and the public text route reaches the same descriptor
        let public = Descriptor::<DescriptorPublicKey>::from_str(&d.to_string()).map_err(|e| e.to_string())?;
        if public != d { return Err("printed public descriptor parses to another one".into()); }
        Ok(())
    }).and_then(|x| x);
    out.count("kdesc secret-key text route");
    out.line(&format!("J rustoracle secret-route {} {}", label, verdict(v)), "ok");
}

fn part_keys(out: &mut Out, thorough: bool, rng: &mut Rng, w: &mut World) -> u64 {
    let mut n_cases = 0u64;
    let indices: Vec<u64> = vec![0, 1, 7, 0x7fff_ffff, 0x8000_0000, 0xffff_ffff];
    let rounds = if thorough { 200 } else { 24 };
    for round in 0..rounds {
        for shape in key_shapes(rng) {
            // distinct atoms per key position (non-tr shapes use atoms 0.., renumbered)
            let shape = match &shape {
                Shape::Wsh(n) => { let mut x = 0; Shape::Wsh(renumber(n, &mut x)) }
                Shape::Sh(n) => { let mut x = 0; Shape::Sh(renumber(n, &mut x)) }
                Shape::ShWsh(n) => { let mut x = 0; Shape::ShWsh(renumber(n, &mut x)) }
                Shape::Bare(n) => { let mut x = 0; Shape::Bare(renumber(n, &mut x)) }
                s => s.clone(),
            };
            let tap = matches!(shape, Shape::Tr(..));
            let atoms = shape.atoms_pre();
            // mode: 0 clean derivable, 1 anything goes, 2 uniform multipath, 3 mixed-arity multipath
            let mode = (round + rng.below(2)) % 4;
            let arity = 1 + rng.below(4);
            let mut keys = BTreeMap::new();
            // cell 4: uncompressed `Single` keys where the context permits them (pkh / sh / bare), and
            // occasionally where it does not (must be rejected)
            let unc = if matches!(shape, Shape::Pkh(_) | Shape::Sh(_) | Shape::Bare(_)) { 60 } else if round % 5 == 4 { 25 } else { 0 };
            for (j, a) in atoms.iter().enumerate() {
                let k = match mode {
                    0 => gen_key(rng, tap, 0, None, true, j as u32 + 3, unc),
                    1 => gen_key(rng, tap, 15, None, false, j as u32 + 3, unc),
                    2 => gen_key(rng, tap, 60, Some(arity), true, j as u32 + 3, unc),
                    _ => { let cl = rng.coin(); gen_key(rng, tap, 60, None, cl, j as u32 + 3, unc) }
                };
                keys.insert(*a, k);
            }
            let c = KCase { shape, keys, texts: None };
            n_cases += 1;
            let idx: Vec<u64> = if round == 0 { indices.clone() } else { vec![*rng.pick(&indices), rng.below(1000) as u64] };
            emit_keys(out, w, &c, &idx);
            // find_derivation_index_for_spk
            let finds: Vec<(u64, u64, String)> = vec![
                (0, 6, "3".into()), (0, 6, "0".into()), (0, 6, "5".into()), (0, 6, "6".into()), (2, 6, "1".into()), (0, 6, "none".into()),
                (4, 4, "4".into()), (6, 2, "3".into()), (0x7fff_fffd, 0x8000_0002, "2147483647".into()), (0x7fff_fffd, 0x8000_0002, "none".into()),
                (0, 3, "self".into()),
            ];
            let picks = if round == 0 { finds.len() } else { 3 };
            for _ in 0..picks.min(finds.len()) {
                let (lo, hi, t) = if round == 0 { finds[(n_cases as usize + rng.below(finds.len())) % finds.len()].clone() } else { rng.pick(&finds).clone() };
                emit_find(out, w, &c, lo, hi, &t);
            }
        }
    }
    // directed cases
    let x = |x: usize, path: Vec<Step>, wc: Wc| SKey::X { origin: None, x, path, wc };
    let m = |x: usize, n: usize, wc: Wc| SKey::M { origin: None, x, paths: (0..n as u32).map(|i| vec![Step::N(i)]).collect(), wc };
    let c0 = |k: u32| Node::Check(Box::new(Node::PkK(k)));
    let andv = |a: Node, b: Node| Node::AndV(Box::new(Node::Verify(Box::new(a))), Box::new(b));
    let mut directed: Vec<KCase> = vec![];
    let mk = |shape: Shape, ks: Vec<(u32, SKey)>| KCase { shape, keys: ks.into_iter().collect(), texts: None };
    // error precedence follows the translate order (right key first)
    directed.push(mk(Shape::Wsh(andv(c0(0), c0(1))), vec![(0, x(0, vec![Step::N(0)], Wc::Hard)), (1, m(1, 2, Wc::Unh))]));
    directed.push(mk(Shape::Wsh(andv(c0(0), c0(1))), vec![(0, m(1, 2, Wc::Unh)), (1, x(0, vec![Step::N(0)], Wc::Hard))]));
    directed.push(mk(Shape::Wsh(andv(c0(0), c0(1))), vec![(0, x(0, vec![Step::H(1)], Wc::Unh)), (1, x(1, vec![], Wc::None))]));
    // same derived key twice
    directed.push(mk(Shape::Wsh(andv(c0(0), c0(1))), vec![(0, x(0, vec![Step::N(0)], Wc::Unh)), (1, x(0, vec![Step::N(0), Step::N(5)], Wc::None))]));
    // multipath arity: uniform, mixed inside one miniscript, mixed between internal key and leaf
    for (a, b) in [(2usize, 2usize), (2, 3), (3, 2), (1, 2), (2, 1), (4, 4)] {
        directed.push(mk(Shape::Wsh(andv(c0(0), c0(1))), vec![(0, m(0, a, Wc::Unh)), (1, m(1, b, Wc::Unh))]));
        directed.push(mk(Shape::Tr(200, vec![(0, c0(201))]), vec![(200, m(0, a, Wc::Unh)), (201, m(1, b, Wc::Unh))]));
        directed.push(mk(Shape::Tr(200, vec![(1, c0(201)), (1, c0(202))]), vec![(200, m(0, a, Wc::Unh)), (201, m(1, b, Wc::Unh)), (202, m(2, a, Wc::None))]));
    }
    // cell 4: uncompressed `Single` keys in every wrapper (accepted in pkh / sh / bare only), an x-only
    // `Single` key outside taproot (rejected), with and without origin
    let su = |id: u32, o: Origin| SKey::Single { origin: o, id };
    for (id, o) in [(100u32, None), (103, Some((77u32, vec![Step::H(44), Step::N(1)]))), (105, None)] {
        directed.push(mk(Shape::Pkh(0), vec![(0, su(id, o.clone()))]));
        directed.push(mk(Shape::Wpkh(0), vec![(0, su(id, o.clone()))]));
        directed.push(mk(Shape::ShWpkh(0), vec![(0, su(id, o.clone()))]));
        directed.push(mk(Shape::Bare(c0(0)), vec![(0, su(id, o.clone()))]));
        directed.push(mk(Shape::Sh(andv(c0(0), c0(1))), vec![(0, su(id, o.clone())), (1, x(1, vec![Step::N(2)], Wc::Unh))]));
        directed.push(mk(Shape::Sh(andv(Node::Check(Box::new(Node::PkH(0))), c0(1))), vec![(0, su(id, o.clone())), (1, su(id - 100, None))]));
        directed.push(mk(Shape::Sh(Node::SortedMulti(2, vec![0, 1, 2])), vec![(0, su(id, o.clone())), (1, su(id - 100, None)), (2, x(0, vec![], Wc::Unh))]));
        directed.push(mk(Shape::Sh(Node::Multi(1, vec![0, 1])), vec![(0, x(2, vec![Step::N(0)], Wc::Unh)), (1, su(id, o.clone()))]));
        directed.push(mk(Shape::Wsh(andv(c0(0), c0(1))), vec![(0, su(id, o.clone())), (1, x(1, vec![], Wc::Unh))]));
        directed.push(mk(Shape::ShWsh(c0(0)), vec![(0, su(id, o.clone()))]));
        directed.push(mk(Shape::Tr(200, vec![]), vec![(200, su(id, o.clone()))]));
        directed.push(mk(Shape::Tr(200, vec![(0, c0(201))]), vec![(200, x(0, vec![], Wc::Unh)), (201, su(id, o.clone()))]));
    }
    directed.push(mk(Shape::Wsh(c0(0)), vec![(0, su(203, None))]));
    directed.push(mk(Shape::Pkh(0), vec![(0, su(204, None))]));
    directed.push(mk(Shape::Sh(andv(c0(0), c0(1))), vec![(0, su(3, None)), (1, su(205, None))]));
    for c in directed {
        n_cases += 1;
        emit_keys(out, w, &c, &[0, 5, 0x8000_0000]);
        emit_find(out, w, &c, 0, 4, "2");
    }
    // cell 1: key-expression TEXT.  Directed forms, every hardened-marker style, then random ones.
    let tk = |origin: Origin, x: usize, pre: Vec<Step>, alts: Option<Vec<Step>>, post: Vec<Step>, wc: Wc| TKey { origin, x, pre, alts, post, wc, style: 0 };
    let mut tkeys: Vec<TKey> = vec![
        tk(None, 0, vec![], None, vec![], Wc::None),
        tk(None, 1, vec![], None, vec![], Wc::Unh),
        tk(None, 2, vec![Step::N(1), Step::H(2), Step::N(3)], None, vec![], Wc::None),
        tk(None, 0, vec![], Some(vec![Step::N(7), Step::N(9)]), vec![Step::N(3)], Wc::Unh),                  // /<7;9>/3/*
        tk(None, 1, vec![Step::N(4)], Some(vec![Step::H(0), Step::H(1)]), vec![], Wc::Hard),                  // /4/<0h;1'>/*h
        tk(None, 2, vec![], Some(vec![Step::N(0), Step::N(1), Step::N(2)]), vec![], Wc::None),               // /<0;1;2>
        tk(None, 3, vec![Step::N(5)], Some(vec![Step::N(0), Step::H(1), Step::N(2), Step::N(3)]), vec![Step::H(8), Step::N(9)], Wc::Unh),
        tk(Some((0x1234, vec![Step::H(44), Step::H(0), Step::N(1)])), 0, vec![Step::N(0)], None, vec![], Wc::Unh),
        tk(Some((7, vec![])), 1, vec![], Some(vec![Step::N(0), Step::N(1)]), vec![], Wc::Unh),
        tk(Some((65535, vec![Step::H(0x7fff_ffff), Step::N(0x7fff_ffff)])), 2, vec![Step::N(0x7fff_ffff)], Some(vec![Step::N(0), Step::N(0x7fff_ffff)]), vec![Step::H(0)], Wc::Hard),
    ];
    for _ in 0..(if thorough { 300 } else { 40 }) {
        let alts = if rng.coin() { let n = 2 + rng.below(3); Some((0..n as u32).map(|i| if rng.below(6) == 0 { Step::H(i + 10 * rng.below(2) as u32) } else { Step::N(i + 10 * rng.below(3) as u32) }).collect::<Vec<_>>()) } else { None };
        tkeys.push(tk(gen_origin(rng), rng.below(4), gen_path(rng, 2, 20), alts, gen_path(rng, 2, 20), gen_wc(rng, 15)));
    }
    for t in &tkeys {
        for style in 0..3u8 { let mut t = t.clone(); t.style = style; emit_keytext(out, w, &t); }
    }
    // whole descriptors written as TEXT with such keys, parsed by `Descriptor::from_str`, then through every op
    for round in 0..(if thorough { 6 } else { 1 }) {
        for shape in key_shapes(rng) {
            let shape = match &shape {
                Shape::Wsh(n) => { let mut x = 0; Shape::Wsh(renumber(n, &mut x)) }
                Shape::Sh(n) => { let mut x = 0; Shape::Sh(renumber(n, &mut x)) }
                Shape::ShWsh(n) => { let mut x = 0; Shape::ShWsh(renumber(n, &mut x)) }
                Shape::Bare(n) => { let mut x = 0; Shape::Bare(renumber(n, &mut x)) }
                s => s.clone(),
            };
            let tap = matches!(shape, Shape::Tr(..));
            let arity = 2 + (round + rng.below(2)) % 3;
            let multipath = rng.below(3) != 0;
            let mut keys = BTreeMap::new();
            let mut texts = BTreeMap::new();
            for (j, a) in shape.atoms_pre().iter().enumerate() {
                if rng.below(6) == 0 {
                    let unc = matches!(shape, Shape::Pkh(_) | Shape::Sh(_) | Shape::Bare(_)) && rng.coin();
                    let k = SKey::Single { origin: gen_origin(rng), id: if unc { 100 + j as u32 % 6 } else if tap && rng.coin() { 203 + j as u32 } else { 3 + j as u32 } };
                    texts.insert(*a, single_text(&k).unwrap());
                    keys.insert(*a, k);
                } else {
                    let alts = if multipath && rng.below(3) != 0 { Some((0..arity as u32).map(|i| Step::N(i + 10 * rng.below(3) as u32)).collect::<Vec<_>>()) } else { None };
                    let t = TKey { origin: gen_origin(rng), x: rng.below(4), pre: gen_path(rng, 2, 0), alts, post: gen_path(rng, 1, 0), wc: if rng.below(4) == 0 { Wc::None } else { Wc::Unh }, style: rng.below(3) as u8 };
                    texts.insert(*a, t.text(w));
                    keys.insert(*a, t.skey());
                }
            }
            if desc_text(&shape, &texts).is_err() { out.count("shape without a text form (bare c:pk_h)"); continue; }
            let c = KCase { shape, keys, texts: Some(texts) };
            n_cases += 1;
            out.count("kdesc built from text");
            emit_keys(out, w, &c, &[0, 7, 0x8000_0000]);
            emit_find(out, w, &c, 0, 9, "7");
        }
    }
    let fresh = |shape: &Shape| -> Shape { match shape {
        Shape::Wsh(n) => { let mut x = 0; Shape::Wsh(renumber(n, &mut x)) }
        Shape::Sh(n) => { let mut x = 0; Shape::Sh(renumber(n, &mut x)) }
        Shape::ShWsh(n) => { let mut x = 0; Shape::ShWsh(renumber(n, &mut x)) }
        Shape::Bare(n) => { let mut x = 0; Shape::Bare(renumber(n, &mut x)) }
        s => s.clone(),
    } };
    // R1: every descriptor arm (Bare pk / pkh / multi / sortedmulti, Pkh, Wpkh, Sh x {Ms, Wsh, Wpkh, SortedMulti},
    // Wsh x {Ms, SortedMulti}, Tr x {key only, leaves}) x every key form, deterministically; R3: every find
    // boundary (first, last, end, empty range) and targets no derivation produces
    for shape in key_shapes(rng) {
        let shape = fresh(&shape);
        let tap = matches!(shape, Shape::Tr(..));
        let unc_ok = matches!(shape, Shape::Pkh(_) | Shape::Sh(_) | Shape::Bare(_));
        for form in 0..7usize {
            let mut keys = BTreeMap::new();
            for (j, a) in shape.atoms_pre().iter().enumerate() {
                let j = j as u32;
                let origin = if j % 2 == 1 { Some((40 + j, vec![Step::H(48), Step::N(j)])) } else { None };
                let k = match form {
                    0 => SKey::X { origin, x: j as usize % 4, path: vec![Step::N(j), Step::N(1)], wc: Wc::None },
                    1 => SKey::X { origin, x: j as usize % 4, path: vec![Step::N(j)], wc: Wc::Unh },
                    2 => SKey::X { origin, x: j as usize % 4, path: vec![Step::N(j)], wc: if j == 0 { Wc::Hard } else { Wc::Unh } },
                    3 => SKey::M { origin, x: j as usize % 4, paths: vec![vec![Step::N(0), Step::N(j)], vec![Step::N(1), Step::N(j)]], wc: Wc::Unh },
                    4 => SKey::Single { origin, id: if tap { 203 + j } else { 3 + j } },
                    5 => SKey::Single { origin, id: if unc_ok { 100 + j % 6 } else if tap { 3 + j } else { 13 + j } },
                    _ => if j == 0 { SKey::X { origin, x: 1, path: vec![Step::N(9)], wc: Wc::Unh } } else { SKey::Single { origin, id: if tap { 203 + j } else { 3 + j } } },
                };
                keys.insert(*a, k);
            }
            let c = KCase { shape: shape.clone(), keys, texts: None };
            n_cases += 1;
            out.count("kdesc arm x key-form matrix");
            emit_keys(out, w, &c, &[0, 0x7fff_ffff, 0x8000_0000]);
            for (lo, hi, t) in [(0u64, 3u64, "0"), (0, 3, "2"), (0, 3, "3"), (2, 2, "2"), (3, 0, "1"), (1, 3, "0"),
                                (0, 3, "trunc:1"), (0, 3, "ext:1"), (0, 3, "empty"), (0, 3, "foreign:1"), (0, 3, "self")] {
                emit_find(out, w, &c, lo, hi, t);
            }
        }
    }
    // R1: the WHOLE designated corpus through the derivation routes (wildcard xpubs at every key position)
    for ctx in CtxK::ALL {
        for (i, nd) in ast::dimension_corpus(ctx).iter().enumerate() {
            let shape = match ctx {
                CtxK::Bare => Shape::Bare(nd.clone()),
                CtxK::Legacy => Shape::Sh(nd.clone()),
                CtxK::Segwitv0 => if i % 2 == 0 { Shape::Wsh(nd.clone()) } else { Shape::ShWsh(nd.clone()) },
                CtxK::Tap => { let mut x = 201; Shape::Tr(200, vec![(0, renumber(nd, &mut x))]) }
            };
            let shape = fresh(&shape);
            if shape.atoms_pre().is_empty() { continue; }
            if (if ctx == CtxK::Tap { build::<XOnlyPublicKey>(&shape).is_err() } else { build::<PublicKey>(&shape).is_err() }) { continue; }
            let mut keys = BTreeMap::new();
            for (j, a) in shape.atoms_pre().iter().enumerate() {
                keys.insert(*a, SKey::X { origin: None, x: j % 4, path: vec![Step::N(j as u32 / 4)], wc: if j % 3 == 2 { Wc::None } else { Wc::Unh } });
            }
            let c = KCase { shape, keys, texts: None };
            n_cases += 1;
            out.count("kdesc dimension-corpus");
            emit_keys(out, w, &c, &[7]);
            emit_find(out, w, &c, 5, 9, "7");
        }
    }
    // R1: the SECRET-KEY text route: `Descriptor::parse_descriptor` (xprv / WIF -> public descriptor + key map)
    // and `to_string_with_secret`, for every arm
    for shape in key_shapes(rng) {
        let shape = fresh(&shape);
        emit_secret_route(out, w, rng, &shape);
    }
    n_cases
}

pub fn run(out: &mut Out, thorough: bool, seed: u64) {
    let mut rng = Rng(seed ^ 0xC16);
    let secp = Secp256k1::new();
    ast::emit_defs(out);
    extra_defs(out);
    let n1 = part_outputs(out, thorough, &mut rng, &secp);
    let n2 = part_sortedmulti(out, thorough, &mut rng, &secp);
    let mut w = World::new();
    let n3 = part_keys(out, thorough, &mut rng, &mut w);
    out.note("distinct_nontrivial", (n1 + n2 + n3).to_string());
    out.note("descriptors_outputs", n1.to_string());
    out.note("sortedmulti_cases", n2.to_string());
    out.note("symbolic_key_descriptors", n3.to_string());
    out.note("domain", "every descriptor wrapper arm (bare pk/pk_h/multi/sortedmulti, pkh, wpkh, sh x {ms, wsh, wpkh, sortedmulti}, wsh x {ms, sortedmulti}, tr key-only / leaves, tr over full keys) x (all key forms | ast::dimension_corpus incl. wrapper towers + bounded-exhaustive + random miniscripts) x 5 networks, through Descriptor::*, the inner types' methods, desc_type, the text route, fresh and USED objects and clones; constructor verdicts judged; sortedmulti: all permutations n<=5, 50 random n<=20, constructors for every k; symbolic keys: single compressed/uncompressed/x-only, xpub(origin,path,wildcard,hardened wildcard), multipath 1..4 x indices {0,1,7,2^31-1,2^31,2^32-1,random}, every arm x 7 key forms, whole corpus through derivation, key-expression text in 3 marker styles, secret-key text route (xprv, WIF), derivation twice / from used objects, find at every range boundary and with truncated/extended/empty/foreign scriptPubKeys".into());
}
